"""Shared machinery of the vita verification checks (see DESIGN.md section 2).

Every check is  ./check Cnn quick|thorough [--replay file]  and is implemented
by checks/cNN.py exposing  run(ck)  where ck is a Check object from here.

What this module provides:
  * a content-addressed snapshot of /repo/src and a sanitised, hooked build of
    the library from that snapshot (rebuilt whenever the working tree changes);
  * building C++ harnesses against that snapshot;
  * building the Coq development (full .vo), compiling a Props file and
    auditing its `Print Assumptions` output, the Admitted/Axiom lint;
  * extraction + OCaml model drivers;
  * evidence, replay, known-findings and VIOLATION bookkeeping.
"""
import concurrent.futures
import fcntl
import glob
import hashlib
import json
import os
import random
import re
import shutil
import subprocess
import sys
import time
import traceback

VERIF = os.path.dirname(os.path.dirname(os.path.abspath(__file__)))
REPO = os.environ.get("VV_REPO", "/repo")
BUILD = os.path.join(VERIF, ".build")
COQ = os.path.join(VERIF, "coq")
# compilers and harnesses keep their temporary files in a directory of our own:
# a cleaner of /tmp running beside a check once removed an assembler input in
# mid-compilation and the check reported a build failure for an unchanged tree
_TMP = os.path.join(BUILD, "tmp")
try:
    os.makedirs(_TMP, exist_ok=True)
    os.environ["TMPDIR"] = _TMP
    for _f in os.listdir(_TMP):
        _p = os.path.join(_TMP, _f)
        try:
            if time.time() - os.lstat(_p).st_mtime > 6 * 3600 and not os.path.isdir(_p):
                os.unlink(_p)
        except OSError:
            pass
except OSError:
    pass
NPROC = os.cpu_count() or 4

SRC_DIRS = ["kernel", "utility", "third_party/tinyxml2", "third_party/date"]

SAN_FLAGS = {
    "asan": ["-O1", "-g", "-fno-omit-frame-pointer",
             "-fsanitize=address,undefined", "-fno-sanitize-recover=all"],
    "tsan": ["-O1", "-g", "-fsanitize=thread"],
    "plain": ["-O1", "-g"],
}
COMMON_FLAGS = ["-std=c++17", "-DVITA_VERIF", "-DNDEBUG", "-w"]

# Axioms of the Coq standard library that may appear under Print Assumptions
# (DESIGN.md section 6).  A property module passes the subset it allows.
STDLIB_AXIOMS = {
    "ClassicalDedekindReals.sig_forall_dec",
    "ClassicalDedekindReals.sig_not_dec",
    "FunctionalExtensionality.functional_extensionality_dep",
    "Classical_Prop.classic",
    "ProofIrrelevance.proof_irrelevance",
    "Eqdep.Eq_rect_eq.eq_rect_eq",
    "JMeq.JMeq_eq",
    "PropExtensionality.propositional_extensionality",
}
FLOCQ_AXIOMS = {
    "ClassicalDedekindReals.sig_forall_dec",
    "ClassicalDedekindReals.sig_not_dec",
    "FunctionalExtensionality.functional_extensionality_dep",
    "Classical_Prop.classic",
}


def log(*a):
    print("[vv]", *a, file=sys.stderr, flush=True)


def _limit_mem(gb):
    import resource

    def f():
        resource.setrlimit(resource.RLIMIT_AS, (gb << 30, gb << 30))
    return f


def sh(cmd, cwd=None, timeout=None, env=None, input=None, mem_gb=None):
    """run, return (rc, stdout+stderr); mem_gb caps the address space of the
    child (a runaway vm_compute must not take the machine down)"""
    if mem_gb is None and cmd and cmd[0] in ("make", "coqc", "coqchk"):
        mem_gb = 20
    try:
        p = subprocess.run(cmd, cwd=cwd, timeout=timeout, env=env, input=input,
                           stdout=subprocess.PIPE, stderr=subprocess.STDOUT,
                           text=True, errors="replace",
                           preexec_fn=_limit_mem(mem_gb) if mem_gb else None)
        return p.returncode, p.stdout
    except subprocess.TimeoutExpired as e:
        out = e.stdout or ""
        if isinstance(out, bytes):
            out = out.decode(errors="replace")
        return 124, out + "\n[timeout after %ss]" % timeout


class Lock:
    def __init__(self, name):
        os.makedirs(BUILD, exist_ok=True)
        self.path = os.path.join(BUILD, "lock-" + name)

    def __enter__(self):
        self.f = open(self.path, "w")
        fcntl.flock(self.f, fcntl.LOCK_EX)
        return self

    def __exit__(self, *a):
        fcntl.flock(self.f, fcntl.LOCK_UN)
        self.f.close()


# ------------------------------------------------------------ repo snapshot
def _src_files():
    out = []
    for d in SRC_DIRS:
        root = os.path.join(REPO, "src", d)
        for dp, dn, fn in os.walk(root):
            dn.sort()
            for f in sorted(fn):
                out.append(os.path.join(dp, f))
    return out


def src_hash():
    h = hashlib.sha256()
    for f in _src_files():
        h.update(os.path.relpath(f, REPO).encode())
        h.update(b"\0")
        with open(f, "rb") as fh:
            h.update(fh.read())
        h.update(b"\0")
    return h.hexdigest()[:16]


def _gc(prefix, keep=3):
    """remove old cache directories: only those not used for 3 hours, and
    never the `keep` most recent ones (several checks / builders may be using
    different snapshots at the same time)"""
    ds = sorted(glob.glob(os.path.join(BUILD, prefix + "*")), key=os.path.getmtime)
    now = time.time()
    for d in ds[:-max(keep, 40)]:
        if now - os.path.getmtime(d) > 3 * 3600:
            shutil.rmtree(d, ignore_errors=True)


def snapshot():
    """copy of /repo/src's library sources, keyed by content; returns (dir, hash)"""
    h = src_hash()
    d = os.path.join(BUILD, "src-" + h)
    with Lock("snapshot"):
        if not os.path.isdir(d):
            tmp = d + ".tmp%d" % os.getpid()
            shutil.rmtree(tmp, ignore_errors=True)
            for sd in SRC_DIRS:
                shutil.copytree(os.path.join(REPO, "src", sd), os.path.join(tmp, sd))
            os.rename(tmp, d)
            _gc("src-")
        os.utime(d)
    return d, h


def build_lib(san="asan"):
    """hooked (+sanitised) libvita.a built from the snapshot; returns dict with
    paths.  Raises BuildError if the library does not compile."""
    snap, h = snapshot()
    d = os.path.join(BUILD, "lib-%s-%s" % (h, san))
    lib = os.path.join(d, "libvita.a")
    with Lock("lib-" + san):
        if not os.path.exists(lib):
            t0 = time.time()
            tmp = d + ".tmp%d" % os.getpid()
            shutil.rmtree(tmp, ignore_errors=True)
            os.makedirs(tmp)
            ccs = []
            for sd in SRC_DIRS:
                for dp, dn, fn in os.walk(os.path.join(snap, sd)):
                    for f in sorted(fn):
                        if f.endswith(".cc") and "/test" not in dp and "/examples" not in dp:
                            ccs.append(os.path.join(dp, f))
            if len(ccs) < 10:
                shutil.rmtree(tmp, ignore_errors=True)
                raise RuntimeError("snapshot %s is incomplete (%d .cc files): retry" % (snap, len(ccs)))
            flags = COMMON_FLAGS + SAN_FLAGS[san] + ["-I" + snap, "-isystem", os.path.join(snap, "third_party")]

            def comp(cc):
                o = os.path.join(tmp, os.path.relpath(cc, snap).replace("/", "_")[:-3] + ".o")
                rc, out = sh(["g++"] + flags + ["-c", cc, "-o", o], timeout=600)
                if rc != 0 and ("No such file or directory" in out or "Killed" in out or "Cannot allocate" in out):
                    rc, out = sh(["g++"] + flags + ["-c", cc, "-o", o], timeout=600)
                return rc, out, o
            with concurrent.futures.ThreadPoolExecutor(NPROC) as ex:
                res = list(ex.map(comp, ccs))
            bad = [(o, out) for rc, out, o in res if rc != 0]
            if bad:
                shutil.rmtree(tmp, ignore_errors=True)
                raise BuildError("library does not compile:\n" + bad[0][1][-3000:])
            rc, out = sh(["ar", "rcs", os.path.join(tmp, "libvita.a")] + [o for _, _, o in res])
            if rc != 0:
                raise BuildError(out)
            for _, _, o in res:
                os.remove(o)
            shutil.rmtree(d, ignore_errors=True)
            os.rename(tmp, d)
            _gc("lib-", keep=6)
            log("built libvita.a (%s, %s) in %.1fs" % (h, san, time.time() - t0))
        os.utime(d)
    return {"dir": d, "lib": lib, "snap": snap, "hash": h, "san": san}


class BuildError(Exception):
    pass


def build_harness(name, san="asan", extra=None, libs=None):
    """compile harness/<name>.cc against the current snapshot; returns the
    path of the executable."""
    L = build_lib(san)
    src = os.path.join(VERIF, "harness", name + ".cc")
    hh = hashlib.sha256()
    for f in [src] + sorted(glob.glob(os.path.join(VERIF, "harness", "*.h"))):
        with open(f, "rb") as fh:
            hh.update(fh.read())
    hh.update(repr(extra).encode())
    exe = os.path.join(L["dir"], "%s-%s" % (name, hh.hexdigest()[:12]))
    with Lock("harness-" + name):
        if not os.path.exists(exe):
            t0 = time.time()
            flags = COMMON_FLAGS + SAN_FLAGS[san] + ["-I" + L["snap"], "-isystem", os.path.join(L["snap"], "third_party"),
                                                      "-I" + os.path.join(VERIF, "harness")]
            cmd = ["g++"] + flags + (extra or []) + [src, L["lib"]] + (libs or []) + ["-lpthread", "-o", exe + ".tmp"]
            rc, out = sh(cmd, timeout=900)
            if rc != 0 and ("No such file or directory" in out or "Killed" in out or "Cannot allocate" in out):
                rc, out = sh(cmd, timeout=900)      # environmental failure (temporary file removed, memory): once more
            if rc != 0:
                raise BuildError("harness %s does not compile against the current tree:\n%s" % (name, out[-4000:]))
            os.rename(exe + ".tmp", exe)
            log("built harness %s in %.1fs" % (name, time.time() - t0))
    return exe


def san_env():
    e = dict(os.environ)
    e["ASAN_OPTIONS"] = "detect_leaks=1:abort_on_error=0:exitcode=99:allocator_may_return_null=1"
    e["UBSAN_OPTIONS"] = "print_stacktrace=1:halt_on_error=1:exitcode=98"
    e["TSAN_OPTIONS"] = "exitcode=97:halt_on_error=0"
    return e


# ------------------------------------------------------------------- Coq
COQPROJECT_HEADER = """-Q . VV
-arg -w -arg -notation-overridden,-deprecated-hint-without-locality,-deprecated-instance-without-locality,-ambiguous-paths
"""


def coq_project_text():
    vs = []
    for dp, dn, fn in os.walk(COQ):
        dn.sort()
        for f in sorted(fn):
            if f.endswith(".v") and not f.startswith("."):
                vs.append(os.path.relpath(os.path.join(dp, f), COQ))
    return COQPROJECT_HEADER + "\n".join(sorted(vs)) + "\n"


def coq_makefile():
    """_CoqProject lists every .v under coq/ (regenerated when the set of
    files changes), Makefile from coq_makefile"""
    mk = os.path.join(COQ, "Makefile")
    cp = os.path.join(COQ, "_CoqProject")
    changed = write_if_changed(cp, coq_project_text())
    if changed or not os.path.exists(mk) or os.path.getmtime(mk) < os.path.getmtime(cp):
        rc, out = sh(["coq_makefile", "-f", "_CoqProject", "-o", "Makefile"], cwd=COQ)
        if rc != 0:
            raise BuildError("coq_makefile: " + out)


def write_if_changed(path, text):
    old = None
    if os.path.exists(path):
        with open(path) as f:
            old = f.read()
    if old != text:
        with open(path, "w") as f:
            f.write(text)
        return True
    return False


def coq_make(targets, timeout=1500):
    """make -k the given .vo targets (full .vo build); returns (ok, log)"""
    # the global lock only protects Makefile/_CoqProject regeneration; builds
    # of different targets may overlap (shared prerequisites are normally up
    # to date), builds of the same target are serialised
    with Lock("coq"):
        coq_makefile()
    tl = "coq-" + hashlib.sha256(" ".join(sorted(targets)).encode()).hexdigest()[:10]
    with Lock(tl):
        rc, out = sh(["make", "-k", "-j%d" % max(4, NPROC // 2)] + targets, cwd=COQ, timeout=timeout)
    return rc == 0, out


COQ_ERR_RE = re.compile(r'File "\./?([^"]+)", line (\d+), characters [\d-]+:\s*\n(?:Error|.*?\nError)', re.S)


def enclosing_lemma(vfile, line):
    """name of the Lemma/Theorem whose statement or proof contains `line`"""
    name = None
    try:
        with open(vfile) as f:
            for i, l in enumerate(f, 1):
                m = re.match(r"\s*(?:Local\s+|Global\s+)?(?:Theorem|Lemma|Corollary|Fact|Example|Definition|Fixpoint|Instance|Proposition)\s+([\w']+)", l)
                if m:
                    if i > line:
                        break
                    name = m.group(1)
    except OSError:
        pass
    return name


def coq_first_error(out):
    """(file, line, enclosing lemma, message) of the first Coq error in a log"""
    m = re.search(r'File "\./?([^"]+)", line (\d+), characters [\d-]+:\s*\nError:?(.*?)(?:\n\n|\Z)', out, re.S)
    if not m:
        return None
    f, line = m.group(1), int(m.group(2))
    return {"file": f, "line": line,
            "lemma": enclosing_lemma(os.path.join(COQ, f), line),
            "message": " ".join(m.group(3).split())[:600]}


def parse_assumptions(out):
    """split coqc output into the blocks printed by successive
    `Print Assumptions`; returns a list of sets of axiom names"""
    blocks = []
    cur = None
    for l in out.splitlines():
        if l.startswith("Closed under the global context"):
            blocks.append(set())
            cur = None
        elif l.startswith("Axioms:"):
            cur = set()
            blocks.append(cur)
        elif cur is not None:
            m = re.match(r"^([A-Za-z_][\w.']*)\s*(:|$)", l)
            if m:
                cur.add(m.group(1))
            elif l and not l[0].isspace():
                cur = None
    return blocks


def prop_theorems(vfile):
    """[(theorem name)] and the names given to Print Assumptions, in order"""
    with open(vfile) as f:
        txt = f.read()
    txt_nc = re.sub(r"\(\*.*?\*\)", " ", txt, flags=re.S)
    thms = re.findall(r"^\s*(?:Theorem|Corollary)\s+([\w']+)", txt_nc, re.M)
    pas = re.findall(r"^\s*Print\s+Assumptions\s+([\w'.]+)\s*\.", txt_nc, re.M)
    return thms, pas


LINT_RE = re.compile(r"\b(Admitted|admit|Axiom|Axioms|Parameter|Parameters|Conjecture|Conjectures|Admit\s+Obligations|bypass_check|type-in-type|impredicative-set)\b|Unset\s+(Guard|Positivity|Universe)\s+Checking")


def coq_closure(vrel):
    """the .v files of coq/ that [vrel] transitively requires (itself included)"""
    seen, todo = set(), [vrel]
    while todo:
        f = todo.pop()
        if f in seen:
            continue
        seen.add(f)
        try:
            with open(os.path.join(COQ, f)) as fh:
                txt = re.sub(r"\(\*.*?\*\)", " ", fh.read(), flags=re.S)
        except OSError:
            continue
        for sent in re.split(r"\.\s", txt):
            toks = sent.split()
            if "Require" not in toks[:4]:
                continue
            from_vv = len(toks) > 2 and toks[0] == "From" and toks[1] == "VV"
            k = toks.index("Require") + 1
            while k < len(toks) and toks[k] in ("Import", "Export"):
                k += 1
            for mod in toks[k:]:
                if mod.startswith("VV."):
                    mod = mod[3:]
                elif not from_vv:
                    continue
                cand = mod.replace(".", "/") + ".v"
                if os.path.exists(os.path.join(COQ, cand)):
                    todo.append(cand)
    return sorted(seen)


def coq_lint(files=None):
    """forbidden vernacular in the given files of coq/ (default: all of them);
    comments are blanked first"""
    hits = []
    if files is None:
        files = []
        for dp, dn, fn in os.walk(COQ):
            for f in fn:
                if f.endswith(".v"):
                    files.append(os.path.relpath(os.path.join(dp, f), COQ))
    for rel in sorted(files):
        p = os.path.join(COQ, rel)
        try:
            with open(p) as fh:
                txt = fh.read()
        except OSError:
            continue
        txt = re.sub(r"\(\*.*?\*\)", lambda m: re.sub(r"[^\n]", " ", m.group(0)), txt, flags=re.S)
        depth = 0
        for i, l in enumerate(txt.splitlines(), 1):
            if LINT_RE.search(l):
                hits.append("%s:%d: %s" % (rel, i, l.strip()[:100]))
            if re.match(r"\s*Section\s+\w+", l):
                depth += 1
            elif re.match(r"\s*End\s+\w+", l) and depth > 0:
                depth -= 1
            elif depth == 0 and re.match(r"\s*(Variable|Variables|Hypothesis|Hypotheses|Context)\b", l):
                hits.append("%s:%d: %s outside a section" % (rel, i, l.strip()[:60]))
    return hits


def coq_flags():
    fl = []
    with open(os.path.join(COQ, "_CoqProject")) as f:
        for l in f:
            l = l.strip()
            if l.startswith("-Q") or l.startswith("-R"):
                fl += l.split()
            elif l.startswith("-arg"):
                parts = l.split()
                fl += [parts[i + 1] for i in range(0, len(parts), 2)]
    return fl


def prove(prop_file, allowed_axioms, timeout=1500):
    """Build Props/<prop_file>.vo and everything it needs, then audit.
    Returns a dict: theorems, discharged, axioms (per theorem), failure."""
    vrel = "Props/%s.v" % prop_file
    vabs = os.path.join(COQ, vrel)
    res = {"file": vrel, "theorems": [], "discharged": [], "axioms": {}, "failure": None, "lint": []}
    thms, pas = prop_theorems(vabs)
    res["theorems"] = thms
    ok, out = coq_make([vrel + "o"], timeout=timeout)
    if not ok:
        err = coq_first_error(out)
        res["failure"] = err or {"file": vrel, "line": 0, "lemma": None, "message": out[-800:]}
        # which theorems are still fine?  those whose own proof and deps built:
        # only meaningful when the failure is inside the Props file itself
        if err and err["file"] == vrel:
            with open(vabs) as f:
                lines = f.read().splitlines()
            for t in thms:
                ln = next((i for i, l in enumerate(lines, 1) if re.match(r"\s*(Theorem|Corollary)\s+%s\b" % re.escape(t), l)), 0)
                if ln and ln < err["line"] and enclosing_lemma(vabs, err["line"]) != t:
                    res["discharged"].append(t)
        return res
    # recompile the Props file alone to capture Print Assumptions.  The output
    # is a function of the compiled development below the Props file (which
    # includes the files regenerated from /repo on this run): it is cached under a
    # hash that changes whenever anything below changes.
    # key: the compiled Props file itself -- a .vo embeds the checksums of the
    # .vo files it requires (transitively), so any change anywhere below it
    # changes this hash; plus the source text (the Print Assumptions commands)
    hh = hashlib.sha256()
    for f in (vabs + "o", vabs):
        try:
            with open(f, "rb") as fh:
                hh.update(fh.read())
        except OSError:
            hh.update(os.urandom(16))
        hh.update(b"\0")
    cdir = os.path.join(BUILD, "pa-cache")
    os.makedirs(cdir, exist_ok=True)
    cfile = os.path.join(cdir, "%s-%s.out" % (prop_file, hh.hexdigest()[:20]))
    if os.path.exists(cfile) and os.environ.get("VV_NO_PA_CACHE") != "1":
        with open(cfile) as fh:
            out = fh.read()
        rc = 0
        res["print_assumptions_cached"] = True
    else:
        with Lock("coqc-" + prop_file):
            rc, out = sh(["coqc"] + coq_flags() + [vrel], cwd=COQ, timeout=timeout)
        if rc == 0:
            with open(cfile + ".tmp%d" % os.getpid(), "w") as fh:
                fh.write(out)
            os.replace(cfile + ".tmp%d" % os.getpid(), cfile)
    if rc != 0:
        res["failure"] = coq_first_error(out) or {"file": vrel, "line": 0, "lemma": None, "message": out[-800:]}
        return res
    blocks = parse_assumptions(out)
    if len(blocks) != len(pas):
        res["failure"] = {"file": vrel, "line": 0, "lemma": None,
                          "message": "Print Assumptions audit: %d blocks for %d commands" % (len(blocks), len(pas))}
        return res
    pa = dict(zip(pas, blocks))
    for t in thms:
        if t not in pa:
            res["failure"] = {"file": vrel, "line": 0, "lemma": t, "message": "theorem without Print Assumptions"}
            continue
        ax = pa[t]
        res["axioms"][t] = sorted(ax)
        if ax <= set(allowed_axioms):
            res["discharged"].append(t)
        else:
            res["failure"] = {"file": vrel, "line": 0, "lemma": t,
                              "message": "axioms outside the allow-list: %s" % sorted(ax - set(allowed_axioms))}
    res["lint"] = coq_lint(coq_closure(vrel))
    res["closure"] = coq_closure(vrel)
    if res["lint"]:
        res["failure"] = {"file": "coq/", "line": 0, "lemma": None, "message": "lint: " + "; ".join(res["lint"][:5])}
        res["discharged"] = []
    return res



def coqchk(prop_file, timeout=1800):
    """thorough tier: re-check the compiled Props file and everything it
    depends on with the independent checker; returns (ok, axioms listed, log tail)"""
    with Lock("coq"):
        rc, out = sh(["coqchk", "-o", "-silent", "-Q", ".", "VV", "VV.Props." + prop_file], cwd=COQ, timeout=timeout)
    axioms = []
    grab = False
    for l in out.splitlines():
        if l.strip().startswith("* Axioms:"):
            grab = True
            continue
        if grab:
            if l.strip().startswith("*"):
                grab = False
            elif l.strip():
                axioms.append(l.strip())
    return rc == 0, axioms, out[-1500:]


def ocaml_model(name, timeout=900):
    """Extract/<Name>Extract.v writes <name>_model.ml(i) into coq/; build
    ocaml/<name>_driver.ml with it.  Returns path of the executable."""
    vrel = "Extract/%sExtract.v" % name
    ok, out = coq_make([vrel + "o"], timeout=timeout)
    if not ok:
        raise BuildError("extraction of %s failed:\n%s" % (name, out[-3000:]))
    low = name.lower()
    ml = os.path.join(COQ, low + "_model.ml")
    mli = os.path.join(COQ, low + "_model.mli")
    if not os.path.exists(ml):
        # .vo up to date but generated files removed: force re-extraction
        os.remove(os.path.join(COQ, vrel + "o"))
        ok, out = coq_make([vrel + "o"], timeout=timeout)
        if not ok or not os.path.exists(ml):
            raise BuildError("extraction of %s produced no %s" % (name, ml))
    drv = os.path.join(VERIF, "ocaml", low + "_driver.ml")
    zutil = os.path.join(VERIF, "ocaml", "zutil.ml")
    hh = hashlib.sha256()
    for f in (ml, mli, drv, zutil):
        with open(f, "rb") as fh:
            hh.update(fh.read())
    d = os.path.join(BUILD, "ocaml", low)
    os.makedirs(d, exist_ok=True)
    exe = os.path.join(d, "%s-%s" % (low, hh.hexdigest()[:12]))
    with Lock("ocaml-" + low):
        if not os.path.exists(exe):
            for f in glob.glob(os.path.join(d, "*")):
                if os.path.isfile(f):
                    os.remove(f)
            for f in (ml, mli):
                shutil.copy(f, d)
            with open(os.path.join(d, low + "_driver.ml"), "w") as out_f:
                out_f.write("open %s_model\n" % low.capitalize())
                out_f.write(open(zutil).read())
                out_f.write(open(drv).read())
            rc, out = sh(["ocamlfind", "ocamlopt", "-O3", "-w", "-a", "-package", "str", "-linkpkg",
                          low + "_model.mli", low + "_model.ml", low + "_driver.ml", "-o", exe], cwd=d, timeout=600)
            if rc != 0:
                rc, out = sh(["ocamlfind", "ocamlopt", "-w", "-a", "-package", "str", "-linkpkg",
                              low + "_model.mli", low + "_model.ml", low + "_driver.ml", "-o", exe], cwd=d, timeout=600)
            if rc != 0:
                raise BuildError("ocaml build of %s failed:\n%s" % (name, out[-3000:]))
    return exe


def run_lines(exe, text, timeout=1200, env=None):
    """feed text on stdin, return (rc, list of stdout lines, stderr text)"""
    try:
        p = subprocess.run([exe], input=text, timeout=timeout, env=env,
                           stdout=subprocess.PIPE, stderr=subprocess.PIPE, text=True, errors="replace")
        return p.returncode, p.stdout.splitlines(), p.stderr
    except subprocess.TimeoutExpired as e:
        so = e.stdout or ""
        if isinstance(so, bytes):
            so = so.decode(errors="replace")
        return 124, so.splitlines(), "[timeout]"



def run_lines_parallel(exe, lines, nproc=None, timeout=3000, env=None):
    """like run_lines for a driver that prints exactly one line per input
    line and treats lines independently: contiguous chunks run in parallel,
    outputs are concatenated in order.  returns (rc, out_lines, stderr)"""
    nproc = nproc or max(2, NPROC // 2)
    if len(lines) < 4 * nproc:
        return run_lines(exe, "\n".join(lines) + "\n", timeout=timeout, env=env)
    size = (len(lines) + nproc - 1) // nproc
    chunks = [lines[i:i + size] for i in range(0, len(lines), size)]
    with concurrent.futures.ThreadPoolExecutor(len(chunks)) as ex:
        res = list(ex.map(lambda c: run_lines(exe, "\n".join(c) + "\n", timeout=timeout, env=env), chunks))
    rc = max(r[0] for r in res)
    out = []
    for c, r in zip(chunks, res):
        if r[0] == 0 and len(r[1]) != len(c):
            rc = rc or 3
        out += r[1]
    return rc, out, "".join(r[2] for r in res)[:4000]


# ------------------------------------------------------------ bookkeeping
def known_findings():
    """known_findings.json plus not-yet-merged per-property fragments
    findings/Cnn.json (same entry format; merged by tools/merge.py)"""
    out = []
    p = os.path.join(VERIF, "known_findings.json")
    if os.path.exists(p):
        with open(p) as f:
            out += json.load(f).get("findings", [])
    for fp in sorted(glob.glob(os.path.join(VERIF, "findings", "*.json"))):
        with open(fp) as f:
            for e in json.load(f).get("findings", []):
                if not any(o.get("property") == e.get("property") and o.get("key") == e.get("key") for o in out):
                    out.append(e)
    return out


class Check:
    def __init__(self, pid, tier, seed, replay=None):
        self.pid = pid
        self.tier = tier
        self.seed = seed
        self.replay_path = replay
        self.rng = random.Random(seed)
        self.t0 = time.time()
        self.proofs = []          # results of prove()
        self.diffs = []           # correspondence disagreements (dicts)
        self.violations = []      # concrete failing inputs on the implementation
        self.unshown = []         # things that no longer check (no input found)
        self.coverage = {}
        self.samples = []
        self.assumptions = []
        self.trusted = []
        self.notes = []
        self.evaluations = 0
        self.nontrivial = set()
        self.tie = "correspondence"

    thorough = property(lambda s: s.tier == "thorough")

    # ---- recording
    def add_proof(self, res):
        self.proofs.append(res)
        if res["failure"]:
            f = res["failure"]
            self.unshown.append({"kind": "proof", "theorem": f.get("lemma"), "file": f.get("file"),
                                 "line": f.get("line"), "message": f.get("message")})

    def add_diff(self, case, model, impl, what="model and implementation differ"):
        self.diffs.append({"case": case, "model": model, "impl": impl, "what": what})

    def add_violation(self, key, what, replay):
        """a concrete input/history on which the implementation violates the
        property.  key identifies it for known_findings.json"""
        self.violations.append({"key": key, "what": what, "replay": replay})

    def add_unshown(self, kind, name, message):
        self.unshown.append({"kind": kind, "theorem": name, "message": message})

    def count(self, n=1):
        self.evaluations += n

    def nontriv(self, canon):
        self.nontrivial.add(canon if isinstance(canon, (str, int, tuple)) else json.dumps(canon, sort_keys=True))

    def sample(self, s, maxn=6):
        if len(self.samples) < maxn:
            self.samples.append(s)

    # ---- finishing
    def _write_replay(self, obj):
        d = os.path.join(VERIF, "replays", self.pid)
        os.makedirs(d, exist_ok=True)
        n = len(glob.glob(os.path.join(d, "*.json")))
        p = os.path.join(d, "%s-%s-%d-%d.json" % (self.pid, self.tier, self.seed, n))
        obj = dict(obj)
        obj.setdefault("property", self.pid)
        obj.setdefault("replay_cmd", "./check %s quick --replay %s" % (self.pid, p))
        with open(p, "w") as f:
            json.dump(obj, f, indent=1, default=str)
        return p

    def finish(self, rule="", level="proof", checker_cmd=None, explanation=None):
        known = [k for k in known_findings() if k.get("property") == self.pid and k.get("status", "known") == "known"]
        lines = []
        nviol = 0
        seen_known = set()
        reported = set()
        for v in self.violations:
            kf = next((k for k in known if k.get("key") == v["key"]), None)
            if kf:
                if kf["key"] not in seen_known:
                    seen_known.add(kf["key"])
                    lines.append("KNOWN-FINDING: property=%s %s" % (self.pid, kf.get("what", v["what"])))
                continue
            if v["key"] in reported:
                continue
            reported.add(v["key"])
            p = self._write_replay({"kind": "failing-input", "key": v["key"], "what": v["what"], **v["replay"]})
            lines.append("VIOLATION property=%s replay=%s" % (self.pid, p))
            nviol += 1
        # known findings are announced on every run of the unchanged tree even
        # when this run's sample did not happen to hit them
        for k in known:
            if k["key"] not in seen_known and k.get("always_announce", True):
                lines.append("KNOWN-FINDING: property=%s %s" % (self.pid, k.get("what", k["key"])))
        if nviol == 0 and (self.unshown or self.diffs):
            obj = {"kind": "no-failing-input-found",
                   "no_longer_checks": self.unshown[:10],
                   "correspondence_disagreements": self.diffs[:10],
                   "note": "a proof obligation or the model/implementation correspondence stopped checking; "
                           "the search for an input on which the implementation violates the property found none"}
            p = self._write_replay(obj)
            lines.append("VIOLATION property=%s replay=%s no-failing-input-found" % (self.pid, p))
            nviol += 1
        # thorough tier: independent re-check of every proved Props file with
        # coqchk (unless the property's module already did it)
        if self.tier == "thorough" and "coqchk" not in self.coverage and self.proofs \
                and not any(r["failure"] for r in self.proofs):
            res = {}
            for r in self.proofs:
                name = os.path.basename(r["file"])[:-2]
                try:
                    ok, axioms, tail = coqchk(name)
                except Exception as e:  # noqa
                    ok, axioms, tail = False, [], str(e)
                res[name] = {"ok": ok, "axioms": axioms}
                if not ok:
                    self.add_unshown("coqchk", name, tail[-800:])
            self.coverage["coqchk"] = res
            if any(not v["ok"] for v in res.values()) and nviol == 0:
                pth = self._write_replay({"kind": "no-failing-input-found", "no_longer_checks": self.unshown[:10]})
                lines.append("VIOLATION property=%s replay=%s no-failing-input-found" % (self.pid, pth))
                nviol += 1
        # evidence
        obligations = sum(len(r["theorems"]) for r in self.proofs)
        discharged = sum(len(r["discharged"]) for r in self.proofs)
        axioms = sorted({a for r in self.proofs for ax in r["axioms"].values() for a in ax})
        cov = {
            "obligations": obligations,
            "discharged": discharged,
            "checker_cmd": checker_cmd or "make -k (full .vo) + coqc Props/*.v with Print Assumptions audit + lint",
            "trusted_base": ["Coq 8.16.1 kernel (vm_compute used, native_compute not used)"]
                            + ["axiom: " + a for a in axioms] + self.trusted,
            "theorems": {r["file"]: {"theorems": r["theorems"], "discharged": r["discharged"], "axioms": r["axioms"],
                                     "failure": r["failure"]} for r in self.proofs},
            "evaluations": self.evaluations,
            "distinct_nontrivial": len(self.nontrivial),
            "rule": rule,
            "samples": self.samples if self.samples else ["(no correspondence case was run)"],
            "tie": self.tie,
            "correspondence_disagreements": len(self.diffs),
            "disagreements_checked": self.evaluations,
            "violations_with_input": len([v for v in self.violations]),
            "source_hash": src_hash(),
        }
        if explanation:
            cov["explanation"] = explanation
        cov.update(self.coverage)
        ev = {
            "property_id": self.pid, "tier": self.tier, "seed": self.seed, "level": level,
            "coverage": cov, "assumptions": self.assumptions + self.notes,
            "wall_s": round(time.time() - self.t0, 2), "violations": nviol,
        }
        os.makedirs(os.path.join(VERIF, "evidence"), exist_ok=True)
        with open(os.path.join(VERIF, "evidence", self.pid + ".json"), "w") as f:
            json.dump(ev, f, indent=1, default=str)
        for l in lines:
            print(l, flush=True)
        print("[%s %s] obligations %d/%d, correspondence %d cases (%d distinct non-trivial), %d diffs, %d violations, %.1fs"
              % (self.pid, self.tier, discharged, obligations, self.evaluations, len(self.nontrivial),
                 len(self.diffs), nviol, time.time() - self.t0), flush=True)
        return 1 if nviol else 0


def main(argv):
    if len(argv) < 3:
        print("usage: ./check Cnn quick|thorough [--replay file]")
        return 2
    pid, tier = argv[1], argv[2]
    replay = None
    if "--replay" in argv:
        replay = argv[argv.index("--replay") + 1]
    tier = os.environ.get("VERIF_TIER", tier)
    if tier not in ("quick", "thorough"):
        tier = "quick"
    seed = int(os.environ.get("VERIF_SEED", "1") or "1")
    sys.path.insert(0, os.path.join(VERIF, "checks"))
    mod = __import__(pid.lower())
    ck = Check(pid, tier, seed, replay)
    try:
        rc = mod.run(ck)
    except BuildError as e:
        # the harness / model no longer builds against the current tree: the
        # correspondence cannot be established
        log("build error:", str(e)[:3000])
        ck.add_unshown("build", None, str(e)[-1500:])
        rc = ck.finish(rule="(build failed before any case was run)")
    return rc
