#!/bin/sh
# MANIFEST.setup_cmd: build everything that can be built before a check runs
# (offline, from files on disk).  Every check re-validates against /repo's
# current working tree; this only warms the caches.
set -e
cd "$(dirname "$0")"
mkdir -p .build evidence replays
cd coq
python3 -c "import sys; sys.path.insert(0, \"../lib\"); import vv; vv.coq_makefile()"
timeout 3000 make -k -j16 > ../.build/setup-coq.log 2>&1 || { tail -30 ../.build/setup-coq.log; echo "setup: coq build had failures (checks will report them)"; }
cd ..
python3 - <<'PY' || echo "setup: warm-up of the C++ cache failed (checks will rebuild)"
import sys
sys.path.insert(0, "lib")
import vv
vv.build_lib("asan")
PY
# warm the Print-Assumptions audit cache (keyed by the hash of each Props file's
# source closure; a check recomputes it whenever that closure changes)
python3 - <<'PY' || echo "setup: audit warm-up failed (checks will recompute)"
import glob, os, sys
sys.path.insert(0, "lib")
import vv
for f in sorted(glob.glob("coq/Props/*.v")):
    name = os.path.basename(f)[:-2]
    try:
        vv.prove(name, vv.STDLIB_AXIOMS)
    except Exception as e:
        print("warm-up", name, e)
PY
echo "setup done"
