(* C13: the translated real-valued primitives (Gen/Prims.v, regenerated from
   real.h and string.h) compute the documented functions of RealDefs.v on
   ALL argument values, and those functions are closed over
   finite-or-undefined values and strict in their fetched arguments. *)
From Coq Require Import ZArith List Bool Lia Reals Psatz Arith.
From Flocq Require Import Core.
From Flocq Require Import IEEE754.BinarySingleNaN.
From VV Require Import Base.F64 Base.Values Interp.Strategy Cxx.CxxMini Gen.Prims Mep.Genome Prims.RealDefs.
Import ListNotations.
Local Open Scope Z_scope.

(* evaluate the C++ semantics of a body; binary64 operations, libm oracles and
   the things the specifications are stated with stay folded *)
Ltac crunch :=
  cbv -[Z.add Z.sub Z.mul Z.ltb Z.leb Z.eqb Z.quot Z.rem Z.div Z.modulo Z.opp Z.pow Z.max Z.min Z.of_nat length
        F64.of_Z F64.ltb F64.leb F64.eqb F64.gtb F64.geb F64.neb F64.add F64.sub F64.mul F64.div
        F64.is_zero F64.to_Z_trunc F64.of_bits F64.abs F64.neg F64.floor F64.sqrt F64.fmod
        F64.fmin F64.fmax F64.is_finite issmall l_log l_exp l_sin l_cos value_eqb].
Ltac split_if :=
  match goal with
  | |- context [if ?c then _ else _] =>
      lazymatch c with
      | context [if _ then _ else _] => fail
      | _ => destruct c eqn:?
      end
  end.
(* issmall (utility.h) is translated and inlined at its call sites: the
   regenerated test is  fabs(d) < 2.0 * epsilon  with the two constants of the
   source.  These two lemmas identify it with [issmall] / [two_eps] = 2^-51 of
   CxxMini.v, in which the specifications are stated; if the tolerance or the
   comparison of utility.h changes they no longer apply and ife_run / ifz_run
   (hence C13_ife_branch, C13_ifz_branch, ...) stop checking. *)
Lemma two_eps_regen :
  F64.mul (F64.of_bits 4611686018427387904) (F64.of_bits 4372995238176751616) = two_eps.
Proof. apply B2SF_inj. vm_compute. reflexivity. Qed.
Lemma issmall_regen x :
  F64.ltb (F64.abs x) (F64.mul (F64.of_bits 4611686018427387904) (F64.of_bits 4372995238176751616)) = issmall x.
Proof. rewrite two_eps_regen. reflexivity. Qed.

Ltac body :=
  intros; unfold run_body, fetched_body, run_body_p, run_body_s;
  repeat (crunch; rewrite ?issmall_regen; split_if); crunch; rewrite ?issmall_regen; try reflexivity.

(* ================================================================== *)
(* 1. what each translated body computes, for ALL argument values       *)
Section Spec.
Variable lm : libm.

(* ephemeral constants *)
Lemma real_run p sv args : run_body_s lm real_real_body (Some p) sv args = Val (VDouble p).
Proof. body. Qed.
Lemma integer_run p sv args : run_body_s lm real_integer_body (Some p) sv args = Val (VDouble p).
Proof. body. Qed.

(* unary *)
Lemma abs_run sp sv a0 : run_body_s lm real_abs_body sp sv [a0] = un_strict (fun x => VDouble (F64.abs x)) a0.
Proof. destruct a0; body. Qed.
Lemma cos_run sp sv a0 : run_body_s lm real_cos_body sp sv [a0] = un_strict (fun x => VDouble (l_cos lm x)) a0.
Proof. destruct a0; body. Qed.
Lemma sin_run sp sv a0 : run_body_s lm real_sin_body sp sv [a0] = un_strict (fun x => VDouble (l_sin lm x)) a0.
Proof. destruct a0; body. Qed.
Lemma ln_run sp sv a0 : run_body_s lm real_ln_body sp sv [a0] = un_strict (fun x => guard (l_log lm x)) a0.
Proof. destruct a0; body. Qed.
Lemma sqrt_run sp sv a0 : run_body_s lm real_sqrt_body sp sv [a0] = un_strict sqrt_val a0.
Proof. destruct a0; body. Qed.
Lemma sigmoid_run sp sv a0 : run_body_s lm real_sigmoid_body sp sv [a0] = un_strict (fun x => VDouble (sigmoid_op lm x)) a0.
Proof. destruct a0; body. Qed.
Lemma length_run sp sv a0 : run_body_s lm real_length_body sp sv [a0] = length_val a0.
Proof. destruct a0; body. Qed.

Lemma abs_fetch a0 : fetched_body lm real_abs_body [a0] = [0%nat].
Proof. destruct a0; body. Qed.
Lemma cos_fetch a0 : fetched_body lm real_cos_body [a0] = [0%nat].
Proof. destruct a0; body. Qed.
Lemma sin_fetch a0 : fetched_body lm real_sin_body [a0] = [0%nat].
Proof. destruct a0; body. Qed.
Lemma ln_fetch a0 : fetched_body lm real_ln_body [a0] = [0%nat].
Proof. destruct a0; body. Qed.
Lemma sqrt_fetch a0 : fetched_body lm real_sqrt_body [a0] = [0%nat].
Proof. destruct a0; body. Qed.
Lemma sigmoid_fetch a0 : fetched_body lm real_sigmoid_body [a0] = [0%nat].
Proof. destruct a0; body. Qed.
Lemma length_fetch a0 : fetched_body lm real_length_body [a0] = [0%nat].
Proof. destruct a0; body. Qed.

(* binary, guarded by isfinite *)
Lemma add_run sp sv a0 a1 : run_body_s lm real_add_body sp sv [a0; a1] = bin_strict (fun x y => guard (F64.add x y)) a0 a1.
Proof. destruct a0, a1; body. Qed.
Lemma sub_run sp sv a0 a1 : run_body_s lm real_sub_body sp sv [a0; a1] = bin_strict (fun x y => guard (F64.sub x y)) a0 a1.
Proof. destruct a0, a1; body. Qed.
Lemma mul_run sp sv a0 a1 : run_body_s lm real_mul_body sp sv [a0; a1] = bin_strict (fun x y => guard (F64.mul x y)) a0 a1.
Proof. destruct a0, a1; body. Qed.
Lemma div_run sp sv a0 a1 : run_body_s lm real_div_body sp sv [a0; a1] = bin_strict (fun x y => guard (F64.div x y)) a0 a1.
Proof. destruct a0, a1; body. Qed.
Lemma idiv_run sp sv a0 a1 : run_body_s lm real_idiv_body sp sv [a0; a1] = bin_strict (fun x y => guard (idiv_op x y)) a0 a1.
Proof. destruct a0, a1; body. Qed.
Lemma mod_run sp sv a0 a1 : run_body_s lm real_mod_body sp sv [a0; a1] = bin_strict (fun x y => guard (F64.fmod x y)) a0 a1.
Proof. destruct a0, a1; body. Qed.
Lemma max_run sp sv a0 a1 : run_body_s lm real_max_body sp sv [a0; a1] = bin_strict (fun x y => guard (F64.fmax x y)) a0 a1.
Proof. destruct a0, a1; body. Qed.
Lemma aq_run sp sv a0 a1 : run_body_s lm real_aq_body sp sv [a0; a1] = bin_strict (fun x y => guard (aq_op x y)) a0 a1.
Proof. destruct a0, a1; body. Qed.
(* comparisons: a bool converted to value_t is the int alternative *)
Lemma gt_run sp sv a0 a1 : run_body_s lm real_gt_body sp sv [a0; a1] = bin_strict (fun x y => b2i (F64.gtb x y)) a0 a1.
Proof. destruct a0, a1; body. Qed.
Lemma lt_run sp sv a0 a1 : run_body_s lm real_lt_body sp sv [a0; a1] = bin_strict (fun x y => b2i (F64.ltb x y)) a0 a1.
Proof. destruct a0, a1; body. Qed.

Lemma add_fetch a0 a1 : fetched_body lm real_add_body [a0; a1] = bin_fetched a0.
Proof. destruct a0, a1; body. Qed.
Lemma sub_fetch a0 a1 : fetched_body lm real_sub_body [a0; a1] = bin_fetched a0.
Proof. destruct a0, a1; body. Qed.
Lemma mul_fetch a0 a1 : fetched_body lm real_mul_body [a0; a1] = bin_fetched a0.
Proof. destruct a0, a1; body. Qed.
Lemma div_fetch a0 a1 : fetched_body lm real_div_body [a0; a1] = bin_fetched a0.
Proof. destruct a0, a1; body. Qed.
Lemma idiv_fetch a0 a1 : fetched_body lm real_idiv_body [a0; a1] = bin_fetched a0.
Proof. destruct a0, a1; body. Qed.
Lemma mod_fetch a0 a1 : fetched_body lm real_mod_body [a0; a1] = bin_fetched a0.
Proof. destruct a0, a1; body. Qed.
Lemma max_fetch a0 a1 : fetched_body lm real_max_body [a0; a1] = bin_fetched a0.
Proof. destruct a0, a1; body. Qed.
Lemma aq_fetch a0 a1 : fetched_body lm real_aq_body [a0; a1] = bin_fetched a0.
Proof. destruct a0, a1; body. Qed.
Lemma gt_fetch a0 a1 : fetched_body lm real_gt_body [a0; a1] = bin_fetched a0.
Proof. destruct a0, a1; body. Qed.
Lemma lt_fetch a0 a1 : fetched_body lm real_lt_body [a0; a1] = bin_fetched a0.
Proof. destruct a0, a1; body. Qed.

(* conditionals *)
Lemma ife_run sp sv a0 a1 a2 a3 : run_body_s lm real_ife_body sp sv [a0; a1; a2; a3] = if2_val ife_test a0 a1 a2 a3.
Proof. destruct a0, a1; body. Qed.
Lemma ife_fetch a0 a1 a2 a3 : fetched_body lm real_ife_body [a0; a1; a2; a3] = if2_fetched ife_test a0 a1.
Proof. destruct a0, a1; body. Qed.
Lemma ifl_run sp sv a0 a1 a2 a3 : run_body_s lm real_ifl_body sp sv [a0; a1; a2; a3] = if2_val ifl_test a0 a1 a2 a3.
Proof. destruct a0, a1; body. Qed.
Lemma ifl_fetch a0 a1 a2 a3 : fetched_body lm real_ifl_body [a0; a1; a2; a3] = if2_fetched ifl_test a0 a1.
Proof. destruct a0, a1; body. Qed.
Lemma ifz_run sp sv a0 a1 a2 : run_body_s lm real_ifz_body sp sv [a0; a1; a2] = ifz_val a0 a1 a2.
Proof. destruct a0; body. Qed.
Lemma ifz_fetch a0 a1 a2 : fetched_body lm real_ifz_body [a0; a1; a2] = ifz_fetched a0.
Proof. destruct a0; body. Qed.
Lemma ifb_run sp sv a0 a1 a2 a3 a4 : run_body_s lm real_ifb_body sp sv [a0; a1; a2; a3; a4] = ifb_val a0 a1 a2 a3 a4.
Proof. destruct a0, a1, a2; body. Qed.
Lemma ifb_fetch a0 a1 a2 a3 a4 : fetched_body lm real_ifb_body [a0; a1; a2; a3; a4] = ifb_fetched a0 a1 a2.
Proof. destruct a0, a1, a2; body. Qed.
Lemma sife_run sp sv a0 a1 a2 a3 : run_body_s lm string_ife_body sp sv [a0; a1; a2; a3] = sife_val a0 a1 a2 a3.
Proof. destruct a0, a1; body. Qed.
Lemma sife_fetch a0 a1 a2 a3 : fetched_body lm string_ife_body [a0; a1; a2; a3] = sife_fetched a0 a1.
Proof. destruct a0, a1; body. Qed.

End Spec.

(* ================================================================== *)
(* 2. the documented functions are closed and strict                    *)

Lemma rarg_cases v : rarg v -> v = VVoid \/ exists f, v = VDouble f /\ F64.is_finite f = true.
Proof. destruct v; unfold rarg; cbn; intros H; try discriminate; eauto. Qed.
Lemma rarg_fou v : rarg v -> fou v.
Proof. destruct v; unfold rarg, fou; cbn; congruence. Qed.
Lemma rarg_guard r : rarg (guard r).
Proof. unfold guard, rarg. destruct (F64.is_finite r) eqn:E; cbn; auto. Qed.
Lemma fou_guard r : fou (guard r).
Proof. apply rarg_fou, rarg_guard. Qed.
Lemma fou_b2i b : fou (b2i b).
Proof. reflexivity. Qed.

Lemma un_strict_closed (P : value -> Prop) f a0 :
  rarg a0 -> P VVoid -> (forall x, F64.is_finite x = true -> P (f x)) -> returns P (un_strict f a0).
Proof.
  intros H0 Hv Hf. destruct (rarg_cases _ H0) as [->|(x & -> & Fx)]; cbn; eexists; split; eauto.
Qed.

Lemma bin_strict_closed (P : value -> Prop) f a0 a1 :
  rarg a0 -> rarg a1 -> P VVoid ->
  (forall x y, F64.is_finite x = true -> F64.is_finite y = true -> P (f x y)) ->
  returns P (bin_strict f a0 a1).
Proof.
  intros H0 H1 Hv Hf.
  destruct (rarg_cases _ H0) as [->|(x & -> & Fx)], (rarg_cases _ H1) as [->|(y & -> & Fy)];
    cbn; eexists; split; eauto.
Qed.

(* strictness: whenever an argument that was fetched is undefined the result
   is undefined *)
Lemma un_strict_strict f a0 i :
  In i [0%nat] -> nth_error [a0] i = Some VVoid -> un_strict f a0 = Val VVoid.
Proof. intros [<-|[]]. cbn. intros [= ->]. reflexivity. Qed.

Lemma bin_strict_strict f a0 a1 i :
  In i (bin_fetched a0) -> nth_error [a0; a1] i = Some VVoid -> bin_strict f a0 a1 = Val VVoid.
Proof.
  unfold bin_fetched. destruct a0; cbn.
  - intros _ _. reflexivity.
  - intros [<-|[<-|[]]]; cbn; intros [= E]; try discriminate. subst. reflexivity.
  - intros [<-|[<-|[]]]; cbn; intros [= E]; try discriminate. subst. reflexivity.
  - intros [<-|[<-|[]]]; cbn; intros [= E]; try discriminate. subst. reflexivity.
Qed.

Lemma if2_strict t a0 a1 a2 a3 i :
  In i (if2_fetched t a0 a1) -> nth_error [a0; a1; a2; a3] i = Some VVoid -> if2_val t a0 a1 a2 a3 = Val VVoid.
Proof.
  unfold if2_fetched, if2_val, sel.
  destruct a0; [intros _ _; reflexivity| | |];
    (destruct a1; [intros _ _; reflexivity| | |]); cbn;
    try (intros [<-|[<-|[]]]; cbn; intros [= E]; discriminate).
  destruct (t f f0); intros [<-|[<-|[<-|[]]]]; cbn; intros [= E]; try discriminate; subst; reflexivity.
Qed.

Lemma ifz_strict a0 a1 a2 i :
  In i (ifz_fetched a0) -> nth_error [a0; a1; a2] i = Some VVoid -> ifz_val a0 a1 a2 = Val VVoid.
Proof.
  unfold ifz_fetched, ifz_val, sel. destruct a0; cbn.
  - intros _ _. reflexivity.
  - intros [<-|[]]; cbn; intros [= E]; discriminate.
  - destruct (issmall f); intros [<-|[<-|[]]]; cbn; intros [= E]; try discriminate; subst; reflexivity.
  - intros [<-|[]]; cbn; intros [= E]; discriminate.
Qed.

Lemma ifb_strict a0 a1 a2 a3 a4 i :
  In i (ifb_fetched a0 a1 a2) -> nth_error [a0; a1; a2; a3; a4] i = Some VVoid ->
  ifb_val a0 a1 a2 a3 a4 = Val VVoid.
Proof.
  unfold ifb_fetched, ifb_val, sel.
  destruct a0; [intros _ _; reflexivity| | |];
    (destruct a1; [intros _ _; reflexivity| | |]);
    (destruct a2; [intros _ _; reflexivity| | |]); cbn;
    try (intros [<-|[<-|[<-|[]]]]; cbn; intros [= E]; discriminate).
  destruct (ifb_outside f f0 f1); intros [<-|[<-|[<-|[<-|[]]]]]; cbn; intros [= E]; try discriminate; subst; reflexivity.
Qed.

Lemma sife_strict a0 a1 a2 a3 i :
  In i (sife_fetched a0 a1) -> nth_error [a0; a1; a2; a3] i = Some VVoid -> sife_val a0 a1 a2 a3 = Val VVoid.
Proof.
  unfold sife_fetched, sife_val, sel.
  destruct a0; [intros _ _; reflexivity| | |];
    (destruct a1; [intros _ _; reflexivity| | |]);
    match goal with |- context [value_eqb ?a ?b] => destruct (value_eqb a b) end;
    intros [<-|[<-|[<-|[]]]]; cbn; intros [= E]; try discriminate; subst; reflexivity.
Qed.

Lemma length_strict a0 i :
  In i [0%nat] -> nth_error [a0] i = Some VVoid -> length_val a0 = Val VVoid.
Proof. intros [<-|[]]. cbn. intros [= ->]. reflexivity. Qed.

(* conditionals return one of their branch arguments (or undefined) *)
Lemma if2_closed (P : value -> Prop) t a0 a1 a2 a3 :
  rarg a0 -> rarg a1 -> P VVoid -> P a2 -> P a3 -> returns P (if2_val t a0 a1 a2 a3).
Proof.
  intros H0 H1 Hv H2 H3.
  destruct (rarg_cases _ H0) as [->|(x & -> & Fx)], (rarg_cases _ H1) as [->|(y & -> & Fy)];
    cbn; eexists; split; eauto. unfold sel. destruct (t x y); assumption.
Qed.
Lemma ifz_closed (P : value -> Prop) a0 a1 a2 :
  rarg a0 -> P VVoid -> P a1 -> P a2 -> returns P (ifz_val a0 a1 a2).
Proof.
  intros H0 Hv H1 H2.
  destruct (rarg_cases _ H0) as [->|(x & -> & Fx)]; cbn; eexists; split; eauto.
  unfold sel. destruct (issmall x); assumption.
Qed.
Lemma ifb_closed (P : value -> Prop) a0 a1 a2 a3 a4 :
  rarg a0 -> rarg a1 -> rarg a2 -> P VVoid -> P a3 -> P a4 -> returns P (ifb_val a0 a1 a2 a3 a4).
Proof.
  intros H0 H1 H2 Hv H3 H4.
  destruct (rarg_cases _ H0) as [->|(x & -> & Fx)], (rarg_cases _ H1) as [->|(y & -> & Fy)],
           (rarg_cases _ H2) as [->|(z & -> & Fz)]; cbn; eexists; split; eauto.
  unfold sel. destruct (ifb_outside x y z); assumption.
Qed.
Lemma sife_closed (P : value -> Prop) a0 a1 a2 a3 :
  P VVoid -> P a2 -> P a3 -> returns P (sife_val a0 a1 a2 a3).
Proof.
  intros Hv H2 H3. unfold sife_val, sel.
  destruct a0; [eexists; split; eauto| | |];
    (destruct a1; [eexists; split; eauto| | |]);
    match goal with |- context [value_eqb ?a ?b] => destruct (value_eqb a b) end; eexists; split; eauto.
Qed.

(* ================================================================== *)
(* 3. binary64 facts (Flocq)                                            *)

Lemma finite_abs x : F64.is_finite (F64.abs x) = F64.is_finite x.
Proof. apply is_finite_Babs. Qed.

Lemma zero_bits : F64.of_bits 0 = B754_zero false.
Proof. reflexivity. Qed.

(* !isless(v, 0.0) on a finite v: v is a zero or positive, and then the IEEE
   square root is finite *)
Lemma finite_sqrt x :
  F64.is_finite x = true -> F64.ltb x (F64.of_bits 0) = false -> F64.is_finite (F64.sqrt x) = true.
Proof.
  intros Fx Hl. rewrite zero_bits in Hl.
  destruct (Bsqrt_correct 53 1024 prec_gt_0_53 prec_lt_emax_53 mode_NE x) as (_ & Hf & _).
  unfold F64.is_finite, F64.sqrt. rewrite Hf.
  destruct x as [s|s| |s m e B]; try reflexivity; try discriminate.
  destruct s; [|reflexivity]. discriminate Hl.
Qed.

Lemma rarg_sqrt_val x : F64.is_finite x = true -> rarg (sqrt_val x).
Proof.
  intros Fx. unfold sqrt_val. destruct (F64.ltb x (F64.of_bits 0)) eqn:E; [reflexivity|].
  unfold rarg; cbn. apply finite_sqrt; assumption.
Qed.

(* ---- constants, comparisons and the tolerance test on the reals ---- *)
Notation fexp64 := (FLT_exp (-1074) 53).
Lemma two_eps_val : exists B, two_eps = B754_finite false 4503599627370496 (-103) B.
Proof. unfold two_eps. vm_compute. eexists. reflexivity. Qed.
Lemma one_val : exists B, one = B754_finite false 4503599627370496 (-52) B.
Proof. unfold one. vm_compute. eexists. reflexivity. Qed.

Lemma B2R_two_eps : B2R two_eps = bpow radix2 (-51).
Proof.
  destruct two_eps_val as (B & ->). cbn [B2R cond_Zopp].
  unfold F2R; cbn [Fnum Fexp]. change (IZR (Z.pos 4503599627370496)) with (bpow radix2 52).
  rewrite <- bpow_plus. reflexivity.
Qed.
Lemma B2R_one : B2R one = 1%R.
Proof.
  destruct one_val as (B & ->). cbn [B2R cond_Zopp].
  unfold F2R; cbn [Fnum Fexp]. change (IZR (Z.pos 4503599627370496)) with (bpow radix2 52).
  rewrite <- bpow_plus. reflexivity.
Qed.
Lemma finite_two_eps : F64.is_finite two_eps = true.
Proof. destruct two_eps_val as (B & ->). reflexivity. Qed.
Lemma finite_one : F64.is_finite one = true.
Proof. destruct one_val as (B & ->). reflexivity. Qed.

Lemma Rlt_bool_iff a b : Rlt_bool a b = true <-> (a < b)%R.
Proof. destruct (Rlt_bool_spec a b); split; intros; try assumption; try reflexivity; try discriminate; lra. Qed.
Lemma Rle_bool_iff a b : Rle_bool a b = true <-> (a <= b)%R.
Proof. destruct (Rle_bool_spec a b); split; intros; try assumption; try reflexivity; try discriminate; lra. Qed.
Lemma ltb_finite x y : F64.is_finite x = true -> F64.is_finite y = true ->
  F64.ltb x y = Rlt_bool (B2R x) (B2R y).
Proof.
  intros Fx Fy. unfold F64.ltb, F64.cmp. rewrite Bcompare_correct by assumption.
  unfold Rlt_bool. destruct (Rcompare (B2R x) (B2R y)); reflexivity.
Qed.
Lemma leb_finite x y : F64.is_finite x = true -> F64.is_finite y = true ->
  F64.leb x y = Rle_bool (B2R x) (B2R y).
Proof.
  intros Fx Fy. unfold F64.leb, F64.cmp. rewrite Bcompare_correct by assumption.
  unfold Rle_bool. destruct (Rcompare (B2R x) (B2R y)); reflexivity.
Qed.
Lemma ltb_nonfinite_l x y : F64.ltb x y = true -> F64.is_nan x = false /\ F64.is_nan y = false.
Proof. unfold F64.ltb, F64.cmp. destruct x, y; cbn; try discriminate; auto. Qed.

Lemma issmall_iff d : issmall d = true <-> (F64.is_finite d = true /\ (Rabs (B2R d) < bpow radix2 (-51))%R).
Proof.
  unfold issmall. split.
  - intros H. assert (Fd : F64.is_finite d = true).
    { destruct two_eps_val as (B & E). rewrite E in H. destruct d as [s|s| |s m e Bd]; try reflexivity; cbn in H; try discriminate. }
    split; [exact Fd|].
    rewrite ltb_finite in H; [|rewrite finite_abs; exact Fd|exact finite_two_eps].
    unfold F64.abs in H. rewrite B2R_Babs, B2R_two_eps in H.
    apply Rlt_bool_iff in H. exact H.
  - intros (Fd & H).
    rewrite ltb_finite; [|rewrite finite_abs; exact Fd|exact finite_two_eps].
    unfold F64.abs. rewrite B2R_Babs, B2R_two_eps. apply Rlt_bool_iff. exact H.
Qed.

(* ---- IEEE value of the arithmetic operations when the result is finite ---- *)
Lemma overflow_not_finite (z : f64) s : B2SF z = binary_overflow 53 1024 mode_NE s -> F64.is_finite z = false.
Proof. intros H. unfold F64.is_finite. rewrite <- is_finite_SF_B2SF, H. reflexivity. Qed.

Lemma add_value x y : F64.is_finite x = true -> F64.is_finite y = true -> F64.is_finite (F64.add x y) = true ->
  B2R (F64.add x y) = RN (B2R x + B2R y).
Proof.
  intros Fx Fy Fr. pose proof (Bplus_correct 53 1024 prec_gt_0_53 prec_lt_emax_53 mode_NE x y Fx Fy) as H.
  destruct (Rlt_bool _ _) in H.
  - apply H.
  - destruct H as (H & _). apply overflow_not_finite in H. unfold F64.add in Fr. congruence.
Qed.
Lemma sub_value x y : F64.is_finite x = true -> F64.is_finite y = true -> F64.is_finite (F64.sub x y) = true ->
  B2R (F64.sub x y) = RN (B2R x - B2R y).
Proof.
  intros Fx Fy Fr. pose proof (Bminus_correct 53 1024 prec_gt_0_53 prec_lt_emax_53 mode_NE x y Fx Fy) as H.
  destruct (Rlt_bool _ _) in H.
  - apply H.
  - destruct H as (H & _). apply overflow_not_finite in H. unfold F64.sub in Fr. congruence.
Qed.
Lemma mul_value x y : F64.is_finite (F64.mul x y) = true ->
  B2R (F64.mul x y) = RN (B2R x * B2R y).
Proof.
  intros Fr. pose proof (Bmult_correct 53 1024 prec_gt_0_53 prec_lt_emax_53 mode_NE x y) as H.
  destruct (Rlt_bool _ _) in H.
  - apply H.
  - apply overflow_not_finite in H. unfold F64.mul in Fr. congruence.
Qed.
Lemma finite_B2R_zero y : F64.is_finite y = true -> B2R y = 0%R -> exists s, y = B754_zero s.
Proof.
  destruct y as [s|s| |s m e B]; cbn; intros F H; try discriminate; eauto.
  exfalso. apply eq_0_F2R in H. destruct s; discriminate.
Qed.
Lemma div_value x y : F64.is_finite x = true -> F64.is_finite y = true -> F64.is_finite (F64.div x y) = true ->
  B2R y <> 0%R /\ B2R (F64.div x y) = RN (B2R x / B2R y).
Proof.
  intros Fx Fy Fr.
  assert (Hy : B2R y <> 0%R).
  { intros E. destruct (finite_B2R_zero y Fy E) as (s & ->).
    destruct x as [sx|sx| |sx mx ex Bx]; cbn in Fr; discriminate. }
  split; [exact Hy|].
  pose proof (Bdiv_correct 53 1024 prec_gt_0_53 prec_lt_emax_53 mode_NE x y Hy) as H.
  destruct (Rlt_bool _ _) in H.
  - apply H.
  - apply overflow_not_finite in H. unfold F64.div in Fr. congruence.
Qed.
Lemma sqrt_value x : B2R (F64.sqrt x) = RN (sqrt (B2R x)).
Proof. apply (Bsqrt_correct 53 1024 prec_gt_0_53 prec_lt_emax_53 mode_NE x). Qed.
Lemma abs_value x : B2R (F64.abs x) = Rabs (B2R x).
Proof. apply B2R_Babs. Qed.
Lemma floor_value x : B2R (F64.floor x) = IZR (Zfloor (B2R x)) /\ F64.is_finite (F64.floor x) = F64.is_finite x.
Proof.
  destruct (Bnearbyint_correct 53 1024 prec_lt_emax_53 mode_DN x) as (H1 & H2 & _).
  split; [|exact H2]. unfold F64.floor. rewrite H1. apply round_FIX_IZR.
Qed.
Lemma fmax_value x y : F64.is_finite x = true -> F64.is_finite y = true ->
  F64.is_finite (F64.fmax x y) = true /\ B2R (F64.fmax x y) = Rmax (B2R x) (B2R y).
Proof.
  intros Fx Fy. unfold F64.fmax, F64.geb. rewrite leb_finite by assumption.
  replace (F64.is_nan y) with false by (destruct y; try reflexivity; discriminate).
  rewrite orb_false_r. destruct (Rle_bool_spec (B2R y) (B2R x)) as [H|H].
  - split; [exact Fx|]. rewrite Rmax_left; auto.
  - split; [exact Fy|]. rewrite Rmax_right; auto; lra.
Qed.
Lemma fmin_value x y : F64.is_finite x = true -> F64.is_finite y = true ->
  F64.is_finite (F64.fmin x y) = true /\ B2R (F64.fmin x y) = Rmin (B2R x) (B2R y).
Proof.
  intros Fx Fy. unfold F64.fmin. rewrite leb_finite by assumption.
  replace (F64.is_nan y) with false by (destruct y; try reflexivity; discriminate).
  rewrite orb_false_r. destruct (Rle_bool_spec (B2R x) (B2R y)) as [H|H].
  - split; [exact Fx|]. rewrite Rmin_left; auto.
  - split; [exact Fy|]. rewrite Rmin_right; auto; lra.
Qed.

(* ---- branch theorems on the reals ---- *)
Lemma ife_branch_real x y : F64.is_finite x = true -> F64.is_finite y = true ->
  (ife_test x y = true <->
   (F64.is_finite (F64.sub x y) = true /\ (Rabs (RN (B2R x - B2R y)) < bpow radix2 (-51))%R)).
Proof.
  intros Fx Fy. unfold ife_test. rewrite issmall_iff. split; intros (Fr & H); split; try exact Fr.
  - rewrite <- sub_value by assumption. exact H.
  - rewrite sub_value by assumption. exact H.
Qed.
Lemma ifl_branch_real x y : F64.is_finite x = true -> F64.is_finite y = true ->
  (ifl_test x y = true <-> (B2R x < B2R y)%R).
Proof. intros Fx Fy. unfold ifl_test. rewrite ltb_finite by assumption. apply Rlt_bool_iff. Qed.
Lemma ifb_branch_real x y z : F64.is_finite x = true -> F64.is_finite y = true -> F64.is_finite z = true ->
  (ifb_outside x y z = false <-> (Rmin (B2R y) (B2R z) <= B2R x <= Rmax (B2R y) (B2R z))%R).
Proof.
  intros Fx Fy Fz. unfold ifb_outside, F64.gtb.
  destruct (fmin_value y z Fy Fz) as (F1 & V1), (fmax_value y z Fy Fz) as (F2 & V2).
  rewrite !ltb_finite by assumption. rewrite V1, V2.
  destruct (Rlt_bool_spec (B2R x) (Rmin (B2R y) (B2R z))), (Rlt_bool_spec (Rmax (B2R y) (B2R z)) (B2R x));
    cbn; split; intros; try discriminate; try reflexivity; try lra.
Qed.

(* ---- sigmoid and length ---- *)
Local Existing Instance prec_gt_0_53.
Lemma RN_le_generic r g : generic_format radix2 fexp64 g -> (r <= g)%R -> (RN r <= g)%R.
Proof. intros G H. apply round_le_generic; auto with typeclass_instances. Qed.
Lemma RN_ge_generic r g : generic_format radix2 fexp64 g -> (g <= r)%R -> (g <= RN r)%R.
Proof. intros G H. apply round_ge_generic; auto with typeclass_instances. Qed.
Lemma gen_bpow e : (-1074 <= e)%Z -> generic_format radix2 fexp64 (bpow radix2 e).
Proof. intros. apply generic_format_FLT_bpow; auto with typeclass_instances. Qed.
Lemma gen_0 : generic_format radix2 fexp64 0%R.
Proof. apply generic_format_0. Qed.
Lemma gen_1 : generic_format radix2 fexp64 1%R.
Proof. change 1%R with (bpow radix2 0). apply gen_bpow. lia. Qed.
Lemma gen_2 : generic_format radix2 fexp64 2%R.
Proof. change 2%R with (bpow radix2 1). apply gen_bpow. lia. Qed.
Lemma small_lt_emax r : (Rabs r <= 2)%R -> Rlt_bool (Rabs r) (bpow radix2 1024) = true.
Proof.
  intros H. apply Rlt_bool_true. eapply Rle_lt_trans; [exact H|].
  change 2%R with (bpow radix2 1). apply bpow_lt. lia.
Qed.

Lemma unit_finite e : F64.leb zero e = true -> F64.leb e one = true ->
  F64.is_finite e = true /\ (0 <= B2R e <= 1)%R.
Proof.
  intros H0 H1.
  assert (Fe : F64.is_finite e = true).
  { destruct one_val as (B & E). rewrite E in H1. unfold zero in H0. rewrite zero_bits in H0.
    destruct e as [s|[|]| |s m x Be]; try reflexivity; cbn in H0, H1; discriminate. }
  split; [exact Fe|].
  rewrite leb_finite in H0, H1; try assumption; try exact finite_one; try reflexivity.
  apply Rle_bool_iff in H0, H1. rewrite B2R_one in H1. unfold zero in H0. rewrite zero_bits in H0. cbn in H0. lra.
Qed.

Lemma add_one_unit e : F64.is_finite e = true -> (0 <= B2R e <= 1)%R ->
  F64.is_finite (F64.add one e) = true /\ (1 <= B2R (F64.add one e) <= 2)%R.
Proof.
  intros Fe He.
  pose proof (Bplus_correct 53 1024 prec_gt_0_53 prec_lt_emax_53 mode_NE one e finite_one Fe) as H.
  rewrite B2R_one in H.
  set (r := round _ _ _ _) in H.
  assert (B : (1 <= r <= 2)%R).
  { subst r. split; [apply RN_ge_generic; [exact gen_1|lra]|apply RN_le_generic; [exact gen_2|lra]]. }
  rewrite (small_lt_emax r) in H by (rewrite Rabs_pos_eq; lra).
  destruct H as (V & F & _). unfold F64.add. rewrite V. split; [exact F|exact B].
Qed.

Lemma div_unit a s : F64.is_finite a = true -> (0 <= B2R a <= 1)%R -> (1 <= B2R s)%R ->
  F64.is_finite (F64.div a s) = true.
Proof.
  intros Fa Ha Hs.
  assert (Hn : B2R s <> 0%R) by lra.
  pose proof (Bdiv_correct 53 1024 prec_gt_0_53 prec_lt_emax_53 mode_NE a s Hn) as H.
  assert (Q : (0 <= B2R a / B2R s <= 1)%R).
  { unfold Rdiv. pose proof (Rinv_l (B2R s) Hn) as I1.
    assert (I2 : (0 < / B2R s)%R) by (apply Rinv_0_lt_compat; lra).
    assert (I3 : (/ B2R s <= 1)%R) by nra.
    split; nra. }
  set (r := round _ _ _ _) in H.
  assert (B : (0 <= r <= 1)%R).
  { subst r. split; [apply RN_ge_generic; [exact gen_0|lra]|apply RN_le_generic; [exact gen_1|lra]]. }
  rewrite (small_lt_emax r) in H by (rewrite Rabs_pos_eq; lra).
  destruct H as (_ & F & _). unfold F64.div, F64.is_finite. rewrite F. exact Fa.
Qed.

Lemma B2R_zero : B2R zero = 0%R.
Proof. unfold zero. rewrite zero_bits. reflexivity. Qed.

Section Sigmoid.
Variable lm : libm.
Hypothesis H_exp : exp_unit lm.
Lemma sigmoid_finite x : F64.is_finite x = true -> F64.is_finite (sigmoid_op lm x) = true.
Proof.
  intros Fx. unfold sigmoid_op. fold zero.
  destruct (F64.geb x zero) eqn:G.
  - assert (Fn : F64.is_finite (F64.neg x) = true) by (unfold F64.neg, F64.is_finite; rewrite is_finite_Bopp; exact Fx).
    assert (Ln : F64.leb (F64.neg x) zero = true).
    { unfold F64.geb in G. rewrite leb_finite in G by (try assumption; reflexivity).
      rewrite leb_finite by (try assumption; reflexivity). apply Rle_bool_iff in G. apply Rle_bool_iff.
      unfold F64.neg. rewrite B2R_Bopp. rewrite B2R_zero in *. lra. }
    destruct (H_exp _ Fn Ln) as (E0 & E1). destruct (unit_finite _ E0 E1) as (Fe & Be).
    destruct (add_one_unit _ Fe Be) as (Fs & Bs).
    apply div_unit; [exact finite_one|rewrite B2R_one; lra|lra].
  - assert (Lx : F64.leb x zero = true).
    { unfold F64.geb in G. rewrite leb_finite in G by (try assumption; reflexivity).
      rewrite leb_finite by (try assumption; reflexivity). apply Rle_bool_iff.
      destruct (Rle_bool_spec (B2R zero) (B2R x)); [discriminate|rewrite B2R_zero in *; lra]. }
    destruct (H_exp _ Fx Lx) as (E0 & E1). destruct (unit_finite _ E0 E1) as (Fe & Be).
    destruct (add_one_unit _ Fe Be) as (Fs & Bs).
    apply div_unit; [exact Fe|exact Be|lra].
Qed.
End Sigmoid.

Lemma of_Z_finite n : 0 <= n < 2 ^ 64 -> F64.is_finite (F64.of_Z n) = true.
Proof.
  intros Hn.
  pose proof (binary_normalize_correct 53 1024 prec_gt_0_53 prec_lt_emax_53 mode_NE n 0 false) as H.
  cbv zeta in H.
  assert (X : F2R (Float radix2 n 0) = IZR n) by (unfold F2R; cbn; lra).
  rewrite X in H.
  set (r := round _ _ _ _) in H.
  assert (B : (0 <= r <= bpow radix2 64)%R).
  { subst r. split.
    - apply RN_ge_generic; [exact gen_0|apply IZR_le; lia].
    - apply RN_le_generic; [apply gen_bpow; lia|]. change (bpow radix2 64) with (IZR (2^64)). apply IZR_le; lia. }
  rewrite Rlt_bool_true in H.
  - apply H.
  - rewrite Rabs_pos_eq by lra. eapply Rle_lt_trans; [apply B|]. apply bpow_lt. lia.
Qed.

(* ================================================================== *)
(* 4. per-primitive contracts                                           *)

Ltac dom_args :=
  unfold closed_on; intros;
  repeat match goal with H : Forall2 _ _ _ |- _ => inversion H; clear H; subst end.
Ltac len_args :=
  unfold strict_on, run_body; intros lm args i Hlen Hin Hnth;
  repeat (destruct args as [|? args]; [discriminate Hlen|]);
  destruct args; [|discriminate Hlen]; clear Hlen.

Lemma returns_mono (P Q : value -> Prop) o : (forall v, P v -> Q v) -> returns P o -> returns Q o.
Proof. intros H (v & E & Pv). exists v. auto. Qed.

Section Closed.
Variable lm : libm.

(* ---- guarded binary operations: the guard alone closes them, the finiteness
   of the arguments is not even needed ---- *)
Lemma guarded_closed op a0 a1 : rarg a0 -> rarg a1 -> returns rarg (bin_strict (fun x y => guard (op x y)) a0 a1).
Proof. intros. apply bin_strict_closed; auto; [reflexivity|intros; apply rarg_guard]. Qed.

Lemma add_closed : closed_on lm real_add_body [rarg; rarg] rarg.
Proof. dom_args. rewrite add_run. apply guarded_closed; assumption. Qed.
Lemma sub_closed : closed_on lm real_sub_body [rarg; rarg] rarg.
Proof. dom_args. rewrite sub_run. apply guarded_closed; assumption. Qed.
Lemma mul_closed : closed_on lm real_mul_body [rarg; rarg] rarg.
Proof. dom_args. rewrite mul_run. apply guarded_closed; assumption. Qed.
Lemma div_closed : closed_on lm real_div_body [rarg; rarg] rarg.
Proof. dom_args. rewrite div_run. apply guarded_closed; assumption. Qed.
Lemma idiv_closed : closed_on lm real_idiv_body [rarg; rarg] rarg.
Proof. dom_args. rewrite idiv_run. apply (guarded_closed idiv_op); assumption. Qed.
Lemma mod_closed : closed_on lm real_mod_body [rarg; rarg] rarg.
Proof. dom_args. rewrite mod_run. apply guarded_closed; assumption. Qed.
Lemma max_closed : closed_on lm real_max_body [rarg; rarg] rarg.
Proof. dom_args. rewrite max_run. apply guarded_closed; assumption. Qed.
Lemma aq_closed : closed_on lm real_aq_body [rarg; rarg] rarg.
Proof. dom_args. rewrite aq_run. apply (guarded_closed aq_op); assumption. Qed.

(* ---- comparisons return 0 or 1 of the int alternative ---- *)
Definition is_bit (v : value) : Prop := v = VVoid \/ v = VInt 0 \/ v = VInt 1.
Lemma gt_closed : closed_on lm real_gt_body [rarg; rarg] is_bit.
Proof.
  dom_args. rewrite gt_run. apply bin_strict_closed; auto; [left; reflexivity|].
  intros u w _ _. unfold b2i, is_bit. destruct (F64.gtb u w); auto.
Qed.
Lemma lt_closed : closed_on lm real_lt_body [rarg; rarg] is_bit.
Proof.
  dom_args. rewrite lt_run. apply bin_strict_closed; auto; [left; reflexivity|].
  intros u w _ _. unfold b2i, is_bit. destruct (F64.ltb u w); auto.
Qed.

(* ---- unary ---- *)
Lemma abs_closed : closed_on lm real_abs_body [rarg] rarg.
Proof.
  dom_args. rewrite abs_run. apply un_strict_closed; auto; [reflexivity|].
  intros u Fx. unfold rarg; cbn. rewrite finite_abs. exact Fx.
Qed.
Lemma sqrt_closed : closed_on lm real_sqrt_body [rarg] rarg.
Proof.
  dom_args. rewrite sqrt_run. apply un_strict_closed; auto; [reflexivity|].
  intros u Fx. apply rarg_sqrt_val; exact Fx.
Qed.
Lemma ln_closed : closed_on lm real_ln_body [rarg] rarg.
Proof.
  dom_args. rewrite ln_run. apply un_strict_closed; auto; [reflexivity|].
  intros; apply rarg_guard.
Qed.

Lemma length_closed : closed_on lm real_length_body [(fun v => v = VVoid \/ exists s, v = VString s /\ Z.of_nat (length s) < 2 ^ 64)] rarg.
Proof.
  dom_args. rewrite length_run.
  match goal with H : _ \/ _ |- _ => destruct H as [->|(s & -> & Hs)] end; cbn; eexists; split; try reflexivity.
  unfold rarg; cbn. apply of_Z_finite. lia.
Qed.

Section SigmoidClosed.
Hypothesis H_exp : exp_unit lm.
Lemma sigmoid_closed : closed_on lm real_sigmoid_body [rarg] rarg.
Proof.
  dom_args. rewrite sigmoid_run. apply un_strict_closed; auto; [reflexivity|].
  intros u Fx. unfold rarg; cbn. apply sigmoid_finite; assumption.
Qed.
End SigmoidClosed.

Section SinCos.
Hypothesis H_sincos : sincos_finite lm.
Lemma sin_closed : closed_on lm real_sin_body [rarg] rarg.
Proof.
  dom_args. rewrite sin_run. apply un_strict_closed; auto; [reflexivity|].
  intros u Fx. unfold rarg; cbn. apply H_sincos; exact Fx.
Qed.
Lemma cos_closed : closed_on lm real_cos_body [rarg] rarg.
Proof.
  dom_args. rewrite cos_run. apply un_strict_closed; auto; [reflexivity|].
  intros u Fx. unfold rarg; cbn. apply H_sincos; exact Fx.
Qed.
End SinCos.

(* ---- ephemeral constants ---- *)
Lemma real_closed p : F64.is_finite p = true -> returns rarg (run_body_p lm real_real_body p).
Proof. intros Fp. unfold run_body_p. rewrite real_run. eexists; split; [reflexivity|exact Fp]. Qed.
Lemma integer_closed p : F64.is_finite p = true -> returns rarg (run_body_p lm real_integer_body p).
Proof. intros Fp. unfold run_body_p. rewrite integer_run. eexists; split; [reflexivity|exact Fp]. Qed.

(* ---- conditionals: whatever property the two branch arguments (and the
   undefined value) have, the result has ---- *)
Lemma ife_closed (P : value -> Prop) : P VVoid -> closed_on lm real_ife_body [rarg; rarg; P; P] P.
Proof. intros Hv. dom_args. rewrite ife_run. apply if2_closed; assumption. Qed.
Lemma ifl_closed (P : value -> Prop) : P VVoid -> closed_on lm real_ifl_body [rarg; rarg; P; P] P.
Proof. intros Hv. dom_args. rewrite ifl_run. apply if2_closed; assumption. Qed.
Lemma ifz_closed' (P : value -> Prop) : P VVoid -> closed_on lm real_ifz_body [rarg; P; P] P.
Proof. intros Hv. dom_args. rewrite ifz_run. apply ifz_closed; assumption. Qed.
Lemma ifb_closed' (P : value -> Prop) : P VVoid -> closed_on lm real_ifb_body [rarg; rarg; rarg; P; P] P.
Proof. intros Hv. dom_args. rewrite ifb_run. apply ifb_closed; assumption. Qed.
Lemma sife_closed' (P : value -> Prop) : P VVoid -> closed_on lm string_ife_body [anyv; anyv; P; P] P.
Proof. intros Hv. dom_args. rewrite sife_run. apply sife_closed; assumption. Qed.

End Closed.

(* ---- strictness on fetched arguments, for arguments of ANY alternative ---- *)
Lemma add_strict lm : strict_on lm real_add_body 2.
Proof. revert lm. len_args. rewrite add_fetch in Hin. rewrite add_run. eapply bin_strict_strict; eassumption. Qed.
Lemma sub_strict lm : strict_on lm real_sub_body 2.
Proof. revert lm. len_args. rewrite sub_fetch in Hin. rewrite sub_run. eapply bin_strict_strict; eassumption. Qed.
Lemma mul_strict lm : strict_on lm real_mul_body 2.
Proof. revert lm. len_args. rewrite mul_fetch in Hin. rewrite mul_run. eapply bin_strict_strict; eassumption. Qed.
Lemma div_strict lm : strict_on lm real_div_body 2.
Proof. revert lm. len_args. rewrite div_fetch in Hin. rewrite div_run. eapply bin_strict_strict; eassumption. Qed.
Lemma idiv_strict lm : strict_on lm real_idiv_body 2.
Proof. revert lm. len_args. rewrite idiv_fetch in Hin. rewrite idiv_run. eapply bin_strict_strict; eassumption. Qed.
Lemma mod_strict lm : strict_on lm real_mod_body 2.
Proof. revert lm. len_args. rewrite mod_fetch in Hin. rewrite mod_run. eapply bin_strict_strict; eassumption. Qed.
Lemma max_strict lm : strict_on lm real_max_body 2.
Proof. revert lm. len_args. rewrite max_fetch in Hin. rewrite max_run. eapply bin_strict_strict; eassumption. Qed.
Lemma aq_strict lm : strict_on lm real_aq_body 2.
Proof. revert lm. len_args. rewrite aq_fetch in Hin. rewrite aq_run. eapply bin_strict_strict; eassumption. Qed.
Lemma gt_strict lm : strict_on lm real_gt_body 2.
Proof. revert lm. len_args. rewrite gt_fetch in Hin. rewrite gt_run. eapply bin_strict_strict; eassumption. Qed.
Lemma lt_strict lm : strict_on lm real_lt_body 2.
Proof. revert lm. len_args. rewrite lt_fetch in Hin. rewrite lt_run. eapply bin_strict_strict; eassumption. Qed.
Lemma abs_strict lm : strict_on lm real_abs_body 1.
Proof. revert lm. len_args. rewrite abs_fetch in Hin. rewrite abs_run. eapply un_strict_strict; eassumption. Qed.
Lemma cos_strict lm : strict_on lm real_cos_body 1.
Proof. revert lm. len_args. rewrite cos_fetch in Hin. rewrite cos_run. eapply un_strict_strict; eassumption. Qed.
Lemma sin_strict lm : strict_on lm real_sin_body 1.
Proof. revert lm. len_args. rewrite sin_fetch in Hin. rewrite sin_run. eapply un_strict_strict; eassumption. Qed.
Lemma ln_strict lm : strict_on lm real_ln_body 1.
Proof. revert lm. len_args. rewrite ln_fetch in Hin. rewrite ln_run. eapply un_strict_strict; eassumption. Qed.
Lemma sqrt_strict lm : strict_on lm real_sqrt_body 1.
Proof. revert lm. len_args. rewrite sqrt_fetch in Hin. rewrite sqrt_run. eapply un_strict_strict; eassumption. Qed.
Lemma sigmoid_strict lm : strict_on lm real_sigmoid_body 1.
Proof. revert lm. len_args. rewrite sigmoid_fetch in Hin. rewrite sigmoid_run. eapply un_strict_strict; eassumption. Qed.
Lemma length_strict' lm : strict_on lm real_length_body 1.
Proof. revert lm. len_args. rewrite length_fetch in Hin. rewrite length_run. eapply length_strict; eassumption. Qed.
Lemma ife_strict lm : strict_on lm real_ife_body 4.
Proof. revert lm. len_args. rewrite ife_fetch in Hin. rewrite ife_run. eapply if2_strict; eassumption. Qed.
Lemma ifl_strict lm : strict_on lm real_ifl_body 4.
Proof. revert lm. len_args. rewrite ifl_fetch in Hin. rewrite ifl_run. eapply if2_strict; eassumption. Qed.
Lemma ifz_strict' lm : strict_on lm real_ifz_body 3.
Proof. revert lm. len_args. rewrite ifz_fetch in Hin. rewrite ifz_run. eapply ifz_strict; eassumption. Qed.
Lemma ifb_strict' lm : strict_on lm real_ifb_body 5.
Proof. revert lm. len_args. rewrite ifb_fetch in Hin. rewrite ifb_run. eapply ifb_strict; eassumption. Qed.
Lemma sife_strict' lm : strict_on lm string_ife_body 4.
Proof. revert lm. len_args. rewrite sife_fetch in Hin. rewrite sife_run. eapply sife_strict; eassumption. Qed.

(* ================================================================== *)
(* 4b. programs: closure of every well-typed expression tree             *)
(* tree induction with the hypothesis on all children *)
Fixpoint all_kids (P : tree -> Prop) (l : list tree) : Prop :=
  match l with [] => True | k :: r => P k /\ all_kids P r end.
Lemma tree_ind' (P : tree -> Prop) :
  (forall s par kids, all_kids P kids -> P (Node s par kids)) -> forall t, P t.
Proof.
  intros H. fix IH 1. intros [s par kids]. apply H.
  induction kids as [|k r IHr]; cbn; [exact I|]. split; [apply IH|exact IHr].
Qed.

Lemma run_strat_stub st par vals vars :
  run_strat st par (map Val vals) vars = run_stub st (arg_stub (Some par) vars vals).
Proof.
  induction st as [o|i k IH|k IH|i k IH]; cbn.
  - reflexivity.
  - rewrite nth_error_map. destruct (nth_error vals i); cbn; [apply IH|reflexivity].
  - apply IH.
  - destruct (vars i); [apply IH|reflexivity].
Qed.

Lemma good_real_rarg v : good KReal v <-> rarg v.
Proof. unfold good, rarg. destruct v; cbn; tauto. Qed.
Lemma good_void k : good k VVoid.
Proof. destruct k; reflexivity. Qed.
Lemma good_fou k v : good k v -> fou v.
Proof. unfold good, fou. destruct v, k; cbn; congruence. Qed.

Definition argok (kc : nat -> kind) (vals : list value) (cats : list nat) : Prop :=
  Forall2 (fun v c => good (kc c) v) vals cats.

Lemma isk_eq (kc : nat -> kind) k c :
  match kc c, k with KReal, KReal | KInt, KInt | KStr, KStr => true | _, _ => false end = true -> kc c = k.
Proof. destruct (kc c), k; intros; try reflexivity; discriminate. Qed.

Ltac shape H A :=
  match type of H with sig_okb _ _ ?argcats _ = true =>
    destruct argcats as [|?c [|?c [|?c [|?c [|?c [|?c ?r]]]]]]; cbn in H; try discriminate H
  end;
  repeat match goal with
         | X : argok _ _ _ |- _ => unfold argok in X
         | X : Forall2 _ _ (_ :: _) |- _ => inversion X; clear X; subst
         | X : Forall2 _ _ [] |- _ => inversion X; clear X; subst
         end;
  repeat match goal with
         | X : _ && _ = true |- _ => apply andb_true_iff in X; destruct X
         | X : Nat.eqb _ _ = true |- _ => apply Nat.eqb_eq in X; subst
         | X : match ?k ?c with KReal => _ | KInt => _ | KStr => _ end = true |- _ =>
             destruct (k c) eqn:?; try discriminate X; clear X
         | X : true = true |- _ => clear X
         end;
  try discriminate.

Ltac to_rarg :=
  repeat match goal with
         | E : ?kc ?c = KReal, G : good (?kc ?c) _ |- _ => rewrite E in G; apply good_real_rarg in G
         end.

Section Programs.
Variable lm : libm.
Hypothesis H_sincos : sincos_finite lm.
Hypothesis H_exp : exp_unit lm.
Variable kc : nat -> kind.

Lemma arith1_sound b argcats cat vals sp sv :
  closed_on lm b [rarg] rarg -> sig_okb kc (SArith 1) argcats cat = true -> argok kc vals argcats ->
  returns (good (kc cat)) (run_body_s lm b sp sv vals).
Proof.
  intros C H A. shape H A. to_rarg.
  try match goal with E : kc _ = KReal |- _ => rewrite E end.
  eapply returns_mono; [intros v; apply good_real_rarg|]. apply C. repeat constructor; assumption.
Qed.
Lemma arith2_sound b argcats cat vals sp sv :
  closed_on lm b [rarg; rarg] rarg -> sig_okb kc (SArith 2) argcats cat = true -> argok kc vals argcats ->
  returns (good (kc cat)) (run_body_s lm b sp sv vals).
Proof.
  intros C H A. shape H A. to_rarg.
  try match goal with E : kc _ = KReal |- _ => rewrite E end.
  eapply returns_mono; [intros v; apply good_real_rarg|]. apply C. repeat constructor; assumption.
Qed.
Lemma cmp_sound b argcats cat vals sp sv :
  closed_on lm b [rarg; rarg] (fun v => v = VVoid \/ v = VInt 0 \/ v = VInt 1) ->
  sig_okb kc SCmp argcats cat = true -> argok kc vals argcats ->
  returns (good (kc cat)) (run_body_s lm b sp sv vals).
Proof.
  intros C H A. shape H A. to_rarg.
  try match goal with E : kc _ = KInt |- _ => rewrite E end.
  eapply returns_mono; [|apply C; repeat constructor; assumption].
  intros v [->|[->| ->]]; reflexivity.
Qed.

Lemma if1_sound b argcats cat vals sp sv :
  (forall P : value -> Prop, P VVoid -> closed_on lm b [rarg; P; P] P) ->
  sig_okb kc (SIf 1) argcats cat = true -> argok kc vals argcats ->
  returns (good (kc cat)) (run_body_s lm b sp sv vals).
Proof.
  intros C H A. shape H A. to_rarg.
  apply C; [apply good_void|repeat constructor; assumption].
Qed.
Lemma if2_sound b argcats cat vals sp sv :
  (forall P : value -> Prop, P VVoid -> closed_on lm b [rarg; rarg; P; P] P) ->
  sig_okb kc (SIf 2) argcats cat = true -> argok kc vals argcats ->
  returns (good (kc cat)) (run_body_s lm b sp sv vals).
Proof.
  intros C H A. shape H A. to_rarg.
  apply C; [apply good_void|repeat constructor; assumption].
Qed.
Lemma if3_sound b argcats cat vals sp sv :
  (forall P : value -> Prop, P VVoid -> closed_on lm b [rarg; rarg; rarg; P; P] P) ->
  sig_okb kc (SIf 3) argcats cat = true -> argok kc vals argcats ->
  returns (good (kc cat)) (run_body_s lm b sp sv vals).
Proof.
  intros C H A. shape H A. to_rarg.
  apply C; [apply good_void|repeat constructor; assumption].
Qed.
Lemma sife_sound argcats cat vals sp sv :
  sig_okb kc SSife argcats cat = true -> argok kc vals argcats ->
  returns (good (kc cat)) (run_body_s lm string_ife_body sp sv vals).
Proof.
  intros H A. shape H A.
  apply sife_closed'; [apply good_void|repeat constructor; assumption].
Qed.
Lemma len_sound argcats cat vals sp sv :
  sig_okb kc SLen argcats cat = true -> argok kc vals argcats ->
  returns (good (kc cat)) (run_body_s lm real_length_body sp sv vals).
Proof.
  intros H A. shape H A.
  eapply returns_mono; [intros v; apply good_real_rarg|]. apply length_closed. constructor; [|constructor].
  match goal with G : good _ ?x |- _ => try rewrite Heqk0 in G; destruct x; cbn in G; try discriminate G end.
  - left; reflexivity.
  - right. eexists; split; [reflexivity|]. unfold good in *. cbn in *. lia.
Qed.
Lemma term_sound b argcats cat vals p sv :
  (forall p sv args, run_body_s lm b (Some p) sv args = Val (VDouble p)) ->
  F64.is_finite p = true -> sig_okb kc STerm argcats cat = true ->
  returns (good (kc cat)) (run_body_s lm b (Some p) sv vals).
Proof.
  intros C Fp H. destruct argcats; cbn in H; [|discriminate].
  destruct (kc cat) eqn:E; try discriminate. rewrite C. eexists; split; [reflexivity|exact Fp].
Qed.

(* every entry of the table is sound for its signature *)
Lemma table_sound b sg argcats cat vals p sv :
  In (b, sg) c13_table -> sig_okb kc sg argcats cat = true -> argok kc vals argcats ->
  F64.is_finite p = true ->
  returns (good (kc cat)) (run_body_s lm b (Some p) sv vals).
Proof.
  intros Hin H A Fp. unfold c13_table in Hin. cbn [In] in Hin.
  repeat (destruct Hin as [Hin|Hin]; [injection Hin as <- <-|]); [..|destruct Hin].
  - eapply term_sound; eauto using real_run.
  - eapply term_sound; eauto using integer_run.
  - eapply arith1_sound; eauto using abs_closed.
  - eapply arith2_sound; eauto using add_closed.
  - eapply arith2_sound; eauto using aq_closed.
  - eapply arith1_sound; eauto using cos_closed.
  - eapply arith2_sound; eauto using div_closed.
  - eapply cmp_sound; eauto using gt_closed.
  - eapply arith2_sound; eauto using idiv_closed.
  - eapply if3_sound; eauto using ifb_closed'.
  - eapply if2_sound; eauto using ife_closed.
  - eapply if2_sound; eauto using ifl_closed.
  - eapply if1_sound; eauto using ifz_closed'.
  - eapply len_sound; eauto.
  - eapply arith1_sound; eauto using ln_closed.
  - eapply cmp_sound; eauto using lt_closed.
  - eapply arith2_sound; eauto using max_closed.
  - eapply arith2_sound; eauto using mod_closed.
  - eapply arith2_sound; eauto using mul_closed.
  - eapply arith1_sound; eauto using sin_closed.
  - eapply arith1_sound; eauto using sqrt_closed.
  - eapply arith2_sound; eauto using sub_closed.
  - eapply arith1_sound; eauto using sigmoid_closed.
  - eapply sife_sound; eauto.
Qed.

(* a node: good children outcomes in, good outcome out *)
Lemma node_sound vars s par vals :
  sym_ok lm kc vars s -> F64.is_finite par = true -> argok kc vals (s_argcats s) ->
  returns (good (kc (s_cat s))) (run_strat (s_strat s) par (map Val vals) vars).
Proof.
  intros [(b & sg & Hin & Es & Hs)|[(Ha & i & v & Es & Ev & Gv)|(Ha & v & Es & Gv)]] Fp A.
  - rewrite Es, run_strat_stub. change (run_stub (strategy_of lm b) (arg_stub (Some par) vars vals))
      with (run_body_s lm b (Some par) vars vals). eapply table_sound; eauto.
  - rewrite Es. cbn. rewrite Ev. cbn. eexists; split; [reflexivity|exact Gv].
  - rewrite Es. cbn. eexists; split; [reflexivity|exact Gv].
Qed.

Lemma program_closed vars t :
  wt lm kc vars t -> returns (good (kc (root_cat t))) (run_tree vars t).
Proof.
  induction t as [s par kids IH] using tree_ind'. cbn [wt root_cat run_tree].
  intros (Hs & Fp & Hc & Hk).
  assert (K : exists vals, map (run_tree vars) kids = map Val vals /\ argok kc vals (map root_cat kids)).
  { clear Hs Hc Fp. induction kids as [|k r IHr]; cbn.
    - exists []. split; [reflexivity|constructor].
    - destruct IH as (IHk & IHrest). destruct Hk as (Wk & Wr).
      destruct (IHk Wk) as (v & Ev & Gv). destruct (IHr IHrest Wr) as (vs & Evs & Gvs).
      exists (v :: vs). cbn. rewrite Ev, Evs. split; [reflexivity|constructor; assumption]. }
  destruct K as (vals & Ev & Gv). rewrite Ev. rewrite Hc in Gv. apply node_sound; assumption.
Qed.

Lemma program_closed_fou vars t : wt lm kc vars t -> returns fou (run_tree vars t).
Proof. intros W. eapply returns_mono; [intros v; apply good_fou|]. apply program_closed; exact W. Qed.
End Programs.

Lemma program_closed_both lm : sincos_finite lm -> exp_unit lm ->
  forall kc vars t, wt lm kc vars t ->
  returns (good (kc (root_cat t))) (run_tree vars t) /\ returns fou (run_tree vars t).
Proof.
  intros H1 H2 kc vars t W.
  split; [exact (program_closed lm H1 H2 kc vars t W)|exact (program_closed_fou lm H1 H2 kc vars t W)].
Qed.

(* ================================================================== *)
(* 4b'. fmod is exact: x - trunc(x/y)*y, no rounding; fmin/fmax ties; floor *)
Local Notation fexp := (SpecFloat.fexp 53 1024).

Lemma trunc_core (ax ay : Z) (b : R) (nx ny : bool) : 0 <= ax -> 0 < ay -> (0 < b)%R ->
  (cond_Ropp nx (IZR ax * b)
   - IZR (Ztrunc (cond_Ropp nx (IZR ax * b) / cond_Ropp ny (IZR ay * b))) * cond_Ropp ny (IZR ay * b)
   = cond_Ropp nx (IZR (ax mod ay) * b))%R.
Proof.
  intros Hax Hay Hb.
  assert (Hay' : (0 < IZR ay)%R) by (apply IZR_lt; lia).
  assert (Hax' : (0 <= IZR ax)%R) by (apply IZR_le; lia).
  assert (Q : Ztrunc (IZR ax / IZR ay) = ax / ay).
  { rewrite Ztrunc_floor.
    - apply Zfloor_div. lia.
    - apply Rmult_le_pos; [exact Hax'|]. apply Rlt_le, Rinv_0_lt_compat. exact Hay'. }
  assert (D : (IZR ax * b / (IZR ay * b) = IZR ax / IZR ay)%R) by (field; lra).
  assert (E : (IZR ax = IZR ay * IZR (ax / ay) + IZR (ax mod ay))%R).
  { rewrite <- mult_IZR, <- plus_IZR. f_equal. apply Z.div_mod. lia. }
  destruct nx, ny; cbn [cond_Ropp].
  - replace (- (IZR ax * b) / - (IZR ay * b))%R with (IZR ax / IZR ay)%R by (rewrite <- D; field; lra).
    rewrite Q. rewrite E at 1. ring.
  - replace (- (IZR ax * b) / (IZR ay * b))%R with (- (IZR ax / IZR ay))%R by (rewrite <- D; field; lra).
    rewrite Ztrunc_opp, Q, opp_IZR. rewrite E at 1. ring.
  - replace ((IZR ax * b) / - (IZR ay * b))%R with (- (IZR ax / IZR ay))%R by (rewrite <- D; field; lra).
    rewrite Ztrunc_opp, Q, opp_IZR. rewrite E at 1. ring.
  - rewrite D, Q. rewrite E at 1. ring.
Qed.

Lemma fmod_repr (sx : bool) (r e : Z) (w : R) :
  0 < r -> (w <> 0)%R -> (IZR r * bpow radix2 e <= Rabs w)%R ->
  (cexp radix2 fexp w <= e)%Z -> (Rabs w < bpow radix2 1024)%R ->
  let z := F64.of_me (if sx then - r else r) e sx in
  F64.is_finite z = true /\ B2R z = cond_Ropp sx (IZR r * bpow radix2 e) /\ Bsign z = sx.
Proof.
  intros Hr Hw Hle Hc Hmax z.
  set (m := if sx then - r else r) in *.
  assert (Em : m = cond_Zopp sx r) by (unfold m; destruct sx; reflexivity).
  set (v := F2R (Float radix2 m e)).
  assert (Av : Rabs v = (IZR r * bpow radix2 e)%R).
  { unfold v. rewrite <- F2R_Zabs. rewrite Em, abs_cond_Zopp. unfold F2R; cbn. rewrite Z.abs_eq by lia. reflexivity. }
  assert (Pv : (0 < IZR r * bpow radix2 e)%R).
  { apply Rmult_lt_0_compat; [apply IZR_lt; lia|apply bpow_gt_0]. }
  assert (Nv : v <> 0%R) by (intros E0; rewrite E0, Rabs_R0 in Av; lra).
  assert (Gv : generic_format radix2 fexp v).
  { apply generic_format_F2R. intros _. fold v. unfold cexp.
    eapply Z.le_trans; [|exact Hc]. unfold cexp.
    apply (monotone_exp (fexp)). apply mag_le_abs; [exact Nv|rewrite Av; exact Hle]. }
  pose proof (binary_normalize_correct 53 1024 prec_gt_0_53 prec_lt_emax_53 mode_NE m e sx) as H.
  cbv zeta in H. fold v in H. rewrite round_generic in H by (auto with typeclass_instances).
  rewrite Rlt_bool_true in H by (rewrite Av; lra).
  destruct H as (V & F & S). fold (F64.of_me m e sx) in V, F, S. fold z in V, F, S.
  assert (Vv : v = cond_Ropp sx (IZR r * bpow radix2 e)).
  { unfold v. rewrite Em. unfold F2R; cbn [Fnum Fexp]. destruct sx; cbn [cond_Zopp cond_Ropp]; [rewrite opp_IZR; ring|reflexivity]. }
  split; [exact F|]. split; [rewrite V; exact Vv|].
  rewrite S, Vv. destruct sx; cbn [cond_Ropp].
  - rewrite Rcompare_Lt by lra. reflexivity.
  - rewrite Rcompare_Gt by lra. reflexivity.
Qed.

Lemma B2R_finite_scaled (s : bool) (m : positive) (e e0 : Z) : e0 <= e ->
  F2R (Float radix2 (cond_Zopp s (Zpos m)) e) = cond_Ropp s (IZR (Zpos m * 2 ^ (e - e0)) * bpow radix2 e0).
Proof.
  intros H. unfold F2R; cbn [Fnum Fexp].
  rewrite mult_IZR. change (IZR (2 ^ (e - e0))) with (IZR (Zpower radix2 (e - e0))).
  rewrite IZR_Zpower by lia. rewrite Rmult_assoc, <- bpow_plus. replace (e - e0 + e0) with e by ring.
  destruct s; cbn [cond_Zopp cond_Ropp]; [rewrite opp_IZR; ring|reflexivity].
Qed.

Lemma fmod_finite sx mx ex Bx sy my ey By :
  let x : f64 := B754_finite sx mx ex Bx in
  let y : f64 := B754_finite sy my ey By in
  F64.is_finite (F64.fmod x y) = true /\
  B2R (F64.fmod x y) = (B2R x - IZR (Ztrunc (B2R x / B2R y)) * B2R y)%R /\
  (Rabs (B2R (F64.fmod x y)) < Rabs (B2R y))%R /\
  Bsign (F64.fmod x y) = sx.
Proof.
  intros x y.
  set (e := Z.min ex ey).
  set (ax := Zpos mx * 2 ^ (ex - e)). set (ay := Zpos my * 2 ^ (ey - e)).
  set (b := bpow radix2 e).
  assert (Hb : (0 < b)%R) by apply bpow_gt_0.
  assert (Pax : 0 < ax) by (unfold ax; apply Z.mul_pos_pos; [lia|apply Z.pow_pos_nonneg; lia]).
  assert (Pay : 0 < ay) by (unfold ay; apply Z.mul_pos_pos; [lia|apply Z.pow_pos_nonneg; lia]).
  assert (Ex : B2R x = cond_Ropp sx (IZR ax * b)) by (apply B2R_finite_scaled; lia).
  assert (Ey : B2R y = cond_Ropp sy (IZR ay * b)) by (apply B2R_finite_scaled; lia).
  pose proof (Z.mod_pos_bound ax ay Pay) as Hr.
  pose proof (trunc_core ax ay b sx sy (Z.lt_le_incl _ _ Pax) Pay Hb) as T.
  rewrite <- Ex, <- Ey in T.
  assert (Ay : Rabs (B2R y) = (IZR ay * b)%R).
  { rewrite Ey. destruct sy; cbn [cond_Ropp]; [rewrite Rabs_Ropp|]; apply Rabs_pos_eq;
      apply Rmult_le_pos; try lra; apply IZR_le; lia. }
  assert (Ax : Rabs (B2R x) = (IZR ax * b)%R).
  { rewrite Ex. destruct sx; cbn [cond_Ropp]; [rewrite Rabs_Ropp|]; apply Rabs_pos_eq;
      apply Rmult_le_pos; try lra; apply IZR_le; lia. }
  assert (Rlt_y : (IZR (ax mod ay) * b < IZR ay * b)%R).
  { apply Rmult_lt_compat_r; [exact Hb|apply IZR_lt; lia]. }
  change (F64.fmod x y) with
    (if ax mod ay =? 0 then B754_zero sx : f64 else F64.of_me (if sx then - (ax mod ay) else ax mod ay) e sx).
  destruct (ax mod ay =? 0) eqn:Z0.
  - apply Z.eqb_eq in Z0. rewrite Z0 in T. cbn [F64.is_finite is_finite B2R Bsign].
    split; [reflexivity|]. split; [|split; [|reflexivity]].
    + rewrite T. destruct sx; cbn [cond_Ropp]; ring.
    + rewrite Rabs_R0, Ay. apply Rmult_lt_0_compat; [apply IZR_lt; lia|exact Hb].
  - apply Z.eqb_neq in Z0.
    assert (Pr : 0 < ax mod ay) by lia.
    assert (R : F64.is_finite (F64.of_me (if sx then - (ax mod ay) else ax mod ay) e sx) = true /\
                B2R (F64.of_me (if sx then - (ax mod ay) else ax mod ay) e sx)
                  = cond_Ropp sx (IZR (ax mod ay) * bpow radix2 e) /\
                Bsign (F64.of_me (if sx then - (ax mod ay) else ax mod ay) e sx) = sx).
    { destruct (Z.le_ge_cases ex ey) as [L|L].
      - (* e = ex: bounded by |x| *)
        apply (fmod_repr sx (ax mod ay) e (B2R x)); try exact Pr.
        + intros E0. rewrite E0, Rabs_R0 in Ax. assert (0 < IZR ax * b)%R by (apply Rmult_lt_0_compat; [apply IZR_lt; lia|exact Hb]). lra.
        + rewrite Ax. apply Rmult_le_compat_r; [lra|]. apply IZR_le. apply Z.mod_le; lia.
        + replace e with ex by (unfold e; lia).
          pose proof (canonical_bounded 53 1024 sx mx ex Bx) as C. unfold canonical in C. cbn [Fexp] in C.
          change (B2R x) with (F2R (Float radix2 (cond_Zopp sx (Zpos mx)) ex)). rewrite <- C. apply Z.le_refl.
        + apply abs_B2R_lt_emax.
      - (* e = ey: bounded by |y| *)
        apply (fmod_repr sx (ax mod ay) e (B2R y)); try exact Pr.
        + intros E0. rewrite E0, Rabs_R0 in Ay. assert (0 < IZR ay * b)%R by (apply Rmult_lt_0_compat; [apply IZR_lt; lia|exact Hb]). lra.
        + rewrite Ay. fold b. lra.
        + replace e with ey by (unfold e; lia).
          pose proof (canonical_bounded 53 1024 sy my ey By) as C. unfold canonical in C. cbn [Fexp] in C.
          change (B2R y) with (F2R (Float radix2 (cond_Zopp sy (Zpos my)) ey)). rewrite <- C. apply Z.le_refl.
        + apply abs_B2R_lt_emax. }
    destruct R as (F & V & S). split; [exact F|]. split; [rewrite V, T; reflexivity|]. split; [|exact S].
    rewrite V, Ay. fold b. destruct sx; cbn [cond_Ropp]; [rewrite Rabs_Ropp|]; rewrite Rabs_pos_eq; try exact Rlt_y;
      apply Rmult_le_pos; try lra; apply IZR_le; lia.
Qed.

Lemma fmod_value x y : F64.is_finite x = true -> F64.is_finite y = true -> B2R y <> 0%R ->
  F64.is_finite (F64.fmod x y) = true /\
  B2R (F64.fmod x y) = (B2R x - IZR (Ztrunc (B2R x / B2R y)) * B2R y)%R /\
  (Rabs (B2R (F64.fmod x y)) < Rabs (B2R y))%R /\
  Bsign (F64.fmod x y) = Bsign x.
Proof.
  intros Fx Fy Ny.
  destruct y as [sy|sy| |sy my ey By]; try discriminate Fy; [exfalso; apply Ny; reflexivity|].
  destruct x as [sx|sx| |sx mx ex Bx]; try discriminate Fx.
  - cbn [F64.fmod F64.is_finite is_finite B2R Bsign]. split; [reflexivity|]. split; [|split; [|reflexivity]].
    + unfold Rdiv. rewrite Rmult_0_l. rewrite (Ztrunc_IZR 0). ring.
    + rewrite Rabs_R0. apply Rabs_pos_lt. exact Ny.
  - apply (fmod_finite sx mx ex Bx sy my ey By).
Qed.

(* fmin / fmax as floats: the larger (smaller) argument, and the FIRST one when they
   compare equal -- in particular for +0 and -0 *)
Lemma fmax_select x y : F64.is_finite x = true -> F64.is_finite y = true ->
  ((B2R y <= B2R x)%R -> F64.fmax x y = x) /\ ((B2R x < B2R y)%R -> F64.fmax x y = y).
Proof.
  intros Fx Fy. unfold F64.fmax, F64.geb. rewrite leb_finite by assumption.
  replace (F64.is_nan y) with false by (destruct y; try reflexivity; discriminate).
  rewrite orb_false_r. destruct (Rle_bool_spec (B2R y) (B2R x)); split; intros; try reflexivity; lra.
Qed.
Lemma fmin_select x y : F64.is_finite x = true -> F64.is_finite y = true ->
  ((B2R x <= B2R y)%R -> F64.fmin x y = x) /\ ((B2R y < B2R x)%R -> F64.fmin x y = y).
Proof.
  intros Fx Fy. unfold F64.fmin. rewrite leb_finite by assumption.
  replace (F64.is_nan y) with false by (destruct y; try reflexivity; discriminate).
  rewrite orb_false_r. destruct (Rle_bool_spec (B2R x) (B2R y)); split; intros; try reflexivity; lra.
Qed.
Lemma floor_sign x : F64.is_finite x = true -> Bsign (F64.floor x) = Bsign x.
Proof.
  intros Fx. destruct (Bnearbyint_correct 53 1024 prec_lt_emax_53 mode_DN x) as (_ & H2 & H3).
  apply H3. fold (F64.floor x). destruct (F64.floor x) eqn:E; try reflexivity.
  unfold F64.floor in E. rewrite E in H2. cbn in H2. unfold F64.is_finite in Fx. congruence.
Qed.

(* ================================================================== *)
(* 4c. values and branches                                               *)

Lemma sub_small_finite x y : F64.is_finite x = true -> F64.is_finite y = true ->
  (Rabs (RN (B2R x - B2R y)) < bpow radix2 1024)%R ->
  F64.is_finite (F64.sub x y) = true /\ B2R (F64.sub x y) = RN (B2R x - B2R y).
Proof.
  intros Fx Fy Hs. pose proof (Bminus_correct 53 1024 prec_gt_0_53 prec_lt_emax_53 mode_NE x y Fx Fy) as H.
  rewrite Rlt_bool_true in H by exact Hs. destruct H as (V & F & _). split; [exact F|exact V].
Qed.

Lemma ife_test_real x y : F64.is_finite x = true -> F64.is_finite y = true ->
  (ife_test x y = true <-> (Rabs (RN (B2R x - B2R y)) < bpow radix2 (-51))%R).
Proof.
  intros Fx Fy. rewrite ife_branch_real by assumption. split; [intros (_ & H); exact H|].
  intros H. split; [|exact H]. apply sub_small_finite; try assumption.
  eapply Rlt_trans; [exact H|]. apply bpow_lt. lia.
Qed.

Section Branches.
Variable lm : libm.

Lemma ife_branch x y t e : F64.is_finite x = true -> F64.is_finite y = true ->
  run_body lm real_ife_body [VDouble x; VDouble y; t; e] = Val (if issmall (F64.sub x y) then t else e) /\
  fetched_body lm real_ife_body [VDouble x; VDouble y; t; e] =
    [0%nat; 1%nat; if issmall (F64.sub x y) then 2%nat else 3%nat] /\
  (issmall (F64.sub x y) = true <-> (Rabs (RN (B2R x - B2R y)) < bpow radix2 (-51))%R).
Proof.
  intros Fx Fy. unfold run_body. rewrite ife_run, ife_fetch.
  split; [reflexivity|split; [reflexivity|apply (ife_test_real x y Fx Fy)]].
Qed.

Lemma ifz_branch x t e :
  run_body lm real_ifz_body [VDouble x; t; e] = Val (if issmall x then t else e) /\
  fetched_body lm real_ifz_body [VDouble x; t; e] = [0%nat; if issmall x then 1%nat else 2%nat] /\
  (issmall x = true <-> F64.is_finite x = true /\ (Rabs (B2R x) < bpow radix2 (-51))%R).
Proof.
  unfold run_body. rewrite ifz_run, ifz_fetch. split; [reflexivity|split; [reflexivity|apply issmall_iff]].
Qed.

Lemma ifl_branch x y t e : F64.is_finite x = true -> F64.is_finite y = true ->
  run_body lm real_ifl_body [VDouble x; VDouble y; t; e] = Val (if F64.ltb x y then t else e) /\
  fetched_body lm real_ifl_body [VDouble x; VDouble y; t; e] =
    [0%nat; 1%nat; if F64.ltb x y then 2%nat else 3%nat] /\
  (F64.ltb x y = true <-> (B2R x < B2R y)%R).
Proof.
  intros Fx Fy. unfold run_body. rewrite ifl_run, ifl_fetch.
  split; [reflexivity|split; [reflexivity|apply (ifl_branch_real x y Fx Fy)]].
Qed.

Lemma ifb_branch x y z t e : F64.is_finite x = true -> F64.is_finite y = true -> F64.is_finite z = true ->
  run_body lm real_ifb_body [VDouble x; VDouble y; VDouble z; t; e] = Val (if ifb_outside x y z then e else t) /\
  fetched_body lm real_ifb_body [VDouble x; VDouble y; VDouble z; t; e] =
    [0%nat; 1%nat; 2%nat; if ifb_outside x y z then 4%nat else 3%nat] /\
  (ifb_outside x y z = false <-> (Rmin (B2R y) (B2R z) <= B2R x <= Rmax (B2R y) (B2R z))%R).
Proof.
  intros Fx Fy Fz. unfold run_body. rewrite ifb_run, ifb_fetch.
  split; [reflexivity|split; [reflexivity|apply (ifb_branch_real x y z Fx Fy Fz)]].
Qed.

(* what the bodies compute on two (one) doubles of ANY kind, NaN and
   infinities included: the binary64 operation, guarded *)
Lemma bodies_ieee x y :
  run_body lm real_add_body [VDouble x; VDouble y] = Val (guard (F64.add x y)) /\
  run_body lm real_sub_body [VDouble x; VDouble y] = Val (guard (F64.sub x y)) /\
  run_body lm real_mul_body [VDouble x; VDouble y] = Val (guard (F64.mul x y)) /\
  run_body lm real_div_body [VDouble x; VDouble y] = Val (guard (F64.div x y)) /\
  run_body lm real_idiv_body [VDouble x; VDouble y] = Val (guard (F64.floor (F64.div x y))) /\
  run_body lm real_mod_body [VDouble x; VDouble y] = Val (guard (F64.fmod x y)) /\
  run_body lm real_max_body [VDouble x; VDouble y] = Val (guard (F64.fmax x y)) /\
  run_body lm real_aq_body [VDouble x; VDouble y] =
    Val (guard (F64.div x (F64.sqrt (F64.add one (F64.mul y y))))) /\
  run_body lm real_gt_body [VDouble x; VDouble y] = Val (VInt (if F64.ltb y x then 1 else 0)) /\
  run_body lm real_lt_body [VDouble x; VDouble y] = Val (VInt (if F64.ltb x y then 1 else 0)) /\
  run_body lm real_abs_body [VDouble x] = Val (VDouble (F64.abs x)) /\
  run_body lm real_sqrt_body [VDouble x] = Val (if F64.ltb x zero then VVoid else VDouble (F64.sqrt x)) /\
  run_body lm real_ln_body [VDouble x] = Val (guard (l_log lm x)) /\
  run_body lm real_sin_body [VDouble x] = Val (VDouble (l_sin lm x)) /\
  run_body lm real_cos_body [VDouble x] = Val (VDouble (l_cos lm x)) /\
  run_body lm real_sigmoid_body [VDouble x] =
    Val (VDouble (if F64.leb zero x then F64.div one (F64.add one (l_exp lm (F64.neg x)))
                  else F64.div (l_exp lm x) (F64.add one (l_exp lm x)))).
Proof.
  unfold run_body.
  rewrite add_run, sub_run, mul_run, div_run, idiv_run, mod_run, max_run, aq_run, gt_run, lt_run,
          abs_run, sqrt_run, ln_run, sin_run, cos_run, sigmoid_run.
  repeat split; reflexivity.
Qed.
End Branches.

(* the binary64 operations on the reals, where the result is finite *)
Lemma ieee_values x y : F64.is_finite x = true -> F64.is_finite y = true ->
  (F64.is_finite (F64.add x y) = true -> B2R (F64.add x y) = RN (B2R x + B2R y)) /\
  (F64.is_finite (F64.sub x y) = true -> B2R (F64.sub x y) = RN (B2R x - B2R y)) /\
  (F64.is_finite (F64.mul x y) = true -> B2R (F64.mul x y) = RN (B2R x * B2R y)) /\
  (F64.is_finite (F64.div x y) = true -> B2R y <> 0%R /\ B2R (F64.div x y) = RN (B2R x / B2R y)) /\
  (F64.ltb x zero = false -> F64.is_finite (F64.sqrt x) = true /\ B2R (F64.sqrt x) = RN (sqrt (B2R x))) /\
  (F64.is_finite (F64.abs x) = true /\ B2R (F64.abs x) = Rabs (B2R x)) /\
  (F64.is_finite (F64.floor x) = true /\ B2R (F64.floor x) = IZR (Zfloor (B2R x)) /\
   Bsign (F64.floor x) = Bsign x) /\
  (F64.is_finite (F64.fmax x y) = true /\ B2R (F64.fmax x y) = Rmax (B2R x) (B2R y) /\
   ((B2R y <= B2R x)%R -> F64.fmax x y = x) /\ ((B2R x < B2R y)%R -> F64.fmax x y = y)) /\
  (F64.is_finite (F64.fmin x y) = true /\ B2R (F64.fmin x y) = Rmin (B2R x) (B2R y) /\
   ((B2R x <= B2R y)%R -> F64.fmin x y = x) /\ ((B2R y < B2R x)%R -> F64.fmin x y = y)) /\
  (B2R y <> 0%R ->
     F64.is_finite (F64.fmod x y) = true /\
     B2R (F64.fmod x y) = (B2R x - IZR (Ztrunc (B2R x / B2R y)) * B2R y)%R /\
     (Rabs (B2R (F64.fmod x y)) < Rabs (B2R y))%R /\
     Bsign (F64.fmod x y) = Bsign x) /\
  (B2R y = 0%R -> F64.is_finite (F64.fmod x y) = false).
Proof.
  intros Fx Fy.
  split; [intros; apply add_value; assumption|].
  split; [intros; apply sub_value; assumption|].
  split; [intros; apply mul_value; assumption|].
  split; [intros H; apply (div_value x y Fx Fy H)|].
  split; [intros H; split; [apply finite_sqrt; assumption|apply sqrt_value]|].
  split; [split; [rewrite finite_abs; exact Fx|apply abs_value]|].
  split; [split; [rewrite (proj2 (floor_value x)); exact Fx|split; [apply floor_value|apply floor_sign; exact Fx]]|].
  split; [split; [apply fmax_value; assumption|split; [apply fmax_value; assumption|apply fmax_select; assumption]]|].
  split; [split; [apply fmin_value; assumption|split; [apply fmin_value; assumption|apply fmin_select; assumption]]|].
  split; [intros Ny; apply fmod_value; assumption|].
  intros Zy. destruct (finite_B2R_zero y Fy Zy) as (s & ->).
  destruct x as [sx|sx| |sx mx ex Bx]; try discriminate Fx; reflexivity.
Qed.

(* ================================================================== *)
(* 5. the statements of Props/Properties_C13.v                          *)

Lemma arith_closed_all lm :
  closed_on lm real_add_body [rarg; rarg] rarg /\ closed_on lm real_sub_body [rarg; rarg] rarg /\
  closed_on lm real_mul_body [rarg; rarg] rarg /\ closed_on lm real_div_body [rarg; rarg] rarg /\
  closed_on lm real_idiv_body [rarg; rarg] rarg /\ closed_on lm real_mod_body [rarg; rarg] rarg /\
  closed_on lm real_max_body [rarg; rarg] rarg /\ closed_on lm real_aq_body [rarg; rarg] rarg.
Proof.
  repeat split; [apply add_closed|apply sub_closed|apply mul_closed|apply div_closed|apply idiv_closed
                |apply mod_closed|apply max_closed|apply aq_closed].
Qed.

Lemma compare_closed_all lm :
  closed_on lm real_gt_body [rarg; rarg] (fun v => v = VVoid \/ v = VInt 0 \/ v = VInt 1) /\
  closed_on lm real_lt_body [rarg; rarg] (fun v => v = VVoid \/ v = VInt 0 \/ v = VInt 1).
Proof. split; [apply gt_closed|apply lt_closed]. Qed.

Lemma constants_closed_all lm p : F64.is_finite p = true ->
  returns rarg (run_body_p lm real_real_body p) /\ returns rarg (run_body_p lm real_integer_body p).
Proof. intros. split; [apply real_closed|apply integer_closed]; assumption. Qed.

Lemma conditionals_closed_all lm (P : value -> Prop) : P VVoid ->
  closed_on lm real_ife_body [rarg; rarg; P; P] P /\ closed_on lm real_ifl_body [rarg; rarg; P; P] P /\
  closed_on lm real_ifz_body [rarg; P; P] P /\ closed_on lm real_ifb_body [rarg; rarg; rarg; P; P] P /\
  closed_on lm string_ife_body [anyv; anyv; P; P] P.
Proof.
  intros. repeat split; [apply ife_closed|apply ifl_closed|apply ifz_closed'|apply ifb_closed'|apply sife_closed'];
    assumption.
Qed.

Lemma strict_all lm :
  strict_on lm real_add_body 2 /\ strict_on lm real_sub_body 2 /\ strict_on lm real_mul_body 2 /\
  strict_on lm real_div_body 2 /\ strict_on lm real_idiv_body 2 /\ strict_on lm real_mod_body 2 /\
  strict_on lm real_max_body 2 /\ strict_on lm real_aq_body 2 /\ strict_on lm real_gt_body 2 /\
  strict_on lm real_lt_body 2 /\ strict_on lm real_abs_body 1 /\ strict_on lm real_cos_body 1 /\
  strict_on lm real_sin_body 1 /\ strict_on lm real_ln_body 1 /\ strict_on lm real_sqrt_body 1 /\
  strict_on lm real_sigmoid_body 1 /\ strict_on lm real_length_body 1 /\ strict_on lm real_ife_body 4 /\
  strict_on lm real_ifl_body 4 /\ strict_on lm real_ifz_body 3 /\ strict_on lm real_ifb_body 5 /\
  strict_on lm string_ife_body 4.
Proof.
  repeat split;
    [apply add_strict|apply sub_strict|apply mul_strict|apply div_strict|apply idiv_strict|apply mod_strict
    |apply max_strict|apply aq_strict|apply gt_strict|apply lt_strict|apply abs_strict|apply cos_strict
    |apply sin_strict|apply ln_strict|apply sqrt_strict|apply sigmoid_strict|apply length_strict'
    |apply ife_strict|apply ifl_strict|apply ifz_strict'|apply ifb_strict'|apply sife_strict'].
Qed.

Lemma unary_closed_all lm :
  closed_on lm real_abs_body [rarg] rarg /\ closed_on lm real_sqrt_body [rarg] rarg /\
  closed_on lm real_ln_body [rarg] rarg /\
  (sincos_finite lm -> closed_on lm real_sin_body [rarg] rarg /\ closed_on lm real_cos_body [rarg] rarg) /\
  (exp_unit lm -> closed_on lm real_sigmoid_body [rarg] rarg) /\
  closed_on lm real_length_body
    [(fun v => v = VVoid \/ exists s, v = VString s /\ Z.of_nat (length s) < 2 ^ 64)] rarg.
Proof.
  repeat split; [apply abs_closed|apply sqrt_closed|apply ln_closed|apply sin_closed; assumption
                |apply cos_closed; assumption|apply sigmoid_closed|apply length_closed].
Qed.
