(* C13: the translated real-valued primitives (Gen/Prims.v, regenerated from
   real.h and string.h) compute the documented functions of RealDefs.v on
   ALL argument values, and those functions are closed over
   finite-or-undefined values and strict in their fetched arguments. *)
From Coq Require Import ZArith List Bool Lia Reals Psatz.
From Flocq Require Import Core.
From Flocq Require Import IEEE754.BinarySingleNaN.
From VV Require Import Base.F64 Base.Values Interp.Strategy Cxx.CxxMini Gen.Prims Mep.Genome Prims.RealDefs.
Import ListNotations.
Local Open Scope Z_scope.

(* evaluate the C++ semantics of a body; binary64 operations, libm oracles and
   the things the specifications are stated with stay folded *)
Ltac crunch :=
  cbv -[Z.add Z.sub Z.mul Z.ltb Z.leb Z.eqb Z.quot Z.rem Z.div Z.modulo Z.opp Z.pow Z.max Z.min Z.of_nat length
        F64.of_Z F64.ltb F64.leb F64.eqb F64.gtb F64.geb F64.neb F64.add F64.sub F64.mul F64.div
        F64.is_zero F64.to_Z_trunc F64.of_bits F64.abs F64.neg F64.floor F64.sqrt F64.fmod
        F64.fmin F64.fmax F64.is_finite issmall l_log l_exp l_sin l_cos value_eqb].
Ltac split_if :=
  match goal with
  | |- context [if ?c then _ else _] =>
      lazymatch c with
      | context [if _ then _ else _] => fail
      | _ => destruct c eqn:?
      end
  end.
Ltac body :=
  intros; unfold run_body, fetched_body, run_body_p; repeat (crunch; split_if); crunch; try reflexivity.

(* ================================================================== *)
(* 1. what each translated body computes, for ALL argument values       *)
Section Spec.
Variable lm : libm.

(* ephemeral constants *)
Lemma real_run p : run_body_p lm real_real_body p = Val (VDouble p).
Proof. body. Qed.
Lemma integer_run p : run_body_p lm real_integer_body p = Val (VDouble p).
Proof. body. Qed.

(* unary *)
Lemma abs_run a0 : run_body lm real_abs_body [a0] = un_strict (fun x => VDouble (F64.abs x)) a0.
Proof. destruct a0; body. Qed.
Lemma cos_run a0 : run_body lm real_cos_body [a0] = un_strict (fun x => VDouble (l_cos lm x)) a0.
Proof. destruct a0; body. Qed.
Lemma sin_run a0 : run_body lm real_sin_body [a0] = un_strict (fun x => VDouble (l_sin lm x)) a0.
Proof. destruct a0; body. Qed.
Lemma ln_run a0 : run_body lm real_ln_body [a0] = un_strict (fun x => guard (l_log lm x)) a0.
Proof. destruct a0; body. Qed.
Lemma sqrt_run a0 : run_body lm real_sqrt_body [a0] = un_strict sqrt_val a0.
Proof. destruct a0; body. Qed.
Lemma sigmoid_run a0 : run_body lm real_sigmoid_body [a0] = un_strict (fun x => VDouble (sigmoid_op lm x)) a0.
Proof. destruct a0; body. Qed.
Lemma length_run a0 : run_body lm real_length_body [a0] = length_val a0.
Proof. destruct a0; body. Qed.

Lemma abs_fetch a0 : fetched_body lm real_abs_body [a0] = [0%nat].
Proof. destruct a0; body. Qed.
Lemma cos_fetch a0 : fetched_body lm real_cos_body [a0] = [0%nat].
Proof. destruct a0; body. Qed.
Lemma sin_fetch a0 : fetched_body lm real_sin_body [a0] = [0%nat].
Proof. destruct a0; body. Qed.
Lemma ln_fetch a0 : fetched_body lm real_ln_body [a0] = [0%nat].
Proof. destruct a0; body. Qed.
Lemma sqrt_fetch a0 : fetched_body lm real_sqrt_body [a0] = [0%nat].
Proof. destruct a0; body. Qed.
Lemma sigmoid_fetch a0 : fetched_body lm real_sigmoid_body [a0] = [0%nat].
Proof. destruct a0; body. Qed.
Lemma length_fetch a0 : fetched_body lm real_length_body [a0] = [0%nat].
Proof. destruct a0; body. Qed.

(* binary, guarded by isfinite *)
Lemma add_run a0 a1 : run_body lm real_add_body [a0; a1] = bin_strict (fun x y => guard (F64.add x y)) a0 a1.
Proof. destruct a0, a1; body. Qed.
Lemma sub_run a0 a1 : run_body lm real_sub_body [a0; a1] = bin_strict (fun x y => guard (F64.sub x y)) a0 a1.
Proof. destruct a0, a1; body. Qed.
Lemma mul_run a0 a1 : run_body lm real_mul_body [a0; a1] = bin_strict (fun x y => guard (F64.mul x y)) a0 a1.
Proof. destruct a0, a1; body. Qed.
Lemma div_run a0 a1 : run_body lm real_div_body [a0; a1] = bin_strict (fun x y => guard (F64.div x y)) a0 a1.
Proof. destruct a0, a1; body. Qed.
Lemma idiv_run a0 a1 : run_body lm real_idiv_body [a0; a1] = bin_strict (fun x y => guard (idiv_op x y)) a0 a1.
Proof. destruct a0, a1; body. Qed.
Lemma mod_run a0 a1 : run_body lm real_mod_body [a0; a1] = bin_strict (fun x y => guard (F64.fmod x y)) a0 a1.
Proof. destruct a0, a1; body. Qed.
Lemma max_run a0 a1 : run_body lm real_max_body [a0; a1] = bin_strict (fun x y => guard (F64.fmax x y)) a0 a1.
Proof. destruct a0, a1; body. Qed.
Lemma aq_run a0 a1 : run_body lm real_aq_body [a0; a1] = bin_strict (fun x y => guard (aq_op x y)) a0 a1.
Proof. destruct a0, a1; body. Qed.
(* comparisons: a bool converted to value_t is the int alternative *)
Lemma gt_run a0 a1 : run_body lm real_gt_body [a0; a1] = bin_strict (fun x y => b2i (F64.gtb x y)) a0 a1.
Proof. destruct a0, a1; body. Qed.
Lemma lt_run a0 a1 : run_body lm real_lt_body [a0; a1] = bin_strict (fun x y => b2i (F64.ltb x y)) a0 a1.
Proof. destruct a0, a1; body. Qed.

Lemma add_fetch a0 a1 : fetched_body lm real_add_body [a0; a1] = bin_fetched a0.
Proof. destruct a0, a1; body. Qed.
Lemma sub_fetch a0 a1 : fetched_body lm real_sub_body [a0; a1] = bin_fetched a0.
Proof. destruct a0, a1; body. Qed.
Lemma mul_fetch a0 a1 : fetched_body lm real_mul_body [a0; a1] = bin_fetched a0.
Proof. destruct a0, a1; body. Qed.
Lemma div_fetch a0 a1 : fetched_body lm real_div_body [a0; a1] = bin_fetched a0.
Proof. destruct a0, a1; body. Qed.
Lemma idiv_fetch a0 a1 : fetched_body lm real_idiv_body [a0; a1] = bin_fetched a0.
Proof. destruct a0, a1; body. Qed.
Lemma mod_fetch a0 a1 : fetched_body lm real_mod_body [a0; a1] = bin_fetched a0.
Proof. destruct a0, a1; body. Qed.
Lemma max_fetch a0 a1 : fetched_body lm real_max_body [a0; a1] = bin_fetched a0.
Proof. destruct a0, a1; body. Qed.
Lemma aq_fetch a0 a1 : fetched_body lm real_aq_body [a0; a1] = bin_fetched a0.
Proof. destruct a0, a1; body. Qed.
Lemma gt_fetch a0 a1 : fetched_body lm real_gt_body [a0; a1] = bin_fetched a0.
Proof. destruct a0, a1; body. Qed.
Lemma lt_fetch a0 a1 : fetched_body lm real_lt_body [a0; a1] = bin_fetched a0.
Proof. destruct a0, a1; body. Qed.

(* conditionals *)
Lemma ife_run a0 a1 a2 a3 : run_body lm real_ife_body [a0; a1; a2; a3] = if2_val ife_test a0 a1 a2 a3.
Proof. destruct a0, a1; body. Qed.
Lemma ife_fetch a0 a1 a2 a3 : fetched_body lm real_ife_body [a0; a1; a2; a3] = if2_fetched ife_test a0 a1.
Proof. destruct a0, a1; body. Qed.
Lemma ifl_run a0 a1 a2 a3 : run_body lm real_ifl_body [a0; a1; a2; a3] = if2_val ifl_test a0 a1 a2 a3.
Proof. destruct a0, a1; body. Qed.
Lemma ifl_fetch a0 a1 a2 a3 : fetched_body lm real_ifl_body [a0; a1; a2; a3] = if2_fetched ifl_test a0 a1.
Proof. destruct a0, a1; body. Qed.
Lemma ifz_run a0 a1 a2 : run_body lm real_ifz_body [a0; a1; a2] = ifz_val a0 a1 a2.
Proof. destruct a0; body. Qed.
Lemma ifz_fetch a0 a1 a2 : fetched_body lm real_ifz_body [a0; a1; a2] = ifz_fetched a0.
Proof. destruct a0; body. Qed.
Lemma ifb_run a0 a1 a2 a3 a4 : run_body lm real_ifb_body [a0; a1; a2; a3; a4] = ifb_val a0 a1 a2 a3 a4.
Proof. destruct a0, a1, a2; body. Qed.
Lemma ifb_fetch a0 a1 a2 a3 a4 : fetched_body lm real_ifb_body [a0; a1; a2; a3; a4] = ifb_fetched a0 a1 a2.
Proof. destruct a0, a1, a2; body. Qed.
Lemma sife_run a0 a1 a2 a3 : run_body lm string_ife_body [a0; a1; a2; a3] = sife_val a0 a1 a2 a3.
Proof. destruct a0, a1; body. Qed.
Lemma sife_fetch a0 a1 a2 a3 : fetched_body lm string_ife_body [a0; a1; a2; a3] = sife_fetched a0 a1.
Proof. destruct a0, a1; body. Qed.

End Spec.

(* ================================================================== *)
(* 2. the documented functions are closed and strict                    *)

Lemma rarg_cases v : rarg v -> v = VVoid \/ exists f, v = VDouble f /\ F64.is_finite f = true.
Proof. destruct v; unfold rarg; cbn; intros H; try discriminate; eauto. Qed.
Lemma rarg_fou v : rarg v -> fou v.
Proof. destruct v; unfold rarg, fou; cbn; congruence. Qed.
Lemma rarg_guard r : rarg (guard r).
Proof. unfold guard, rarg. destruct (F64.is_finite r) eqn:E; cbn; auto. Qed.
Lemma fou_guard r : fou (guard r).
Proof. apply rarg_fou, rarg_guard. Qed.
Lemma fou_b2i b : fou (b2i b).
Proof. reflexivity. Qed.

Lemma un_strict_closed (P : value -> Prop) f a0 :
  rarg a0 -> P VVoid -> (forall x, F64.is_finite x = true -> P (f x)) -> returns P (un_strict f a0).
Proof.
  intros H0 Hv Hf. destruct (rarg_cases _ H0) as [->|(x & -> & Fx)]; cbn; eexists; split; eauto.
Qed.

Lemma bin_strict_closed (P : value -> Prop) f a0 a1 :
  rarg a0 -> rarg a1 -> P VVoid ->
  (forall x y, F64.is_finite x = true -> F64.is_finite y = true -> P (f x y)) ->
  returns P (bin_strict f a0 a1).
Proof.
  intros H0 H1 Hv Hf.
  destruct (rarg_cases _ H0) as [->|(x & -> & Fx)], (rarg_cases _ H1) as [->|(y & -> & Fy)];
    cbn; eexists; split; eauto.
Qed.

(* strictness: whenever an argument that was fetched is undefined the result
   is undefined *)
Lemma un_strict_strict f a0 i :
  In i [0%nat] -> nth_error [a0] i = Some VVoid -> un_strict f a0 = Val VVoid.
Proof. intros [<-|[]]. cbn. intros [= ->]. reflexivity. Qed.

Lemma bin_strict_strict f a0 a1 i :
  In i (bin_fetched a0) -> nth_error [a0; a1] i = Some VVoid -> bin_strict f a0 a1 = Val VVoid.
Proof.
  unfold bin_fetched. destruct a0; cbn.
  - intros _ _. reflexivity.
  - intros [<-|[<-|[]]]; cbn; intros [= E]; try discriminate. subst. reflexivity.
  - intros [<-|[<-|[]]]; cbn; intros [= E]; try discriminate. subst. reflexivity.
  - intros [<-|[<-|[]]]; cbn; intros [= E]; try discriminate. subst. reflexivity.
Qed.

Lemma if2_strict t a0 a1 a2 a3 i :
  In i (if2_fetched t a0 a1) -> nth_error [a0; a1; a2; a3] i = Some VVoid -> if2_val t a0 a1 a2 a3 = Val VVoid.
Proof.
  unfold if2_fetched, if2_val, sel.
  destruct a0; [intros _ _; reflexivity| | |];
    (destruct a1; [intros _ _; reflexivity| | |]); cbn;
    try (intros [<-|[<-|[]]]; cbn; intros [= E]; discriminate).
  destruct (t f f0); intros [<-|[<-|[<-|[]]]]; cbn; intros [= E]; try discriminate; subst; reflexivity.
Qed.

Lemma ifz_strict a0 a1 a2 i :
  In i (ifz_fetched a0) -> nth_error [a0; a1; a2] i = Some VVoid -> ifz_val a0 a1 a2 = Val VVoid.
Proof.
  unfold ifz_fetched, ifz_val, sel. destruct a0; cbn.
  - intros _ _. reflexivity.
  - intros [<-|[]]; cbn; intros [= E]; discriminate.
  - destruct (issmall f); intros [<-|[<-|[]]]; cbn; intros [= E]; try discriminate; subst; reflexivity.
  - intros [<-|[]]; cbn; intros [= E]; discriminate.
Qed.

Lemma ifb_strict a0 a1 a2 a3 a4 i :
  In i (ifb_fetched a0 a1 a2) -> nth_error [a0; a1; a2; a3; a4] i = Some VVoid ->
  ifb_val a0 a1 a2 a3 a4 = Val VVoid.
Proof.
  unfold ifb_fetched, ifb_val, sel.
  destruct a0; [intros _ _; reflexivity| | |];
    (destruct a1; [intros _ _; reflexivity| | |]);
    (destruct a2; [intros _ _; reflexivity| | |]); cbn;
    try (intros [<-|[<-|[<-|[]]]]; cbn; intros [= E]; discriminate).
  destruct (ifb_outside f f0 f1); intros [<-|[<-|[<-|[<-|[]]]]]; cbn; intros [= E]; try discriminate; subst; reflexivity.
Qed.

Lemma sife_strict a0 a1 a2 a3 i :
  In i (sife_fetched a0 a1) -> nth_error [a0; a1; a2; a3] i = Some VVoid -> sife_val a0 a1 a2 a3 = Val VVoid.
Proof.
  unfold sife_fetched, sife_val, sel.
  destruct a0; [intros _ _; reflexivity| | |];
    (destruct a1; [intros _ _; reflexivity| | |]);
    match goal with |- context [value_eqb ?a ?b] => destruct (value_eqb a b) end;
    intros [<-|[<-|[<-|[]]]]; cbn; intros [= E]; try discriminate; subst; reflexivity.
Qed.

Lemma length_strict a0 i :
  In i [0%nat] -> nth_error [a0] i = Some VVoid -> length_val a0 = Val VVoid.
Proof. intros [<-|[]]. cbn. intros [= ->]. reflexivity. Qed.

(* conditionals return one of their branch arguments (or undefined) *)
Lemma if2_closed (P : value -> Prop) t a0 a1 a2 a3 :
  rarg a0 -> rarg a1 -> P VVoid -> P a2 -> P a3 -> returns P (if2_val t a0 a1 a2 a3).
Proof.
  intros H0 H1 Hv H2 H3.
  destruct (rarg_cases _ H0) as [->|(x & -> & Fx)], (rarg_cases _ H1) as [->|(y & -> & Fy)];
    cbn; eexists; split; eauto. unfold sel. destruct (t x y); assumption.
Qed.
Lemma ifz_closed (P : value -> Prop) a0 a1 a2 :
  rarg a0 -> P VVoid -> P a1 -> P a2 -> returns P (ifz_val a0 a1 a2).
Proof.
  intros H0 Hv H1 H2.
  destruct (rarg_cases _ H0) as [->|(x & -> & Fx)]; cbn; eexists; split; eauto.
  unfold sel. destruct (issmall x); assumption.
Qed.
Lemma ifb_closed (P : value -> Prop) a0 a1 a2 a3 a4 :
  rarg a0 -> rarg a1 -> rarg a2 -> P VVoid -> P a3 -> P a4 -> returns P (ifb_val a0 a1 a2 a3 a4).
Proof.
  intros H0 H1 H2 Hv H3 H4.
  destruct (rarg_cases _ H0) as [->|(x & -> & Fx)], (rarg_cases _ H1) as [->|(y & -> & Fy)],
           (rarg_cases _ H2) as [->|(z & -> & Fz)]; cbn; eexists; split; eauto.
  unfold sel. destruct (ifb_outside x y z); assumption.
Qed.
Lemma sife_closed (P : value -> Prop) a0 a1 a2 a3 :
  P VVoid -> P a2 -> P a3 -> returns P (sife_val a0 a1 a2 a3).
Proof.
  intros Hv H2 H3. unfold sife_val, sel.
  destruct a0; [eexists; split; eauto| | |];
    (destruct a1; [eexists; split; eauto| | |]);
    match goal with |- context [value_eqb ?a ?b] => destruct (value_eqb a b) end; eexists; split; eauto.
Qed.

(* ================================================================== *)
(* 3. binary64 facts (Flocq)                                            *)

Lemma finite_abs x : F64.is_finite (F64.abs x) = F64.is_finite x.
Proof. apply is_finite_Babs. Qed.

Lemma zero_bits : F64.of_bits 0 = B754_zero false.
Proof. reflexivity. Qed.

(* !isless(v, 0.0) on a finite v: v is a zero or positive, and then the IEEE
   square root is finite *)
Lemma finite_sqrt x :
  F64.is_finite x = true -> F64.ltb x (F64.of_bits 0) = false -> F64.is_finite (F64.sqrt x) = true.
Proof.
  intros Fx Hl. rewrite zero_bits in Hl.
  destruct (Bsqrt_correct 53 1024 prec_gt_0_53 prec_lt_emax_53 mode_NE x) as (_ & Hf & _).
  unfold F64.is_finite, F64.sqrt. rewrite Hf.
  destruct x as [s|s| |s m e B]; try reflexivity; try discriminate.
  destruct s; [|reflexivity]. discriminate Hl.
Qed.

Lemma rarg_sqrt_val x : F64.is_finite x = true -> rarg (sqrt_val x).
Proof.
  intros Fx. unfold sqrt_val. destruct (F64.ltb x (F64.of_bits 0)) eqn:E; [reflexivity|].
  unfold rarg; cbn. apply finite_sqrt; assumption.
Qed.

(* ================================================================== *)
(* 4. per-primitive contracts                                           *)

Ltac dom_args :=
  unfold closed_on; intros;
  repeat match goal with H : Forall2 _ _ _ |- _ => inversion H; clear H; subst end.
Ltac len_args :=
  unfold strict_on; intros lm args i Hlen Hin Hnth;
  repeat (destruct args as [|? args]; [discriminate Hlen|]);
  destruct args; [|discriminate Hlen]; clear Hlen.

Lemma returns_mono (P Q : value -> Prop) o : (forall v, P v -> Q v) -> returns P o -> returns Q o.
Proof. intros H (v & E & Pv). exists v. auto. Qed.

Section Closed.
Variable lm : libm.

(* ---- guarded binary operations: the guard alone closes them, the finiteness
   of the arguments is not even needed ---- *)
Lemma guarded_closed op a0 a1 : rarg a0 -> rarg a1 -> returns rarg (bin_strict (fun x y => guard (op x y)) a0 a1).
Proof. intros. apply bin_strict_closed; auto; [reflexivity|intros; apply rarg_guard]. Qed.

Lemma add_closed : closed_on lm real_add_body [rarg; rarg] rarg.
Proof. dom_args. rewrite add_run. apply guarded_closed; assumption. Qed.
Lemma sub_closed : closed_on lm real_sub_body [rarg; rarg] rarg.
Proof. dom_args. rewrite sub_run. apply guarded_closed; assumption. Qed.
Lemma mul_closed : closed_on lm real_mul_body [rarg; rarg] rarg.
Proof. dom_args. rewrite mul_run. apply guarded_closed; assumption. Qed.
Lemma div_closed : closed_on lm real_div_body [rarg; rarg] rarg.
Proof. dom_args. rewrite div_run. apply guarded_closed; assumption. Qed.
Lemma idiv_closed : closed_on lm real_idiv_body [rarg; rarg] rarg.
Proof. dom_args. rewrite idiv_run. apply (guarded_closed idiv_op); assumption. Qed.
Lemma mod_closed : closed_on lm real_mod_body [rarg; rarg] rarg.
Proof. dom_args. rewrite mod_run. apply guarded_closed; assumption. Qed.
Lemma max_closed : closed_on lm real_max_body [rarg; rarg] rarg.
Proof. dom_args. rewrite max_run. apply guarded_closed; assumption. Qed.
Lemma aq_closed : closed_on lm real_aq_body [rarg; rarg] rarg.
Proof. dom_args. rewrite aq_run. apply (guarded_closed aq_op); assumption. Qed.

(* ---- comparisons return 0 or 1 of the int alternative ---- *)
Definition is_bit (v : value) : Prop := v = VVoid \/ v = VInt 0 \/ v = VInt 1.
Lemma gt_closed : closed_on lm real_gt_body [rarg; rarg] is_bit.
Proof.
  dom_args. rewrite gt_run. apply bin_strict_closed; auto; [left; reflexivity|].
  intros u w _ _. unfold b2i, is_bit. destruct (F64.gtb u w); auto.
Qed.
Lemma lt_closed : closed_on lm real_lt_body [rarg; rarg] is_bit.
Proof.
  dom_args. rewrite lt_run. apply bin_strict_closed; auto; [left; reflexivity|].
  intros u w _ _. unfold b2i, is_bit. destruct (F64.ltb u w); auto.
Qed.

(* ---- unary ---- *)
Lemma abs_closed : closed_on lm real_abs_body [rarg] rarg.
Proof.
  dom_args. rewrite abs_run. apply un_strict_closed; auto; [reflexivity|].
  intros u Fx. unfold rarg; cbn. rewrite finite_abs. exact Fx.
Qed.
Lemma sqrt_closed : closed_on lm real_sqrt_body [rarg] rarg.
Proof.
  dom_args. rewrite sqrt_run. apply un_strict_closed; auto; [reflexivity|].
  intros u Fx. apply rarg_sqrt_val; exact Fx.
Qed.
Lemma ln_closed : closed_on lm real_ln_body [rarg] rarg.
Proof.
  dom_args. rewrite ln_run. apply un_strict_closed; auto; [reflexivity|].
  intros; apply rarg_guard.
Qed.

Section SinCos.
Hypothesis H_sincos : sincos_finite lm.
Lemma sin_closed : closed_on lm real_sin_body [rarg] rarg.
Proof.
  dom_args. rewrite sin_run. apply un_strict_closed; auto; [reflexivity|].
  intros u Fx. unfold rarg; cbn. apply H_sincos; exact Fx.
Qed.
Lemma cos_closed : closed_on lm real_cos_body [rarg] rarg.
Proof.
  dom_args. rewrite cos_run. apply un_strict_closed; auto; [reflexivity|].
  intros u Fx. unfold rarg; cbn. apply H_sincos; exact Fx.
Qed.
End SinCos.

(* ---- ephemeral constants ---- *)
Lemma real_closed p : F64.is_finite p = true -> returns rarg (run_body_p lm real_real_body p).
Proof. intros Fp. rewrite real_run. eexists; split; [reflexivity|exact Fp]. Qed.
Lemma integer_closed p : F64.is_finite p = true -> returns rarg (run_body_p lm real_integer_body p).
Proof. intros Fp. rewrite integer_run. eexists; split; [reflexivity|exact Fp]. Qed.

(* ---- conditionals: whatever property the two branch arguments (and the
   undefined value) have, the result has ---- *)
Lemma ife_closed (P : value -> Prop) : P VVoid -> closed_on lm real_ife_body [rarg; rarg; P; P] P.
Proof. intros Hv. dom_args. rewrite ife_run. apply if2_closed; assumption. Qed.
Lemma ifl_closed (P : value -> Prop) : P VVoid -> closed_on lm real_ifl_body [rarg; rarg; P; P] P.
Proof. intros Hv. dom_args. rewrite ifl_run. apply if2_closed; assumption. Qed.
Lemma ifz_closed' (P : value -> Prop) : P VVoid -> closed_on lm real_ifz_body [rarg; P; P] P.
Proof. intros Hv. dom_args. rewrite ifz_run. apply ifz_closed; assumption. Qed.
Lemma ifb_closed' (P : value -> Prop) : P VVoid -> closed_on lm real_ifb_body [rarg; rarg; rarg; P; P] P.
Proof. intros Hv. dom_args. rewrite ifb_run. apply ifb_closed; assumption. Qed.
Lemma sife_closed' (P : value -> Prop) : P VVoid -> closed_on lm string_ife_body [anyv; anyv; P; P] P.
Proof. intros Hv. dom_args. rewrite sife_run. apply sife_closed; assumption. Qed.

End Closed.

(* ---- strictness on fetched arguments, for arguments of ANY alternative ---- *)
Lemma add_strict lm : strict_on lm real_add_body 2.
Proof. revert lm. len_args. rewrite add_fetch in Hin. rewrite add_run. eapply bin_strict_strict; eassumption. Qed.
Lemma sub_strict lm : strict_on lm real_sub_body 2.
Proof. revert lm. len_args. rewrite sub_fetch in Hin. rewrite sub_run. eapply bin_strict_strict; eassumption. Qed.
Lemma mul_strict lm : strict_on lm real_mul_body 2.
Proof. revert lm. len_args. rewrite mul_fetch in Hin. rewrite mul_run. eapply bin_strict_strict; eassumption. Qed.
Lemma div_strict lm : strict_on lm real_div_body 2.
Proof. revert lm. len_args. rewrite div_fetch in Hin. rewrite div_run. eapply bin_strict_strict; eassumption. Qed.
Lemma idiv_strict lm : strict_on lm real_idiv_body 2.
Proof. revert lm. len_args. rewrite idiv_fetch in Hin. rewrite idiv_run. eapply bin_strict_strict; eassumption. Qed.
Lemma mod_strict lm : strict_on lm real_mod_body 2.
Proof. revert lm. len_args. rewrite mod_fetch in Hin. rewrite mod_run. eapply bin_strict_strict; eassumption. Qed.
Lemma max_strict lm : strict_on lm real_max_body 2.
Proof. revert lm. len_args. rewrite max_fetch in Hin. rewrite max_run. eapply bin_strict_strict; eassumption. Qed.
Lemma aq_strict lm : strict_on lm real_aq_body 2.
Proof. revert lm. len_args. rewrite aq_fetch in Hin. rewrite aq_run. eapply bin_strict_strict; eassumption. Qed.
Lemma gt_strict lm : strict_on lm real_gt_body 2.
Proof. revert lm. len_args. rewrite gt_fetch in Hin. rewrite gt_run. eapply bin_strict_strict; eassumption. Qed.
Lemma lt_strict lm : strict_on lm real_lt_body 2.
Proof. revert lm. len_args. rewrite lt_fetch in Hin. rewrite lt_run. eapply bin_strict_strict; eassumption. Qed.
Lemma abs_strict lm : strict_on lm real_abs_body 1.
Proof. revert lm. len_args. rewrite abs_fetch in Hin. rewrite abs_run. eapply un_strict_strict; eassumption. Qed.
Lemma cos_strict lm : strict_on lm real_cos_body 1.
Proof. revert lm. len_args. rewrite cos_fetch in Hin. rewrite cos_run. eapply un_strict_strict; eassumption. Qed.
Lemma sin_strict lm : strict_on lm real_sin_body 1.
Proof. revert lm. len_args. rewrite sin_fetch in Hin. rewrite sin_run. eapply un_strict_strict; eassumption. Qed.
Lemma ln_strict lm : strict_on lm real_ln_body 1.
Proof. revert lm. len_args. rewrite ln_fetch in Hin. rewrite ln_run. eapply un_strict_strict; eassumption. Qed.
Lemma sqrt_strict lm : strict_on lm real_sqrt_body 1.
Proof. revert lm. len_args. rewrite sqrt_fetch in Hin. rewrite sqrt_run. eapply un_strict_strict; eassumption. Qed.
Lemma sigmoid_strict lm : strict_on lm real_sigmoid_body 1.
Proof. revert lm. len_args. rewrite sigmoid_fetch in Hin. rewrite sigmoid_run. eapply un_strict_strict; eassumption. Qed.
Lemma length_strict' lm : strict_on lm real_length_body 1.
Proof. revert lm. len_args. rewrite length_fetch in Hin. rewrite length_run. eapply length_strict; eassumption. Qed.
Lemma ife_strict lm : strict_on lm real_ife_body 4.
Proof. revert lm. len_args. rewrite ife_fetch in Hin. rewrite ife_run. eapply if2_strict; eassumption. Qed.
Lemma ifl_strict lm : strict_on lm real_ifl_body 4.
Proof. revert lm. len_args. rewrite ifl_fetch in Hin. rewrite ifl_run. eapply if2_strict; eassumption. Qed.
Lemma ifz_strict' lm : strict_on lm real_ifz_body 3.
Proof. revert lm. len_args. rewrite ifz_fetch in Hin. rewrite ifz_run. eapply ifz_strict; eassumption. Qed.
Lemma ifb_strict' lm : strict_on lm real_ifb_body 5.
Proof. revert lm. len_args. rewrite ifb_fetch in Hin. rewrite ifb_run. eapply ifb_strict; eassumption. Qed.
Lemma sife_strict' lm : strict_on lm string_ife_body 4.
Proof. revert lm. len_args. rewrite sife_fetch in Hin. rewrite sife_run. eapply sife_strict; eassumption. Qed.

(* ================================================================== *)
(* 5. the statements of Props/Properties_C13.v                          *)

Lemma arith_closed_all lm :
  closed_on lm real_add_body [rarg; rarg] rarg /\ closed_on lm real_sub_body [rarg; rarg] rarg /\
  closed_on lm real_mul_body [rarg; rarg] rarg /\ closed_on lm real_div_body [rarg; rarg] rarg /\
  closed_on lm real_idiv_body [rarg; rarg] rarg /\ closed_on lm real_mod_body [rarg; rarg] rarg /\
  closed_on lm real_max_body [rarg; rarg] rarg /\ closed_on lm real_aq_body [rarg; rarg] rarg.
Proof.
  repeat split; [apply add_closed|apply sub_closed|apply mul_closed|apply div_closed|apply idiv_closed
                |apply mod_closed|apply max_closed|apply aq_closed].
Qed.

Lemma compare_closed_all lm :
  closed_on lm real_gt_body [rarg; rarg] (fun v => v = VVoid \/ v = VInt 0 \/ v = VInt 1) /\
  closed_on lm real_lt_body [rarg; rarg] (fun v => v = VVoid \/ v = VInt 0 \/ v = VInt 1).
Proof. split; [apply gt_closed|apply lt_closed]. Qed.

Lemma constants_closed_all lm p : F64.is_finite p = true ->
  returns rarg (run_body_p lm real_real_body p) /\ returns rarg (run_body_p lm real_integer_body p).
Proof. intros. split; [apply real_closed|apply integer_closed]; assumption. Qed.

Lemma conditionals_closed_all lm (P : value -> Prop) : P VVoid ->
  closed_on lm real_ife_body [rarg; rarg; P; P] P /\ closed_on lm real_ifl_body [rarg; rarg; P; P] P /\
  closed_on lm real_ifz_body [rarg; P; P] P /\ closed_on lm real_ifb_body [rarg; rarg; rarg; P; P] P /\
  closed_on lm string_ife_body [anyv; anyv; P; P] P.
Proof.
  intros. repeat split; [apply ife_closed|apply ifl_closed|apply ifz_closed'|apply ifb_closed'|apply sife_closed'];
    assumption.
Qed.

Lemma strict_all lm :
  strict_on lm real_add_body 2 /\ strict_on lm real_sub_body 2 /\ strict_on lm real_mul_body 2 /\
  strict_on lm real_div_body 2 /\ strict_on lm real_idiv_body 2 /\ strict_on lm real_mod_body 2 /\
  strict_on lm real_max_body 2 /\ strict_on lm real_aq_body 2 /\ strict_on lm real_gt_body 2 /\
  strict_on lm real_lt_body 2 /\ strict_on lm real_abs_body 1 /\ strict_on lm real_cos_body 1 /\
  strict_on lm real_sin_body 1 /\ strict_on lm real_ln_body 1 /\ strict_on lm real_sqrt_body 1 /\
  strict_on lm real_sigmoid_body 1 /\ strict_on lm real_length_body 1 /\ strict_on lm real_ife_body 4 /\
  strict_on lm real_ifl_body 4 /\ strict_on lm real_ifz_body 3 /\ strict_on lm real_ifb_body 5 /\
  strict_on lm string_ife_body 4.
Proof.
  repeat split;
    [apply add_strict|apply sub_strict|apply mul_strict|apply div_strict|apply idiv_strict|apply mod_strict
    |apply max_strict|apply aq_strict|apply gt_strict|apply lt_strict|apply abs_strict|apply cos_strict
    |apply sin_strict|apply ln_strict|apply sqrt_strict|apply sigmoid_strict|apply length_strict'
    |apply ife_strict|apply ifl_strict|apply ifz_strict'|apply ifb_strict'|apply sife_strict'].
Qed.
