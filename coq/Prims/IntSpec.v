(* Specification side of C14: what the integer primitives must compute.
   Definitions only. *)
From Coq Require Import ZArith List Bool.
From VV Require Import Base.F64 Base.Values Interp.Strategy Cxx.CxxMini.
Import ListNotations.
Local Open Scope Z_scope.

Definition is32 (z : Z) : Prop := i32_min <= z <= i32_max.
Definition is32b (z : Z) : bool := in_i32 z.

(* saturation at the nearer representable bound *)
Definition clamp (z : Z) : Z := Z.max i32_min (Z.min i32_max z).

Definition div_fallback (v0 v1 : Z) : bool := (v1 =? 0) || ((v0 =? i32_min) && (v1 =? -1)).
Definition div_spec (v0 v1 : Z) : Z := if div_fallback v0 v1 then v0 else Z.quot v0 v1.
Definition mod_spec (v0 v1 : Z) : Z := if div_fallback v0 v1 then v1 else Z.rem v0 v1.
Definition shl_fallback (v0 v1 : Z) : bool :=
  (v0 <? 0) || (v1 <? 0) || (32 <=? v1) || (i32_max <? v0 * 2 ^ v1).
Definition shl_spec (v0 v1 : Z) : Z := if shl_fallback v0 v1 then v0 else v0 * 2 ^ v1.

(* running a translated body on a list of argument values; the integer
   bodies use no libm function, so the record is irrelevant and quantified *)
Definition run_body (lm : libm) (b : list stmt) (args : list value) : outcome :=
  run_stub (strategy_of lm b) (args_stub args).
Definition fetched_body (lm : libm) (b : list stmt) (args : list value) : list nat :=
  fetched (strategy_of lm b) (args_stub args).

(* executable oracle used by the search for a failing input: the expected
   result of primitive number [k] of Gen.IntPrims order
   add div ife ifl ifz mod mul shl sub  on integer arguments *)
Inductive iprim := IAdd | IDiv | IIfe | IIfl | IIfz | IMod | IMul | IShl | ISub.
Definition int_oracle (p : iprim) (a : list Z) : option Z :=
  match p, a with
  | IAdd, [x; y] => Some (clamp (x + y))
  | ISub, [x; y] => Some (clamp (x - y))
  | IMul, [x; y] => Some (clamp (x * y))
  | IDiv, [x; y] => Some (div_spec x y)
  | IMod, [x; y] => Some (mod_spec x y)
  | IShl, [x; y] => Some (shl_spec x y)
  | IIfe, [x; y; t; e] => Some (if x =? y then t else e)
  | IIfl, [x; y; t; e] => Some (if x <? y then t else e)
  | IIfz, [x; t; e] => Some (if x =? 0 then t else e)
  | _, _ => None
  end.
