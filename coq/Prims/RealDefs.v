(* C13, definition side: what "finite or undefined" means, the documented
   behaviour of the real-valued primitives (real.h) and of str::ife
   (string.h) as closed-form functions on values, and an evaluator of
   expression trees (Mep/Genome.v [tree]) whose symbols carry strategies.
   Definitions only. *)
From Coq Require Import ZArith List Bool Reals.
From Flocq Require Import Core IEEE754.BinarySingleNaN.
From VV Require Import Base.F64 Base.Values Interp.Strategy Cxx.CxxMini Gen.Prims Mep.Genome.
Import ListNotations.
Local Open Scope Z_scope.

(* ------------------------------------------------------------------ *)
(* finite-or-undefined *)

(* a value of any alternative that is not a NaN / infinity *)
Definition foub (v : value) : bool :=
  match v with VDouble f => F64.is_finite f | _ => true end.
Definition fou (v : value) : Prop := foub v = true.

(* an argument of a real-valued primitive: undefined or a finite double *)
Definition rargb (v : value) : bool :=
  match v with VVoid => true | VDouble f => F64.is_finite f | _ => false end.
Definition rarg (v : value) : Prop := rargb v = true.

(* an outcome that is a value (no exception, no undefined behaviour) with
   the given property *)
Definition returns (P : value -> Prop) (o : outcome) : Prop :=
  exists v, o = Val v /\ P v.

(* running a translated body on argument values (the same shape as
   Prims/IntSpec.run_body) and, for the ephemeral constants, on the
   parameter stored in the gene *)
Definition arg_stub (sp : option f64) (sv : nat -> option value) (l : list value) : stub :=
  {| s_arg := fun i => nth_error l i; s_par := sp; s_var := sv |}.
(* [run_body_s]: with whatever parameter [sp] and input variables [sv] the interpreter provides *)
Definition run_body_s (lm : libm) (b : list stmt) (sp : option f64) (sv : nat -> option value)
           (args : list value) : outcome :=
  run_stub (strategy_of lm b) (arg_stub sp sv args).
Definition run_body (lm : libm) (b : list stmt) (args : list value) : outcome :=
  run_body_s lm b None (fun _ => None) args.
Definition fetched_body (lm : libm) (b : list stmt) (args : list value) : list nat :=
  fetched (strategy_of lm b) (args_stub args).
Definition par_stub (p : f64) (l : list value) : stub :=
  {| s_arg := fun i => nth_error l i; s_par := Some p; s_var := fun _ => None |}.
Definition run_body_p (lm : libm) (b : list stmt) (p : f64) : outcome :=
  run_body_s lm b (Some p) (fun _ => None) [].

(* round to nearest even into binary64 (no overflow), on the reals *)
Definition RN (r : R) : R := round radix2 (FLT_exp (-1074) 53) ZnearestE r.

(* the two contracts of the property, for a body [b]:
   closed_on: when the i-th argument satisfies the i-th predicate of [dom],
   the body returns a value (no exception, no undefined behaviour) in [P],
   whatever ephemeral parameter and input variables the interpreter holds;
   strict_on: with [n] arguments of ANY alternatives, if an argument that is
   actually fetched is undefined then the result is undefined. *)
Definition closed_on (lm : libm) (b : list stmt) (dom : list (value -> Prop)) (P : value -> Prop) : Prop :=
  forall sp sv args, Forall2 (fun d a => d a) dom args -> returns P (run_body_s lm b sp sv args).
Definition strict_on (lm : libm) (b : list stmt) (n : nat) : Prop :=
  forall args i, length args = n -> In i (fetched_body lm b args) ->
                 nth_error args i = Some VVoid -> run_body lm b args = Val VVoid.
Definition anyv (v : value) : Prop := True.

(* H_libm: the only facts assumed about the C library's transcendental
   functions (DESIGN section 6); [log] needs none, its result is guarded. *)
Definition zero : f64 := F64.of_bits 0.
Definition one : f64 := F64.of_bits 0x3FF0000000000000.
Definition sincos_finite (lm : libm) : Prop :=
  forall x, F64.is_finite x = true ->
            F64.is_finite (l_sin lm x) = true /\ F64.is_finite (l_cos lm x) = true.
Definition exp_unit (lm : libm) : Prop :=
  forall x, F64.is_finite x = true -> F64.leb x zero = true ->
            F64.leb zero (l_exp lm x) = true /\ F64.leb (l_exp lm x) one = true.

(* ------------------------------------------------------------------ *)
(* documented behaviour, as functions of the argument values.  They are
   total on ALL values: a defined argument of the wrong alternative makes
   std::get throw (outcome Throw), exactly where the C++ does. *)

Definition guard (r : f64) : value := if F64.is_finite r then VDouble r else VVoid.

(* one argument, strict *)
Definition un_strict (f : f64 -> value) (a0 : value) : outcome :=
  match a0 with
  | VVoid => Val VVoid
  | VDouble x => Val (f x)
  | _ => Throw
  end.

(* two arguments, strict, fetched left to right *)
Definition bin_strict (f : f64 -> f64 -> value) (a0 a1 : value) : outcome :=
  match a0 with
  | VVoid => Val VVoid
  | _ => match a1 with
         | VVoid => Val VVoid
         | _ => match a0, a1 with
                | VDouble x, VDouble y => Val (f x y)
                | _, _ => Throw
                end
         end
  end.
Definition bin_fetched (a0 : value) : list nat :=
  if has_value a0 then [0%nat; 1%nat] else [0%nat].

Definition b2i (b : bool) : value := VInt (if b then 1 else 0).

Definition aq_op (x y : f64) : f64 :=
  F64.div x (F64.sqrt (F64.add (F64.of_bits 0x3FF0000000000000) (F64.mul y y))).
Definition idiv_op (x y : f64) : f64 := F64.floor (F64.div x y).
Definition sqrt_val (x : f64) : value :=
  if F64.ltb x (F64.of_bits 0) then VVoid else VDouble (F64.sqrt x).

Section Libm.
Variable lm : libm.
Definition sigmoid_op (x : f64) : f64 :=
  if F64.geb x (F64.of_bits 0)
  then F64.div one (F64.add one (l_exp lm (F64.neg x)))
  else F64.div (l_exp lm x) (F64.add one (l_exp lm x)).
End Libm.

(* conditionals: value and the list of fetched arguments *)
Definition sel {A} (b : bool) (x y : A) : A := if b then x else y.

(* guard on two reals, branches 2 / 3 *)
Definition if2_val (test : f64 -> f64 -> bool) (a0 a1 a2 a3 : value) : outcome :=
  match a0 with
  | VVoid => Val VVoid
  | _ => match a1 with
         | VVoid => Val VVoid
         | _ => match a0, a1 with
                | VDouble x, VDouble y => Val (sel (test x y) a2 a3)
                | _, _ => Throw
                end
         end
  end.
Definition if2_fetched (test : f64 -> f64 -> bool) (a0 a1 : value) : list nat :=
  match a0 with
  | VVoid => [0%nat]
  | _ => match a1 with
         | VVoid => [0%nat; 1%nat]
         | _ => match a0, a1 with
                | VDouble x, VDouble y => [0%nat; 1%nat; sel (test x y) 2%nat 3%nat]
                | _, _ => [0%nat; 1%nat]
                end
         end
  end.

Definition ife_test (x y : f64) : bool := issmall (F64.sub x y).
Definition ifl_test (x y : f64) : bool := F64.ltb x y.

Definition ifz_val (a0 a1 a2 : value) : outcome :=
  match a0 with
  | VVoid => Val VVoid
  | VDouble x => Val (sel (issmall x) a1 a2)
  | _ => Throw
  end.
Definition ifz_fetched (a0 : value) : list nat :=
  match a0 with
  | VDouble x => [0%nat; sel (issmall x) 1%nat 2%nat]
  | _ => [0%nat]
  end.

(* ifb: outside [fmin(v1,v2), fmax(v1,v2)] -> argument 4, else argument 3 *)
Definition ifb_outside (x y z : f64) : bool :=
  F64.ltb x (F64.fmin y z) || F64.gtb x (F64.fmax y z).
Definition ifb_val (a0 a1 a2 a3 a4 : value) : outcome :=
  match a0 with
  | VVoid => Val VVoid
  | _ => match a1 with
         | VVoid => Val VVoid
         | _ => match a2 with
                | VVoid => Val VVoid
                | _ => match a0, a1, a2 with
                       | VDouble x, VDouble y, VDouble z => Val (sel (ifb_outside x y z) a4 a3)
                       | _, _, _ => Throw
                       end
                end
         end
  end.
Definition ifb_fetched (a0 a1 a2 : value) : list nat :=
  match a0 with
  | VVoid => [0%nat]
  | _ => match a1 with
         | VVoid => [0%nat; 1%nat]
         | _ => match a2 with
                | VVoid => [0%nat; 1%nat; 2%nat]
                | _ => match a0, a1, a2 with
                       | VDouble x, VDouble y, VDouble z =>
                           [0%nat; 1%nat; 2%nat; sel (ifb_outside x y z) 4%nat 3%nat]
                       | _, _, _ => [0%nat; 1%nat; 2%nat]
                       end
                end
         end
  end.

Definition length_val (a0 : value) : outcome :=
  match a0 with
  | VVoid => Val VVoid
  | VString s => Val (VDouble (F64.of_Z (Z.of_nat (length s))))
  | _ => Throw
  end.

(* str::ife compares the two variants with operator== *)
Definition sife_val (a0 a1 a2 a3 : value) : outcome :=
  match a0 with
  | VVoid => Val VVoid
  | _ => match a1 with
         | VVoid => Val VVoid
         | _ => Val (sel (value_eqb a0 a1) a2 a3)
         end
  end.
Definition sife_fetched (a0 a1 : value) : list nat :=
  match a0 with
  | VVoid => [0%nat]
  | _ => match a1 with
         | VVoid => [0%nat; 1%nat]
         | _ => [0%nat; 1%nat; sel (value_eqb a0 a1) 2%nat 3%nat]
         end
  end.

(* ------------------------------------------------------------------ *)
(* programs: expression trees whose nodes carry a symbol (with its
   strategy) and an ephemeral parameter.  [run_strat] answers the requests
   of a strategy from the outcomes of the children (an exception or undefined
   behaviour in a FETCHED child propagates; an unfetched child is irrelevant),
   the node's parameter and the input variables of the example. *)
Fixpoint run_strat (st : strategy) (par : f64) (kids : list outcome)
         (vars : nat -> option value) {struct st} : outcome :=
  match st with
  | Ret o => o
  | Fetch i k =>
      match nth_error kids i with
      | Some (Val v) => run_strat (k v) par kids vars
      | Some o => o
      | None => Stuck
      end
  | Param k => run_strat (k par) par kids vars
  | Var i k =>
      match vars i with
      | Some v => run_strat (k v) par kids vars
      | None => Stuck
      end
  end.

Fixpoint run_tree (vars : nat -> option value) (t : tree) {struct t} : outcome :=
  match t with
  | Node s par kids => run_strat (s_strat s) par (map (run_tree vars) kids) vars
  end.

Definition root_cat (t : tree) : nat := match t with Node s _ _ => s_cat s end.

(* typing of categories: vita keeps values of different alternatives in
   different categories; a category holds reals, truth values (int) or
   strings *)
Inductive kind := KReal | KInt | KStr.

(* a value a category of the given kind may hold in a run over finite data:
   undefined, or the right alternative; doubles finite; strings shorter than
   2^64 (size_t) *)
Definition goodb (k : kind) (v : value) : bool :=
  match v, k with
  | VVoid, _ => true
  | VDouble f, KReal => F64.is_finite f
  | VInt _, KInt => true
  | VString s, KStr => Z.of_nat (length s) <? 2 ^ 64
  | _, _ => false
  end.
Definition good (k : kind) (v : value) : Prop := goodb k v = true.

(* how a primitive uses categories:
   SArith n   n real arguments of the symbol's own category           (add, sin ...)
   SCmp       two real arguments, result in a truth-value category    (gt lt)
   SIf n      n real guard arguments, two branch arguments of the result category (ife ifl ifz ifb)
   SLen       one string argument, real result                        (length)
   SSife      two arguments of one category, two branches of the result category  (str::ife)
   STerm      no argument, the ephemeral parameter, real result       (real integer) *)
Inductive psig := SArith (n : nat) | SCmp | SIf (n : nat) | SLen | SSife | STerm.

Definition sig_okb (kc : nat -> kind) (sg : psig) (argcats : list nat) (cat : nat) : bool :=
  let isk k c := match kc c, k with KReal, KReal | KInt, KInt | KStr, KStr => true | _, _ => false end in
  match sg with
  | SArith n => isk KReal cat && Nat.eqb (length argcats) n && forallb (Nat.eqb cat) argcats
  | SCmp => match argcats with
            | [c0; c0'] => Nat.eqb c0 c0' && isk KReal c0 && isk KInt cat
            | _ => false
            end
  | SIf n => Nat.eqb (length argcats) (n + 2) &&
             forallb (fun c => isk KReal c) (firstn n argcats) &&
             forallb (Nat.eqb cat) (skipn n argcats)
  | SLen => match argcats with [c0] => isk KStr c0 && isk KReal cat | _ => false end
  | SSife => match argcats with
             | [c0; c0'; c1; c1'] => Nat.eqb c0 c0' && Nat.eqb c1 cat && Nat.eqb c1' cat
             | _ => false
             end
  | STerm => match argcats with [] => isk KReal cat | _ => false end
  end.

(* every primitive of real.h and string.h with the way it uses categories
   (the constructors of the classes: function("FADD", c[0], {c[0], c[0]}) ...) *)
Definition c13_table : list (list stmt * psig) :=
  [ (real_real_body, STerm); (real_integer_body, STerm);
    (real_abs_body, SArith 1); (real_add_body, SArith 2); (real_aq_body, SArith 2); (real_cos_body, SArith 1);
    (real_div_body, SArith 2); (real_gt_body, SCmp); (real_idiv_body, SArith 2); (real_ifb_body, SIf 3);
    (real_ife_body, SIf 2); (real_ifl_body, SIf 2); (real_ifz_body, SIf 1); (real_length_body, SLen);
    (real_ln_body, SArith 1); (real_lt_body, SCmp); (real_max_body, SArith 2); (real_mod_body, SArith 2);
    (real_mul_body, SArith 2); (real_sin_body, SArith 1); (real_sqrt_body, SArith 1); (real_sub_body, SArith 2);
    (real_sigmoid_body, SArith 1); (string_ife_body, SSife) ].

(* the symbols a program may use: a shipped primitive whose strategy is its
   translated body, an input variable bound to a good value of its category,
   or a constant that is a good value of its category *)
Definition sym_ok (lm : libm) (kc : nat -> kind) (vars : nat -> option value) (s : sym) : Prop :=
  (exists b sg, In (b, sg) c13_table /\ s_strat s = strategy_of lm b /\
                sig_okb kc sg (s_argcats s) (s_cat s) = true)
  \/ (s_argcats s = [] /\ exists i v, s_strat s = Var i (fun x => Ret (Val x)) /\
                                     vars i = Some v /\ good (kc (s_cat s)) v)
  \/ (s_argcats s = [] /\ exists v, s_strat s = Ret (Val v) /\ good (kc (s_cat s)) v).

(* a program: every node an admissible symbol with a finite ephemeral
   parameter, one child per argument, each child rooted in the category the
   argument requires *)
Fixpoint wt (lm : libm) (kc : nat -> kind) (vars : nat -> option value) (t : tree) {struct t} : Prop :=
  match t with
  | Node s par kids =>
      sym_ok lm kc vars s /\ F64.is_finite par = true /\ map root_cat kids = s_argcats s /\
      (fix all (l : list tree) : Prop :=
         match l with [] => True | k :: r => wt lm kc vars k /\ all r end) kids
  end.
