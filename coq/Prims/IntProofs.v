(* C14: the translated integer primitives are free of undefined behaviour on
   all 32-bit arguments and compute the documented results. *)
From Coq Require Import ZArith List Bool Lia ZifyBool.
From VV Require Import Base.F64 Base.Values Interp.Strategy Cxx.CxxMini Gen.Prims Prims.IntSpec.
Import ListNotations.
Local Open Scope Z_scope.

Ltac crunch :=
  cbv -[Z.add Z.sub Z.mul Z.ltb Z.leb Z.eqb Z.quot Z.rem Z.div Z.modulo Z.opp Z.pow Z.max Z.min
        andb orb negb
        F64.of_Z F64.ltb F64.leb F64.eqb F64.gtb F64.geb F64.neb F64.add F64.sub F64.mul F64.div
        F64.is_zero F64.to_Z_trunc F64.of_bits F64.abs F64.neg F64.floor F64.sqrt F64.fmod
        F64.fmin F64.fmax F64.is_finite].

Ltac is_lit z :=
  lazymatch z with
  | Z0 => idtac
  | Zpos ?p => let _ := eval cbv in (Pos.to_nat 1) in
               lazymatch p with context [?v] => tryif is_var v then fail else idtac end
  | Zneg ?p => lazymatch p with context [?v] => tryif is_var v then fail else idtac end
  end.

(* evaluate closed integer sub-terms left over by [crunch] *)
Ltac fold1 f :=
  match goal with
  | |- context [f ?a ?b] =>
      is_lit a; is_lit b;
      let v := eval cbv in (f a b) in change (f a b) with v
  end.
Ltac fold_consts :=
  repeat first [ fold1 Z.mul | fold1 Z.add | fold1 Z.sub | fold1 Z.modulo | fold1 Z.div
               | fold1 Z.leb | fold1 Z.ltb | fold1 Z.eqb | fold1 Z.pow
               | progress cbv beta iota
               | match goal with
                 | |- context [andb true ?b] => change (andb true b) with b
                 | |- context [Z.opp ?a] => is_lit a; let v := eval cbv in (Z.opp a) in change (Z.opp a) with v
                 end ].

Ltac split_ifs :=
  repeat (match goal with
    | |- context [if ?c then _ else _] => destruct c eqn:?
    end; try (exfalso; lia); cbv beta iota).

Ltac start :=
  unfold run_body, fetched_body, is32, clamp, div_spec, mod_spec, shl_spec, div_fallback, shl_fallback,
         i32_min, i32_max in *;
  intros.

Section IntPrims.
Variable lm : libm.

Lemma add_ok v0 v1 : is32 v0 -> is32 v1 ->
  run_body lm int_add_body [VInt v0; VInt v1] = Val (VInt (clamp (v0 + v1))).
Proof. start. crunch. split_ifs; f_equal; f_equal; lia. Qed.

Lemma sub_ok v0 v1 : is32 v0 -> is32 v1 ->
  run_body lm int_sub_body [VInt v0; VInt v1] = Val (VInt (clamp (v0 - v1))).
Proof. start. crunch. split_ifs; f_equal; f_equal; lia. Qed.

Lemma mul_ok v0 v1 : is32 v0 -> is32 v1 ->
  run_body lm int_mul_body [VInt v0; VInt v1] = Val (VInt (clamp (v0 * v1))).
Proof. start. crunch. split_ifs; f_equal; f_equal; nia. Qed.

Lemma quot_abs_le a b : b <> 0 -> Z.abs (Z.quot a b) <= Z.abs a.
Proof.
  intros Hb. rewrite <- Z.quot_abs by assumption.
  apply Z.quot_le_upper_bound; [lia|]. nia.
Qed.

Lemma quot_abs_half a b : b <> 0 -> Z.abs b <> 1 -> 2 * Z.abs (Z.quot a b) <= Z.abs a.
Proof.
  intros Hb H1. rewrite <- Z.quot_abs by assumption.
  assert (Hq : Z.abs a = Z.abs b * (Z.abs a ÷ Z.abs b) + Z.rem (Z.abs a) (Z.abs b)) by apply Z.quot_rem'.
  assert (0 <= Z.rem (Z.abs a) (Z.abs b)) by (apply Z.rem_nonneg; lia).
  assert (0 <= Z.abs a ÷ Z.abs b) by (apply Z.quot_pos; lia).
  nia.
Qed.

Lemma quot_bounds v0 v1 : -2147483648 <= v0 <= 2147483647 -> -2147483648 <= v1 <= 2147483647 ->
  v1 <> 0 -> ~ (v0 = -2147483648 /\ v1 = -1) -> -2147483648 <= Z.quot v0 v1 <= 2147483647.
Proof.
  intros H0 H1 Hz Hm.
  pose proof (quot_abs_le v0 v1 Hz) as Ha.
  destruct (Z.eq_dec v0 (-2147483648)) as [->|Hn]; [|lia].
  destruct (Z.eq_dec v1 1) as [->|H1']; [rewrite Z.quot_1_r; lia|].
  assert (Z.abs v1 <> 1) by lia.
  pose proof (quot_abs_half (-2147483648) v1 Hz H). lia.
Qed.

Lemma rem_bounds v0 v1 : -2147483648 <= v0 <= 2147483647 -> -2147483648 <= v1 <= 2147483647 ->
  v1 <> 0 -> -2147483648 <= Z.rem v0 v1 <= 2147483647.
Proof.
  intros H0 H1 Hz.
  pose proof (Z.rem_bound_abs v0 v1 Hz). lia.
Qed.

Lemma div_ok v0 v1 : is32 v0 -> is32 v1 ->
  run_body lm int_div_body [VInt v0; VInt v1] = Val (VInt (div_spec v0 v1)).
Proof.
  start. crunch.
  destruct (v1 =? 0) eqn:E0; cbv beta iota; [reflexivity|].
  destruct (v0 =? -2147483648) eqn:E1; cbv beta iota.
  - split_ifs; try reflexivity.
    pose proof (quot_bounds v0 v1). lia.
  - split_ifs; try reflexivity.
    pose proof (quot_bounds v0 v1). lia.
Qed.

Lemma mod_ok v0 v1 : is32 v0 -> is32 v1 ->
  run_body lm int_mod_body [VInt v0; VInt v1] = Val (VInt (mod_spec v0 v1)).
Proof.
  start. crunch.
  destruct (v1 =? 0) eqn:E0; cbv beta iota; [reflexivity|].
  destruct (v0 =? -2147483648) eqn:E1; cbv beta iota.
  - split_ifs; try reflexivity.
    pose proof (rem_bounds v0 v1). lia.
  - split_ifs; try reflexivity.
    pose proof (rem_bounds v0 v1). lia.
Qed.

Lemma small_cases v1 : 0 <= v1 < 32 ->
  v1 = 0 \/ v1 = 1 \/ v1 = 2 \/ v1 = 3 \/ v1 = 4 \/ v1 = 5 \/ v1 = 6 \/ v1 = 7 \/
  v1 = 8 \/ v1 = 9 \/ v1 = 10 \/ v1 = 11 \/ v1 = 12 \/ v1 = 13 \/ v1 = 14 \/ v1 = 15 \/
  v1 = 16 \/ v1 = 17 \/ v1 = 18 \/ v1 = 19 \/ v1 = 20 \/ v1 = 21 \/ v1 = 22 \/ v1 = 23 \/
  v1 = 24 \/ v1 = 25 \/ v1 = 26 \/ v1 = 27 \/ v1 = 28 \/ v1 = 29 \/ v1 = 30 \/ v1 = 31.
Proof. lia. Qed.

Lemma shl_ok v0 v1 : is32 v0 -> is32 v1 ->
  run_body lm int_shl_body [VInt v0; VInt v1] = Val (VInt (shl_spec v0 v1)).
Proof.
  start. crunch. fold_consts.
  destruct (v0 <? 0) eqn:E0; cbv beta iota; [reflexivity|].
  destruct (v1 <? 0) eqn:E1; cbv beta iota; [reflexivity|].
  destruct (32 <=? v1) eqn:E2; cbv beta iota.
  { rewrite ?orb_true_r. cbn. reflexivity. }
  assert (Hs : 0 <= v1 < 32) by lia.
  cbn [orb].
  destruct (small_cases v1 Hs) as
    [->|[->|[->|[->|[->|[->|[->|[->|[->|[->|[->|[->|[->|[->|[->|[->|
    [->|[->|[->|[->|[->|[->|[->|[->|[->|[->|[->|[->|[->|[->|[->| ->]]]]]]]]]]]]]]]]]]]]]]]]]]]]]]];
    fold_consts; cbn [orb andb negb]; split_ifs; try reflexivity; try (f_equal; f_equal; lia).
Qed.

(* conditionals: the selected argument is returned untouched and only the
   selected one is fetched *)
Lemma ife_ok v0 v1 a2 a3 :
  run_body lm int_ife_body [VInt v0; VInt v1; a2; a3] = Val (if v0 =? v1 then a2 else a3).
Proof. start. crunch. destruct (v0 =? v1); reflexivity. Qed.
Lemma ife_fetched v0 v1 a2 a3 :
  fetched_body lm int_ife_body [VInt v0; VInt v1; a2; a3] = [0%nat; 1%nat; if v0 =? v1 then 2%nat else 3%nat].
Proof. start. crunch. destruct (v0 =? v1); reflexivity. Qed.
Lemma ifl_ok v0 v1 a2 a3 :
  run_body lm int_ifl_body [VInt v0; VInt v1; a2; a3] = Val (if v0 <? v1 then a2 else a3).
Proof. start. crunch. destruct (v0 <? v1); reflexivity. Qed.
Lemma ifl_fetched v0 v1 a2 a3 :
  fetched_body lm int_ifl_body [VInt v0; VInt v1; a2; a3] = [0%nat; 1%nat; if v0 <? v1 then 2%nat else 3%nat].
Proof. start. crunch. destruct (v0 <? v1); reflexivity. Qed.
Lemma ifz_ok v0 a1 a2 :
  run_body lm int_ifz_body [VInt v0; a1; a2] = Val (if v0 =? 0 then a1 else a2).
Proof. start. crunch. destruct (v0 =? 0); reflexivity. Qed.
Lemma ifz_fetched v0 a1 a2 :
  fetched_body lm int_ifz_body [VInt v0; a1; a2] = [0%nat; if v0 =? 0 then 1%nat else 2%nat].
Proof. start. crunch. destruct (v0 =? 0); reflexivity. Qed.

(* readable corollaries *)
Lemma clamp_exact z : is32 z -> clamp z = z.
Proof. unfold is32, clamp, i32_min, i32_max. lia. Qed.
Lemma clamp_hi z : i32_max < z -> clamp z = i32_max.
Proof. unfold clamp, i32_min, i32_max. lia. Qed.
Lemma clamp_lo z : z < i32_min -> clamp z = i32_min.
Proof. unfold clamp, i32_min, i32_max. lia. Qed.
Lemma clamp_is32 z : is32 (clamp z).
Proof. unfold is32, clamp, i32_min, i32_max. lia. Qed.

Lemma shl_exact_iff_representable v0 v1 : is32 v0 -> is32 v1 -> 0 <= v0 -> 0 <= v1 < 32 ->
  (shl_spec v0 v1 = v0 * 2 ^ v1 <-> (is32 (v0 * 2 ^ v1) \/ v0 * 2 ^ v1 = v0)).
Proof.
  unfold shl_spec, shl_fallback, is32, i32_min, i32_max. intros H0 H1 Hp Hs.
  assert (0 < 2 ^ v1) by (apply Z.pow_pos_nonneg; lia).
  destruct (v0 <? 0) eqn:?; [lia|].
  destruct (v1 <? 0) eqn:?; [lia|].
  destruct (32 <=? v1) eqn:?; [lia|].
  cbn [orb].
  destruct (2147483647 <? v0 * 2 ^ v1) eqn:?; split; intros; try nia; try lia.
Qed.

End IntPrims.

(* the ephemeral integer constant: static_cast<int>(fetch_param()) is defined
   (no out-of-range conversion) exactly when the truncated parameter fits *)
Section IntNumber.
Variable lm : libm.
Definition par_stub (p : f64) : stub :=
  {| s_arg := fun _ => None; s_par := Some p; s_var := fun _ => None |}.
Lemma number_ok p z : F64.to_Z_trunc p = Some z -> is32 z ->
  run_stub (strategy_of lm int_number_body) (par_stub p) = Val (VInt z).
Proof.
  unfold is32, i32_min, i32_max. intros Hp Hz.
  cbv -[F64.to_Z_trunc Z.leb andb]. rewrite Hp.
  cbv -[Z.leb andb].
  destruct ((-2147483648 <=? z) && (z <=? 2147483647)) eqn:E; [reflexivity|exfalso; lia].
Qed.
Lemma number_out_of_range_stuck p z : F64.to_Z_trunc p = Some z -> ~ is32 z ->
  run_stub (strategy_of lm int_number_body) (par_stub p) = Stuck.
Proof.
  unfold is32, i32_min, i32_max. intros Hp Hz.
  cbv -[F64.to_Z_trunc Z.leb andb]. rewrite Hp.
  cbv -[Z.leb andb].
  destruct ((-2147483648 <=? z) && (z <=? 2147483647)) eqn:E; [exfalso; lia|reflexivity].
Qed.
End IntNumber.
