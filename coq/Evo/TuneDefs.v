(* C06 -- model of parameter tuning (definitions only).

   Mirrors  environment::init / environment::is_valid  (kernel/environment.cc),
   std_es::shape / basic_alps_es::shape (kernel/evolution_strategy.tcc),
   search::tune_parameters (kernel/search.tcc),
   basic_ga_search::tune_parameters (kernel/ga/search.tcc) and
   src_search::tune_parameters (kernel/gp/src/search.tcc).

   Probabilities are kept in thousandths (p_mutation = -1.0 is -1000).
   The two libm-dependent quantities of src_search, static_cast<unsigned>(log(n))
   and static_cast<unsigned>(pow(log2(n), 3)), are parameters of the model. *)
From Coq Require Import ZArith List Bool.
Import ListNotations.
Local Open Scope Z_scope.
Set Implicit Arguments.

Record tenv := mkTenv {
  code_length : Z;
  patch_length : Z;
  elitism : option bool;            (* trilean: None = unknown *)
  p_mutation : Z;
  p_cross : Z;
  brood : Z;
  layers : Z;
  individuals : Z;
  min_individuals : Z;
  tournament : Z;
  mate_zone : Z;
  generations : Z;
  max_stuck_time : option Z;        (* facultative *)
  dss : option Z;
  validation : option Z;
  age_gap : Z;
  p_same_layer : Z;
  team_individuals : Z
}.

Definition uint_max : Z := 4294967295.

(* environment() followed by init() *)
Definition env_init : tenv :=
  mkTenv 100 1 (Some true) 40 900 1 1 100 2 5 20 100 (Some uint_max) (Some 1) (Some 20) 20 750 3.

(* the default-constructed environment: everything open except the three
   parameters that tune_parameters never touches *)
Definition env_blank : tenv :=
  mkTenv 0 0 None (-1000) (-1000) 0 0 0 0 0 0 0 None None None 20 750 3.

Inductive tstrat := TStd | TAlps | TDe.
Inductive validator := VAsIs | VDss | VHoldout.
Inductive skind :=
| KSearch (s : tstrat)                     (* search<T, ES> *)
| KGa (s : tstrat)                         (* basic_ga_search: ga_search (std), de_search (de) *)
| KSrc (s : tstrat) (v : validator) (rows : Z).   (* src_search with `rows` training examples *)

Definition set_layers (e : tenv) (l : Z) : tenv :=
  mkTenv (code_length e) (patch_length e) (elitism e) (p_mutation e) (p_cross e) (brood e) l (individuals e)
         (min_individuals e) (tournament e) (mate_zone e) (generations e) (max_stuck_time e) (dss e) (validation e)
         (age_gap e) (p_same_layer e) (team_individuals e).
Definition set_individuals (e : tenv) (n : Z) : tenv :=
  mkTenv (code_length e) (patch_length e) (elitism e) (p_mutation e) (p_cross e) (brood e) (layers e) n
         (min_individuals e) (tournament e) (mate_zone e) (generations e) (max_stuck_time e) (dss e) (validation e)
         (age_gap e) (p_same_layer e) (team_individuals e).
Definition set_min_individuals (e : tenv) (n : Z) : tenv :=
  mkTenv (code_length e) (patch_length e) (elitism e) (p_mutation e) (p_cross e) (brood e) (layers e) (individuals e)
         n (tournament e) (mate_zone e) (generations e) (max_stuck_time e) (dss e) (validation e)
         (age_gap e) (p_same_layer e) (team_individuals e).
Definition set_dss (e : tenv) (d : option Z) : tenv :=
  mkTenv (code_length e) (patch_length e) (elitism e) (p_mutation e) (p_cross e) (brood e) (layers e) (individuals e)
         (min_individuals e) (tournament e) (mate_zone e) (generations e) (max_stuck_time e) d (validation e)
         (age_gap e) (p_same_layer e) (team_individuals e).
Definition set_validation (e : tenv) (d : option Z) : tenv :=
  mkTenv (code_length e) (patch_length e) (elitism e) (p_mutation e) (p_cross e) (brood e) (layers e) (individuals e)
         (min_individuals e) (tournament e) (mate_zone e) (generations e) (max_stuck_time e) (dss e) d
         (age_gap e) (p_same_layer e) (team_individuals e).

(* ES<T>::shape(environment().init()) *)
Definition dflt_of (s : tstrat) : tenv :=
  match s with
  | TStd => set_layers env_init 1
  | TAlps => set_layers env_init 4
  | TDe => env_init
  end.

Definition strat_of (k : skind) : tstrat :=
  match k with KSearch s => s | KGa s => s | KSrc s _ _ => s end.

Definition dz (user dflt : Z) : Z := if user =? 0 then dflt else user.
Definition dneg (user dflt : Z) : Z := if user <? 0 then dflt else user.
Definition dopt {A} (user dflt : option A) : option A := match user with Some _ => user | None => dflt end.

(* search::tune_parameters; [terminals] = prob_.sset.terminals(0) *)
Definition tune_base (d : tenv) (terminals : Z) (e : tenv) : tenv :=
  mkTenv (dz (code_length e) (code_length d))
         (dz (patch_length e) (1 + terminals / 2))
         (dopt (elitism e) (elitism d))
         (dneg (p_mutation e) (p_mutation d))
         (dneg (p_cross e) (p_cross d))
         (dz (brood e) (brood d))
         (dz (layers e) (layers d))
         (dz (individuals e) (individuals d))
         (dz (min_individuals e) (min_individuals d))
         (dz (tournament e) (tournament d))
         (dz (mate_zone e) (mate_zone d))
         (dz (generations e) (generations d))
         (dopt (max_stuck_time e) (max_stuck_time d))
         (dss e) (validation e) (age_gap e) (p_same_layer e) (team_individuals e).

Section Tune.
(* static_cast<unsigned>(std::log(n)) and static_cast<unsigned>(std::pow(std::log2(n), 3)) *)
Variable ln_floor : Z -> Z.
Variable cube_log2 : Z -> Z.
(* value of the test  typeid(...) == typeid(dss) / typeid(holdout_validation)
   in src_search::tune_parameters, given the validation strategy in use.
   Pinned tree: typeid(this->vs_.get()) is the type of a pointer: never equal.
   Repaired tree: typeid( *this->vs_ ): equal exactly for that strategy. *)
Variable typeid_is : validator -> validator -> bool.

Definition tune_src_from (t0 d : tenv) (v : validator) (rows : Z) (e : tenv) : tenv :=
  let t1 := if layers e =? 0 then
              (if (1 <? layers d) && (8 <? rows) then set_layers t0 (ln_floor rows) else set_layers t0 (layers d))
            else t0 in
  let t2 := if individuals e =? 0 then
              let n := if 8 <? rows then 2 * cube_log2 rows / layers t1 else individuals d in
              set_individuals t1 (if n <? 4 then 4 else n)
            else t1 in
  let t3 := match dss e with
            | None => if typeid_is v VDss then set_dss t2 (dss d) else t2
            | Some _ => t2
            end in
  match validation e with
  | None => if typeid_is v VHoldout then set_validation t3 (validation d) else t3
  | Some _ => t3
  end.

Definition tune_src (d : tenv) (terminals : Z) (v : validator) (rows : Z) (e : tenv) : tenv :=
  tune_src_from (tune_base d terminals e) d v rows e.

(* environment::reconcile(user): the parameters the user left open are made
   consistent with the ones the user set; a user's value is never changed
   (repair of the finding tune_valid_size_conflict) *)
Definition reconcile (u t : tenv) : tenv :=
  let ind := if individuals u =? 0 then Z.max (Z.max (individuals t) (min_individuals u)) (tournament u)
             else individuals t in
  let mini := if min_individuals u =? 0 then Z.min (min_individuals t) ind else min_individuals t in
  let mate := if mate_zone u =? 0 then Z.max (mate_zone t) (tournament u) else mate_zone t in
  let tour := if tournament u =? 0 then Z.min (Z.min (tournament t) ind) mate else tournament t in
  let code := if code_length u =? 0 then Z.max (code_length t) (patch_length u + 1) else code_length t in
  let patch := if patch_length u =? 0 then Z.min (patch_length t) (code - 1) else patch_length t in
  mkTenv code patch (elitism t) (p_mutation t) (p_cross t) (brood t) (layers t) ind mini tour mate
         (generations t) (max_stuck_time t) (dss t) (validation t) (age_gap t) (p_same_layer t) (team_individuals t).

(* the tuning functions with the calls of reconcile (repaired tree) *)
Definition tune_rec (k : skind) (terminals : Z) (e : tenv) : tenv :=
  let d := dflt_of (strat_of k) in
  let t0 := reconcile e (tune_base d terminals e) in
  match k with
  | KSearch _ => t0
  | KGa _ => if min_individuals t0 <? 10 then set_min_individuals t0 (Z.min 10 (individuals t0)) else t0
  | KSrc _ v rows => reconcile e (tune_src_from t0 d v rows e)
  end.

Definition tune (k : skind) (terminals : Z) (e : tenv) : tenv :=
  let d := dflt_of (strat_of k) in
  match k with
  | KSearch _ => tune_base d terminals e
  | KGa _ => let t := tune_base d terminals e in
             if min_individuals t <? 10 then set_min_individuals t 10 else t
  | KSrc _ v rows => tune_src d terminals v rows e
  end.
End Tune.

Definition typeid_pinned (_ _ : validator) : bool := false.
Definition typeid_repaired (a b : validator) : bool :=
  match a, b with
  | VDss, VDss => true
  | VHoldout, VHoldout => true
  | VAsIs, VAsIs => true
  | _, _ => false
  end.

Definition is_some {A} (o : option A) : bool := match o with Some _ => true | None => false end.

(* the `force_defined` block of environment::is_valid *)
Definition all_defined (e : tenv) : bool :=
  negb (code_length e =? 0) && negb (patch_length e =? 0) && is_some (elitism e)
  && negb (p_mutation e <? 0) && negb (p_cross e <? 0) && negb (brood e =? 0) && negb (layers e =? 0)
  && negb (individuals e =? 0) && negb (min_individuals e =? 0) && negb (tournament e =? 0)
  && negb (mate_zone e =? 0) && negb (generations e =? 0) && is_some (max_stuck_time e)
  && negb (age_gap e =? 0) && negb (p_same_layer e <? 0) && negb (team_individuals e =? 0).

(* the range checks on single parameters *)
Definition ranges_ok (e : tenv) : bool :=
  negb (code_length e =? 1) && negb (1000 <? p_mutation e) && negb (1000 <? p_cross e)
  && match validation e with Some v => negb (100 <=? v) | None => true end
  && match dss e with Some v => negb (v =? 0) | None => true end
  && negb (1000 <? p_same_layer e) && negb (min_individuals e =? 1).

(* the checks relating two parameters (each one only when both are defined) *)
Definition sizes_ok (e : tenv) : bool :=
  negb (negb (code_length e =? 0) && negb (patch_length e =? 0) && (code_length e <=? patch_length e))
  && negb (negb (individuals e =? 0) && negb (min_individuals e =? 0) && (individuals e <? min_individuals e))
  && negb (negb (individuals e =? 0) && negb (tournament e =? 0) && (individuals e <? tournament e))
  && negb (negb (mate_zone e =? 0) && negb (tournament e =? 0) && (mate_zone e <? tournament e)).

(* environment::is_valid(force_defined), without the file-name checks *)
Definition is_valid (force_defined : bool) (e : tenv) : bool :=
  (negb force_defined || all_defined e) && ranges_ok e && sizes_ok e.

(* what the validation strategy in use needs *)
Definition strategy_needs_ok (k : skind) (e : tenv) : bool :=
  match k with
  | KSrc _ VDss _ => is_some (dss e)
  | KSrc _ VHoldout _ => is_some (validation e)
  | _ => true
  end.

(* "every parameter the user left open has a value" *)
Definition filled (k : skind) (e : tenv) : bool := all_defined e && strategy_needs_ok k e.

(* the user's values are non-negative where the type is unsigned *)
Definition user_wf (e : tenv) : bool :=
  (0 <=? code_length e) && (0 <=? patch_length e) && (0 <=? brood e) && (0 <=? layers e) && (0 <=? individuals e)
  && (0 <=? min_individuals e) && (0 <=? tournament e) && (0 <=? mate_zone e) && (0 <=? generations e)
  && (0 <? age_gap e) && (0 <=? p_same_layer e) && (0 <? team_individuals e).

(* "the user's own settings are kept, apart from strategy-imposed minimums" *)
Definition zkept (user tuned : Z) : bool := (user =? 0) || (tuned =? user).
Definition nkept (user tuned : Z) : bool := (user <? 0) || (tuned =? user).
Definition okept {A} (eqb : A -> A -> bool) (user tuned : option A) : bool :=
  match user, tuned with
  | Some u, Some t => eqb u t
  | Some _, None => false
  | None, _ => true
  end.

Definition kept_other (e t : tenv) : bool :=
  zkept (code_length e) (code_length t) && zkept (patch_length e) (patch_length t)
  && okept Bool.eqb (elitism e) (elitism t) && nkept (p_mutation e) (p_mutation t) && nkept (p_cross e) (p_cross t)
  && zkept (brood e) (brood t) && zkept (layers e) (layers t) && zkept (individuals e) (individuals t)
  && zkept (tournament e) (tournament t) && zkept (mate_zone e) (mate_zone t) && zkept (generations e) (generations t)
  && okept Z.eqb (max_stuck_time e) (max_stuck_time t) && okept Z.eqb (dss e) (dss t)
  && okept Z.eqb (validation e) (validation t)
  && (age_gap t =? age_gap e) && (p_same_layer t =? p_same_layer e) && (team_individuals t =? team_individuals e).

(* min_individuals: basic_ga_search imposes a minimum of 10 *)
Definition kept_min (k : skind) (e t : tenv) : bool :=
  match k with
  | KGa _ => (min_individuals e =? 0) || (min_individuals t =? Z.max (min_individuals e) 10)
             || (min_individuals t =? Z.min 10 (individuals t))
  | _ => zkept (min_individuals e) (min_individuals t)
  end.

Definition kept (k : skind) (e t : tenv) : bool := kept_other e t && kept_min k e t.
