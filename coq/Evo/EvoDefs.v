(* C06 -- executable model of one evolutionary run (definitions only).

   Mirrors, function by function,
     kernel/random.cc                   ring
     kernel/population.tcc              pickup, add_layer, remove_layer, set_allowed, add_to_layer, init_layer, inc_age
     kernel/alps.cc                     allowed_age, max_age
     kernel/evolution_selection.tcc     tournament::run, random::run, alps::pickup/aged/run
     kernel/evolution_recombination.tcc base::run, de::run  (only what is observable: which parents, age of the child)
     kernel/evolution_replacement.tcc   tournament::run, alps::try_add_to_layer / try_move_up_layer / run
     kernel/evolution_strategy.tcc      basic_alps_es::after_generation
     kernel/evolution.tcc               evolution::run (initial summary, shake, generation counter)

   The model is relational at the level of observable events: an event carries
   the random draws of the step (in source order) and the things the model does
   not look into (the offspring's identity and fitness, freshly created
   individuals, the statistics-based decisions of after_generation).
   [step_ok e s ev] re-executes the step from these data and answers [None]
   when the code could not have done it.  Individuals are abstracted to
   (uid, age, fitness); the fitness type [F] and its comparison [flt]
   (fitness_t::operator<) are Section parameters. *)
From Coq Require Import ZArith List Bool Arith.
Import ListNotations.
Local Open Scope Z_scope.
Set Implicit Arguments.

(* ---------------------------------------------------------------- ring *)
Definition two32 : Z := 4294967296.

(* unsigned ring(unsigned base, unsigned width, unsigned n), [v] is the value
   returned by the single call of random::between *)
Definition ring (base width n v : Z) : Z :=
  if n <=? width then v
  else (((base + n - width / 2) mod two32 + v) mod two32) mod n.

(* contract of that call of random::between(0u, sup) *)
Definition ring_draw_ok (width n v : Z) : bool :=
  (0 <=? v) && (v <? (if n <=? width then n else width)).

Fixpoint upd_nth {A : Type} (n : nat) (x : A) (l : list A) : list A :=
  match l, n with
  | [], _ => []
  | _ :: t, O => x :: t
  | h :: t, S k => h :: upd_nth k x t
  end.

Fixpoint remove_nth {A : Type} (n : nat) (l : list A) : list A :=
  match l, n with
  | [], _ => []
  | _ :: t, O => t
  | h :: t, S k => h :: remove_nth k t
  end.

Fixpoint take_n {A : Type} (n : nat) (l : list A) : option (list A * list A) :=
  match n with
  | O => Some ([], l)
  | S k => match l with
           | [] => None
           | h :: t => match take_n k t with
                       | Some (a, b) => Some (h :: a, b)
                       | None => None
                       end
           end
  end.

(* ------------------------------------------------- analyzer statistics *)
(* A statistic read from the analyzer (summary::az), as the bit patterns of its
   components: a fitness_t (mean / standard deviation / variance of the
   fitness) or a one-component double (mean age). *)
Definition stat := list Z.

(* the floating-point predicates the strategies apply to those statistics *)
Record stat_ops := mkOps {
  st_almost_equal : stat -> stat -> bool;   (* almost_equal(fitness_t, fitness_t) *)
  st_small : stat -> bool;                  (* issmall(fitness_t) *)
  st_gt : stat -> Z -> bool                 (* double > unsigned *)
}.

(* the fields of the analyzer that basic_alps_es::after_generation and
   std_es::stop_condition read, per layer (group) where indexed *)
Record stats := mkStats {
  fit_mean : list stat;      (* az.fit_dist(l).mean() *)
  fit_sd : list stat;        (* az.fit_dist(l).standard_deviation() *)
  age_mean : list stat;      (* az.age_dist(l).mean() *)
  fit_var : stat             (* az.fit_dist().variance() *)
}.

Section Evo.
Variable F : Type.
Variable flt : F -> F -> bool.          (* fitness_t::operator< *)
Variable ops : stat_ops.

Record ind := mkInd { uid : Z; age : Z; fit : F }.
Record layer := mkLayer { members : list ind; allowed : nat }.
Definition population := list layer.
Definition coord := (nat * nat)%type.   (* {layer, index} *)
Record summary := mkSum { best_sol : ind; best_fit : F; last_imp : Z; gen : Z }.
Record state := mkState { pop : population; sm : summary }.

Inductive strat := Std | De | Alps | DeAlps.
(* a probability parameter, as far as the contract of random::boolean
   distinguishes it: boolean(0) = false, boolean(1) = true *)
Inductive prob3 := P0 | Pmid | P1.

Record env := mkEnv {
  e_strat : strat;
  e_individuals : nat;
  e_min_individuals : nat;
  e_layers : nat;
  e_tournament : nat;
  e_mate_zone : Z;
  e_elitism : bool;
  e_age_gap : Z;
  e_p_same : prob3;
  e_p_cross : prob3;
  e_pmut0 : bool            (* p_mutation == 0 *)
}.

Definition is_alps (e : env) : bool :=
  match e_strat e with Alps | DeAlps => true | _ => false end.
Definition is_de (e : env) : bool :=
  match e_strat e with De | DeAlps => true | _ => false end.

(* ------------------------------------------------------- population *)
Definition get (p : population) (c : coord) : option ind :=
  match nth_error p (fst c) with
  | Some ly => nth_error (members ly) (snd c)
  | None => None
  end.

Definition valid_coord (p : population) (c : coord) : bool :=
  match get p c with Some _ => true | None => false end.

Definition set_ind (p : population) (c : coord) (x : ind) : population :=
  match nth_error p (fst c) with
  | Some ly => upd_nth (fst c) (mkLayer (upd_nth (snd c) x (members ly)) (allowed ly)) p
  | None => p
  end.

(* population::add_to_layer *)
Definition add_to_layer (p : population) (l : nat) (x : ind) : population :=
  match nth_error p l with
  | Some ly => if (length (members ly) <? allowed ly)%nat
               then upd_nth l (mkLayer (members ly ++ [x]) (allowed ly)) p
               else p
  | None => p
  end.

Definition pop_size (p : population) : nat :=
  fold_right (fun ly a => (length (members ly) + a)%nat) O p.

Definition inc_age_ind (x : ind) : ind := mkInd (uid x) (age x + 1) (fit x).
Definition inc_age (p : population) : population :=
  map (fun ly => mkLayer (map inc_age_ind (members ly)) (allowed ly)) p.

(* population::set_allowed(l, n) *)
Definition set_allowed (e : env) (p : population) (l n : nat) : population :=
  match nth_error p l with
  | Some ly =>
      let n' := Nat.max n (Nat.min (e_min_individuals e) (e_individuals e)) in
      upd_nth l (mkLayer (firstn n' (members ly)) n') p
  | None => p
  end.

(* ------------------------------------------------------------ alps.cc *)
Definition max_age (e : env) (l : nat) : Z :=
  match l with
  | O => e_age_gap e
  | S O => (e_age_gap e + e_age_gap e) mod two32
  | _ => (Z.of_nat l * Z.of_nat l * e_age_gap e) mod two32
  end.

Definition allowed_age (e : env) (l layers : nat) : Z :=
  if (S l =? layers)%nat then two32 - 1 else max_age e l.

Definition aged (e : env) (p : population) (c : coord) (x : ind) : bool :=
  allowed_age e (fst c) (length p) <? age x.

(* ------------------------------------------------------- selection *)
Definition fgt (a b : F) : bool := flt b a.           (* operator>  *)
Definition fge (a b : F) : bool := negb (flt a b).    (* operator>= *)

(* inner loop of the insertion sort of selection::tournament::run, on the
   REVERSED vector (worst first): shift while new_fitness > eva(ret[j-1]) *)
Fixpoint ins_rev (c : coord) (fc : F) (rr : list (coord * F)) : list (coord * F) :=
  match rr with
  | [] => [(c, fc)]
  | (x, fx) :: r => if fgt fc fx then (x, fx) :: ins_rev c fc r
                    else (c, fc) :: (x, fx) :: r
  end.

Fixpoint lookup_all (p : population) (cs : list coord) : option (list (coord * F)) :=
  match cs with
  | [] => Some []
  | c :: r => match get p c, lookup_all p r with
              | Some x, Some t => Some ((c, fit x) :: t)
              | _, _ => None
              end
  end.

(* coordinates picked by  pickup(pop, target)  for the draws [rs] *)
Definition ring_picks (e : env) (tgt : coord) (n : Z) (rs : list Z) : list coord :=
  map (fun v => (fst tgt, Z.to_nat (ring (Z.of_nat (snd tgt)) (e_mate_zone e) n v))) rs.

Definition sort_picks (cf : list (coord * F)) : list coord :=
  rev (map fst (fold_left (fun acc x => ins_rev (fst x) (snd x) acc) cf [])).

(* selection::tournament::run; [tgt] is the result of pickup(pop), [rs] the
   values of the [rounds] calls of random::between made by random::ring *)
Definition tournament_select (e : env) (p : population) (tgt : coord) (rs : list Z)
  : option (list coord) :=
  match nth_error p (fst tgt) with
  | None => None
  | Some ly =>
      let n := Z.of_nat (length (members ly)) in
      if negb (snd tgt <? length (members ly))%nat then None
      else if negb (length rs =? e_tournament e)%nat then None
      else if negb (forallb (ring_draw_ok (e_mate_zone e) n) rs) then None
      else match lookup_all p (ring_picks e tgt n rs) with
           | None => None
           | Some cf => Some (sort_picks cf)
           end
  end.

(* selection::random::run : [e_tournament] independent calls of pickup(pop) *)
Definition random_select (e : env) (p : population) (cs : list coord) : option (list coord) :=
  if (length cs =? e_tournament e)%nat && forallb (valid_coord p) cs then Some cs else None.

(* one call of selection::alps::pickup(l, pr): [same] is the value of
   random::boolean(pr) (drawn only when l > 0), [idx] of random::sup *)
Definition bool_draw_ok (pr : prob3) (b : bool) : bool :=
  match pr with P0 => negb b | P1 => b | Pmid => true end.

Definition alps_pickup (p : population) (l : nat) (pr : prob3) (pk : bool * nat) : option coord :=
  let (same, idx) := pk in
  let ol := match l with
            | O => if same then Some O else None          (* no boolean is drawn: canonical [true] *)
            | S k => if bool_draw_ok pr same then Some (if same then l else k) else None
            end in
  match ol with
  | None => None
  | Some l' => if valid_coord p (l', idx) then Some (l', idx) else None
  end.

(* std::pair<bool, fitness_t>::operator< *)
Definition af_lt (a b : bool * F) : bool :=
  (negb (fst a) && fst b) || (Bool.eqb (fst a) (fst b) && flt (snd a) (snd b)).

Definition age_fit (e : env) (p : population) (c : coord) : option (bool * F) :=
  match get p c with
  | Some x => Some (negb (aged e p c x), fit x)
  | None => None
  end.

Fixpoint alps_rounds (e : env) (p : population) (layer : nat)
         (c0 : coord) (af0 : bool * F) (c1 : coord) (af1 : bool * F)
         (pks : list (bool * nat)) : option (coord * coord) :=
  match pks with
  | [] => Some (c0, c1)
  | pk :: r =>
      match alps_pickup p layer (e_p_same e) pk with
      | None => None
      | Some tmp =>
          match age_fit e p tmp with
          | None => None
          | Some taf =>
              if af_lt af0 taf then alps_rounds e p layer tmp taf c0 af0 r
              else if af_lt af1 taf then alps_rounds e p layer c0 af0 tmp taf r
              else alps_rounds e p layer c0 af0 c1 af1 r
          end
      end
  end.

(* selection::alps::run *)
Definition alps_select (e : env) (p : population) (layer : nat)
           (pk0 pk1 : bool * nat) (pks : list (bool * nat)) : option (list coord) :=
  if negb (layer <? length p)%nat then None
  else if negb (length pks =? e_tournament e)%nat then None
  else
    match alps_pickup p layer P1 pk0, alps_pickup p layer P1 pk1 with
    | Some c0, Some c1 =>
        match age_fit e p c0, age_fit e p c1 with
        | Some af0, Some af1 =>
            let r := if af_lt af0 af1 then alps_rounds e p layer c1 af1 c0 af0 pks
                     else alps_rounds e p layer c0 af0 c1 af1 pks in
            match r with Some (a, b) => Some [a; b] | None => None end
        | _, _ => None
        end
    | _, _ => None
    end.

Inductive sel_draws :=
| SelTournament (tgt : coord) (rs : list Z)
| SelRandom (cs : list coord)
| SelAlps (layer : nat) (pk0 pk1 : bool * nat) (pks : list (bool * nat)).

Definition select (e : env) (p : population) (d : sel_draws) : option (list coord) :=
  match e_strat e, d with
  | Std, SelTournament tgt rs => tournament_select e p tgt rs
  | De, SelRandom cs => random_select e p cs
  | Alps, SelAlps l a b r => alps_select e p l a b r
  | DeAlps, SelAlps l a b r => alps_select e p l a b r
  | _, _ => None
  end.

(* --------------------------------------------------- recombination *)
(* what recombination::base::run did: crossover (boolean(p_cross) = true) or a
   mutated copy of parent 0 / parent 1 (second boolean) *)
Inductive okind := Cross | Copy1 | Copy2.

Inductive rec_draws :=
| RecBase (k : okind)
| RecDe (va vb : Z).       (* the two random::ring draws of pickup(pop, parent[0]) *)

Definition recombine (e : env) (p : population) (parents : list coord) (d : rec_draws) (o : ind)
  : option ind :=
  match parents with
  | r1 :: rest =>
      (* a one-element selection (tournament_size = 1): the individual plays both roles *)
      let r2 := match rest with r :: _ => r | [] => r1 end in
      match get p r1, get p r2 with
      | Some x1, Some x2 =>
          match is_de e, d with
          | false, RecBase Cross =>
              if bool_draw_ok (e_p_cross e) true && (age o =? Z.max (age x1) (age x2)) then Some o else None
          | false, RecBase Copy1 =>
              if bool_draw_ok (e_p_cross e) false && (age o =? age x1)
                 && (negb (e_pmut0 e) || (uid o =? uid x1)) then Some o else None
          | false, RecBase Copy2 =>
              if bool_draw_ok (e_p_cross e) false && (age o =? age x2)
                 && (negb (e_pmut0 e) || (uid o =? uid x2)) then Some o else None
          | true, RecDe va vb =>
              match nth_error p (fst r1) with
              | None => None
              | Some ly =>
                  let n := Z.of_nat (length (members ly)) in
                  if ring_draw_ok (e_mate_zone e) n va && ring_draw_ok (e_mate_zone e) n vb then
                    match ring_picks e r1 n [va; vb] with
                    | [ca; cb] =>
                        match get p ca, get p cb with
                        | Some xa, Some xb =>
                            if age o =? Z.max (Z.max (age x1) (age x2)) (Z.max (age xa) (age xb))
                            then Some o else None
                        | _, _ => None
                        end
                    | _ => None
                    end
                  else None
              end
          | _, _ => None
          end
      | _, _ => None
      end
  | [] => None
  end.

(* ----------------------------------------------------- replacement *)
Definition update_best (s : summary) (o : ind) : summary :=
  if fgt (fit o) (best_fit s) then mkSum o (fit o) (gen s) (gen s) else s.

(* replacement::tournament::run *)
Definition repl_tournament (e : env) (s : state) (parents : list coord) (o : ind) : option state :=
  match parents with
  | [] => None
  | _ =>
      let rep_idx := last parents (O, O) in
      match get (pop s) rep_idx with
      | None => None
      | Some x =>
          let replace := flt (fit x) (fit o) in
          let p' := if negb (e_elitism e) || replace then set_ind (pop s) rep_idx o else pop s in
          Some (mkState p' (update_best (sm s) o))
      end
  end.

(* the "kill tournament" of try_add_to_layer: is c_x worse than c_worst? *)
Definition worse (m_age : Z) (x w : ind) : bool :=
  ((age w <? age x) && (m_age <? age x))
  || ((age w <=? m_age) && (age x <=? m_age) && flt (fit x) (fit w)).

Fixpoint kill_tournament (ms : list ind) (m_age : Z) (cw : nat) (w : ind) (ds : list nat)
  : option (nat * ind) :=
  match ds with
  | [] => Some (cw, w)
  | d :: r => match nth_error ms d with
              | None => None
              | Some x => if worse m_age x w then kill_tournament ms m_age d x r
                          else kill_tournament ms m_age cw w r
              end
  end.

(* replacement::alps::try_add_to_layer; [ds] are the values of the
   random::sup calls in source order; the rest is handed back.
   Recursion on layer + 1: fuel = number of layers still above *)
Fixpoint try_add (fuel : nat) (e : env) (p : population) (layer : nat) (inc : ind) (ds : list nat)
  : option (population * bool * list nat) :=
  match fuel with
  | O => None
  | S fuel' =>
      match nth_error p layer with
      | None => None
      | Some ly =>
          if (length (members ly) <? allowed ly)%nat then Some (add_to_layer p layer inc, true, ds)
          else
            let m_age := allowed_age e layer (length p) in
            match take_n (S (e_tournament e)) ds with
            | None => None
            | Some (kd, ds1) =>
                match kd with
                | [] => None
                | d0 :: kr =>
                    match nth_error (members ly) d0 with
                    | None => None
                    | Some w0 =>
                        match kill_tournament (members ly) m_age d0 w0 kr with
                        | None => None
                        | Some (cw, w) =>
                            if ((age inc <=? m_age) && (m_age <? age w))
                               || (((age inc <=? m_age) || (m_age <? age w)) && fge (fit inc) (fit w))
                            then
                              if (S layer <? length p)%nat then
                                match try_add fuel' e p (S layer) w ds1 with
                                | None => None
                                | Some (p1, _, ds2) => Some (set_ind p1 (layer, cw) inc, true, ds2)
                                end
                              else Some (set_ind p (layer, cw) inc, true, ds1)
                            else Some (p, false, ds1)
                        end
                    end
                end
            end
      end
  end.

(* replacement::alps::run *)
Definition repl_alps (e : env) (s : state) (parents : list coord) (o : ind) (ds : list nat)
  : option state :=
  match parents with
  | p0 :: p1 :: _ =>
      let p := pop s in
      let layer := Nat.max (fst p0) (fst p1) in
      match try_add (length p) e p layer o ds with
      | None => None
      | Some (pa, ins, ds1) =>
          if fgt (fit o) (best_fit (sm s)) then
            if negb ins && e_elitism e then
              match try_add (length pa) e pa (length pa - 1) o ds1 with
              | Some (pb, _, []) => Some (mkState pb (update_best (sm s) o))
              | _ => None
              end
            else match ds1 with
                 | [] => Some (mkState pa (update_best (sm s) o))
                 | _ => None
                 end
          else match ds1 with
               | [] => Some (mkState pa (sm s))
               | _ => None
               end
      end
  | _ => None
  end.

Definition replace (e : env) (s : state) (parents : list coord) (o : ind) (ds : list nat) : option state :=
  if is_alps e then repl_alps e s parents o ds
  else match ds with [] => repl_tournament e s parents o | _ => None end.

(* ------------------------------------------------- after_generation *)
(* the loop  for (l = layers - 1; l; --l)
               if (almost_equal(az.fit_dist(l - 1).mean(), az.fit_dist(l).mean())) remove_layer(l);
   [l] is the loop variable; the statistics keep the indices of the
   generation's start *)
Fixpoint removal_loop (means : list stat) (p : population) (l : nat) : option population :=
  match l with
  | O => Some p
  | S k =>
      match nth_error means k, nth_error means l with
      | Some a, Some b =>
          removal_loop means (if st_almost_equal ops a b then remove_nth l p else p) k
      | _, _ => None
      end
  end.

(* issmall(az.fit_dist(l).standard_deviation()) for l = from .. from+n-1 *)
Fixpoint small_flags (sds : list stat) (from n : nat) : option (list bool) :=
  match n with
  | O => Some []
  | S k => match nth_error sds from, small_flags sds (S from) k with
           | Some sd, Some r => Some (st_small ops sd :: r)
           | _, _ => None
           end
  end.

(* the loop over l = 1 .. layers-1 calling set_allowed; [bs] tells for each
   layer whether issmall(standard deviation) held *)
Fixpoint resize_layers (e : env) (p : population) (l : nat) (bs : list bool) : population :=
  match bs with
  | [] => p
  | b :: r =>
      let p' := match nth_error p l with
                | Some ly =>
                    if b then set_allowed e p l (Nat.max (e_min_individuals e) (length (members ly) / 2))
                    else set_allowed e p l (e_individuals e)
                | None => p
                end in
      resize_layers e p' (S l) r
  end.

(* replacement::alps::try_move_up_layer(0), individuals [xs] of layer 0 *)
Fixpoint move_up (e : env) (p : population) (xs : list ind) (ds : list nat)
  : option (population * list nat) :=
  match xs with
  | [] => Some (p, ds)
  | x :: r => match try_add (length p) e p 1 x ds with
              | None => None
              | Some (p', _, ds') => move_up e p' r ds'
              end
  end.

(* what the end of a generation is given: the analyzer of the generation's
   start, the values of the random::sup calls of try_move_up_layer, and the
   individuals created by add_layer / init_layer *)
Record aftergen := mkAg { ag_stats : stats; ag_draws : list nat; ag_news : list ind }.

Definition fresh (xs : list ind) : bool := forallb (fun x => age x =? 0) xs.

(* layers < env.layers || az.age_dist(layers - 1).mean() > env.alps.max_age(layers) *)
Definition add_layer_decision (e : env) (st : stats) (layers : nat) : option bool :=
  if (layers <? e_layers e)%nat then Some true
  else match nth_error (age_mean st) (layers - 1) with
       | Some m => Some (st_gt ops m (max_age e layers))
       | None => None
       end.

(* basic_alps_es::after_generation *)
Definition after_generation_alps (e : env) (s : state) (a : aftergen) : option population :=
  let p0 := inc_age (pop s) in
  match removal_loop (fit_mean (ag_stats a)) p0 (length p0 - 1) with
  | None => None
  | Some p1 =>
      match small_flags (fit_sd (ag_stats a)) 1 (length p1 - 1) with
      | None => None
      | Some bs =>
          let p2 := resize_layers e p1 1 bs in
          let g := gen (sm s) in
          if negb (0 <? e_age_gap e) then None
          else if (0 <? g) && (g mod e_age_gap e =? 0) then
            match add_layer_decision e (ag_stats a) (length p2) with
            | None => None
            | Some true =>                                          (* population::add_layer *)
                if (length (ag_news a) =? e_individuals e)%nat && fresh (ag_news a)
                then Some (mkLayer (ag_news a) (e_individuals e) :: p2) else None
            | Some false =>                                         (* try_move_up_layer(0); init_layer(0) *)
                match p2 with
                | [] => None
                | l0 :: _ =>
                    let moved := if (1 <? length p2)%nat then move_up e p2 (members l0) (ag_draws a)
                                 else Some (p2, ag_draws a) in
                    match moved with
                    | None => None
                    | Some (p3, _) =>
                        match p3 with
                        | [] => None
                        | l0' :: rest =>
                            if (length (ag_news a) =? allowed l0')%nat && fresh (ag_news a)
                            then Some (mkLayer (ag_news a) (allowed l0') :: rest) else None
                        end
                    end
                end
            end
          else Some p2
      end
  end.

(* std_es::stop_condition:
   sum->gen - sum->last_imp > *env.max_stuck_time && issmall(sum->az.fit_dist().variance()) *)
Definition std_stop_condition (max_stuck : Z) (s : summary) (st : stats) : bool :=
  (max_stuck <? gen s - last_imp s) && st_small ops (fit_var st).

(* ---------------------------------------------------------- events *)
Inductive event :=
| EStep (sd : sel_draws) (rd : rec_draws) (o : ind) (ds : list nat)   (* one iteration of the inner loop *)
| EAfterGen (a : aftergen)      (* es_.after_generation(); ++gen *)
| EShake (bf : F) (fits : list (list F)).   (* shake(gen) returned true: every fitness is re-evaluated *)

Fixpoint refit_members (xs : list ind) (fs : list F) : option (list ind) :=
  match xs, fs with
  | [], [] => Some []
  | x :: xr, f :: fr => match refit_members xr fr with
                        | Some t => Some (mkInd (uid x) (age x) f :: t)
                        | None => None
                        end
  | _, _ => None
  end.

Fixpoint refit (p : population) (fs : list (list F)) : option population :=
  match p, fs with
  | [], [] => Some []
  | ly :: pr, f :: fr => match refit_members (members ly) f, refit pr fr with
                         | Some m, Some t => Some (mkLayer m (allowed ly) :: t)
                         | _, _ => None
                         end
  | _, _ => None
  end.

Definition next_gen (s : summary) : summary := mkSum (best_sol s) (best_fit s) (last_imp s) (gen s + 1).

Definition step_ok (e : env) (s : state) (ev : event) : option state :=
  match ev with
  | EStep sd rd o ds =>
      match select e (pop s) sd with
      | None => None
      | Some parents =>
          match recombine e (pop s) parents rd o with
          | None => None
          | Some o' => replace e s parents o' ds
          end
      end
  | EAfterGen a =>
      if is_alps e then
        match after_generation_alps e s a with
        | Some p => Some (mkState p (next_gen (sm s)))
        | None => None
        end
      else Some (mkState (pop s) (next_gen (sm s)))      (* evolution_strategy::after_generation: nothing *)
  | EShake bf fits =>
      match refit (pop s) fits with
      | Some p => let b := best_sol (sm s) in
                  Some (mkState p (mkSum (mkInd (uid b) (age b) bf) bf (last_imp (sm s)) (gen (sm s))))
      | None => None
      end
  end.

Fixpoint run (e : env) (s : state) (evs : list event) : option state :=
  match evs with
  | [] => Some s
  | ev :: r => match step_ok e s ev with
               | Some s' => run e s' r
               | None => None
               end
  end.

(* the selection of one step, for the theorems about parents *)
Definition parents_of (e : env) (s : state) (ev : event) : option (list coord) :=
  match ev with
  | EStep sd _ _ _ => select e (pop s) sd
  | _ => None
  end.

(* population::population(problem) + the first three lines of evolution::run *)
Definition init_state (e : env) (xs : list ind) : option state :=
  match xs with
  | [] => None
  | x0 :: _ =>
      if (length xs =? e_individuals e)%nat
      then Some (mkState [mkLayer xs (e_individuals e)] (mkSum x0 (fit x0) 0 0))
      else None
  end.

(* ------------------------------------------- boolean invariants (oracle) *)
Definition layer_bound_b (p : population) : bool :=
  forallb (fun ly => (length (members ly) <=? allowed ly)%nat) p.

Definition layers_nonempty_b (p : population) : bool :=
  negb (length p =? 0)%nat && forallb (fun ly => negb (length (members ly) =? 0)%nat) p.

Definition size_constant_b (e : env) (p : population) : bool :=
  if is_alps e then true else (length p =? 1)%nat && (pop_size p =? e_individuals e)%nat.

Definition summary_b (s : summary) : bool :=
  (last_imp s <=? gen s) && negb (flt (best_fit s) (fit (best_sol s))) && negb (flt (fit (best_sol s)) (best_fit s)).

Definition inv_b (e : env) (s : state) : bool :=
  layer_bound_b (pop s) && layers_nonempty_b (pop s) && size_constant_b e (pop s) && summary_b (sm s).

(* best-so-far does not decrease from s to s' *)
Definition best_monotone_b (s s' : state) : bool := negb (flt (best_fit (sm s')) (best_fit (sm s))).

Definition all_members (p : population) : list ind := flat_map members p.

(* every member of p is matched by a member of p' that is not worse *)
Definition keeps_max_b (p p' : population) : bool :=
  forallb (fun x => existsb (fun y => negb (flt (fit y) (fit x))) (all_members p')) (all_members p).

(* non-increasing fitness along the parents vector *)
Fixpoint sorted_desc_b (fs : list F) : bool :=
  match fs with
  | [] => true
  | a :: r => forallb (fun b => negb (flt a b)) r && sorted_desc_b r
  end.

(* c lies in the mating zone of tgt: same layer, and index = tgt + d (mod n)
   for some -width/2 <= d < width - width/2 (any index when width >= n) *)
Definition in_zone_b (width n : Z) (tgt c : coord) : bool :=
  (fst c =? fst tgt)%nat && (Z.of_nat (snd c) <? n) &&
  ((n <=? width) ||
   ((Z.of_nat (snd c) - Z.of_nat (snd tgt) + width / 2) mod n <? width)).

Definition parents_exist_b (p : population) (cs : list coord) : bool := forallb (valid_coord p) cs.

Definition fits_of (p : population) (cs : list coord) : list F :=
  flat_map (fun c => match get p c with Some x => [fit x] | None => [] end) cs.

Definition tournament_parents_b (e : env) (p : population) (tgt : coord) (cs : list coord) : bool :=
  match nth_error p (fst tgt) with
  | None => false
  | Some ly =>
      (length cs =? e_tournament e)%nat && parents_exist_b p cs &&
      forallb (in_zone_b (e_mate_zone e) (Z.of_nat (length (members ly))) tgt) cs &&
      sorted_desc_b (fits_of p cs)
  end.

Definition alps_parents_b (p : population) (layer : nat) (cs : list coord) : bool :=
  (length cs =? 2)%nat && parents_exist_b p cs &&
  forallb (fun c => (fst c =? layer)%nat || (S (fst c) =? layer)%nat) cs.

End Evo.
