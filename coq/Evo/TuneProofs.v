(* C06 -- lemmas about parameter tuning (Evo/TuneDefs.v). *)
From Coq Require Import ZArith List Bool Lia ZifyBool.
From VV Require Import Evo.TuneDefs.
Import ListNotations.
Local Open Scope Z_scope.

Lemma dz_nonzero : forall u d, d <> 0 -> dz u d <> 0.
Proof. intros u d H. unfold dz. destruct (u =? 0) eqn:E; lia. Qed.

Lemma dneg_nonneg : forall u d, 0 <= d -> 0 <= dneg u d.
Proof. intros u d H. unfold dneg. destruct (u <? 0) eqn:E; lia. Qed.

Lemma dopt_some : forall A (u d : option A), is_some d = true -> is_some (dopt u d) = true.
Proof. intros A [x|] d H; simpl; auto. Qed.

Lemma zkept_dz : forall u d, zkept u (dz u d) = true.
Proof. intros u d. unfold zkept, dz. destruct (u =? 0) eqn:E; simpl; auto. lia. Qed.

Lemma nkept_dneg : forall u d, nkept u (dneg u d) = true.
Proof. intros u d. unfold nkept, dneg. destruct (u <? 0) eqn:E; simpl; auto. lia. Qed.

Lemma okept_dopt_bool : forall u d, okept Bool.eqb u (dopt u d) = true.
Proof. intros [b|] d; simpl; auto. destruct b; reflexivity. Qed.

Lemma okept_dopt_z : forall u d, okept Z.eqb u (dopt u d) = true.
Proof. intros [b|] d; simpl; auto. apply Z.eqb_refl. Qed.

Lemma okept_refl_z : forall u, okept Z.eqb u u = true.
Proof. intros [b|]; simpl; auto. apply Z.eqb_refl. Qed.

Lemma zkept_refl : forall u, zkept u u = true.
Proof. intro u. unfold zkept. rewrite Z.eqb_refl. apply orb_true_r. Qed.

Definition dflt_good (d : tenv) : Prop :=
  code_length d = 100 /\ elitism d = Some true /\ p_mutation d = 40 /\ p_cross d = 900 /\ brood d = 1 /\
  (layers d = 1 \/ layers d = 4) /\ individuals d = 100 /\ min_individuals d = 2 /\ tournament d = 5 /\
  mate_zone d = 20 /\ generations d = 100 /\ max_stuck_time d = Some uint_max /\ dss d = Some 1 /\
  validation d = Some 20.

Lemma dflt_of_good : forall s, dflt_good (dflt_of s).
Proof. intros [| |]; unfold dflt_good; simpl; repeat split; auto. Qed.

Ltac andb_split := repeat (apply andb_true_intro; split).
Ltac conj_solve :=
  repeat match goal with H : _ && _ = true |- _ => apply andb_prop in H; destruct H end;
  andb_split; try assumption.

(* -------------------------------------------------- definedness *)
Lemma all_defined_base : forall d terms e, dflt_good d -> 0 <= terms -> user_wf e = true ->
  all_defined (tune_base d terms e) = true.
Proof.
  intros d terms e (Hc & He & Hm & Hx & Hb & Hl & Hi & Hmi & Ht & Hz & Hg & Hs & _) Ht0 Hw.
  unfold user_wf in Hw. unfold all_defined, tune_base; cbn -[Z.add Z.div].
  assert (Hp : 1 + terms / 2 <> 0) by (pose proof (Z.div_pos terms 2); lia).
  andb_split;
    try (apply negb_true_iff, Z.eqb_neq, dz_nonzero; exact Hp);
    try (apply negb_true_iff, Z.eqb_neq, dz_nonzero; lia);
    try (apply negb_true_iff, Z.ltb_ge, dneg_nonneg; lia);
    try (apply dopt_some; rewrite ?He, ?Hs; reflexivity);
    try lia.
Qed.

Lemma all_defined_set_layers : forall e l, all_defined e = true -> l <> 0 -> all_defined (set_layers e l) = true.
Proof. intros e l H Hl. unfold all_defined in *; cbn [code_length patch_length elitism p_mutation p_cross brood layers individuals min_individuals tournament mate_zone generations max_stuck_time dss validation age_gap p_same_layer team_individuals set_layers] in *. conj_solve. apply negb_true_iff, Z.eqb_neq; assumption. Qed.
Lemma all_defined_set_individuals : forall e l, all_defined e = true -> l <> 0 -> all_defined (set_individuals e l) = true.
Proof. intros e l H Hl. unfold all_defined in *; cbn [code_length patch_length elitism p_mutation p_cross brood layers individuals min_individuals tournament mate_zone generations max_stuck_time dss validation age_gap p_same_layer team_individuals set_individuals] in *. conj_solve. apply negb_true_iff, Z.eqb_neq; assumption. Qed.
Lemma all_defined_set_min : forall e l, all_defined e = true -> l <> 0 -> all_defined (set_min_individuals e l) = true.
Proof. intros e l H Hl. unfold all_defined in *; cbn [code_length patch_length elitism p_mutation p_cross brood layers individuals min_individuals tournament mate_zone generations max_stuck_time dss validation age_gap p_same_layer team_individuals set_min_individuals] in *. conj_solve. apply negb_true_iff, Z.eqb_neq; assumption. Qed.
Lemma all_defined_set_dss : forall e l, all_defined (set_dss e l) = all_defined e.
Proof. reflexivity. Qed.
Lemma all_defined_set_validation : forall e l, all_defined (set_validation e l) = all_defined e.
Proof. reflexivity. Qed.

Section WithLibm.
Variable ln_floor : Z -> Z.
Variable cube_log2 : Z -> Z.
Hypothesis ln_floor_pos : forall r, 8 < r -> 1 <= ln_floor r.

(* the three intermediate environments of src_search::tune_parameters *)
Lemma tune_src_defined : forall tid d terms v rows e, dflt_good d -> 0 <= terms -> user_wf e = true ->
  all_defined (tune_src ln_floor cube_log2 tid d terms v rows e) = true.
Proof.
  intros tid d terms v rows e Hd Ht Hw. pose proof (all_defined_base d terms e Hd Ht Hw) as H0.
  unfold tune_src, tune_src_from.
  set (t0 := tune_base d terms e) in *.
  set (t1 := if layers e =? 0 then _ else t0).
  assert (H1 : all_defined t1 = true).
  { subst t1. destruct (layers e =? 0); auto.
    destruct ((1 <? layers d) && (8 <? rows)) eqn:C.
    - apply all_defined_set_layers; auto. pose proof (ln_floor_pos rows). lia.
    - apply all_defined_set_layers; auto. destruct Hd as (_ & _ & _ & _ & _ & Hl & _). lia. }
  set (t2 := if individuals e =? 0 then _ else t1).
  assert (H2 : all_defined t2 = true).
  { subst t2. destruct (individuals e =? 0); auto. apply all_defined_set_individuals; auto.
    match goal with |- (if ?c then _ else _) <> 0 => destruct c eqn:C end; lia. }
  set (t3 := match dss e with None => _ | Some _ => t2 end).
  assert (H3 : all_defined t3 = true).
  { subst t3. destruct (dss e); auto. destruct (tid v VDss); auto. }
  destruct (validation e); auto. destruct (tid v VHoldout); auto.
Qed.

Lemma tune_src_needs : forall d terms v rows e s, dflt_good d ->
  strategy_needs_ok (KSrc s v rows) (tune_src ln_floor cube_log2 typeid_repaired d terms v rows e) = true.
Proof.
  intros d terms v rows e s (_ & _ & _ & _ & _ & _ & _ & _ & _ & _ & _ & _ & Hds & Hva).
  unfold tune_src, tune_src_from, strategy_needs_ok.
  destruct v; auto.
  - (* dss *) destruct (dss e) eqn:Ed; simpl.
    + destruct (validation e); simpl; destruct (individuals e =? 0); destruct (layers e =? 0);
        try destruct ((1 <? layers d) && (8 <? rows)); simpl; rewrite Ed; reflexivity.
    + destruct (validation e); simpl; rewrite Hds; reflexivity.
  - (* holdout *) destruct (validation e) eqn:Ev; simpl.
    + destruct (dss e); simpl; destruct (individuals e =? 0); destruct (layers e =? 0);
        try destruct ((1 <? layers d) && (8 <? rows)); simpl; rewrite Ev; reflexivity.
    + rewrite Hva. reflexivity.
Qed.

Theorem tune_fills_every_open_parameter : forall k terms e, 0 <= terms -> user_wf e = true ->
  filled k (tune ln_floor cube_log2 typeid_repaired k terms e) = true.
Proof.
  intros k terms e Ht Hw. unfold filled. pose proof (dflt_of_good (strat_of k)) as Hd.
  apply andb_true_intro. split.
  - destruct k as [s|s|s v rows]; unfold tune.
    + apply all_defined_base; auto.
    + pose proof (all_defined_base _ terms e Hd Ht Hw) as H0.
      destruct (min_individuals (tune_base (dflt_of (strat_of (KGa s))) terms e) <? 10); auto.
      apply all_defined_set_min; auto. lia.
    + apply tune_src_defined; auto.
  - destruct k as [s|s|s v rows]; try reflexivity. unfold tune. apply tune_src_needs. exact Hd.
Qed.

(* --------------------------------------------- user settings kept *)
Lemma kept_other_base : forall d terms e, kept_other e (tune_base d terms e) = true.
Proof.
  intros d terms e. unfold kept_other, tune_base; cbn -[Z.add Z.div].
  rewrite !zkept_dz, !nkept_dneg, okept_dopt_bool, okept_dopt_z, !okept_refl_z, !Z.eqb_refl. reflexivity.
Qed.

Ltac kept_other_solve :=
  unfold kept_other in *; cbn [code_length patch_length elitism p_mutation p_cross brood layers individuals
    min_individuals tournament mate_zone generations max_stuck_time dss validation age_gap p_same_layer
    team_individuals set_layers set_individuals set_dss set_validation] in *;
  repeat match goal with H : _ && _ = true |- _ => apply andb_prop in H; destruct H end;
  andb_split; try assumption.

Lemma kept_other_set_layers : forall e t l, layers e = 0 -> kept_other e t = true -> kept_other e (set_layers t l) = true.
Proof. intros e t l E H. kept_other_solve. unfold zkept. rewrite E. reflexivity. Qed.
Lemma kept_other_set_individuals : forall e t l, individuals e = 0 -> kept_other e t = true -> kept_other e (set_individuals t l) = true.
Proof. intros e t l E H. kept_other_solve. unfold zkept. rewrite E. reflexivity. Qed.
Lemma kept_other_set_dss : forall e t l, dss e = None -> kept_other e t = true -> kept_other e (set_dss t l) = true.
Proof. intros e t l E H. kept_other_solve. rewrite E. reflexivity. Qed.
Lemma kept_other_set_validation : forall e t l, validation e = None -> kept_other e t = true -> kept_other e (set_validation t l) = true.
Proof. intros e t l E H. kept_other_solve. rewrite E. reflexivity. Qed.

Theorem tune_keeps_user_settings : forall tid k terms e,
  kept k e (tune ln_floor cube_log2 tid k terms e) = true.
Proof.
  intros tid k terms e. unfold kept. apply andb_true_intro.
  destruct k as [s|s|s v rows]; unfold tune.
  - split; [apply kept_other_base|]. unfold kept_min, tune_base; cbn -[Z.add Z.div]. apply zkept_dz.
  - set (t := tune_base _ terms e).
    assert (Hm : min_individuals t = dz (min_individuals e) (min_individuals (dflt_of (strat_of (KGa s))))) by reflexivity.
    pose proof (kept_other_base (dflt_of (strat_of (KGa s))) terms e) as Ho. fold t in Ho.
    destruct (min_individuals t <? 10) eqn:C; (split; [exact Ho|]); unfold kept_min;
      cbn [min_individuals set_min_individuals];
      rewrite ?Hm in *; unfold dz in *; destruct (min_individuals e =? 0) eqn:E; cbn [orb]; auto; lia.
  - pose proof (kept_other_base (dflt_of (strat_of (KSrc s v rows))) terms e) as Ho.
    unfold tune_src, tune_src_from. set (t0 := tune_base _ terms e) in *.
    assert (Hmn : kept_min (KSrc s v rows) e t0 = true).
    { unfold kept_min. subst t0. unfold tune_base; cbn -[Z.add Z.div]. apply zkept_dz. }
    clearbody t0.
    set (t1 := if layers e =? 0 then _ else t0).
    assert (H1 : kept_other e t1 = true /\ kept_min (KSrc s v rows) e t1 = true).
    { subst t1. destruct (layers e =? 0) eqn:El; auto. apply Z.eqb_eq in El.
      destruct (_ && _); (split; [apply kept_other_set_layers; auto | exact Hmn]). }
    clearbody t1. destruct H1 as [H1 H1m].
    set (t2 := if individuals e =? 0 then _ else t1).
    assert (H2 : kept_other e t2 = true /\ kept_min (KSrc s v rows) e t2 = true).
    { subst t2. destruct (individuals e =? 0) eqn:Ei; auto. apply Z.eqb_eq in Ei.
      split; [apply kept_other_set_individuals; auto | exact H1m]. }
    clearbody t2. destruct H2 as [H2 H2m].
    set (t3 := match dss e with None => _ | Some _ => t2 end).
    assert (H3 : kept_other e t3 = true /\ kept_min (KSrc s v rows) e t3 = true).
    { subst t3. destruct (dss e) eqn:Ed; auto. destruct (tid v VDss); auto.
      split; [apply kept_other_set_dss; auto | exact H2m]. }
    clearbody t3. destruct H3 as [H3 H3m].
    destruct (validation e) eqn:Ev; auto. destruct (tid v VHoldout); auto.
    split; [apply kept_other_set_validation; auto | exact H3m].
Qed.

(* --------------------------------------------------------- validity *)
Lemma ranges_base : forall d terms e, dflt_good d -> ranges_ok e = true -> ranges_ok (tune_base d terms e) = true.
Proof.
  intros d terms e (Hc & He & Hm & Hx & Hb & Hl & Hi & Hmi & Ht & Hz & Hg & Hs & _) Hr.
  unfold ranges_ok in *; simpl. unfold dz, dneg.
  destruct (code_length e =? 0) eqn:E1; destruct (p_mutation e <? 0) eqn:E2; destruct (p_cross e <? 0) eqn:E3;
    destruct (min_individuals e =? 0) eqn:E4; destruct (validation e); destruct (dss e); lia.
Qed.

Lemma ranges_set_layers : forall e l, ranges_ok (set_layers e l) = ranges_ok e.
Proof. reflexivity. Qed.
Lemma ranges_set_individuals : forall e l, ranges_ok (set_individuals e l) = ranges_ok e.
Proof. reflexivity. Qed.

Ltac ranges_unfold :=
  unfold ranges_ok in *; cbn [code_length patch_length elitism p_mutation p_cross brood layers individuals
    min_individuals tournament mate_zone generations max_stuck_time dss validation age_gap p_same_layer
    team_individuals set_dss set_validation] in *.
Lemma ranges_set_dss : forall e, ranges_ok e = true -> ranges_ok (set_dss e (Some 1)) = true.
Proof. intros e H. ranges_unfold. conj_solve; reflexivity. Qed.
Lemma ranges_set_validation : forall e, ranges_ok e = true -> ranges_ok (set_validation e (Some 20)) = true.
Proof. intros e H. ranges_unfold. conj_solve; reflexivity. Qed.

Lemma ranges_tune : forall tid k terms e, ranges_ok e = true ->
  ranges_ok (tune ln_floor cube_log2 tid k terms e) = true.
Proof.
  intros tid k terms e Hr. pose proof (dflt_of_good (strat_of k)) as Hd.
  pose proof (ranges_base _ terms e Hd Hr) as H0.
  destruct k as [s|s|s v rows]; unfold tune; auto.
  - match goal with |- context [if ?c then _ else _] => destruct c eqn:C end; auto.
    unfold ranges_ok in *; simpl in *. lia.
  - unfold tune_src, tune_src_from.
    set (t0 := tune_base _ terms e) in *.
    set (t1 := if layers e =? 0 then _ else t0).
    assert (H1 : ranges_ok t1 = true).
    { subst t1. destruct (layers e =? 0); auto. destruct (_ && _); rewrite ranges_set_layers; auto. }
    set (t2 := if individuals e =? 0 then _ else t1).
    assert (H2 : ranges_ok t2 = true).
    { subst t2. destruct (individuals e =? 0); auto. }
    destruct Hd as (_ & _ & _ & _ & _ & _ & _ & _ & _ & _ & _ & _ & Hds & Hva).
    clearbody t2. clear t1 H1 t0 H0.
    set (t3 := match dss e with None => _ | Some _ => t2 end).
    assert (H3 : ranges_ok t3 = true).
    { subst t3. destruct (dss e); auto. destruct (tid v VDss); auto. rewrite Hds. apply ranges_set_dss; auto. }
    clearbody t3.
    destruct (validation e); auto. destruct (tid v VHoldout); auto. rewrite Hva. apply ranges_set_validation; auto.
Qed.

(* after tuning, the only checks of is_valid(true) that can fail are the
   four relations between two size parameters *)
Theorem tune_valid_partial : forall k terms e, 0 <= terms -> user_wf e = true -> is_valid false e = true ->
  sizes_ok (tune ln_floor cube_log2 typeid_repaired k terms e) = true ->
  is_valid true (tune ln_floor cube_log2 typeid_repaired k terms e) = true.
Proof.
  intros k terms e Ht Hw Hv Hs. unfold is_valid in *.
  pose proof (tune_fills_every_open_parameter k terms e Ht Hw) as Hf. unfold filled in Hf.
  assert (Hr : ranges_ok e = true) by lia.
  pose proof (ranges_tune typeid_repaired k terms e Hr) as Hr'.
  rewrite Hs, Hr'. simpl. lia.
Qed.

End WithLibm.

(* with every size parameter left open the tuned environment is valid
   (search / ga_search / de_search; problems with fewer than 198 terminals) *)
Theorem tune_valid_defaults : forall ln cube tid k terms e,
  (forall s v r, k <> KSrc s v r) -> 0 <= terms < 198 -> user_wf e = true -> is_valid false e = true ->
  code_length e = 0 -> patch_length e = 0 -> individuals e = 0 -> min_individuals e = 0 ->
  tournament e = 0 -> mate_zone e = 0 ->
  is_valid true (tune ln cube tid k terms e) = true.
Proof.
  intros ln cube tid k terms e Hk Ht Hw Hv Ec Ep Ei Em Eto Emz.
  assert (Hdiv : 0 <= terms / 2 < 99) by (split; [apply Z.div_pos; lia | apply Z.div_lt_upper_bound; lia]).
  assert (Hr : ranges_ok e = true) by (unfold is_valid in Hv; lia).
  pose proof (ranges_tune ln cube tid k terms e Hr) as Hr'.
  unfold is_valid. rewrite Hr'. clear Hr'.
  destruct k as [s|s|s v rows]; [| |exfalso; eapply Hk; eauto]; unfold tune; cbn [strat_of].
  - pose proof (dflt_of_good s) as Hd. set (d := dflt_of s) in *. clearbody d.
    rewrite (all_defined_base d terms e Hd (proj1 Ht) Hw).
    destruct Hd as (Hc & He & Hm & Hx & Hbr & Hl & Hi & Hmi & Hto & Hz & Hg & Hs & _).
    unfold sizes_ok, tune_base; cbn -[Z.add Z.div]. unfold dz. rewrite Ec, Ep, Ei, Em, Eto, Emz.
    cbn -[Z.add Z.div]. rewrite Hc, Hi, Hmi, Hto, Hz. lia.
  - pose proof (dflt_of_good s) as Hd. set (d := dflt_of s) in *. clearbody d.
    pose proof (all_defined_base d terms e Hd (proj1 Ht) Hw) as Hb.
    destruct Hd as (Hc & He & Hm & Hx & Hbr & Hl & Hi & Hmi & Hto & Hz & Hg & Hs & _).
    assert (Hmin : min_individuals (tune_base d terms e) = 2).
    { unfold tune_base; cbn -[Z.add Z.div]. unfold dz. rewrite Em. cbn. exact Hmi. }
    rewrite Hmin. cbn [Z.ltb Z.compare Pos.compare Pos.compare_cont].
    rewrite all_defined_set_min; auto; [|lia].
    unfold sizes_ok, tune_base; cbn -[Z.add Z.div]. unfold dz. rewrite Ec, Ep, Ei, Eto, Emz.
    cbn -[Z.add Z.div]. rewrite Hc, Hi, Hto, Hz. lia.
Qed.
