(* C06 -- tuning with environment::reconcile (the repair of the finding
   tune_valid_size_conflict): the tuned environment passes is_valid(true) for
   EVERY admissible user environment. *)
From Coq Require Import ZArith List Bool Lia ZifyBool.
From VV Require Import Evo.TuneDefs Evo.TuneProofs.
Import ListNotations.
Local Open Scope Z_scope.

Ltac bool_facts H := repeat (apply andb_prop in H; let H' := fresh H in destruct H as [H H']).

Record user_facts (e : tenv) : Prop := {
  uf_code : 0 <= code_length e; uf_patch : 0 <= patch_length e; uf_ind : 0 <= individuals e;
  uf_min : 0 <= min_individuals e; uf_tour : 0 <= tournament e; uf_mate : 0 <= mate_zone e
}.

Lemma user_wf_facts : forall e, user_wf e = true -> user_facts e.
Proof. intros e H. unfold user_wf in H. bool_facts H. constructor; lia. Qed.

(* the relations between two size parameters, as propositions *)
Record sizes_rel (e : tenv) : Prop := {
  sr_patch : code_length e <> 0 -> patch_length e <> 0 -> patch_length e < code_length e;
  sr_min : individuals e <> 0 -> min_individuals e <> 0 -> min_individuals e <= individuals e;
  sr_tour : individuals e <> 0 -> tournament e <> 0 -> tournament e <= individuals e;
  sr_mate : mate_zone e <> 0 -> tournament e <> 0 -> tournament e <= mate_zone e
}.

Lemma sizes_ok_rel : forall e, sizes_ok e = true -> sizes_rel e.
Proof. intros e H. unfold sizes_ok in H. bool_facts H. constructor; lia. Qed.

Lemma sizes_rel_ok : forall e, sizes_rel e -> sizes_ok e = true.
Proof.
  intros e [H1 H2 H3 H4]. unfold sizes_ok. repeat (apply andb_true_intro; split).
  - destruct (code_length e =? 0) eqn:A; destruct (patch_length e =? 0) eqn:B; simpl; auto.
    assert (patch_length e < code_length e) by (apply H1; lia). lia.
  - destruct (individuals e =? 0) eqn:A; destruct (min_individuals e =? 0) eqn:B; simpl; auto.
    assert (min_individuals e <= individuals e) by (apply H2; lia). lia.
  - destruct (individuals e =? 0) eqn:A; destruct (tournament e =? 0) eqn:B; simpl; auto.
    assert (tournament e <= individuals e) by (apply H3; lia). lia.
  - destruct (mate_zone e =? 0) eqn:A; destruct (tournament e =? 0) eqn:B; simpl; auto.
    assert (tournament e <= mate_zone e) by (apply H4; lia). lia.
Qed.

(* what the size parameters of an intermediate tuned environment satisfy
   with respect to the user's environment u *)
Record presize (u t : tenv) : Prop := {
  ps_code : 2 <= code_length t; ps_patch : 0 < patch_length t; ps_ind : 2 <= individuals t;
  ps_min : 2 <= min_individuals t; ps_tour : 0 < tournament t; ps_mate : 0 < mate_zone t;
  kp_code : code_length u <> 0 -> code_length t = code_length u;
  kp_patch : patch_length u <> 0 -> patch_length t = patch_length u;
  kp_ind : individuals u <> 0 -> individuals t = individuals u;
  kp_min : min_individuals u <> 0 -> min_individuals t = min_individuals u;
  kp_tour : tournament u <> 0 -> tournament t = tournament u;
  kp_mate : mate_zone u <> 0 -> mate_zone t = mate_zone u
}.

Lemma dz_ge2 : forall u d, 2 <= d -> 0 <= u -> u <> 1 -> 2 <= dz u d.
Proof. intros u d. unfold dz. destruct (u =? 0) eqn:E; lia. Qed.
Lemma dz_pos : forall u d, 0 < d -> 0 <= u -> 0 < dz u d.
Proof. intros u d. unfold dz. destruct (u =? 0) eqn:E; lia. Qed.
Lemma dz_keep : forall u d, u <> 0 -> dz u d = u.
Proof. intros u d. unfold dz. destruct (u =? 0) eqn:E; lia. Qed.

Lemma presize_base : forall d terms e, dflt_good d -> 0 <= terms -> user_wf e = true -> ranges_ok e = true ->
  individuals e <> 1 -> presize e (tune_base d terms e).
Proof.
  intros d terms e (Hc & He & Hm & Hx & Hb & Hl & Hi & Hmi & Ht & Hz & Hg & Hs & _) Ht0 Hw Hr Hi1.
  destruct (user_wf_facts e Hw). unfold ranges_ok in Hr. bool_facts Hr.
  assert (Hp : 0 <= terms / 2) by (apply Z.div_pos; lia).
  assert (Hc1 : code_length e <> 1) by lia. assert (Hm1 : min_individuals e <> 1) by lia.
  clear Hr Hr0 Hr1 Hr2 Hr3 Hr4 Hr5 Hw.
  constructor; unfold tune_base; cbn -[Z.add Z.div]; try (apply dz_keep).
  - apply dz_ge2; lia.
  - apply dz_pos; lia.
  - apply dz_ge2; lia.
  - apply dz_ge2; lia.
  - apply dz_pos; lia.
  - apply dz_pos; lia.
Qed.

Definition rind (u t : tenv) : Z :=
  if individuals u =? 0 then Z.max (Z.max (individuals t) (min_individuals u)) (tournament u) else individuals t.
Definition rmin (u t : tenv) : Z :=
  if min_individuals u =? 0 then Z.min (min_individuals t) (rind u t) else min_individuals t.
Definition rmate (u t : tenv) : Z :=
  if mate_zone u =? 0 then Z.max (mate_zone t) (tournament u) else mate_zone t.
Definition rtour (u t : tenv) : Z :=
  if tournament u =? 0 then Z.min (Z.min (tournament t) (rind u t)) (rmate u t) else tournament t.
Definition rcode (u t : tenv) : Z :=
  if code_length u =? 0 then Z.max (code_length t) (patch_length u + 1) else code_length t.
Definition rpatch (u t : tenv) : Z :=
  if patch_length u =? 0 then Z.min (patch_length t) (rcode u t - 1) else patch_length t.

Lemma reconcile_fields : forall u t,
  reconcile u t =
  mkTenv (rcode u t) (rpatch u t) (elitism t) (p_mutation t) (p_cross t) (brood t) (layers t) (rind u t)
         (rmin u t) (rtour u t) (rmate u t) (generations t) (max_stuck_time t) (dss t) (validation t)
         (age_gap t) (p_same_layer t) (team_individuals t).
Proof. reflexivity. Qed.

Lemma recon_code_patch : forall u t, user_facts u -> sizes_rel u -> presize u t ->
  2 <= rcode u t /\ 0 < rpatch u t /\ rpatch u t < rcode u t /\
  (code_length u <> 0 -> rcode u t = code_length u) /\ (patch_length u <> 0 -> rpatch u t = patch_length u).
Proof.
  intros u t [] [] []. unfold rpatch, rcode.
  destruct (code_length u =? 0) eqn:E1; destruct (patch_length u =? 0) eqn:E2; lia.
Qed.

Lemma recon_ind : forall u t, user_facts u -> sizes_rel u -> presize u t ->
  2 <= rind u t /\ (individuals u <> 0 -> rind u t = individuals u) /\
  min_individuals u <= rind u t /\ tournament u <= rind u t.
Proof.
  intros u t [] [] []. unfold rind.
  destruct (individuals u =? 0) eqn:E3.
  - repeat split; lia.
  - assert (individuals u <> 0) by lia. rewrite kp_ind0 by assumption.
    destruct (Z.eq_dec (min_individuals u) 0); destruct (Z.eq_dec (tournament u) 0);
      repeat split; auto; try lia.
Qed.

Lemma recon_mate : forall u t, user_facts u -> sizes_rel u -> presize u t ->
  0 < rmate u t /\ (mate_zone u <> 0 -> rmate u t = mate_zone u) /\ tournament u <= rmate u t.
Proof.
  intros u t [] [] []. unfold rmate.
  destruct (mate_zone u =? 0) eqn:E6.
  - repeat split; lia.
  - assert (mate_zone u <> 0) by lia. rewrite kp_mate0 by assumption.
    destruct (Z.eq_dec (tournament u) 0); repeat split; auto; try lia.
Qed.

Lemma recon_pop : forall u t, user_facts u -> sizes_rel u -> presize u t ->
  2 <= rind u t /\ 2 <= rmin u t /\ 0 < rtour u t /\ 0 < rmate u t /\
  rmin u t <= rind u t /\ rtour u t <= rind u t /\ rtour u t <= rmate u t /\
  (individuals u <> 0 -> rind u t = individuals u) /\
  (min_individuals u <> 0 -> rmin u t = min_individuals u) /\
  (tournament u <> 0 -> rtour u t = tournament u) /\ (mate_zone u <> 0 -> rmate u t = mate_zone u).
Proof.
  intros u t Hu Hs Hp.
  destruct (recon_ind u t Hu Hs Hp) as (I1 & I2 & I3 & I4).
  destruct (recon_mate u t Hu Hs Hp) as (M1 & M2 & M3).
  destruct Hu, Hp. unfold rtour, rmin.
  set (I := rind u t) in *. set (M := rmate u t) in *. clearbody I M.
  destruct (min_individuals u =? 0) eqn:E4; destruct (tournament u =? 0) eqn:E5.
  - repeat split; auto; lia.
  - assert (tournament u <> 0) by lia. rewrite kp_tour0 by assumption. repeat split; auto; lia.
  - assert (min_individuals u <> 0) by lia. rewrite kp_min0 by assumption. repeat split; auto; lia.
  - assert (min_individuals u <> 0) by lia. assert (tournament u <> 0) by lia.
    rewrite kp_min0, kp_tour0 by assumption. repeat split; auto; lia.
Qed.

Lemma reconcile_ok : forall u t, user_facts u -> sizes_rel u -> presize u t ->
  all_defined t = true -> ranges_ok t = true ->
  presize u (reconcile u t) /\ is_valid true (reconcile u t) = true.
Proof.
  intros u t Hu Hs Hp Hd Hr.
  destruct (recon_code_patch u t Hu Hs Hp) as (C1 & C2 & C3 & C4 & C5).
  destruct (recon_pop u t Hu Hs Hp) as (P1 & P2 & P3 & P4 & P5 & P6 & P7 & P8 & P9 & P10 & P11).
  rewrite reconcile_fields. split.
  - constructor; cbn [code_length patch_length individuals min_individuals tournament mate_zone]; auto.
  - unfold is_valid. cbn [negb orb].
    apply andb_true_intro; split; [apply andb_true_intro; split|].
    + unfold all_defined in *. cbn [code_length patch_length elitism p_mutation p_cross brood layers individuals
        min_individuals tournament mate_zone generations max_stuck_time dss validation age_gap p_same_layer
        team_individuals] in *. bool_facts Hd. andb_split; try assumption; lia.
    + unfold ranges_ok in *. cbn [code_length patch_length elitism p_mutation p_cross brood layers individuals
        min_individuals tournament mate_zone generations max_stuck_time dss validation age_gap p_same_layer
        team_individuals] in *. bool_facts Hr. andb_split; try assumption; lia.
    + apply sizes_rel_ok. constructor;
        cbn [code_length patch_length individuals min_individuals tournament mate_zone]; intros; lia.
Qed.

Lemma valid_parts : forall t, is_valid true t = true -> all_defined t = true /\ ranges_ok t = true /\ sizes_ok t = true.
Proof.
  intros t H. unfold is_valid in H. cbn [negb orb] in H. apply andb_prop in H. destruct H as [H S].
  apply andb_prop in H. destruct H. auto.
Qed.

Lemma valid_set_min : forall t m, is_valid true t = true -> 2 <= m -> m <= individuals t ->
  is_valid true (set_min_individuals t m) = true.
Proof.
  intros t m Hv H2 Hm. destruct (valid_parts t Hv) as (A & R & S). pose proof (sizes_ok_rel t S) as [S1 S2 S3 S4].
  clear Hv S S2.
  unfold is_valid. cbn [negb orb]. apply andb_true_intro; split; [apply andb_true_intro; split|].
  - apply all_defined_set_min; auto. lia.
  - clear A S1 S3 S4 Hm. unfold ranges_ok in *. cbn [set_min_individuals code_length patch_length elitism p_mutation p_cross
      brood layers individuals min_individuals tournament mate_zone generations max_stuck_time dss validation age_gap
      p_same_layer team_individuals] in *. bool_facts R. andb_split; try assumption.
    apply negb_true_iff, Z.eqb_neq. lia.
  - clear A R. apply sizes_rel_ok. constructor;
      cbn [set_min_individuals code_length patch_length individuals min_individuals tournament mate_zone]; intros;
      try (apply S1; assumption); try (apply S3; assumption); try (apply S4; assumption); lia.
Qed.

Section WithLibm2.
Variable ln_floor : Z -> Z.
Variable cube_log2 : Z -> Z.
Hypothesis ln_floor_pos : forall r, 8 < r -> 1 <= ln_floor r.
Variable tid : validator -> validator -> bool.

Lemma presize_set_layers : forall u t l, presize u t -> presize u (set_layers t l).
Proof. intros u t l []. constructor; auto. Qed.
Lemma presize_set_dss : forall u t l, presize u t -> presize u (set_dss t l).
Proof. intros u t l []. constructor; auto. Qed.
Lemma presize_set_validation : forall u t l, presize u t -> presize u (set_validation t l).
Proof. intros u t l []. constructor; auto. Qed.
Lemma presize_set_individuals : forall u t n, individuals u = 0 -> 2 <= n -> presize u t -> presize u (set_individuals t n).
Proof. intros u t n E Hn []. constructor; auto. cbn. intro. contradiction. Qed.

(* src_search's own steps, from any defined starting environment *)
Lemma src_from_ok : forall t0 d v rows e, dflt_good d -> presize e t0 ->
  all_defined t0 = true -> ranges_ok t0 = true ->
  let t := tune_src_from ln_floor cube_log2 tid t0 d v rows e in
  presize e t /\ all_defined t = true /\ ranges_ok t = true /\
  (is_some (dss t0) = true -> is_some (dss t) = true) /\ (is_some (validation t0) = true -> is_some (validation t) = true) /\
  (dss e = None -> tid v VDss = true -> is_some (dss t) = true) /\
  (validation e = None -> tid v VHoldout = true -> is_some (validation t) = true).
Proof.
  intros t0 d v rows e Hd Hp Ha Hr. unfold tune_src_from.
  destruct Hd as (_ & _ & _ & _ & _ & Hl & _ & _ & _ & _ & _ & _ & Hds & Hva).
  set (t1 := if layers e =? 0 then _ else t0).
  assert (H1 : presize e t1 /\ all_defined t1 = true /\ ranges_ok t1 = true
               /\ dss t1 = dss t0 /\ validation t1 = validation t0).
  { subst t1. destruct (layers e =? 0); [|tauto].
    destruct (_ && _) eqn:C; repeat apply conj; auto using presize_set_layers;
      apply all_defined_set_layers; auto; [pose proof (ln_floor_pos rows); lia | lia]. }
  clearbody t1. destruct H1 as (Hp1 & Ha1 & Hr1 & Ed1 & Ev1).
  set (t2 := if individuals e =? 0 then _ else t1).
  assert (H2 : presize e t2 /\ all_defined t2 = true /\ ranges_ok t2 = true
               /\ dss t2 = dss t1 /\ validation t2 = validation t1).
  { subst t2. destruct (individuals e =? 0) eqn:Ei; [|tauto]. apply Z.eqb_eq in Ei.
    match goal with |- context [set_individuals t1 ?n] => set (n0 := n) end.
    assert (Hn : 4 <= n0) by (subst n0; match goal with |- 4 <= (if ?c then _ else _) => destruct c eqn:C end; lia).
    clearbody n0. repeat apply conj; auto.
    - apply presize_set_individuals; auto. lia.
    - apply all_defined_set_individuals; auto. lia. }
  clearbody t2. destruct H2 as (Hp2 & Ha2 & Hr2 & Ed2 & Ev2).
  set (t3 := match dss e with None => _ | Some _ => t2 end).
  assert (H3 : presize e t3 /\ all_defined t3 = true /\ ranges_ok t3 = true /\ validation t3 = validation t2 /\
               (is_some (dss t2) = true -> is_some (dss t3) = true) /\
               (dss e = None -> tid v VDss = true -> is_some (dss t3) = true)).
  { subst t3. destruct (dss e) eqn:Ee; [repeat apply conj; auto; discriminate|].
    destruct (tid v VDss) eqn:Et; [|repeat apply conj; auto; discriminate].
    rewrite Hds. repeat apply conj; auto using presize_set_dss. apply ranges_set_dss; auto. }
  clearbody t3. destruct H3 as (Hp3 & Ha3 & Hr3 & Ev3 & Hd3 & Hd3').
  assert (Hdd : is_some (dss t0) = true -> is_some (dss t3) = true) by (intro; apply Hd3; congruence).
  assert (Evv : validation t3 = validation t0) by congruence.
  destruct (validation e) eqn:Ee.
  { repeat apply conj; auto; try discriminate. congruence. }
  destruct (tid v VHoldout) eqn:Et.
  - rewrite Hva. repeat apply conj; auto using presize_set_validation. apply ranges_set_validation; auto.
  - repeat apply conj; auto; try discriminate. congruence.
Qed.

Theorem tune_rec_valid : forall k terms e, 0 <= terms -> user_wf e = true -> is_valid false e = true ->
  individuals e <> 1 ->
  is_valid true (tune_rec ln_floor cube_log2 tid k terms e) = true.
Proof.
  intros k terms e Ht Hw Hv Hi1.
  pose proof (dflt_of_good (strat_of k)) as Hd.
  assert (Hr : ranges_ok e = true /\ sizes_ok e = true) by (unfold is_valid in Hv; cbn [negb orb] in Hv; bool_facts Hv; auto).
  destruct Hr as [Hr Hs]. pose proof (user_wf_facts e Hw) as Hu. pose proof (sizes_ok_rel e Hs) as Hsr.
  pose proof (presize_base _ terms e Hd Ht Hw Hr Hi1) as Hp0.
  pose proof (all_defined_base _ terms e Hd Ht Hw) as Ha0.
  pose proof (ranges_base _ terms e Hd Hr) as Hr0.
  destruct (reconcile_ok e _ Hu Hsr Hp0 Ha0 Hr0) as [Hp1 Hv1].
  unfold tune_rec. set (t0 := reconcile e (tune_base (dflt_of (strat_of k)) terms e)) in *. clearbody t0.
  destruct k as [s|s|s v rows].
  - exact Hv1.
  - destruct (min_individuals t0 <? 10) eqn:C; [|exact Hv1].
    assert (H2 : 2 <= individuals t0) by (destruct Hp1; assumption).
    apply valid_set_min; auto; clear -H2; lia.
  - destruct (valid_parts t0 Hv1) as (A & R & S). pose proof (sizes_ok_rel t0 S) as [S1 S2 S3 S4].
    destruct (src_from_ok t0 _ v rows e Hd Hp1 A R) as (Hp2 & A2 & R2 & _).
    apply reconcile_ok; auto.
Qed.

(* every parameter the user left open has a value (repaired tree) *)
Theorem tune_rec_fills : forall k terms e, 0 <= terms -> user_wf e = true -> is_valid false e = true ->
  individuals e <> 1 -> tid = typeid_repaired ->
  filled k (tune_rec ln_floor cube_log2 tid k terms e) = true.
Proof.
  intros k terms e Ht Hw Hv Hi1 Htid. pose proof (tune_rec_valid k terms e Ht Hw Hv Hi1) as Hval.
  destruct (valid_parts _ Hval) as (A & _ & _). unfold filled. rewrite A. cbn [andb].
  destruct k as [s|s|s v rows]; try reflexivity.
  (* the validation strategy's own parameter *)
  unfold tune_rec. rewrite reconcile_fields. unfold strategy_needs_ok. cbn [dss validation].
  pose proof (dflt_of_good (strat_of (KSrc s v rows))) as Hd.
  assert (Hr : ranges_ok e = true /\ sizes_ok e = true) by (unfold is_valid in Hv; cbn [negb orb] in Hv; bool_facts Hv; auto).
  destruct Hr as [Hr Hs]. pose proof (user_wf_facts e Hw) as Hu. pose proof (sizes_ok_rel e Hs) as Hsr.
  pose proof (presize_base _ terms e Hd Ht Hw Hr Hi1) as Hp0.
  pose proof (all_defined_base _ terms e Hd Ht Hw) as Ha0.
  pose proof (ranges_base _ terms e Hd Hr) as Hr0.
  destruct (reconcile_ok e _ Hu Hsr Hp0 Ha0 Hr0) as [Hp1 Hv1].
  assert (Ed0 : dss (reconcile e (tune_base (dflt_of (strat_of (KSrc s v rows))) terms e)) = dss e) by reflexivity.
  assert (Ev0 : validation (reconcile e (tune_base (dflt_of (strat_of (KSrc s v rows))) terms e)) = validation e) by reflexivity.
  set (t0 := reconcile e (tune_base (dflt_of (strat_of (KSrc s v rows))) terms e)) in *. clearbody t0.
  destruct (valid_parts t0 Hv1) as (A0 & R0 & S0). pose proof (sizes_ok_rel t0 S0) as [S1 S2 S3 S4].
  destruct (src_from_ok t0 _ v rows e Hd Hp1 A0 R0) as (_ & _ & _ & D1 & V1 & D2 & V2).
  subst tid. destruct v; auto.
  - destruct (dss e) eqn:E; [apply D1; rewrite Ed0; reflexivity | apply D2; auto].
  - destruct (validation e) eqn:E; [apply V1; rewrite Ev0; reflexivity | apply V2; auto].
Qed.

(* ----------------------------------------------- user settings kept *)
Lemma zkept_recon : forall u x y, zkept u x = true -> zkept u (if u =? 0 then y else x) = true.
Proof. intros u x y H. unfold zkept in *. destruct (u =? 0); auto. Qed.

Lemma kept_other_reconcile : forall e t, kept_other e t = true -> kept_other e (reconcile e t) = true.
Proof.
  intros e t H. rewrite reconcile_fields. unfold kept_other in *.
  cbn [code_length patch_length elitism p_mutation p_cross brood layers individuals min_individuals tournament
       mate_zone generations max_stuck_time dss validation age_gap p_same_layer team_individuals] in *.
  bool_facts H. unfold rcode, rpatch, rind, rtour, rmate.
  andb_split; try assumption; apply zkept_recon; assumption.
Qed.

Lemma zkept_min_reconcile : forall e t, zkept (min_individuals e) (min_individuals t) = true ->
  zkept (min_individuals e) (min_individuals (reconcile e t)) = true.
Proof. intros e t H. rewrite reconcile_fields. cbn [min_individuals]. unfold rmin. apply zkept_recon. exact H. Qed.

Lemma kept_src_from : forall t0 d v rows e, kept_other e t0 = true ->
  zkept (min_individuals e) (min_individuals t0) = true ->
  kept_other e (tune_src_from ln_floor cube_log2 tid t0 d v rows e) = true /\
  zkept (min_individuals e) (min_individuals (tune_src_from ln_floor cube_log2 tid t0 d v rows e)) = true.
Proof.
  intros t0 d v rows e Ho Hmn. unfold tune_src_from.
  set (t1 := if layers e =? 0 then _ else t0).
  assert (H1 : kept_other e t1 = true /\ zkept (min_individuals e) (min_individuals t1) = true).
  { subst t1. destruct (layers e =? 0) eqn:El; auto. apply Z.eqb_eq in El.
    destruct (_ && _); (split; [apply kept_other_set_layers; auto | exact Hmn]). }
  clearbody t1. destruct H1 as [H1 H1m].
  set (t2 := if individuals e =? 0 then _ else t1).
  assert (H2 : kept_other e t2 = true /\ zkept (min_individuals e) (min_individuals t2) = true).
  { subst t2. destruct (individuals e =? 0) eqn:Ei; auto. apply Z.eqb_eq in Ei.
    split; [apply kept_other_set_individuals; auto | exact H1m]. }
  clearbody t2. destruct H2 as [H2 H2m].
  set (t3 := match dss e with None => _ | Some _ => t2 end).
  assert (H3 : kept_other e t3 = true /\ zkept (min_individuals e) (min_individuals t3) = true).
  { subst t3. destruct (dss e) eqn:Ed; auto. destruct (tid v VDss); auto.
    split; [apply kept_other_set_dss; auto | exact H2m]. }
  clearbody t3. destruct H3 as [H3 H3m].
  destruct (validation e) eqn:Ev; auto. destruct (tid v VHoldout); auto.
  split; [apply kept_other_set_validation; auto | exact H3m].
Qed.

Theorem tune_rec_keeps_user_settings : forall k terms e,
  kept k e (tune_rec ln_floor cube_log2 tid k terms e) = true.
Proof.
  intros k terms e. unfold kept, tune_rec.
  pose proof (kept_other_reconcile e _ (kept_other_base (dflt_of (strat_of k)) terms e)) as Ho.
  assert (Hm : zkept (min_individuals e) (min_individuals (reconcile e (tune_base (dflt_of (strat_of k)) terms e))) = true).
  { apply zkept_min_reconcile. unfold tune_base; cbn -[Z.add Z.div]. apply zkept_dz. }
  set (t0 := reconcile e (tune_base (dflt_of (strat_of k)) terms e)) in *. clearbody t0.
  apply andb_true_intro. destruct k as [s|s|s v rows].
  - split; auto.
  - destruct (min_individuals t0 <? 10) eqn:C.
    + split; [exact Ho|]. unfold kept_min. cbn [set_min_individuals min_individuals individuals].
      rewrite Z.eqb_refl. rewrite !orb_true_r. reflexivity.
    + split; [exact Ho|]. unfold kept_min. unfold zkept in Hm.
      destruct (min_individuals e =? 0) eqn:E; cbn [orb]; auto.
      assert (min_individuals t0 = Z.max (min_individuals e) 10) by lia.
      apply orb_true_intro. left. lia.
  - destruct (kept_src_from t0 (dflt_of (strat_of (KSrc s v rows))) v rows e Ho Hm) as [H1 H2].
    split; [apply kept_other_reconcile; exact H1 | apply zkept_min_reconcile; exact H2].
Qed.

End WithLibm2.

Lemma tune_rec_fills_repaired : forall (ln_floor cube_log2 : Z -> Z), (forall r, 8 < r -> 1 <= ln_floor r) ->
  forall k terms e, 0 <= terms -> user_wf e = true -> is_valid false e = true -> individuals e <> 1 ->
  filled k (tune_rec ln_floor cube_log2 typeid_repaired k terms e) = true.
Proof. intros ln cube H k terms e A B C D. exact (tune_rec_fills ln cube H typeid_repaired k terms e A B C D eq_refl). Qed.
