(* C06 -- progress: from a state that satisfies the invariant, the model's
   operators never get stuck on VALID inputs (draws within the bounds that
   random::between / boolean / ring promise, an offspring whose age is the one
   the recombination operators compute).  So "the model accepts every observed
   event" is not vacuous, and [None] can only mean a draw outside its contract. *)
From Coq Require Import ZArith List Bool Arith Lia ZifyBool.
From VV Require Import Evo.EvoDefs Evo.EvoProofs.
Import ListNotations.
Local Open Scope Z_scope.

Section Progress.
Variable F : Type.
Variable flt : F -> F -> bool.
Variable ops : stat_ops.

Notation ind := (ind F).
Notation layer := (layer F).
Notation population := (population F).
Notation state := (state F).

Definition lsize (p : population) (l : nat) : nat :=
  match nth_error p l with Some ly => length (members ly) | None => O end.

Lemma valid_coord_lsize : forall (p : population) l i, (i < lsize p l)%nat -> valid_coord p (l, i) = true.
Proof.
  intros p l i H. unfold lsize in H. unfold valid_coord, get. cbn [fst snd].
  destruct (nth_error p l) as [ly|]; [|lia].
  destruct (nth_error (members ly) i) eqn:E; auto. apply nth_error_None in E. lia.
Qed.

Lemma valid_coord_get : forall (p : population) c, valid_coord p c = true -> exists x, get p c = Some x.
Proof. intros p c H. unfold valid_coord in H. destruct (get p c); [eauto|discriminate]. Qed.

Lemma lookup_all_total : forall (p : population) cs, (forall c, In c cs -> valid_coord p c = true) ->
  exists cf, lookup_all p cs = Some cf.
Proof.
  intros p. induction cs as [|c r IH]; intros H; simpl; [eauto|].
  destruct (valid_coord_get p c (H c (or_introl eq_refl))) as [x Ex]. rewrite Ex.
  destruct IH as [t Et]; [intros; apply H; right; auto|]. rewrite Et. eauto.
Qed.

(* ---- selection::tournament ---- *)
Theorem tournament_select_total : forall e (p : population) tgt rs ly,
  nth_error p (fst tgt) = Some ly -> (snd tgt < length (members ly))%nat ->
  length rs = e_tournament e ->
  forallb (ring_draw_ok (e_mate_zone e) (Z.of_nat (length (members ly)))) rs = true ->
  exists cs, tournament_select flt e p tgt rs = Some cs.
Proof.
  intros e p tgt rs ly El Ht Hlen Hd. unfold tournament_select. rewrite El.
  assert (C1 : (snd tgt <? length (members ly))%nat = true) by (apply Nat.ltb_lt; auto).
  rewrite C1, Hlen, Nat.eqb_refl, Hd. cbn [negb].
  destruct (lookup_all_total p (ring_picks e tgt (Z.of_nat (length (members ly))) rs)) as [cf Ecf].
  - intros c Hc. unfold ring_picks in Hc. apply in_map_iff in Hc. destruct Hc as (v & <- & Hv).
    rewrite forallb_forall in Hd. specialize (Hd v Hv).
    assert (Hn : 0 < Z.of_nat (length (members ly))) by lia.
    pose proof (ring_in_range (Z.of_nat (snd tgt)) (e_mate_zone e) _ v Hn Hd) as Hr.
    apply valid_coord_lsize. unfold lsize. rewrite El. lia.
  - rewrite Ecf. eauto.
Qed.

(* ---- selection::random ---- *)
Theorem random_select_total : forall e (p : population) (cs : list coord), length cs = e_tournament e ->
  (forall c, In c cs -> (snd c < lsize p (fst c))%nat) -> random_select e p cs = Some cs.
Proof.
  intros e p cs Hl Hc. unfold random_select. rewrite Hl, Nat.eqb_refl. cbn [andb].
  replace (forallb (valid_coord p) cs) with true; auto. symmetry. apply forallb_forall.
  intros [l i] Hin. apply valid_coord_lsize. apply (Hc (l, i) Hin).
Qed.

(* ---- selection::alps ---- *)
(* the contract of one call of alps::pickup(l, pr): boolean(pr) obeys
   boolean(0) = false / boolean(1) = true, sup(n) < n *)
Definition pick_draw_ok (p : population) (l : nat) (pr : prob3) (pk : bool * nat) : Prop :=
  match l with
  | O => fst pk = true /\ (snd pk < lsize p O)%nat
  | S k => bool_draw_ok pr (fst pk) = true /\ (snd pk < lsize p (if fst pk then l else k))%nat
  end.

Lemma alps_pickup_total : forall (p : population) l pr pk, pick_draw_ok p l pr pk ->
  exists c, alps_pickup p l pr pk = Some c /\ valid_coord p c = true.
Proof.
  intros p l pr [same idx] H. unfold pick_draw_ok in H. cbn [fst snd] in H. unfold alps_pickup.
  destruct l as [|k]; destruct H as [H1 H2].
  - subst same. rewrite (valid_coord_lsize p O idx H2). eauto using valid_coord_lsize.
  - rewrite H1. rewrite (valid_coord_lsize p _ idx H2). eauto using valid_coord_lsize.
Qed.

Lemma age_fit_total : forall e (p : population) c, valid_coord p c = true -> exists af, age_fit e p c = Some af.
Proof. intros e p c H. unfold age_fit. destruct (valid_coord_get p c H) as [x Ex]. rewrite Ex. eauto. Qed.

Lemma alps_rounds_total : forall e (p : population) layer pks c0 af0 c1 af1,
  (forall pk, In pk pks -> pick_draw_ok p layer (e_p_same e) pk) ->
  exists r, alps_rounds flt e p layer c0 af0 c1 af1 pks = Some r.
Proof.
  intros e p layer. induction pks as [|pk r IH]; intros c0 af0 c1 af1 H; simpl; [eauto|].
  destruct (alps_pickup_total p layer (e_p_same e) pk (H pk (or_introl eq_refl))) as (tmp & Et & Vt).
  rewrite Et. destruct (age_fit_total e p tmp Vt) as [taf Ea]. rewrite Ea.
  assert (H' : forall pk0, In pk0 r -> pick_draw_ok p layer (e_p_same e) pk0) by (intros; apply H; right; auto).
  destruct (af_lt flt af0 taf); [apply IH; auto|]. destruct (af_lt flt af1 taf); apply IH; auto.
Qed.

Theorem alps_select_total : forall e (p : population) layer pk0 pk1 pks,
  (layer < length p)%nat -> length pks = e_tournament e ->
  pick_draw_ok p layer P1 pk0 -> pick_draw_ok p layer P1 pk1 ->
  (forall pk, In pk pks -> pick_draw_ok p layer (e_p_same e) pk) ->
  exists cs, alps_select flt e p layer pk0 pk1 pks = Some cs.
Proof.
  intros e p layer pk0 pk1 pks Hl Hlen H0 H1 Hr. unfold alps_select.
  assert (C : (layer <? length p)%nat = true) by (apply Nat.ltb_lt; auto).
  rewrite C, Hlen, Nat.eqb_refl. cbn [negb].
  destruct (alps_pickup_total p layer P1 pk0 H0) as (c0 & E0 & V0).
  destruct (alps_pickup_total p layer P1 pk1 H1) as (c1 & E1 & V1). rewrite E0, E1.
  destruct (age_fit_total e p c0 V0) as [af0 A0]. destruct (age_fit_total e p c1 V1) as [af1 A1]. rewrite A0, A1.
  destruct (af_lt flt af0 af1).
  - destruct (alps_rounds_total e p layer pks c1 af1 c0 af0 Hr) as [[a b] Er]. rewrite Er. eauto.
  - destruct (alps_rounds_total e p layer pks c0 af0 c1 af1 Hr) as [[a b] Er]. rewrite Er. eauto.
Qed.

(* ---- recombination ---- *)
(* what recombination::base::run promises about its result, given which
   branch the two boolean draws selected *)
Definition base_offspring_ok (e : env) (x1 x2 : ind) (k : okind) (o : ind) : Prop :=
  match k with
  | Cross => bool_draw_ok (e_p_cross e) true = true /\ age o = Z.max (age x1) (age x2)
  | Copy1 => bool_draw_ok (e_p_cross e) false = true /\ age o = age x1 /\ (e_pmut0 e = true -> uid o = uid x1)
  | Copy2 => bool_draw_ok (e_p_cross e) false = true /\ age o = age x2 /\ (e_pmut0 e = true -> uid o = uid x2)
  end.

Definition second (parents : list coord) (r1 : coord) : coord :=
  match parents with _ :: r :: _ => r | _ => r1 end.

Theorem recombine_base_total : forall e (p : population) parents r1 x1 x2 k o,
  is_de e = false -> hd_error parents = Some r1 ->
  get p r1 = Some x1 -> get p (second parents r1) = Some x2 ->
  base_offspring_ok e x1 x2 k o -> recombine e p parents (RecBase k) o = Some o.
Proof.
  intros e p parents r1 x1 x2 k o Hde Hh G1 G2 Hok. unfold recombine.
  destruct parents as [|r rest]; [discriminate|]. inversion Hh; subst r. unfold second in G2.
  assert (G2' : get p (match rest with r :: _ => r | [] => r1 end) = Some x2) by (destruct rest; auto).
  rewrite G1, G2', Hde. destruct k; cbn [base_offspring_ok] in Hok.
  - destruct Hok as [B A]. rewrite B, A, Z.eqb_refl. reflexivity.
  - destruct Hok as (B & A & U). rewrite B, A, Z.eqb_refl. cbn [andb].
    destruct (e_pmut0 e); cbn [negb orb]; auto. rewrite (U eq_refl), Z.eqb_refl. reflexivity.
  - destruct Hok as (B & A & U). rewrite B, A, Z.eqb_refl. cbn [andb].
    destruct (e_pmut0 e); cbn [negb orb]; auto. rewrite (U eq_refl), Z.eqb_refl. reflexivity.
Qed.

(* recombination::de::run: the two ring draws are in range, hence the two
   extra individuals exist; the child's age is the maximum of the four *)
Theorem recombine_de_total : forall e (p : population) parents r1 x1 x2 ly va vb,
  is_de e = true -> hd_error parents = Some r1 ->
  get p r1 = Some x1 -> get p (second parents r1) = Some x2 ->
  nth_error p (fst r1) = Some ly ->
  ring_draw_ok (e_mate_zone e) (Z.of_nat (length (members ly))) va = true ->
  ring_draw_ok (e_mate_zone e) (Z.of_nat (length (members ly))) vb = true ->
  exists xa xb : ind, forall o : ind, age o = Z.max (Z.max (age x1) (age x2)) (Z.max (age xa) (age xb)) ->
    recombine e p parents (RecDe va vb) o = Some o.
Proof.
  intros e p parents r1 x1 x2 ly va vb Hde Hh G1 G2 El Da Db.
  assert (Hn : 0 < Z.of_nat (length (members ly))).
  { unfold get in G1. rewrite El in G1. destruct (members ly); [destruct (snd r1); discriminate|simpl; lia]. }
  pose proof (ring_in_range (Z.of_nat (snd r1)) (e_mate_zone e) _ va Hn Da) as Ra.
  pose proof (ring_in_range (Z.of_nat (snd r1)) (e_mate_zone e) _ vb Hn Db) as Rb.
  set (ca := (fst r1, Z.to_nat (ring (Z.of_nat (snd r1)) (e_mate_zone e) (Z.of_nat (length (members ly))) va))).
  set (cb := (fst r1, Z.to_nat (ring (Z.of_nat (snd r1)) (e_mate_zone e) (Z.of_nat (length (members ly))) vb))).
  destruct (valid_coord_get p ca) as [xa Ea]. { apply valid_coord_lsize. unfold lsize. rewrite El. lia. }
  destruct (valid_coord_get p cb) as [xb Eb]. { apply valid_coord_lsize. unfold lsize. rewrite El. lia. }
  exists xa, xb. intros o Ho. unfold recombine.
  destruct parents as [|r rest]; [discriminate|]. inversion Hh; subst r. unfold second in G2.
  assert (G2' : get p (match rest with r :: _ => r | [] => r1 end) = Some x2) by (destruct rest; auto).
  rewrite G1, G2', Hde, El, Da, Db. cbn [andb ring_picks map]. fold ca cb. rewrite Ea, Eb, Ho, Z.eqb_refl. reflexivity.
Qed.

(* ---- replacement::tournament ---- *)
Theorem repl_tournament_total : forall e (s : state) parents o, parents <> [] ->
  parents_exist_b (pop s) parents = true -> exists s', repl_tournament flt e s parents o = Some s'.
Proof.
  intros e s parents o Hne Hex. unfold repl_tournament. destruct parents as [|p0 pr]; [congruence|].
  assert (Hl : In (last (p0 :: pr) (O, O)) (p0 :: pr)).
  { clear. revert p0. induction pr as [|a r IH]; intros p0; [left; reflexivity|]. right. apply IH. }
  unfold parents_exist_b in Hex. rewrite forallb_forall in Hex.
  destruct (valid_coord_get _ _ (Hex _ Hl)) as [x Ex]. rewrite Ex. eauto.
Qed.

(* ---- replacement::alps::try_add_to_layer ---- *)
Lemma take_n_total : forall A n (l : list A), (n <= length l)%nat -> exists a b, take_n n l = Some (a, b) /\
  l = a ++ b /\ length a = n.
Proof.
  intros A n. induction n as [|k IH]; intros l H; simpl.
  - exists [], l. auto.
  - destruct l as [|h t]; [simpl in H; lia|]. destruct (IH t) as (a & b & E & E2 & E3); [simpl in H; lia|].
    rewrite E. exists (h :: a), b. subst. simpl. auto.
Qed.

Lemma kill_tournament_total : forall (ms : list ind) m_age ds cw w,
  (forall d, In d ds -> (d < length ms)%nat) -> exists r, kill_tournament flt ms m_age cw w ds = Some r.
Proof.
  intros ms m_age. induction ds as [|d r IH]; intros cw w H; simpl; [eauto|].
  destruct (nth_error ms d) as [x|] eqn:E.
  - destruct (worse flt m_age x w); apply IH; intros; apply H; right; auto.
  - apply nth_error_None in E. specialize (H d (or_introl eq_refl)). lia.
Qed.

(* PARTIAL with respect to the draws: they are required to be below the size of
   EVERY layer (true of all-zero streams and of streams drawn for the smallest
   layer); the real contract is "below the size of the layer being sampled",
   which depends on the path taken.  What it does establish in full: from an
   invariant state the recursion never runs out of fuel (it terminates within
   layers - layer calls), never indexes a missing layer or member. *)
Theorem try_add_total_partial : forall fuel e (p : population) layer inc ds,
  PL F p -> (layer < length p)%nat -> (length p - layer <= fuel)%nat ->
  (forall d ly, In d ds -> In ly p -> (d < length (members ly))%nat) ->
  (S (e_tournament e) * (length p - layer) <= length ds)%nat ->
  exists r, try_add flt fuel e p layer inc ds = Some r.
Proof.
  induction fuel as [|fuel IH]; intros e p layer inc ds Hpl Hl Hf Hd Hlen; [lia|].
  cbn [try_add]. destruct (nth_error p layer) as [ly|] eqn:El; [|apply nth_error_None in El; lia].
  destruct (length (members ly) <? allowed ly)%nat; [eauto|].
  destruct (take_n_total _ (S (e_tournament e)) ds) as (kd & ds1 & Et & Eds & Ekd).
  { nia. }
  rewrite Et. destruct kd as [|d0 kr]; [simpl in Ekd; lia|].
  assert (Hin : In ly p) by (eapply nth_error_In; eauto).
  assert (Hkd : forall d, In d (d0 :: kr) -> (d < length (members ly))%nat).
  { intros d Hi. apply Hd; auto. rewrite Eds. apply in_or_app. left. auto. }
  destruct (nth_error (members ly) d0) as [w0|] eqn:Ew;
    [|apply nth_error_None in Ew; specialize (Hkd d0 (or_introl eq_refl)); lia].
  destruct (kill_tournament_total (members ly) (allowed_age e layer (length p)) kr d0 w0) as [[cw w] Ek].
  { intros; apply Hkd; right; auto. }
  rewrite Ek.
  match goal with |- context [if ?c then _ else _] => destruct c end; [|eauto].
  destruct (S layer <? length p)%nat eqn:Cl; [|eauto].
  apply Nat.ltb_lt in Cl.
  destruct (IH e p (S layer) w ds1) as [[[p1 b1] ds2] Er]; auto; try lia.
  - intros d ly' Hi Hly. apply Hd; auto. rewrite Eds. apply in_or_app. right. auto.
  - assert (length ds = (S (e_tournament e) + length ds1)%nat) by (rewrite Eds, app_length, Ekd; reflexivity). nia.
  - rewrite Er. eauto.
Qed.

(* ---- one whole step of the standard strategy ---- *)
Lemma tournament_select_length : forall e (p : population) tgt rs cs,
  tournament_select flt e p tgt rs = Some cs -> length cs = e_tournament e.
Proof.
  intros e p tgt rs cs E. unfold tournament_select in E.
  destruct (nth_error p (fst tgt)) as [ly|]; [|discriminate].
  destruct (negb (snd tgt <? length (members ly))%nat); [discriminate|].
  destruct (negb (length rs =? e_tournament e)%nat) eqn:C; [discriminate|].
  destruct (negb (forallb _ rs)); [discriminate|].
  destruct (lookup_all p _) as [cf|] eqn:Elk; [|discriminate]. inversion E; subst cs.
  destruct (lookup_all_spec F p _ _ Elk) as [Hfst _].
  unfold sort_picks. rewrite rev_length, map_length. fold (sort_fold F flt cf []).
  rewrite sort_fold_length. simpl. rewrite Nat.add_0_r, <- (map_length fst cf), Hfst.
  unfold ring_picks. rewrite map_length. apply negb_false_iff, Nat.eqb_eq in C. exact C.
Qed.

Lemma single_layer : forall e (s : state), is_alps e = false -> Inv F e s ->
  exists ly, pop s = [ly] /\ length (members ly) = e_individuals e.
Proof.
  intros e s Ha (_ & Hsh & _). specialize (Hsh Ha). unfold shape in Hsh.
  destruct (pop s) as [|ly [|ly2 r]]; simpl in Hsh; try discriminate.
  inversion Hsh. exists ly. auto.
Qed.

Lemma parents_head : forall (p : population) parents, parents <> [] -> parents_exist_b p parents = true ->
  exists r1 x1 x2, hd_error parents = Some r1 /\ get p r1 = Some x1 /\ get p (second parents r1) = Some x2.
Proof.
  intros p parents Hne Hex. destruct parents as [|r1 rest]; [congruence|].
  unfold parents_exist_b in Hex. rewrite forallb_forall in Hex.
  destruct (valid_coord_get p r1 (Hex r1 (or_introl eq_refl))) as [x1 E1].
  assert (H2 : In (second (r1 :: rest) r1) (r1 :: rest)) by (unfold second; destruct rest; simpl; auto).
  destruct (valid_coord_get p _ (Hex _ H2)) as [x2 E2]. exists r1, x1, x2. auto.
Qed.

(* Every iteration of the inner loop of evolution::run under std_es: for ALL
   draws within their contracts (target index, ring draws) and every offspring
   whose age/identity is what recombination::base::run produces from the
   selected parents, the model accepts the step. *)
Theorem step_progress_std : forall e (s : state) ti rs k o,
  e_strat e = Std -> (1 <= e_tournament e)%nat -> Inv F e s ->
  (ti < e_individuals e)%nat -> length rs = e_tournament e ->
  forallb (ring_draw_ok (e_mate_zone e) (Z.of_nat (e_individuals e))) rs = true ->
  (forall r1 x1 x2 parents, tournament_select flt e (pop s) (O, ti) rs = Some parents ->
     hd_error parents = Some r1 -> get (pop s) r1 = Some x1 -> get (pop s) (second parents r1) = Some x2 ->
     base_offspring_ok e x1 x2 k o) ->
  exists s', step_ok flt ops e s (EStep (SelTournament (O, ti) rs) (RecBase k) o []) = Some s'.
Proof.
  intros e s ti rs k o Hst Ht HI Hti Hlen Hd Hoff.
  assert (Ha : is_alps e = false) by (unfold is_alps; rewrite Hst; reflexivity).
  assert (Hde : is_de e = false) by (unfold is_de; rewrite Hst; reflexivity).
  destruct (single_layer e s Ha HI) as (ly & Ep & El).
  destruct (tournament_select_total e (pop s) (O, ti) rs ly) as [cs Ecs]; cbn [fst snd]; try (rewrite Ep; reflexivity); try lia.
  { rewrite El. exact Hd. }
  pose proof (tournament_select_exist F flt e (pop s) (O, ti) rs cs Ecs) as Hex.
  pose proof (tournament_select_length e (pop s) (O, ti) rs cs Ecs) as Hcl.
  assert (Hne : cs <> []) by (destruct cs; simpl in Hcl; [lia|congruence]).
  destruct (parents_head (pop s) cs Hne Hex) as (r1 & x1 & x2 & Hh & G1 & G2).
  cbn [step_ok]. unfold select. rewrite Hst, Ecs.
  rewrite (recombine_base_total e (pop s) cs r1 x1 x2 k o Hde Hh G1 G2 (Hoff r1 x1 x2 cs Ecs Hh G1 G2)).
  unfold replace. rewrite Ha. apply repl_tournament_total; auto.
Qed.

(* the same for the DE strategy: random selection, two ring draws around
   parent[0], a child whose age is the maximum of the four individuals used *)
Theorem step_progress_de : forall e (s : state) (cs : list coord) va vb,
  e_strat e = De -> (1 <= e_tournament e)%nat -> Inv F e s ->
  length cs = e_tournament e -> (forall c, In c cs -> fst c = O /\ (snd c < e_individuals e)%nat) ->
  ring_draw_ok (e_mate_zone e) (Z.of_nat (e_individuals e)) va = true ->
  ring_draw_ok (e_mate_zone e) (Z.of_nat (e_individuals e)) vb = true ->
  exists a_age, forall o : ind, age o = a_age ->
    exists s', step_ok flt ops e s (EStep (SelRandom cs) (RecDe va vb) o []) = Some s'.
Proof.
  intros e s cs va vb Hst Ht HI Hlen Hc Da Db.
  assert (Ha : is_alps e = false) by (unfold is_alps; rewrite Hst; reflexivity).
  assert (Hde : is_de e = true) by (unfold is_de; rewrite Hst; reflexivity).
  destruct (single_layer e s Ha HI) as (ly & Ep & El).
  assert (Hsel : random_select e (pop s) cs = Some cs).
  { apply random_select_total; auto. intros c Hin. destruct (Hc c Hin) as [H0 H1]. rewrite H0.
    unfold lsize. rewrite Ep. simpl. lia. }
  assert (Hex : parents_exist_b (pop s) cs = true).
  { unfold random_select in Hsel. destruct ((length cs =? e_tournament e)%nat && forallb (valid_coord (pop s)) cs) eqn:C; [|discriminate].
    unfold parents_exist_b. lia. }
  assert (Hne : cs <> []) by (destruct cs; simpl in Hlen; [lia|congruence]).
  destruct (parents_head (pop s) cs Hne Hex) as (r1 & x1 & x2 & Hh & G1 & G2).
  assert (Hr1 : fst r1 = O) by (destruct cs; [discriminate|]; inversion Hh; subst; apply (Hc r1); left; reflexivity).
  assert (Ely : nth_error (pop s) (fst r1) = Some ly) by (rewrite Hr1, Ep; reflexivity).
  destruct (recombine_de_total e (pop s) cs r1 x1 x2 ly va vb Hde Hh G1 G2 Ely) as (xa & xb & Hrec);
    try (rewrite El; assumption).
  exists (Z.max (Z.max (age x1) (age x2)) (Z.max (age xa) (age xb))). intros o Ho.
  cbn [step_ok]. unfold select. rewrite Hst, Hsel, (Hrec o Ho).
  unfold replace. rewrite Ha. apply repl_tournament_total; auto.
Qed.

(* generation end under std / DE: always accepted *)
Theorem aftergen_progress_std_de : forall e (s : state) a, is_alps e = false ->
  exists s', step_ok flt ops e s (EAfterGen a) = Some s'.
Proof. intros e s a Ha. cbn [step_ok]. rewrite Ha. eauto. Qed.

(* ====================================================================== *)
(* ALPS: the draws of try_add_to_layer are the answers of an arbitrary random
   source to the calls random::sup(n) IN THE ORDER THE CODE MAKES THEM; each
   only has to be below the size of the layer sampled by that call. *)
Section Oracle.
Variable sigma : nat -> nat -> nat.       (* sigma i n: value of the i-th call random::sup(n) *)
Hypothesis sigma_ok : forall i n, (0 < n)%nat -> (sigma i n < n)%nat.

Fixpoint sup_draws (i n k : nat) : list nat :=
  match k with O => [] | S k' => sigma i n :: sup_draws (S i) n k' end.

Lemma sup_draws_length : forall k i n, length (sup_draws i n k) = k.
Proof. induction k; intros; simpl; auto. Qed.

Lemma sup_draws_ok : forall k i n d, (0 < n)%nat -> In d (sup_draws i n k) -> (d < n)%nat.
Proof. induction k; intros i n d Hn H; simpl in H; [contradiction|]. destruct H as [<-|H]; eauto. Qed.

Lemma take_n_app : forall A (a b : list A), take_n (length a) (a ++ b) = Some (a, b).
Proof. induction a as [|h t IH]; intros b; simpl; auto. rewrite IH. reflexivity. Qed.

(* the draws try_add_to_layer consumes, in call order, starting with call number i *)
Fixpoint gen_try_add (fuel : nat) (e : env) (p : population) (layer : nat) (inc : ind) (i : nat) : list nat :=
  match fuel with
  | O => []
  | S fuel' =>
      match nth_error p layer with
      | None => []
      | Some ly =>
          if (length (members ly) <? allowed ly)%nat then []
          else
            let m_age := allowed_age e layer (length p) in
            let kd := sup_draws i (length (members ly)) (S (e_tournament e)) in
            match kd with
            | [] => []
            | d0 :: kr =>
                match nth_error (members ly) d0 with
                | None => kd
                | Some w0 =>
                    match kill_tournament flt (members ly) m_age d0 w0 kr with
                    | None => kd
                    | Some (cw, w) =>
                        if (((age inc <=? m_age) && (m_age <? age w))
                            || (((age inc <=? m_age) || (m_age <? age w)) && fge flt (fit inc) (fit w)))
                           && (S layer <? length p)%nat
                        then kd ++ gen_try_add fuel' e p (S layer) w (i + S (e_tournament e))
                        else kd
                    end
                end
            end
      end
  end.

Theorem try_add_oracle : forall fuel e (p : population) layer inc i,
  PL F p -> (layer < length p)%nat -> (length p - layer <= fuel)%nat ->
  exists p' b, (forall rest, try_add flt fuel e p layer inc (gen_try_add fuel e p layer inc i ++ rest) = Some (p', b, rest))
               /\ PL F p' /\ length p' = length p.
Proof.
  induction fuel as [|fuel IH]; intros e p layer inc i Hpl Hl Hf; [lia|].
  cbn [try_add gen_try_add]. destruct (nth_error p layer) as [ly|] eqn:El; [|apply nth_error_None in El; lia].
  pose proof (PL_nth F p layer ly Hpl El) as Hsz.
  destruct (length (members ly) <? allowed ly)%nat eqn:Cfull.
  { exists (add_to_layer p layer inc), true. split; [intro; reflexivity|].
    split; [apply PL_add_to_layer; auto | apply length_add_to_layer]. }
  set (n := length (members ly)) in *.
  assert (Hkl : length (sup_draws i n (S (e_tournament e))) = S (e_tournament e)) by apply sup_draws_length.
  assert (Hkok : forall d, In d (sup_draws i n (S (e_tournament e))) -> (d < n)%nat) by (intros; eapply sup_draws_ok; eauto; lia).
  destruct (sup_draws i n (S (e_tournament e))) as [|d0 kr] eqn:Ekd; [simpl in Hkl; lia|].
  destruct (nth_error (members ly) d0) as [w0|] eqn:Ew;
    [|apply nth_error_None in Ew; specialize (Hkok d0 (or_introl eq_refl)); lia].
  destruct (kill_tournament_total (members ly) (allowed_age e layer (length p)) kr d0 w0) as [[cw w] Ek].
  { intros; apply Hkok; right; auto. }
  rewrite Ek.
  assert (Htake : forall X, take_n (S (e_tournament e)) ((d0 :: kr) ++ X) = Some (d0 :: kr, X)).
  { intro X. rewrite <- Hkl. apply take_n_app. }
  match goal with |- context [if ?c && (S layer <? length p)%nat then _ else _] => destruct c eqn:Ccond end; cbn [andb].
  - destruct (S layer <? length p)%nat eqn:Cl.
    + apply Nat.ltb_lt in Cl.
      destruct (IH e p (S layer) w (i + S (e_tournament e))%nat Hpl Cl) as (p1 & b1 & Hr & Hp1 & Hl1); [lia|].
      exists (set_ind p1 (layer, cw) inc), true. split.
      * intro rest. rewrite <- app_assoc, Htake, Ew, Ek, Ccond, Hr. reflexivity.
      * split; [apply PL_set_ind; auto | rewrite length_set_ind; auto].
    + exists (set_ind p (layer, cw) inc), true. split.
      * intro rest. rewrite Htake, Ew, Ek, Ccond. reflexivity.
      * split; [apply PL_set_ind; auto | apply length_set_ind].
  - exists p, false. split; [|auto]. intro rest. rewrite Htake, Ew, Ek, Ccond. reflexivity.
Qed.

(* replacement::alps::run *)
Definition gen_repl_alps (e : env) (s : state) (parents : list coord) (o : ind) (i : nat) : list nat :=
  match parents with
  | p0 :: p1 :: _ =>
      let p := pop s in
      let g1 := gen_try_add (length p) e p (Nat.max (fst p0) (fst p1)) o i in
      match try_add flt (length p) e p (Nat.max (fst p0) (fst p1)) o g1 with
      | Some (pa, ins, _) =>
          if fgt flt (fit o) (best_fit (sm s)) && (negb ins && e_elitism e)
          then g1 ++ gen_try_add (length pa) e pa (length pa - 1) o (i + length g1)
          else g1
      | None => g1
      end
  | _ => []
  end.

Theorem repl_alps_oracle : forall e (s : state) c0 c1 o i,
  PL F (pop s) -> (fst c0 < length (pop s))%nat -> (fst c1 < length (pop s))%nat ->
  exists s', repl_alps flt e s [c0; c1] o (gen_repl_alps e s [c0; c1] o i) = Some s'.
Proof.
  intros e s c0 c1 o i Hpl H0 H1. unfold repl_alps, gen_repl_alps.
  set (layer := Nat.max (fst c0) (fst c1)). assert (Hl : (layer < length (pop s))%nat) by (subst layer; lia).
  destruct (try_add_oracle (length (pop s)) e (pop s) layer o i Hpl Hl) as (pa & ins & Hr & Hpa & Hla); [lia|].
  pose proof (Hr []) as Hr0. rewrite app_nil_r in Hr0. rewrite Hr0.
  destruct (fgt flt (fit o) (best_fit (sm s))) eqn:Cb; cbn [andb].
  - destruct (negb ins && e_elitism e) eqn:Ce.
    + assert (Hlast : (length pa - 1 < length pa)%nat) by lia.
      destruct (try_add_oracle (length pa) e pa (length pa - 1) o (i + length (gen_try_add (length (pop s)) e (pop s) layer o i))%nat Hpa Hlast)
        as (pb & b2 & Hr2 & _); [lia|].
      rewrite Hr. pose proof (Hr2 []) as Hr20. rewrite app_nil_r in Hr20. rewrite ?Cb, ?Ce, Hr20. eauto.
    + rewrite Hr0, ?Cb, ?Ce. eauto.
  - rewrite Hr0, ?Cb. eauto.
Qed.

(* try_move_up_layer(0) *)
Fixpoint gen_move_up (e : env) (p : population) (xs : list ind) (i : nat) : list nat :=
  match xs with
  | [] => []
  | x :: r =>
      let g := gen_try_add (length p) e p 1 x i in
      match try_add flt (length p) e p 1 x g with
      | Some (p', _, _) => g ++ gen_move_up e p' r (i + length g)
      | None => g
      end
  end.

Theorem move_up_oracle : forall e xs (p : population) i, PL F p -> (1 < length p)%nat ->
  exists p', (forall rest, move_up flt e p xs (gen_move_up e p xs i ++ rest) = Some (p', rest))
             /\ PL F p' /\ length p' = length p.
Proof.
  intros e. induction xs as [|x r IH]; intros p i Hpl Hl; cbn [move_up gen_move_up].
  - exists p. auto.
  - destruct (try_add_oracle (length p) e p 1 x i Hpl Hl) as (p1 & b1 & Hr & Hp1 & Hl1); [lia|].
    pose proof (Hr []) as Hr0. rewrite app_nil_r in Hr0. rewrite Hr0.
    destruct (IH p1 (i + length (gen_try_add (length p) e p 1 x i))%nat Hp1) as (p2 & Hr2 & Hp2 & Hl2); [lia|].
    exists p2. split; [|split; [auto|congruence]].
    intro rest. rewrite <- app_assoc, Hr. apply Hr2.
Qed.

(* ---- a whole step of the ALPS strategies ---- *)
Lemma valid_coord_layer : forall (p : population) c, valid_coord p c = true -> (fst c < length p)%nat.
Proof.
  intros p c H. unfold valid_coord, get in H. destruct (nth_error p (fst c)) eqn:E; [|discriminate].
  apply nth_error_Some. congruence.
Qed.

Lemma alps_select_pair : forall e (p : population) layer pk0 pk1 pks cs,
  alps_select flt e p layer pk0 pk1 pks = Some cs ->
  exists c0 c1, cs = [c0; c1] /\ parents_exist_b p cs = true /\ (fst c0 < length p)%nat /\ (fst c1 < length p)%nat.
Proof.
  intros e p layer pk0 pk1 pks cs E. pose proof (alps_parents_layer_or_below F flt e p layer pk0 pk1 pks cs E) as H.
  unfold alps_parents_b in H. apply andb_prop in H. destruct H as [H _]. apply andb_prop in H. destruct H as [Hl Hex].
  destruct cs as [|c0 [|c1 [|c2 r]]]; simpl in Hl; try discriminate.
  exists c0, c1. split; [reflexivity|]. split; [exact Hex|].
  unfold parents_exist_b in Hex. simpl in Hex. apply andb_prop in Hex. destruct Hex as [V0 Hex].
  apply andb_prop in Hex. destruct Hex as [V1 _]. split; apply valid_coord_layer; auto.
Qed.

(* For every behaviour [sigma] of the random source in the replacement, every
   selection draw within its contract and every offspring the recombination can
   return for the selected parents, the ALPS step is accepted; [ds] are sigma's
   answers in call order. *)
Theorem step_progress_alps_gen : forall e (s : state) layer pk0 pk1 pks rd o (i : nat),
  is_alps e = true -> PL F (pop s) ->
  (layer < length (pop s))%nat -> length pks = e_tournament e ->
  pick_draw_ok (pop s) layer P1 pk0 -> pick_draw_ok (pop s) layer P1 pk1 ->
  (forall pk, In pk pks -> pick_draw_ok (pop s) layer (e_p_same e) pk) ->
  (forall parents, alps_select flt e (pop s) layer pk0 pk1 pks = Some parents ->
     recombine e (pop s) parents rd o = Some o) ->
  exists ds s', step_ok flt ops e s (EStep (SelAlps layer pk0 pk1 pks) rd o ds) = Some s'.
Proof.
  intros e s layer pk0 pk1 pks rd o i Ha Hpl Hl Hlen H0 H1 Hr Hrec.
  destruct (alps_select_total e (pop s) layer pk0 pk1 pks Hl Hlen H0 H1 Hr) as [cs Ecs].
  destruct (alps_select_pair e (pop s) layer pk0 pk1 pks cs Ecs) as (c0 & c1 & -> & Hex & L0 & L1).
  destruct (repl_alps_oracle e s c0 c1 o i Hpl L0 L1) as [s' Es'].
  exists (gen_repl_alps e s [c0; c1] o i), s'.
  cbn [step_ok]. unfold select.
  assert (Esel : match e_strat e with Std | De => None | _ => alps_select flt e (pop s) layer pk0 pk1 pks end = Some [c0; c1]).
  { unfold is_alps in Ha. destruct (e_strat e); try discriminate; exact Ecs. }
  replace (match e_strat e, SelAlps layer pk0 pk1 pks with
           | Std, SelTournament tgt rs => tournament_select flt e (pop s) tgt rs
           | De, SelRandom cs => random_select e (pop s) cs
           | Alps, SelAlps l a b r => alps_select flt e (pop s) l a b r
           | DeAlps, SelAlps l a b r => alps_select flt e (pop s) l a b r
           | _, _ => None
           end) with (Some [c0; c1]) by (unfold is_alps in Ha; destruct (e_strat e); try discriminate; auto).
  rewrite (Hrec _ Ecs). unfold replace. rewrite Ha. exact Es'.
Qed.

Theorem step_progress_alps : forall e (s : state) layer pk0 pk1 pks k o (i : nat),
  e_strat e = Alps -> PL F (pop s) ->
  (layer < length (pop s))%nat -> length pks = e_tournament e ->
  pick_draw_ok (pop s) layer P1 pk0 -> pick_draw_ok (pop s) layer P1 pk1 ->
  (forall pk, In pk pks -> pick_draw_ok (pop s) layer (e_p_same e) pk) ->
  (forall r1 x1 x2 parents, alps_select flt e (pop s) layer pk0 pk1 pks = Some parents ->
     hd_error parents = Some r1 -> get (pop s) r1 = Some x1 -> get (pop s) (second parents r1) = Some x2 ->
     base_offspring_ok e x1 x2 k o) ->
  exists ds s', step_ok flt ops e s (EStep (SelAlps layer pk0 pk1 pks) (RecBase k) o ds) = Some s'.
Proof.
  intros e s layer pk0 pk1 pks k o i Hst Hpl Hl Hlen H0 H1 Hr Hoff.
  assert (Ha : is_alps e = true) by (unfold is_alps; rewrite Hst; reflexivity).
  assert (Hde : is_de e = false) by (unfold is_de; rewrite Hst; reflexivity).
  apply (step_progress_alps_gen e s layer pk0 pk1 pks (RecBase k) o i Ha Hpl Hl Hlen H0 H1 Hr).
  intros parents Ep.
  destruct (alps_select_pair e (pop s) layer pk0 pk1 pks parents Ep) as (c0 & c1 & -> & Hex & _).
  destruct (parents_head (pop s) [c0; c1]) as (r1 & x1 & x2 & Hh & G1 & G2); [discriminate|exact Hex|].
  apply (recombine_base_total e (pop s) [c0; c1] r1 x1 x2 k o Hde Hh G1 G2). eapply Hoff; eauto.
Qed.

(* ---- the end of a generation under ALPS, for ANY analyzer statistics ---- *)
Lemma removal_loop_total : forall means l (p : population), (l < length means)%nat ->
  exists p', removal_loop ops means p l = Some p' /\ (length p' <= length p)%nat.
Proof.
  intros means. induction l as [|k IH]; intros p Hl; cbn [removal_loop]; [eauto|].
  destruct (nth_error means k) as [a|] eqn:Ea; [|apply nth_error_None in Ea; lia].
  destruct (nth_error means (S k)) as [b|] eqn:Eb; [|apply nth_error_None in Eb; lia].
  destruct (IH (if st_almost_equal ops a b then remove_nth (S k) p else p)) as (p' & E & L); [lia|].
  exists p'. split; auto. destruct (st_almost_equal ops a b); auto.
  assert (length (remove_nth (S k) p) <= length p)%nat.
  { clear. generalize (S k). induction p as [|h t IHp]; intros [|n]; simpl; auto. specialize (IHp n). lia. }
  lia.
Qed.

Lemma small_flags_total : forall sds n from, (from + n <= length sds)%nat -> exists bs, small_flags ops sds from n = Some bs.
Proof.
  intros sds. induction n as [|k IH]; intros from H; cbn [small_flags]; [eauto|].
  destruct (nth_error sds from) as [sd|] eqn:E; [|apply nth_error_None in E; lia].
  destruct (IH (S from)) as [r Er]; [lia|]. rewrite Er. eauto.
Qed.

Lemma length_resize_layers : forall e bs (p : population) l, length (resize_layers e p l bs) = length p.
Proof.
  intros e. induction bs as [|b r IH]; intros p l; simpl; auto. rewrite IH.
  destruct (nth_error p l); auto. destruct b; apply length_set_allowed.
Qed.

Theorem aftergen_progress_alps : forall e (s : state) st (i : nat),
  is_alps e = true -> env_ok e -> 0 < e_age_gap e -> PL F (pop s) ->
  (length (pop s) <= length (fit_mean st))%nat -> (length (pop s) <= length (fit_sd st))%nat ->
  (length (pop s) <= length (age_mean st))%nat ->
  exists n, forall news, length news = n -> fresh news = true ->
    exists ds s', step_ok flt ops e s (EAfterGen (mkAg st ds news)) = Some s'.
Proof.
  intros e s st i Ha [Hi Hm] Hgap Hpl Lm Ls La.
  assert (H0 : PL F (inc_age (pop s))) by (unfold PL; rewrite shape_inc_age; auto).
  assert (L0 : length (inc_age (pop s)) = length (pop s)) by (unfold inc_age; apply map_length).
  assert (Hne : (1 <= length (pop s))%nat).
  { destruct Hpl as [Hne _]. rewrite <- (shape_length F). destruct (shape F (pop s)); [congruence|simpl; lia]. }
  destruct (removal_loop_total (fit_mean st) (length (inc_age (pop s)) - 1) (inc_age (pop s))) as (p1 & E1 & L1); [lia|].
  pose proof (PL_removal_loop F ops _ _ _ _ H0 E1) as Hp1.
  destruct (small_flags_total (fit_sd st) (length p1 - 1) 1) as [bs Ebs]; [lia|].
  pose proof (PL_resize_layers F e bs p1 1%nat Hm Hi Hp1) as Hp2.
  pose proof (length_resize_layers e bs p1 1%nat) as L2.
  assert (Hstep : forall news ds, step_ok flt ops e s (EAfterGen (mkAg st ds news)) =
            match (let p2 := resize_layers e p1 1 bs in
                   if (0 <? gen (sm s)) && (gen (sm s) mod e_age_gap e =? 0) then
                     match add_layer_decision ops e st (length p2) with
                     | None => None
                     | Some true => if (length news =? e_individuals e)%nat && fresh news
                                    then Some (mkLayer news (e_individuals e) :: p2) else None
                     | Some false =>
                         match p2 with
                         | [] => None
                         | l0 :: _ =>
                             match (if (1 <? length p2)%nat then move_up flt e p2 (members l0) ds else Some (p2, ds)) with
                             | None => None
                             | Some (p3, _) =>
                                 match p3 with
                                 | [] => None
                                 | l0' :: rest => if (length news =? allowed l0')%nat && fresh news
                                                  then Some (mkLayer news (allowed l0') :: rest) else None
                                 end
                             end
                         end
                     end
                   else Some p2) with
            | Some p => Some (mkState p (next_gen (sm s)))
            | None => None
            end).
  { intros news ds. cbn [step_ok]. rewrite Ha. unfold after_generation_alps. cbn [ag_stats ag_draws ag_news].
    rewrite E1, Ebs. replace (negb (0 <? e_age_gap e)) with false by (symmetry; apply negb_false_iff, Z.ltb_lt; auto).
    reflexivity. }
  set (p2 := resize_layers e p1 1 bs) in *.
  destruct ((0 <? gen (sm s)) && (gen (sm s) mod e_age_gap e =? 0)) eqn:Cg.
  2:{ exists O. intros news _ _. exists [], (mkState p2 (next_gen (sm s))). rewrite Hstep. cbn zeta. rewrite ?Cg. reflexivity. }
  assert (Hdec : exists d, add_layer_decision ops e st (length p2) = Some d).
  { unfold add_layer_decision. destruct (length p2 <? e_layers e)%nat; [eauto|].
    destruct (nth_error (age_mean st) (length p2 - 1)) eqn:E; [eauto|apply nth_error_None in E; lia]. }
  destruct Hdec as [[|] Ed].
  - exists (e_individuals e). intros news Hn Hf. exists [], (mkState (mkLayer news (e_individuals e) :: p2) (next_gen (sm s))).
    rewrite Hstep. cbn zeta. rewrite ?Cg, Ed, Hn, Nat.eqb_refl, Hf. reflexivity.
  - destruct p2 as [|l0 r0] eqn:Ep2; [destruct Hp2 as [Hx _]; simpl in Hx; congruence|].
    destruct (1 <? length (l0 :: r0))%nat eqn:C1.
    + apply Nat.ltb_lt in C1.
      destruct (move_up_oracle e (members l0) (l0 :: r0) i Hp2 C1) as (p3 & Hr3 & Hp3 & L3).
      destruct p3 as [|l0' rest]; [simpl in L3; discriminate|].
      exists (allowed l0'). intros news Hn Hf.
      exists (gen_move_up e (l0 :: r0) (members l0) i), (mkState (mkLayer news (allowed l0') :: rest) (next_gen (sm s))).
      rewrite Hstep. cbn zeta. rewrite ?Cg, Ed. rewrite (proj2 (Nat.ltb_lt _ _) C1).
      pose proof (Hr3 []) as Hr30. rewrite app_nil_r in Hr30. rewrite Hr30, Hn, Nat.eqb_refl, Hf. reflexivity.
    + exists (allowed l0). intros news Hn Hf.
      exists [], (mkState (mkLayer news (allowed l0) :: r0) (next_gen (sm s))).
      rewrite Hstep. cbn zeta. rewrite ?Cg, Ed, C1, Hn, Nat.eqb_refl, Hf. reflexivity.
Qed.

End Oracle.

End Progress.
