(* C06 -- lemmas about the event model of Evo/EvoDefs.v. *)
From Coq Require Import ZArith List Bool Arith Lia ZifyBool.
From VV Require Import Evo.EvoDefs.
Import ListNotations.
Local Open Scope Z_scope.

(* ------------------------------------------------------------------ ring *)
Lemma ring_in_range : forall base width n v,
  0 < n -> ring_draw_ok width n v = true -> 0 <= ring base width n v < n.
Proof.
  intros base width n v Hn Hd. unfold ring, ring_draw_ok in *.
  destruct (n <=? width) eqn:E.
  - lia.
  - apply Z.mod_pos_bound. lia.
Qed.

(* without unsigned wrap-around the result is  base - width/2 + v  modulo n *)
Lemma ring_window : forall base width n v,
  0 <= base < n -> 0 < width < n -> base + n + width < two32 -> 0 <= v < width ->
  ring base width n v = (base - width / 2 + v) mod n /\
  (ring base width n v - base + width / 2) mod n = v.
Proof.
  intros base width n v Hb Hw Hnw Hv. unfold ring.
  destruct (n <=? width) eqn:E; [lia|].
  assert (Hh : 0 <= width / 2 <= width) by (split; [apply Z.div_pos; lia | apply Z.div_le_upper_bound; lia]).
  unfold two32 in *.
  rewrite (Z.mod_small (base + n - width / 2)) by lia.
  rewrite (Z.mod_small (base + n - width / 2 + v)) by lia.
  assert (E1 : (base + n - width / 2 + v) mod n = (base - width / 2 + v) mod n).
  { replace (base + n - width / 2 + v) with (base - width / 2 + v + 1 * n) by ring.
    apply Z.mod_add. lia. }
  split; [exact E1|].
  rewrite E1.
  rewrite (Z.mod_eq (base - width / 2 + v) n) by lia.
  replace (base - width / 2 + v - n * ((base - width / 2 + v) / n) - base + width / 2)
    with (v + (- ((base - width / 2 + v) / n)) * n) by ring.
  rewrite Z.mod_add by lia. apply Z.mod_small. lia.
Qed.

(* ----------------------------------------------------------- list tools *)
Lemma upd_nth_length : forall A n (x : A) l, length (upd_nth n x l) = length l.
Proof. intros A n x l. revert n. induction l as [|h t IH]; intros [|k]; simpl; auto. Qed.

Lemma nth_error_upd_nth_same : forall A n (x : A) l, (n < length l)%nat -> nth_error (upd_nth n x l) n = Some x.
Proof.
  intros A n x l. revert n. induction l as [|h t IH]; intros [|k] H; simpl in *; try lia; auto.
  apply IH. lia.
Qed.

Lemma nth_error_upd_nth_other : forall A n m (x : A) l, n <> m -> nth_error (upd_nth n x l) m = nth_error l m.
Proof.
  intros A n m x l. revert n m. induction l as [|h t IH]; intros [|k] [|j] H; simpl; auto; try congruence.
Qed.

Lemma map_upd_nth : forall A B (f : A -> B) n x l, map f (upd_nth n x l) = upd_nth n (f x) (map f l).
Proof. intros A B f n x l. revert n. induction l as [|h t IH]; intros [|k]; simpl; auto. rewrite IH. reflexivity. Qed.

Lemma upd_nth_same : forall A n (x : A) l, nth_error l n = Some x -> upd_nth n x l = l.
Proof.
  intros A n x l. revert n. induction l as [|h t IH]; intros [|k] H; simpl in *; auto; try congruence.
  rewrite IH; auto.
Qed.

Lemma in_upd_nth : forall A n (x y : A) l, In y (upd_nth n x l) -> y = x \/ In y l.
Proof.
  intros A n x y l. revert n. induction l as [|h t IH]; intros [|k] H; simpl in *; auto.
  - destruct H; auto.
  - destruct H; auto. apply IH in H. destruct H; auto.
Qed.

(* every element survives an update except possibly the one overwritten *)
Lemma in_upd_nth_keep : forall A n (x y old : A) l,
  nth_error l n = Some old -> In y l -> y = old \/ In y (upd_nth n x l).
Proof.
  intros A n x y old l. revert n. induction l as [|h t IH]; intros [|k] Hn Hy; simpl in *; try congruence.
  - destruct Hy as [->|Hy]; [left; congruence | right; right; exact Hy].
  - destruct Hy as [->|Hy]; [right; left; reflexivity|].
    destruct (IH k Hn Hy) as [->|Hi]; [left; reflexivity | right; right; exact Hi].
Qed.

Lemma in_upd_nth_new : forall A n (x : A) l, (n < length l)%nat -> In x (upd_nth n x l).
Proof.
  intros A n x l. revert n. induction l as [|h t IH]; intros [|k] H; simpl in *; try lia; auto.
  right. apply IH. lia.
Qed.

Lemma take_n_length : forall A n (l a b : list A), take_n n l = Some (a, b) -> length a = n /\ l = a ++ b.
Proof.
  intros A n. induction n as [|k IH]; intros l a b H; simpl in H.
  - inversion H; subst. auto.
  - destruct l as [|h t]; [discriminate|]. destruct (take_n k t) as [[a' b']|] eqn:E; [|discriminate].
    inversion H; subst. apply IH in E. destruct E as [E1 E2]. simpl. subst. auto.
Qed.

Section Proofs.
Variable F : Type.
Variable flt : F -> F -> bool.
Variable ops : stat_ops.
(* the order laws of fitness_t::operator< (a strict weak order; C18 proves
   them for the real fitness type on NaN-free vectors) *)
Hypothesis flt_asym : forall a b, flt a b = true -> flt b a = false.
Hypothesis flt_negtrans : forall a b c, flt a b = false -> flt b c = false -> flt a c = false.

Notation ind := (ind F).
Notation layer := (layer F).
Notation population := (population F).
Notation state := (state F).
Notation summary := (summary F).
Notation event := (event F).

Lemma flt_irrefl : forall a, flt a a = false.
Proof. intro a. destruct (flt a a) eqn:E; auto. rewrite (flt_asym _ _ E) in E. discriminate. Qed.

(* ------------------------------------------------------------- shapes *)
Definition shape (p : population) : list (nat * nat) :=
  map (fun ly => (length (members ly), allowed ly)) p.

Definition good_shape (sh : list (nat * nat)) : Prop :=
  sh <> [] /\ Forall (fun na => (1 <= fst na <= snd na)%nat) sh.

Definition PL (p : population) : Prop := good_shape (shape p).

Lemma shape_length : forall p, length (shape p) = length p.
Proof. intro p. unfold shape. apply map_length. Qed.

Lemma shape_set_ind : forall (p : population) c x, shape (set_ind p c x) = shape p.
Proof.
  intros p c x. unfold set_ind. destruct (nth_error p (fst c)) as [ly|] eqn:E; auto.
  unfold shape. rewrite map_upd_nth. cbn [members allowed]. rewrite upd_nth_length.
  apply upd_nth_same. rewrite nth_error_map, E. reflexivity.
Qed.

Lemma length_set_ind : forall (p : population) c x, length (set_ind p c x) = length p.
Proof. intros. rewrite <- !shape_length, shape_set_ind. reflexivity. Qed.

Lemma good_shape_upd : forall sh l n a, good_shape sh -> (1 <= n <= a)%nat -> good_shape (upd_nth l (n, a) sh).
Proof.
  intros sh l n a [Hne Hall] Hna. split.
  - intro H. apply (f_equal (@length _)) in H. rewrite upd_nth_length in H. destruct sh; simpl in *; congruence.
  - apply Forall_forall. intros y Hy. apply in_upd_nth in Hy. destruct Hy as [->|Hy]; [exact Hna|].
    rewrite Forall_forall in Hall. auto.
Qed.

Lemma PL_nth : forall p l ly, PL p -> nth_error p l = Some ly ->
  (1 <= length (members ly) <= allowed ly)%nat.
Proof.
  intros p l ly [_ Hall] E. rewrite Forall_forall in Hall.
  apply (Hall (length (members ly), allowed ly)). unfold shape.
  apply in_map_iff. exists ly. split; auto. eapply nth_error_In; eauto.
Qed.

Lemma PL_add_to_layer : forall (p : population) l x, PL p -> PL (add_to_layer p l x).
Proof.
  intros p l x H. unfold add_to_layer. destruct (nth_error p l) as [ly|] eqn:E; auto.
  destruct (length (members ly) <? allowed ly)%nat eqn:C; auto.
  unfold PL, shape. rewrite map_upd_nth. cbn [members allowed]. apply good_shape_upd; auto.
  rewrite app_length. simpl. lia.
Qed.

Lemma length_add_to_layer : forall (p : population) l x, length (add_to_layer p l x) = length p.
Proof.
  intros p l x. unfold add_to_layer. destruct (nth_error p l); auto.
  destruct (_ <? _)%nat; auto. apply upd_nth_length.
Qed.

Lemma PL_set_ind : forall (p : population) c x, PL p -> PL (set_ind p c x).
Proof. intros. unfold PL. rewrite shape_set_ind. auto. Qed.

Lemma shape_inc_age : forall (p : population), shape (inc_age p) = shape p.
Proof.
  intro p. unfold shape, inc_age. rewrite map_map. apply map_ext. intro ly. cbn [members allowed].
  rewrite map_length. reflexivity.
Qed.

Lemma PL_set_allowed : forall e (p : population) l n, (1 <= e_min_individuals e)%nat -> (1 <= e_individuals e)%nat ->
  PL p -> PL (set_allowed e p l n).
Proof.
  intros e p l n Hm Hi H. unfold set_allowed. destruct (nth_error p l) as [ly|] eqn:E; auto.
  pose proof (PL_nth _ _ _ H E) as Hly.
  unfold PL, shape. rewrite map_upd_nth. cbn [members allowed]. apply good_shape_upd; auto.
  rewrite firstn_length. lia.
Qed.

Lemma length_set_allowed : forall e (p : population) l n, length (set_allowed e p l n) = length p.
Proof. intros. unfold set_allowed. destruct (nth_error p l); auto. apply upd_nth_length. Qed.

Lemma good_shape_remove : forall sh l, good_shape sh -> (0 < l)%nat -> good_shape (remove_nth l sh).
Proof.
  intros sh l [Hne Hall] Hl. destruct sh as [|h t]; [congruence|]. destruct l as [|k]; [lia|]. simpl.
  split; [congruence|]. inversion Hall; subst. constructor; auto.
  clear -H2. revert k. induction t as [|a t IH]; intros [|k]; simpl; auto; inversion H2; subst; auto.
Qed.

Lemma shape_remove_nth : forall (p : population) l, shape (remove_nth l p) = remove_nth l (shape p).
Proof. intros p. induction p as [|h t IH]; intros [|k]; simpl; auto. rewrite IH. reflexivity. Qed.

Lemma PL_removal_loop : forall means l (p : population) p', PL p -> removal_loop ops means p l = Some p' -> PL p'.
Proof.
  intros means. induction l as [|k IH]; intros p p' H E; cbn [removal_loop] in E.
  - inversion E; subst; auto.
  - destruct (nth_error means k) as [a|]; [|discriminate]. destruct (nth_error means (S k)) as [b|]; [|discriminate].
    eapply IH; [|exact E]. destruct (st_almost_equal ops a b); auto.
    unfold PL. rewrite shape_remove_nth. apply good_shape_remove; auto. lia.
Qed.

Lemma PL_resize_layers : forall e bs (p : population) l, (1 <= e_min_individuals e)%nat -> (1 <= e_individuals e)%nat ->
  PL p -> PL (resize_layers e p l bs).
Proof.
  intros e bs. induction bs as [|b r IH]; intros p l Hm Hi H; simpl; auto.
  apply IH; auto. destruct (nth_error p l); auto. destruct b; apply PL_set_allowed; auto.
Qed.

Lemma try_add_PL : forall fuel e p layer inc ds p' b ds',
  PL p -> try_add flt fuel e p layer inc ds = Some (p', b, ds') -> PL p' /\ length p' = length p.
Proof.
  induction fuel as [|fuel IH]; intros e p layer inc ds p' b ds' H E; cbn [try_add] in E; [discriminate|].
  destruct (nth_error p layer) as [ly|] eqn:El; [|discriminate].
  destruct (length (members ly) <? allowed ly)%nat eqn:C.
  { inversion E; subst. split; [apply PL_add_to_layer; auto | apply length_add_to_layer]. }
  destruct (take_n (S (e_tournament e)) ds) as [[kd ds1]|] eqn:Et; [|discriminate].
  destruct kd as [|d0 kr]; [discriminate|].
  destruct (nth_error (members ly) d0) as [w0|] eqn:Ew; [|discriminate].
  destruct (kill_tournament flt (members ly) (allowed_age e layer (length p)) d0 w0 kr) as [[cw w]|] eqn:Ek; [|discriminate].
  match type of E with (if ?c then _ else _) = _ => destruct c eqn:Ec end.
  - destruct (S layer <? length p)%nat eqn:Cl.
    + destruct (try_add flt fuel e p (S layer) w ds1) as [[[p1 b1] ds2]|] eqn:Er; [|discriminate].
      inversion E; subst. apply IH in Er; auto. destruct Er as [Hp Hl].
      split; [apply PL_set_ind; auto | rewrite length_set_ind; auto].
    + inversion E; subst. split; [apply PL_set_ind; auto | apply length_set_ind].
  - inversion E; subst. auto.
Qed.

Lemma move_up_PL : forall e xs p ds p' ds', PL p -> move_up flt e p xs ds = Some (p', ds') ->
  PL p' /\ length p' = length p.
Proof.
  intros e xs. induction xs as [|x r IH]; intros p ds p' ds' H E; simpl in E.
  - inversion E; subst. auto.
  - destruct (try_add flt (length p) e p 1 x ds) as [[[p1 b1] ds1]|] eqn:Et; [|discriminate].
    apply try_add_PL in Et; auto. destruct Et as [H1 L1].
    apply IH in E; auto. destruct E as [H2 L2]. split; auto. congruence.
Qed.

Definition env_ok (e : env) : Prop :=
  (1 <= e_individuals e)%nat /\ (1 <= e_min_individuals e)%nat.

Lemma after_generation_alps_PL : forall e s a p', env_ok e -> PL (pop s) ->
  after_generation_alps flt ops e s a = Some p' -> PL p'.
Proof.
  intros e s a p' [Hi Hm] H E. unfold after_generation_alps in E.
  assert (H0 : PL (inc_age (pop s))) by (unfold PL; rewrite shape_inc_age; auto).
  destruct (removal_loop ops (fit_mean (ag_stats a)) (inc_age (pop s)) (length (inc_age (pop s)) - 1)) as [p1|] eqn:Er; [|discriminate].
  apply PL_removal_loop in Er; auto.
  destruct (small_flags ops (fit_sd (ag_stats a)) 1 (length p1 - 1)) as [bs|]; [|discriminate].
  pose proof (PL_resize_layers e bs p1 1%nat Hm Hi Er) as H2.
  set (p2 := resize_layers e p1 1 bs) in *.
  destruct (negb (0 <? e_age_gap e)); [discriminate|].
  match type of E with (if ?c then _ else _) = _ => destruct c end; [|inversion E; subst; auto].
  destruct (add_layer_decision ops e (ag_stats a) (length p2)) as [[|]|]; [| |discriminate].
  - destruct ((length (ag_news a) =? e_individuals e)%nat && fresh (ag_news a)) eqn:C; [|discriminate].
    inversion E; subst. destruct H2 as [Hne Hall]. split; [simpl; congruence|].
    simpl. constructor; auto. simpl. lia.
  - destruct p2 as [|l0 rest0] eqn:Ep2; [discriminate|].
    match type of E with match ?m with _ => _ end = _ => destruct m as [[p3 ds3]|] eqn:Em end; [|discriminate].
    assert (H3 : PL p3).
    { destruct (1 <? length (l0 :: rest0))%nat.
      - apply move_up_PL in Em; tauto.
      - inversion Em; subst; auto. }
    destruct p3 as [|l0' rest]; [discriminate|].
    destruct ((length (ag_news a) =? allowed l0')%nat && fresh (ag_news a)) eqn:C; [|discriminate].
    inversion E; subst. pose proof (PL_nth _ O l0' H3 eq_refl) as Hl0.
    destruct H3 as [Hne Hall]. split; [simpl; congruence|]. simpl in *. inversion Hall; subst.
    constructor; auto. simpl. lia.
Qed.

(* ------------------------------------------------------ the invariant *)
Definition Inv (e : env) (s : state) : Prop :=
  PL (pop s) /\
  (is_alps e = false -> shape (pop s) = [(e_individuals e, e_individuals e)]) /\
  last_imp (sm s) <= gen (sm s) /\
  best_fit (sm s) = fit (best_sol (sm s)).

Lemma update_best_inv : forall (s : summary) o, last_imp s <= gen s -> best_fit s = fit (best_sol s) ->
  last_imp (update_best flt s o) <= gen (update_best flt s o) /\
  best_fit (update_best flt s o) = fit (best_sol (update_best flt s o)) /\
  gen (update_best flt s o) = gen s.
Proof.
  intros s o H1 H2. unfold update_best. destruct (fgt flt (fit o) (best_fit s)); simpl; repeat split; auto; lia.
Qed.

Lemma refit_members_length : forall (xs : list ind) fs m, refit_members xs fs = Some m -> length m = length xs.
Proof.
  induction xs as [|x r IH]; intros [|f fr] m E; simpl in E; try discriminate.
  - inversion E; auto.
  - destruct (refit_members r fr) eqn:Er; [|discriminate]. inversion E; subst. simpl. f_equal. eauto.
Qed.

Lemma refit_shape : forall (p : population) fs p', refit p fs = Some p' -> shape p' = shape p.
Proof.
  induction p as [|ly r IH]; intros [|f fr] p' E; simpl in E; try discriminate.
  - inversion E; auto.
  - destruct (refit_members (members ly) f) eqn:Em; [|discriminate].
    destruct (refit r fr) eqn:Er; [|discriminate]. inversion E; subst. simpl.
    rewrite (refit_members_length _ _ _ Em). f_equal. eauto.
Qed.

Lemma mk_inv_alps : forall e p (m : summary), is_alps e = true -> PL p -> last_imp m <= gen m ->
  best_fit m = fit (best_sol m) -> Inv e (mkState p m).
Proof. intros e p m Ha Hp Hl Hb. unfold Inv; simpl. split; [auto|split; [congruence|split; auto]]. Qed.

Lemma replace_inv : forall e s parents o ds s', Inv e s -> replace flt e s parents o ds = Some s' -> Inv e s'.
Proof.
  intros e s parents o ds s' (Hpl & Hsh & Hli & Hb) E. unfold replace in E.
  destruct (update_best_inv (sm s) o Hli Hb) as (U1 & U2 & U3).
  destruct (is_alps e) eqn:Ea.
  - unfold repl_alps in E. destruct parents as [|p0 [|p1 pr]]; try discriminate.
    destruct (try_add flt (length (pop s)) e (pop s) (Nat.max (fst p0) (fst p1)) o ds) as [[[pa ins] ds1]|] eqn:Et; [|discriminate].
    apply try_add_PL in Et; auto. destruct Et as [Hpa _].
    destruct (fgt flt (fit o) (best_fit (sm s))).
    + destruct (negb ins && e_elitism e).
      * destruct (try_add flt (length pa) e pa (length pa - 1) o ds1) as [[[pb b2] ds2]|] eqn:Et2; [|discriminate].
        destruct ds2; [|discriminate]. inversion E; subst. apply try_add_PL in Et2; auto.
        apply mk_inv_alps; tauto.
      * destruct ds1; [|discriminate]. inversion E; subst. apply mk_inv_alps; auto.
    + destruct ds1; [|discriminate]. inversion E; subst. apply mk_inv_alps; auto.
  - destruct ds; [|discriminate]. unfold repl_tournament in E. destruct parents as [|p0 pr]; [discriminate|].
    destruct (get (pop s) (last (p0 :: pr) (0%nat, 0%nat))) as [x|]; [|discriminate].
    inversion E; subst. unfold Inv. cbn [pop sm].
    destruct (negb (e_elitism e) || flt (fit x) (fit o)).
    + split; [apply PL_set_ind; auto|]. split; [intro; rewrite shape_set_ind; auto|]. split; auto.
    + split; [auto|]. split; [auto|]. split; auto.
Qed.

Lemma step_inv : forall e s ev s', env_ok e -> Inv e s -> step_ok flt ops e s ev = Some s' -> Inv e s'.
Proof.
  intros e s ev s' Hok HI E. destruct ev as [sd rd o ds|a|bf fits]; simpl in E.
  - destruct (select flt e (pop s) sd) as [parents|]; [|discriminate].
    destruct (recombine e (pop s) parents rd o) as [o'|]; [|discriminate].
    eapply replace_inv; eauto.
  - destruct HI as (Hpl & Hsh & Hli & Hb). destruct (is_alps e) eqn:Ea.
    + destruct (after_generation_alps flt ops e s a) as [p|] eqn:Eg; [|discriminate].
      inversion E; subst. apply after_generation_alps_PL in Eg; auto.
      apply mk_inv_alps; simpl; auto. lia.
    + inversion E; subst. unfold Inv; simpl.
      split; [auto|]. split; [auto|]. split; [lia|auto].
  - destruct HI as (Hpl & Hsh & Hli & Hb). destruct (refit (pop s) fits) as [p|] eqn:Er; [|discriminate].
    inversion E; subst. apply refit_shape in Er. unfold Inv, PL. simpl. rewrite Er.
    split; [exact Hpl|]. split; [auto|]. split; auto.
Qed.

Lemma init_inv : forall e xs s, env_ok e -> init_state e xs = Some s -> Inv e s.
Proof.
  intros e xs s [Hi Hm] E. unfold init_state in E. destruct xs as [|x0 r]; [discriminate|].
  destruct (length (x0 :: r) =? e_individuals e)%nat eqn:C; [|discriminate]. inversion E; subst.
  apply Nat.eqb_eq in C. unfold Inv, PL, shape. cbn [pop sm map members allowed last_imp gen best_fit best_sol].
  rewrite C. split; [split; [congruence|constructor; [simpl; lia|constructor]]|]. split; [auto|]. split; [lia|auto].
Qed.

Theorem run_inv : forall e evs s s', env_ok e -> Inv e s -> run flt ops e s evs = Some s' -> Inv e s'.
Proof.
  intros e evs. induction evs as [|ev r IH]; intros s s' Hok HI E; simpl in E.
  - inversion E; subst; auto.
  - destruct (step_ok flt ops e s ev) as [s1|] eqn:Es; [|discriminate].
    apply (IH s1 s' Hok); [eapply step_inv; eauto | exact E].
Qed.

(* the statements asked for, each for every accepted trace of any length *)
Definition reachable (e : env) (s : state) : Prop :=
  exists xs s0 evs, init_state e xs = Some s0 /\ run flt ops e s0 evs = Some s.

Lemma reachable_inv : forall e s, env_ok e -> reachable e s -> Inv e s.
Proof.
  intros e s Hok (xs & s0 & evs & Ei & Er). eapply run_inv; eauto. eapply init_inv; eauto.
Qed.

Theorem layer_bound : forall e s, env_ok e -> reachable e s ->
  forall l ly, nth_error (pop s) l = Some ly -> (1 <= length (members ly) <= allowed ly)%nat.
Proof. intros e s Hok Hr l ly E. eapply PL_nth; eauto. apply (reachable_inv e s Hok Hr). Qed.

Theorem at_least_one_layer : forall e s, env_ok e -> reachable e s -> pop s <> [].
Proof.
  intros e s Hok Hr. destruct (reachable_inv e s Hok Hr) as ([Hne _] & _). intro H. rewrite H in Hne. auto.
Qed.

Lemma pop_size_shape : forall (p : population), pop_size p = fold_right (fun na a => (fst na + a)%nat) O (shape p).
Proof. induction p as [|ly r IH]; simpl; auto. Qed.

Theorem std_de_size_constant : forall e s, env_ok e -> is_alps e = false -> reachable e s ->
  length (pop s) = 1%nat /\ pop_size (pop s) = e_individuals e.
Proof.
  intros e s Hok Ha Hr. destruct (reachable_inv e s Hok Hr) as (_ & Hsh & _). specialize (Hsh Ha).
  split.
  - rewrite <- shape_length, Hsh. reflexivity.
  - rewrite pop_size_shape, Hsh. simpl. lia.
Qed.

Theorem last_imp_le_gen : forall e s, env_ok e -> reachable e s -> last_imp (sm s) <= gen (sm s).
Proof. intros e s Hok Hr. apply (reachable_inv e s Hok Hr). Qed.

Theorem best_is_score_of_best : forall e s, env_ok e -> reachable e s -> best_fit (sm s) = fit (best_sol (sm s)).
Proof. intros e s Hok Hr. apply (reachable_inv e s Hok Hr). Qed.

(* the boolean form evaluated on the implementation's dumps *)
Lemma forallb_shape : forall (p : population) (f : layer -> bool) (g : nat * nat -> bool),
  (forall ly, f ly = g (length (members ly), allowed ly)) -> forallb f p = forallb g (shape p).
Proof. induction p as [|ly r IH]; intros f g H; simpl; auto. rewrite (IH f g H), H. reflexivity. Qed.

Theorem inv_b_sound : forall e s, Inv e s -> inv_b flt e s = true.
Proof.
  intros e s ([Hne Hall] & Hsh & Hli & Hb). unfold inv_b.
  assert (A : layer_bound_b (pop s) = true).
  { unfold layer_bound_b. rewrite (forallb_shape (pop s) _ (fun na => (fst na <=? snd na)%nat)) by reflexivity.
    apply forallb_forall. intros x Hx. rewrite Forall_forall in Hall. specialize (Hall x Hx). lia. }
  assert (B : layers_nonempty_b (pop s) = true).
  { unfold layers_nonempty_b. rewrite (forallb_shape (pop s) _ (fun na => negb (fst na =? 0)%nat)) by reflexivity.
    apply andb_true_intro. split.
    - rewrite <- shape_length. destruct (shape (pop s)); simpl; congruence.
    - apply forallb_forall. intros x Hx. rewrite Forall_forall in Hall. specialize (Hall x Hx). lia. }
  assert (C : size_constant_b e (pop s) = true).
  { unfold size_constant_b. destruct (is_alps e); auto. specialize (Hsh eq_refl).
    rewrite <- shape_length, pop_size_shape, Hsh. simpl. rewrite Nat.add_0_r, Nat.eqb_refl. reflexivity. }
  assert (D : summary_b flt (sm s) = true).
  { unfold summary_b. rewrite Hb, flt_irrefl. simpl. lia. }
  rewrite A, B, C, D. reflexivity.
Qed.

(* ------------------------------------------------------ best monotone *)
Fixpoint no_shake (evs : list event) : bool :=
  match evs with
  | [] => true
  | EShake _ _ :: _ => false
  | _ :: r => no_shake r
  end.

Lemma update_best_mono : forall (s : summary) o, flt (best_fit (update_best flt s o)) (best_fit s) = false.
Proof.
  intros s o. unfold update_best, fgt. destruct (flt (best_fit s) (fit o)) eqn:E; simpl.
  - apply flt_asym. exact E.
  - apply flt_irrefl.
Qed.

Lemma try_add_sm : True. Proof. exact I. Qed.

Lemma step_best_mono : forall e s ev s', no_shake [ev] = true -> step_ok flt ops e s ev = Some s' ->
  flt (best_fit (sm s')) (best_fit (sm s)) = false.
Proof.
  intros e s ev s' Hn E. destruct ev as [sd rd o ds|a|bf fits]; simpl in *; try discriminate.
  - destruct (select flt e (pop s) sd) as [parents|]; [|discriminate].
    destruct (recombine e (pop s) parents rd o) as [o'|]; [|discriminate].
    unfold replace in E. destruct (is_alps e).
    + unfold repl_alps in E. destruct parents as [|p0 [|p1 pr]]; try discriminate.
      destruct (try_add flt _ e (pop s) _ o' ds) as [[[pa ins] ds1]|]; [|discriminate].
      destruct (fgt flt (fit o') (best_fit (sm s))) eqn:Eg.
      * destruct (negb ins && e_elitism e).
        -- destruct (try_add flt _ e pa _ o' ds1) as [[[pb b2] [|? ?]]|]; try discriminate.
           inversion E; subst. simpl. apply update_best_mono.
        -- destruct ds1; [|discriminate]. inversion E; subst. simpl. apply update_best_mono.
      * destruct ds1; [|discriminate]. inversion E; subst. simpl. apply flt_irrefl.
    + destruct ds; [|discriminate]. unfold repl_tournament in E. destruct parents; [discriminate|].
      destruct (get (pop s) _); [|discriminate]. inversion E; subst. simpl. apply update_best_mono.
  - destruct (is_alps e).
    + destruct (after_generation_alps flt ops e s a); [|discriminate]. inversion E; subst. simpl. apply flt_irrefl.
    + inversion E; subst. simpl. apply flt_irrefl.
Qed.

Theorem best_monotone : forall e evs s s', no_shake evs = true -> run flt ops e s evs = Some s' ->
  flt (best_fit (sm s')) (best_fit (sm s)) = false.
Proof.
  intros e evs. induction evs as [|ev r IH]; intros s s' Hn E; simpl in E.
  - inversion E; subst. apply flt_irrefl.
  - destruct (step_ok flt ops e s ev) as [s1|] eqn:Es; [|discriminate].
    assert (Hn1 : no_shake [ev] = true) by (destruct ev; simpl in *; auto).
    assert (Hn2 : no_shake r = true) by (destruct ev; simpl in *; auto; discriminate).
    pose proof (step_best_mono e s ev s1 Hn1 Es) as H1.
    pose proof (IH s1 s' Hn2 E) as H2.
    eapply flt_negtrans; eauto.
Qed.

End Proofs.

(* ======================================================================= *)
(* selection: parents exist, tournament picks lie in one mating zone and are
   sorted, ALPS picks come from the chosen layer or the one below; elitism *)
Section Selection.
Variable F : Type.
Variable flt : F -> F -> bool.
Variable ops : stat_ops.
Hypothesis flt_asym : forall a b, flt a b = true -> flt b a = false.
Hypothesis flt_negtrans : forall a b c, flt a b = false -> flt b c = false -> flt a c = false.

Notation ind := (ind F).
Notation population := (population F).
Notation state := (state F).
Notation event := (event F).

Let flt_irrefl' : forall a, flt a a = false.
Proof. intro a. destruct (flt a a) eqn:E; auto. rewrite (flt_asym _ _ E) in E. discriminate. Qed.

(* worst first: nobody later in the list is less than an earlier one *)
Fixpoint asc (l : list (coord * F)) : Prop :=
  match l with
  | [] => True
  | a :: r => (forall x, In x r -> flt (snd x) (snd a) = false) /\ asc r
  end.

Lemma ins_rev_in : forall c fc rr x, In x (ins_rev flt c fc rr) <-> x = (c, fc) \/ In x rr.
Proof.
  intros c fc rr x. induction rr as [|[y fy] r IH]; simpl.
  - split; intros [H|H]; auto; contradiction.
  - destruct (fgt flt fc fy); simpl; rewrite ?IH; intuition.
Qed.

Lemma ins_rev_length : forall c fc rr, length (ins_rev flt c fc rr) = S (length rr).
Proof. intros c fc rr. induction rr as [|[y fy] r IH]; simpl; auto. destruct (fgt flt fc fy); simpl; auto. Qed.

Lemma ins_rev_asc : forall c fc rr, asc rr -> asc (ins_rev flt c fc rr).
Proof.
  intros c fc rr. induction rr as [|[y fy] r IH]; intros H; simpl.
  - split; [intros x []|exact I].
  - destruct H as [H1 H2]. unfold fgt. destruct (flt fy fc) eqn:E; simpl.
    + split; [|apply IH; auto]. intros x Hx. apply ins_rev_in in Hx. destruct Hx as [->|Hx]; simpl.
      * apply flt_asym; auto.
      * apply (H1 x Hx).
    + split; [|split; auto]. intros x [<-|Hx]; simpl; auto.
      eapply flt_negtrans; [apply (H1 x Hx)|exact E].
Qed.

Definition sort_fold (cf acc : list (coord * F)) : list (coord * F) :=
  fold_left (fun acc x => ins_rev flt (fst x) (snd x) acc) cf acc.

Lemma sort_fold_asc : forall cf acc, asc acc -> asc (sort_fold cf acc).
Proof. induction cf as [|x r IH]; intros acc H; simpl; auto. apply IH. apply ins_rev_asc; auto. Qed.

Lemma sort_fold_in : forall cf acc x, In x (sort_fold cf acc) <-> In x cf \/ In x acc.
Proof.
  induction cf as [|y r IH]; intros acc x; simpl.
  - intuition.
  - unfold sort_fold in IH. rewrite IH, ins_rev_in. destruct y; simpl. intuition.
Qed.

Lemma sort_fold_length : forall cf acc, length (sort_fold cf acc) = (length cf + length acc)%nat.
Proof.
  induction cf as [|y r IH]; intros acc; simpl; auto. unfold sort_fold in IH. rewrite IH, ins_rev_length. lia.
Qed.

Lemma sorted_desc_app1 : forall xs y,
  sorted_desc_b flt (xs ++ [y]) = sorted_desc_b flt xs && forallb (fun x => negb (flt x y)) xs.
Proof.
  induction xs as [|a r IH]; intros y; simpl; auto.
  rewrite forallb_app, IH. simpl.
  destruct (forallb (fun b => negb (flt a b)) r); destruct (flt a y); destruct (sorted_desc_b flt r);
    destruct (forallb (fun x => negb (flt x y)) r); reflexivity.
Qed.

Lemma asc_rev_desc : forall l, asc l -> sorted_desc_b flt (map snd (rev l)) = true.
Proof.
  induction l as [|a r IH]; intros H; simpl; auto. destruct H as [H1 H2].
  rewrite map_app. cbn [map]. rewrite sorted_desc_app1. rewrite IH; auto. cbn [andb].
  apply forallb_forall. intros f Hf. apply in_map_iff in Hf. destruct Hf as (x & <- & Hx).
  apply in_rev in Hx. rewrite (H1 x Hx). reflexivity.
Qed.

Definition consistent (p : population) (l : list (coord * F)) : Prop :=
  forall c f, In (c, f) l -> exists x, get p c = Some x /\ fit x = f.

Lemma lookup_all_spec : forall (p : population) cs cf, lookup_all p cs = Some cf ->
  map fst cf = cs /\ consistent p cf.
Proof.
  intros p. induction cs as [|c r IH]; intros cf E; simpl in E.
  - inversion E; subst. split; auto. intros c f [].
  - destruct (get p c) as [x|] eqn:Eg; [|discriminate]. destruct (lookup_all p r) as [t|]; [|discriminate].
    inversion E; subst. destruct (IH t eq_refl) as [H1 H2]. split; [simpl; congruence|].
    intros c' f' [H|H]; [inversion H; subst; eauto|apply H2; auto].
Qed.

Lemma fits_of_consistent : forall (p : population) l, consistent p l -> fits_of p (map fst l) = map snd l.
Proof.
  intros p. induction l as [|[c f] r IH]; intros H; simpl; auto. unfold fits_of in *. simpl.
  destruct (H c f (or_introl eq_refl)) as (x & Ex & Ef). rewrite Ex. simpl. rewrite IH; [congruence|].
  intros c' f' Hin. apply H. right. auto.
Qed.

Lemma ring_pick_in_zone : forall width n (tgt : coord) v,
  (Z.of_nat (snd tgt) < n) -> 3 * n < two32 -> ring_draw_ok width n v = true ->
  in_zone_b width n tgt (fst tgt, Z.to_nat (ring (Z.of_nat (snd tgt)) width n v)) = true.
Proof.
  intros width n tgt v Ht Hn Hd. assert (Hnpos : 0 < n) by lia.
  pose proof (ring_in_range (Z.of_nat (snd tgt)) width n v Hnpos Hd) as Hr.
  unfold in_zone_b. cbn [fst snd]. rewrite Nat.eqb_refl, Z2Nat.id by lia. cbn [andb].
  unfold ring_draw_ok in Hd. destruct (n <=? width) eqn:E.
  - cbn [orb]. lia.
  - assert (Hw : 0 < width < n) by lia.
    destruct (ring_window (Z.of_nat (snd tgt)) width n v) as [_ H2]; try lia.
Qed.

Theorem tournament_parents_in_zone_sorted : forall e (p : population) tgt rs cs ly,
  nth_error p (fst tgt) = Some ly -> 3 * Z.of_nat (length (members ly)) < two32 ->
  tournament_select flt e p tgt rs = Some cs -> tournament_parents_b flt e p tgt cs = true.
Proof.
  intros e p tgt rs cs ly El Hn E. unfold tournament_select in E. rewrite El in E.
  destruct (negb (snd tgt <? length (members ly))%nat) eqn:C1; [discriminate|].
  destruct (negb (length rs =? e_tournament e)%nat) eqn:C2; [discriminate|].
  destruct (negb (forallb (ring_draw_ok (e_mate_zone e) (Z.of_nat (length (members ly)))) rs)) eqn:C3; [discriminate|].
  destruct (lookup_all p (ring_picks e tgt (Z.of_nat (length (members ly))) rs)) as [cf|] eqn:Elk; [|discriminate].
  inversion E; subst cs. clear E.
  destruct (lookup_all_spec _ _ _ Elk) as [Hfst Hcons].
  unfold tournament_parents_b. rewrite El. unfold sort_picks. fold (sort_fold cf []).
  set (sorted := sort_fold cf []).
  assert (Hin : forall x, In x sorted -> In x cf) by (intros x Hx; apply sort_fold_in in Hx; destruct Hx as [Hx|[]]; auto).
  assert (Hcs : consistent p (rev sorted)).
  { intros c f Hc. apply in_rev in Hc. apply Hcons. auto. }
  assert (Hlen : length (rev (map fst sorted)) = e_tournament e).
  { rewrite rev_length, map_length. subst sorted. rewrite sort_fold_length. simpl. rewrite Nat.add_0_r.
    rewrite <- (map_length fst cf), Hfst. unfold ring_picks. rewrite map_length. lia. }
  rewrite Hlen, Nat.eqb_refl. cbn [andb].
  assert (Hpick : forall c, In c (rev (map fst sorted)) -> In c (ring_picks e tgt (Z.of_nat (length (members ly))) rs)).
  { intros c Hc. apply in_rev in Hc. apply in_map_iff in Hc. destruct Hc as (x & <- & Hx).
    rewrite <- Hfst. apply in_map. auto. }
  apply andb_true_intro. split; [apply andb_true_intro; split|].
  - apply forallb_forall. intros c Hc. rewrite <- map_rev in Hc. apply in_map_iff in Hc.
    destruct Hc as ([c' f] & <- & Hx). destruct (Hcs c' f Hx) as (x & Ex & _). unfold valid_coord. simpl. rewrite Ex. reflexivity.
  - apply forallb_forall. intros c Hc. apply Hpick in Hc. unfold ring_picks in Hc. apply in_map_iff in Hc.
    destruct Hc as (v & <- & Hv). apply ring_pick_in_zone; try lia.
    rewrite negb_false_iff in C3. rewrite forallb_forall in C3. auto.
  - rewrite <- map_rev, (fits_of_consistent p (rev sorted) Hcs). apply asc_rev_desc. subst sorted. apply sort_fold_asc. exact I.
Qed.

Lemma tournament_select_exist : forall e (p : population) tgt rs cs,
  tournament_select flt e p tgt rs = Some cs -> parents_exist_b p cs = true.
Proof.
  intros e p tgt rs cs E. unfold tournament_select in E.
  destruct (nth_error p (fst tgt)) as [ly|]; [|discriminate].
  destruct (negb (snd tgt <? length (members ly))%nat); [discriminate|].
  destruct (negb (length rs =? e_tournament e)%nat); [discriminate|].
  destruct (negb (forallb _ rs)); [discriminate|].
  destruct (lookup_all p _) as [cf|] eqn:Elk; [|discriminate]. inversion E; subst cs.
  destruct (lookup_all_spec _ _ _ Elk) as [_ Hcons].
  apply forallb_forall. intros c Hc. unfold sort_picks in Hc. apply in_rev in Hc. apply in_map_iff in Hc.
  destruct Hc as ([c' f] & <- & Hx). fold (sort_fold cf []) in Hx. apply sort_fold_in in Hx.
  destruct Hx as [Hx|[]]. destruct (Hcons c' f Hx) as (x & Ex & _). unfold valid_coord. simpl. rewrite Ex. reflexivity.
Qed.

(* ------------------------------------------------------------- ALPS *)
Definition pick_ok (p : population) (layer : nat) (c : coord) : Prop :=
  valid_coord p c = true /\ (fst c = layer \/ S (fst c) = layer).

Lemma alps_pickup_ok : forall (p : population) l pr pk c, alps_pickup p l pr pk = Some c -> pick_ok p l c.
Proof.
  intros p l pr [same idx] c E. unfold alps_pickup in E.
  destruct l as [|k].
  - destruct same; [|discriminate]. destruct (valid_coord p (0%nat, idx)) eqn:V; [|discriminate].
    inversion E; subst. split; auto.
  - destruct (bool_draw_ok pr same); [|discriminate].
    destruct (valid_coord p (if same then S k else k, idx)) eqn:V; [|discriminate].
    inversion E; subst. split; auto. destruct same; simpl; auto.
Qed.

Lemma alps_rounds_ok : forall e (p : population) layer pks c0 af0 c1 af1 a b,
  pick_ok p layer c0 -> pick_ok p layer c1 ->
  alps_rounds flt e p layer c0 af0 c1 af1 pks = Some (a, b) -> pick_ok p layer a /\ pick_ok p layer b.
Proof.
  intros e p layer. induction pks as [|pk r IH]; intros c0 af0 c1 af1 a b H0 H1 E; simpl in E.
  - inversion E; subst. auto.
  - destruct (alps_pickup p layer (e_p_same e) pk) as [tmp|] eqn:Ep; [|discriminate].
    apply alps_pickup_ok in Ep. destruct (age_fit e p tmp) as [taf|]; [|discriminate].
    destruct (af_lt flt af0 taf); [eapply IH; [| |exact E]; auto|].
    destruct (af_lt flt af1 taf); eapply IH; [| |exact E| | |exact E]; auto.
Qed.

Theorem alps_parents_layer_or_below : forall e (p : population) layer pk0 pk1 pks cs,
  alps_select flt e p layer pk0 pk1 pks = Some cs -> alps_parents_b p layer cs = true.
Proof.
  intros e p layer pk0 pk1 pks cs E. unfold alps_select in E.
  destruct (negb (layer <? length p)%nat); [discriminate|].
  destruct (negb (length pks =? e_tournament e)%nat); [discriminate|].
  destruct (alps_pickup p layer P1 pk0) as [c0|] eqn:E0; [|discriminate].
  destruct (alps_pickup p layer P1 pk1) as [c1|] eqn:E1; [|discriminate].
  apply alps_pickup_ok in E0. apply alps_pickup_ok in E1.
  destruct (age_fit e p c0) as [af0|]; [|discriminate]. destruct (age_fit e p c1) as [af1|]; [|discriminate].
  assert (H : exists a b, cs = [a; b] /\ pick_ok p layer a /\ pick_ok p layer b).
  { destruct (af_lt flt af0 af1).
    - destruct (alps_rounds flt e p layer c1 af1 c0 af0 pks) as [[a b]|] eqn:Er; [|discriminate].
      inversion E; subst. exists a, b. split; auto. eapply alps_rounds_ok; [| |exact Er]; auto.
    - destruct (alps_rounds flt e p layer c0 af0 c1 af1 pks) as [[a b]|] eqn:Er; [|discriminate].
      inversion E; subst. exists a, b. split; auto. eapply alps_rounds_ok; [| |exact Er]; auto. }
  destruct H as (a & b & -> & [Va La] & [Vb Lb]).
  assert (A : ((fst a =? layer)%nat || (S (fst a) =? layer)%nat) = true) by (destruct La as [<-|<-]; rewrite Nat.eqb_refl; auto using orb_true_r).
  assert (B : ((fst b =? layer)%nat || (S (fst b) =? layer)%nat) = true) by (destruct Lb as [<-|<-]; rewrite Nat.eqb_refl; auto using orb_true_r).
  unfold alps_parents_b, parents_exist_b. cbn [length forallb]. rewrite Va, Vb, A, B. reflexivity.
Qed.

Theorem members_exist : forall e (p : population) sd cs,
  select flt e p sd = Some cs -> parents_exist_b p cs = true.
Proof.
  intros e p sd cs E. unfold select in E.
  destruct (e_strat e); destruct sd as [tgt rs|cs'|l a b r]; try discriminate.
  - eapply tournament_select_exist; eauto.
  - unfold random_select in E. destruct ((length cs' =? e_tournament e)%nat && forallb (valid_coord p) cs') eqn:C; [|discriminate].
    inversion E; subst. unfold parents_exist_b. lia.
  - apply alps_parents_layer_or_below in E. unfold alps_parents_b in E. lia.
  - apply alps_parents_layer_or_below in E. unfold alps_parents_b in E. lia.
Qed.

(* --------------------------------------------------------- elitism *)
Lemma in_all_members : forall (p : population) x, In x (all_members p) <-> exists ly, In ly p /\ In x (members ly).
Proof. intros p x. unfold all_members. rewrite in_flat_map. reflexivity. Qed.

Lemma set_ind_members : forall (p : population) c o old x, get p c = Some old ->
  In x (all_members p) -> x = old \/ In x (all_members (set_ind p c o)).
Proof.
  intros p c o old x Eg Hx. unfold get in Eg. unfold set_ind.
  destruct (nth_error p (fst c)) as [ly|] eqn:El; [|discriminate].
  apply in_all_members in Hx. destruct Hx as (ly0 & Hl0 & Hx0).
  assert (Hlt : (fst c < length p)%nat) by (apply nth_error_Some; congruence).
  destruct (in_upd_nth_keep _ (fst c) (mkLayer (upd_nth (snd c) o (members ly)) (allowed ly)) ly0 ly p El Hl0) as [->|Hin].
  - destruct (in_upd_nth_keep _ (snd c) o x old (members ly) Eg Hx0) as [->|Hin2]; [left; auto|].
    right. apply in_all_members. eexists. split; [apply in_upd_nth_new; exact Hlt|]. exact Hin2.
  - right. apply in_all_members. exists ly0. auto.
Qed.

Lemma set_ind_new : forall (p : population) c o old, get p c = Some old -> In o (all_members (set_ind p c o)).
Proof.
  intros p c o old Eg. unfold get in Eg. unfold set_ind.
  destruct (nth_error p (fst c)) as [ly|] eqn:El; [|discriminate].
  assert (Hlt : (fst c < length p)%nat) by (apply nth_error_Some; congruence).
  assert (Hlt2 : (snd c < length (members ly))%nat) by (apply nth_error_Some; congruence).
  apply in_all_members. eexists. split; [apply in_upd_nth_new; exact Hlt|]. simpl. apply in_upd_nth_new. exact Hlt2.
Qed.

Definition keeps_max (p p' : population) : Prop :=
  forall x, In x (all_members p) -> exists y, In y (all_members p') /\ flt (fit y) (fit x) = false.

Lemma keeps_max_refl : forall p, keeps_max p p.
Proof. intros p x Hx. exists x. split; auto. Qed.

Lemma keeps_max_trans : forall p1 p2 p3, keeps_max p1 p2 -> keeps_max p2 p3 -> keeps_max p1 p3.
Proof.
  intros p1 p2 p3 H12 H23 x Hx. destruct (H12 x Hx) as (y & Hy & Fy). destruct (H23 y Hy) as (z & Hz & Fz).
  exists z. split; auto. eapply flt_negtrans; eauto.
Qed.

Lemma keeps_max_b_sound : forall p p', keeps_max p p' -> keeps_max_b flt p p' = true.
Proof.
  intros p p' H. unfold keeps_max_b. apply forallb_forall. intros x Hx. destruct (H x Hx) as (y & Hy & Fy).
  apply existsb_exists. exists y. split; auto. rewrite Fy. reflexivity.
Qed.

Lemma step_keeps_max : forall e (s s' : state) ev, is_alps e = false -> e_elitism e = true ->
  no_shake F [ev] = true -> step_ok flt ops e s ev = Some s' -> keeps_max (pop s) (pop s').
Proof.
  intros e s s' ev Ha He Hn E. destruct ev as [sd rd o ds|a|bf fits]; simpl in *; try discriminate.
  - destruct (select flt e (pop s) sd) as [parents|]; [|discriminate].
    destruct (recombine e (pop s) parents rd o) as [o'|]; [|discriminate].
    unfold replace in E. rewrite Ha in E. destruct ds; [|discriminate]. unfold repl_tournament in E.
    destruct parents as [|p0 pr]; [discriminate|].
    destruct (get (pop s) (last (p0 :: pr) (0%nat, 0%nat))) as [old|] eqn:Eg; [|discriminate].
    inversion E; subst. clear E. cbn [pop]. rewrite He. cbn [negb orb].
    destruct (flt (fit old) (fit o')) eqn:Ef; [|apply keeps_max_refl].
    intros x Hx. destruct (set_ind_members (pop s) _ o' old x Eg Hx) as [->|Hin].
    + exists o'. split; [eapply set_ind_new; eauto | apply flt_asym; auto].
    + exists x. split; auto.
  - rewrite Ha in E. inversion E; subst. apply keeps_max_refl.
Qed.

Theorem elitism_keeps_max : forall e evs (s s' : state), is_alps e = false -> e_elitism e = true ->
  no_shake F evs = true -> run flt ops e s evs = Some s' -> keeps_max (pop s) (pop s').
Proof.
  intros e evs. induction evs as [|ev r IH]; intros s s' Ha He Hn E; simpl in E.
  - inversion E; subst. apply keeps_max_refl.
  - destruct (step_ok flt ops e s ev) as [s1|] eqn:Es; [|discriminate].
    assert (Hn1 : no_shake F [ev] = true) by (destruct ev; simpl in *; auto).
    assert (Hn2 : no_shake F r = true) by (destruct ev; simpl in *; auto; discriminate).
    eapply keeps_max_trans; [eapply step_keeps_max; eauto | eapply IH; eauto].
Qed.

End Selection.
