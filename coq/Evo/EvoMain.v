(* C06 -- final statements (closed forms of the lemmas of EvoProofs.v, with the
   order laws of the fitness comparison as one explicit premise). *)
From Coq Require Import ZArith List Bool Arith Lia.
From VV Require Import Evo.EvoDefs Evo.EvoProofs.
Import ListNotations.
Local Open Scope Z_scope.

(* fitness_t::operator< is a strict weak order (asymmetric, negatively
   transitive); C18 proves it for NaN-free fitness vectors *)
Definition strict_weak_order {F : Type} (flt : F -> F -> bool) : Prop :=
  (forall a b, flt a b = true -> flt b a = false) /\
  (forall a b c, flt a b = false -> flt b c = false -> flt a c = false).

Section Main.
Variable F : Type.
Variable flt : F -> F -> bool.
Variable ops : stat_ops.
Hypothesis Hswo : strict_weak_order flt.

Lemma main_layer_bound : forall e (s : state F), env_ok e -> @reachable F flt ops e s ->
  forall l ly, nth_error (pop s) l = Some ly -> (1 <= length (members ly) <= allowed ly)%nat.
Proof. intros. eapply layer_bound; eauto. Qed.

Lemma main_std_de_size_constant : forall e (s : state F), env_ok e -> is_alps e = false -> @reachable F flt ops e s ->
  length (pop s) = 1%nat /\ pop_size (pop s) = e_individuals e.
Proof. intros. eapply std_de_size_constant; eauto. Qed.

Lemma main_last_imp_le_gen : forall e (s : state F), env_ok e -> @reachable F flt ops e s -> last_imp (sm s) <= gen (sm s).
Proof. intros. eapply last_imp_le_gen; eauto. Qed.

Lemma main_best_is_score_of_best : forall e (s : state F), env_ok e -> @reachable F flt ops e s ->
  best_fit (sm s) = fit (best_sol (sm s)).
Proof. intros. eapply best_is_score_of_best; eauto. Qed.

Lemma main_best_monotone : forall e evs (s s' : state F), @no_shake F evs = true -> run flt ops e s evs = Some s' ->
  flt (best_fit (sm s')) (best_fit (sm s)) = false.
Proof. destruct Hswo as [Ha Hn]. intros. eapply best_monotone; eauto. Qed.

Lemma main_inv_b : forall e (s : state F), env_ok e -> @reachable F flt ops e s -> inv_b flt e s = true.
Proof. destruct Hswo as [Ha Hn]. intros. eapply inv_b_sound; eauto. eapply reachable_inv; eauto. Qed.

Lemma main_tournament_parents : forall e (p : population F) tgt rs cs ly,
  nth_error p (fst tgt) = Some ly -> 3 * Z.of_nat (length (members ly)) < two32 ->
  tournament_select flt e p tgt rs = Some cs -> tournament_parents_b flt e p tgt cs = true.
Proof. destruct Hswo as [Ha Hn]. intros. eapply tournament_parents_in_zone_sorted; eauto. Qed.

Lemma main_alps_parents : forall e (p : population F) layer pk0 pk1 pks cs,
  alps_select flt e p layer pk0 pk1 pks = Some cs -> alps_parents_b p layer cs = true.
Proof. intros. eapply alps_parents_layer_or_below; eauto. Qed.

Lemma main_members_exist : forall e (p : population F) sd cs,
  select flt e p sd = Some cs -> parents_exist_b p cs = true.
Proof. intros. eapply members_exist; eauto. Qed.

Lemma main_elitism_keeps_max : forall e evs (s s' : state F), is_alps e = false -> e_elitism e = true ->
  @no_shake F evs = true -> run flt ops e s evs = Some s' ->
  forall x, In x (all_members (pop s)) -> exists y, In y (all_members (pop s')) /\ flt (fit y) (fit x) = false.
Proof. destruct Hswo as [Ha Hn]. intros e evs s s' H1 H2 H3 H4. exact (elitism_keeps_max F flt ops Ha Hn e evs s s' H1 H2 H3 H4). Qed.

End Main.
