(* vita::value_t = std::variant<monostate,int,double,std::string> and the
   outcome of evaluating a symbol.  Definitions only. *)
From Coq Require Import ZArith List Bool.
From VV Require Import Base.F64.
Import ListNotations.
Local Open Scope Z_scope.

Inductive value :=
| VVoid
| VInt (z : Z)
| VDouble (f : f64)
| VString (s : list Z).      (* bytes *)

Definition has_value (v : value) : bool :=
  match v with VVoid => false | _ => true end.

(* [Throw]: a C++ exception leaves the evaluation (std::bad_variant_access).
   [Stuck]: the C++ program has undefined behaviour or is ill-typed at this
   point (signed overflow, division by zero, invalid shift, out-of-range
   conversion, missing return...). *)
Inductive outcome :=
| Val (v : value)
| Throw
| Stuck.

Fixpoint list_Z_eqb (a b : list Z) : bool :=
  match a, b with
  | [], [] => true
  | x :: a', y :: b' => (x =? y) && list_Z_eqb a' b'
  | _, _ => false
  end.

(* std::variant operator== : same alternative and equal contents (IEEE == on
   doubles). *)
Definition value_eqb (a b : value) : bool :=
  match a, b with
  | VVoid, VVoid => true
  | VInt x, VInt y => x =? y
  | VDouble x, VDouble y => F64.eqb x y
  | VString x, VString y => list_Z_eqb x y
  | _, _ => false
  end.

(* canonical textual form used by the correspondence drivers:
   kind tag and 64-bit pattern *)
Definition value_tag (v : value) : Z :=
  match v with VVoid => 0 | VInt _ => 1 | VDouble _ => 2 | VString _ => 3 end.
