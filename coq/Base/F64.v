(* IEEE-754 binary64 arithmetic on top of Flocq's BinarySingleNaN
   (prec 53, emax 1024, round to nearest even).  Definitions only. *)
From Coq Require Import ZArith Bool.
From Flocq Require Import Core.
From Flocq Require IEEE754.Binary IEEE754.Bits.
From Flocq Require Import IEEE754.BinarySingleNaN.

Local Open Scope Z_scope.

Definition f64 := BinarySingleNaN.binary_float 53 1024.

Lemma prec_gt_0_53 : FLX.Prec_gt_0 53.  Proof. reflexivity. Qed.
Lemma prec_lt_emax_53 : BinarySingleNaN.Prec_lt_emax 53 1024.  Proof. reflexivity. Qed.

Module F64.

Definition zero : f64 := B754_zero false.
Definition nan : f64 := B754_nan.
Definition inf (s : bool) : f64 := B754_infinity s.

Definition add : f64 -> f64 -> f64 := @BinarySingleNaN.Bplus 53 1024 prec_gt_0_53 prec_lt_emax_53 mode_NE.
Definition sub : f64 -> f64 -> f64 := @BinarySingleNaN.Bminus 53 1024 prec_gt_0_53 prec_lt_emax_53 mode_NE.
Definition mul : f64 -> f64 -> f64 := @BinarySingleNaN.Bmult 53 1024 prec_gt_0_53 prec_lt_emax_53 mode_NE.
Definition div : f64 -> f64 -> f64 := @BinarySingleNaN.Bdiv 53 1024 prec_gt_0_53 prec_lt_emax_53 mode_NE.
Definition sqrt : f64 -> f64 := @BinarySingleNaN.Bsqrt 53 1024 prec_gt_0_53 prec_lt_emax_53 mode_NE.
Definition abs : f64 -> f64 := BinarySingleNaN.Babs.
Definition neg : f64 -> f64 := BinarySingleNaN.Bopp.
Definition floor : f64 -> f64 := @BinarySingleNaN.Bnearbyint 53 1024 prec_lt_emax_53 mode_DN.
Definition ceil  : f64 -> f64 := @BinarySingleNaN.Bnearbyint 53 1024 prec_lt_emax_53 mode_UP.
Definition trunc : f64 -> f64 := @BinarySingleNaN.Bnearbyint 53 1024 prec_lt_emax_53 mode_ZR.
Definition round_half_away : f64 -> f64 := @BinarySingleNaN.Bnearbyint 53 1024 prec_lt_emax_53 mode_NA.

(* exact integer -> double conversion (round to nearest even) *)
Definition of_Z (z : Z) : f64 :=
  @BinarySingleNaN.binary_normalize 53 1024 prec_gt_0_53 prec_lt_emax_53 mode_NE z 0 false.
(* m * 2^e *)
Definition of_me (m e : Z) (szero : bool) : f64 :=
  @BinarySingleNaN.binary_normalize 53 1024 prec_gt_0_53 prec_lt_emax_53 mode_NE m e szero.

Definition is_finite : f64 -> bool := BinarySingleNaN.is_finite.
Definition is_nan : f64 -> bool := BinarySingleNaN.is_nan.
Definition sign : f64 -> bool := BinarySingleNaN.Bsign.
Definition is_zero (x : f64) : bool := match x with B754_zero _ => true | _ => false end.

Definition cmp : f64 -> f64 -> option comparison := BinarySingleNaN.Bcompare.
Definition eqb (x y : f64) : bool := match cmp x y with Some Eq => true | _ => false end.
Definition ltb (x y : f64) : bool := match cmp x y with Some Lt => true | _ => false end.
Definition leb (x y : f64) : bool := match cmp x y with Some (Lt | Eq) => true | _ => false end.
Definition gtb (x y : f64) : bool := ltb y x.
Definition geb (x y : f64) : bool := leb y x.
Definition neb (x y : f64) : bool := negb (eqb x y).

(* C fmin/fmax as glibc (2.36, x86-64) computes them:
     fmax(x,y) = (isgreaterequal(x,y) || isnan(y)) ? x : y
     fmin(x,y) = (islessequal(x,y)    || isnan(y)) ? x : y
   so a NaN argument is treated as missing data, and when the arguments
   compare equal (in particular +0 and -0, whose order ISO C leaves open) the
   FIRST argument is returned.  Established by the C13 correspondence check:
   fmax(-0,+0) = -0, fmax(+0,-0) = +0, fmin(-0,+0) = -0, fmin(+0,-0) = +0. *)
Definition fmin (x y : f64) : f64 :=
  if leb x y || is_nan y then x else y.
Definition fmax (x y : f64) : f64 :=
  if geb x y || is_nan y then x else y.

(* C fmod: x - trunc(x/y)*y computed exactly; sign of x. *)
Definition fmod (x y : f64) : f64 :=
  match x, y with
  | B754_nan, _ | _, B754_nan => B754_nan
  | B754_infinity _, _ => B754_nan
  | _, B754_zero _ => B754_nan
  | B754_zero s, _ => B754_zero s
  | B754_finite _ _ _ _, B754_infinity _ => x
  | B754_finite sx mx ex _, B754_finite _ my ey _ =>
      let e := Z.min ex ey in
      let ax := Zpos mx * 2 ^ (ex - e) in
      let ay := Zpos my * 2 ^ (ey - e) in
      let r := ax mod ay in
      if r =? 0 then B754_zero sx
      else of_me (if sx then - r else r) e sx
  end.

(* bit patterns *)
Definition of_bits (z : Z) : f64 := Binary.B2BSN 53 1024 (Bits.b64_of_bits z).
Definition to_bits (x : f64) : Z :=
  match x with
  | B754_zero s => if s then 2 ^ 63 else 0
  | B754_infinity s => (if s then 2 ^ 63 else 0) + 2047 * 2 ^ 52
  | B754_nan => 2047 * 2 ^ 52 + 2 ^ 51
  | B754_finite s m e _ =>
      (if s then 2 ^ 63 else 0) +
      (if Zpos m <? 2 ^ 52 then Zpos m
       else (e + 1075) * 2 ^ 52 + (Zpos m - 2 ^ 52))
  end.

(* double -> int conversion as C does it (truncation); None when the value
   is out of the int range or not finite (undefined behaviour in C++). *)
Definition to_Z_trunc (x : f64) : option Z :=
  match x with
  | B754_zero _ => Some 0
  | B754_finite s m e _ =>
      let a := if 0 <=? e then Zpos m * 2 ^ e else Zpos m / 2 ^ (- e) in
      Some (if s then - a else a)
  | _ => None
  end.

End F64.
