(* C07 (round 2) -- the integer distribution pipeline returns a value in the requested
   half-open interval for EVERY engine state: the H_draws contract for integers is a theorem. *)
From Coq Require Import NArith ZArith List Bool Lia ZifyBool ZifyN.
From VV Require Import Base.F64 Rng.RngDefs Rng.RngProofs Rng.DistDefs.
Import ListNotations.

Local Open Scope N_scope.

Lemma high_word_lt : forall g range, g < M64 -> 0 < range -> g * range / M64 < range.
Proof.
  intros g range Hg Hr. apply N.div_lt_upper_bound; [exact M64_pos|]. nia.
Qed.

Lemma nd_loop_lt : forall fuel range threshold st r st',
  wf st -> 0 < range -> nd_loop fuel range threshold st = Some (r, st') -> r < range /\ wf st'.
Proof.
  induction fuel as [|f IH]; intros range threshold st r st' Hw Hr H; [discriminate H|].
  cbn [nd_loop] in H. pose proof (next_wf st Hw) as [Hg Hw']. destruct (next st) as [g st1]. cbn [fst snd] in *.
  destruct (g * range mod M64 <? threshold).
  - eapply IH; eassumption.
  - injection H as <- <-. split; [apply high_word_lt; assumption|exact Hw'].
Qed.

Lemma s_nd_lt : forall fuel range st r st',
  wf st -> 0 < range -> s_nd fuel range st = Some (r, st') -> r < range /\ wf st'.
Proof.
  intros fuel range st r st' Hw Hr H. unfold s_nd in H.
  pose proof (next_wf st Hw) as [Hg Hw']. destruct (next st) as [g st1]. cbn [fst snd] in *.
  destruct (g * range mod M64 <? range).
  - destruct (g * range mod M64 <? (M64 - range) mod range).
    + eapply nd_loop_lt; eassumption.
    + injection H as <- <-. split; [apply high_word_lt; assumption|exact Hw'].
  - injection H as <- <-. split; [apply high_word_lt; assumption|exact Hw'].
Qed.

Lemma uniform_offset_le : forall fuel urange st r st',
  wf st -> uniform_offset fuel urange st = Some (r, st') -> r <= urange /\ wf st'.
Proof.
  intros fuel urange st r st' Hw H. unfold uniform_offset in H.
  destruct (urange <? M64 - 1) eqn:E1.
  - apply s_nd_lt in H; [|exact Hw|lia]. destruct H as [H1 H2]. split; [lia|exact H2].
  - destruct (urange =? M64 - 1) eqn:E2; [|discriminate H].
    pose proof (next_wf st Hw) as [Hg Hw']. destruct (next st) as [g s1]. cbn [fst snd] in *.
    injection H as <- <-. unfold lt64 in Hg. split; [lia|exact Hw'].
Qed.

Local Open Scope Z_scope.

(* vita::random::between<integral>(lo, hi) returns lo <= v < hi, whatever the engine state *)
Lemma between_int_range : forall fuel lo hi st v st',
  wf st -> between_int fuel lo hi st = Some (v, st') -> lo <= v < hi /\ wf st'.
Proof.
  intros fuel lo hi st v st' Hw H. unfold between_int in H.
  destruct (hi <=? lo) eqn:E; [discriminate H|].
  destruct (uniform_offset fuel (Z.to_N (hi - 1 - lo)) st) as [[r st1]|] eqn:Eu; [|discriminate H].
  injection H as <- <-. apply uniform_offset_le in Eu; [|exact Hw]. destruct Eu as [Hr Hw']. split; [lia|exact Hw'].
Qed.

(* every answer to an integer request of a request sequence is in range (or the sequence stops at AFail) *)
Fixpoint answers_ok (qs : list request) (ans : list answer) : Prop :=
  match qs, ans with
  | _, [AFail] => True
  | [], [] => True
  | QInt lo hi :: qr, AInt v :: ar => lo <= v < hi /\ answers_ok qr ar
  | QReal _ _ :: qr, AReal _ :: ar => answers_ok qr ar
  | QBool _ :: qr, ABool _ :: ar => answers_ok qr ar
  | QDisc _ :: qr, ADisc _ :: ar => answers_ok qr ar
  | QSkip :: qr, ASkipped :: ar => answers_ok qr ar
  | _, _ => False
  end.

Lemma canonical_wf : forall st, wf st -> wf (snd (canonical st)).
Proof.
  intros st Hw. unfold canonical. pose proof (next_wf st Hw) as [_ Hw']. destruct (next st) as [g st1]. exact Hw'.
Qed.

Lemma answers_in_range : forall fuel qs st, wf st -> answers_ok qs (answers fuel qs st).
Proof.
  intros fuel qs. induction qs as [|q qs IH]; intros st Hw; [exact I|].
  destruct q as [lo hi|lo hi|p|ws|]; cbn [answers].
  - destruct (between_int fuel lo hi st) as [[v st']|] eqn:E; [|exact I].
    apply between_int_range in E; [|exact Hw]. destruct E as [E Hw'].
    cbn [answers_ok]. destruct (answers fuel qs st') eqn:Ea.
    + split; [exact E|]. rewrite <- Ea. apply IH; exact Hw'.
    + split; [exact E|]. rewrite <- Ea. apply IH; exact Hw'.
  - unfold between_real, uniform_real.
    destruct (F64.is_finite (F64.sub hi lo)).
    + pose proof (canonical_wf st Hw) as Hw'. destruct (canonical st) as [u st']. cbn [snd] in Hw'.
      cbn [answers_ok]. apply IH; exact Hw'.
    + pose proof (canonical_wf st Hw) as Hw'. destruct (canonical st) as [u st']. cbn [snd] in Hw'.
      cbn [answers_ok]. apply IH; exact Hw'.
  - unfold boolean. pose proof (canonical_wf st Hw) as Hw'. destruct (canonical st) as [u st']. cbn [snd] in Hw'.
    cbn [answers_ok]. apply IH; exact Hw'.
  - unfold discrete. destruct (discrete_cp ws) as [|c0 cp].
    + cbn [answers_ok]. apply IH; exact Hw.
    + pose proof (canonical_wf st Hw) as Hw'. destruct (canonical st) as [u st']. cbn [snd] in Hw'.
      cbn [answers_ok]. apply IH; exact Hw'.
  - cbn [answers_ok]. apply IH. apply next_wf; exact Hw.
Qed.
