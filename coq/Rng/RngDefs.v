(* C07 -- executable model of the random engine of vita
   (src/utility/xoshiro256ss.{h,cc}, src/kernel/random.cc), definitions only.

   64-bit unsigned arithmetic is [N] with an explicit [mod 2^64] exactly where
   the C++ wraps (+, *, <<); ^, |, >> cannot leave the range.  The engine state
   [std::array<std::uint64_t,4>] is a 4-field record; the *literal* model of
   the pinned operator>> (which indexes the array with 31) uses a list with a
   bounds-checked store so that the out-of-bounds write is the outcome [LUB]. *)
From Coq Require Import NArith List Bool.
Import ListNotations.
Local Open Scope N_scope.

(* ------------------------------------------------------------ uint64 *)
Definition M64 : N := 18446744073709551616.          (* 2^64 *)
Definition add64 (a b : N) : N := (a + b) mod M64.
Definition mul64 (a b : N) : N := (a * b) mod M64.
Definition shl64 (a k : N) : N := (N.shiftl a k) mod M64.
Definition shr64 (a k : N) : N := N.shiftr a k.
Definition xor64 (a b : N) : N := N.lxor a b.
Definition or64 (a b : N) : N := N.lor a b.

(* constexpr std::uint64_t rotl(std::uint64_t x, int k)
   { return (x << k) | (x >> (64 - k)); } *)
Definition rotl (x k : N) : N := or64 (shl64 x k) (shr64 x (64 - k)).

(* ------------------------------------------------------------ splitmix64
   std::uint64_t next() noexcept
   { auto z(x += 0x9E3779B97F4A7C15);
     z = (z ^ (z >> 30)) * 0xBF58476D1CE4E5B9;
     z = (z ^ (z >> 27)) * 0x94D049BB133111EB;
     return z ^ (z >> 31); }                     returns (new x, output) *)
Definition sm_next (x : N) : N * N :=
  let x' := add64 x 11400714819323198485 in
  let z := x' in
  let z := mul64 (xor64 z (shr64 z 30)) 13787848793156543929 in
  let z := mul64 (xor64 z (shr64 z 27)) 10723151780598845931 in
  (x', xor64 z (shr64 z 31)).

(* ------------------------------------------------------------ xoshiro256** *)
Record state := mk_state { s0 : N; s1 : N; s2 : N; s3 : N }.

Definition def_seed : N := 14766493685823062354.     (* 0xcced1fc561884152 *)

(* void xoshiro256ss::seed(result_type s)
   { if (s == 0) s = def_seed;  seed_with_sm64(s, state); }
   seed_with_sm64: std::generate over state[0..3] with sm.next().
   The previous state [old] is a parameter because the C++ mutates in place;
   every field is overwritten. *)
Definition seed_engine (old : state) (s : N) : state :=
  let s := if s =? 0 then def_seed else s in
  let '(x, a) := sm_next s in
  let st := mk_state a (s1 old) (s2 old) (s3 old) in
  let '(x, b) := sm_next x in
  let st := mk_state (s0 st) b (s2 st) (s3 st) in
  let '(x, c) := sm_next x in
  let st := mk_state (s0 st) (s1 st) c (s3 st) in
  let '(x, d) := sm_next x in
  mk_state (s0 st) (s1 st) (s2 st) d.

Definition zero_state : state := mk_state 0 0 0 0.
(* explicit xoshiro256ss(result_type s = def_seed) : state() { seed(s); } *)
Definition new_engine (s : N) : state := seed_engine zero_state s.

(* void vita::random::seed(unsigned s) { engine.seed(s); }   (32-bit unsigned) *)
Definition M32 : N := 4294967296.
Definition random_seed (old : state) (s : N) : state := seed_engine old (s mod M32).

(* result_type operator()() noexcept        returns (output, new state) *)
Definition next (st : state) : N * state :=
  let result_starstar := mul64 (rotl (mul64 (s1 st) 5) 7) 9 in
  let t := shl64 (s1 st) 17 in
  let a2 := xor64 (s2 st) (s0 st) in
  let a3 := xor64 (s3 st) (s1 st) in
  let a1 := xor64 (s1 st) a2 in
  let a0 := xor64 (s0 st) a3 in
  let a2 := xor64 a2 t in
  let a3 := rotl a3 45 in
  (result_starstar, mk_state a0 a1 a2 a3).

(* the first n outputs from a state, and the state reached *)
Fixpoint outputs (n : nat) (st : state) : list N :=
  match n with
  | O => []
  | S k => let '(r, st') := next st in r :: outputs k st'
  end.
Fixpoint advance (n : nat) (st : state) : state :=
  match n with
  | O => st
  | S k => advance k (snd (next st))
  end.

Definition state_eqb (a b : state) : bool :=
  (s0 a =? s0 b) && (s1 a =? s1 b) && (s2 a =? s2 b) && (s3 a =? s3 b).

(* ------------------------------------------------------------ decimal codec
   characters are their codes in N.  [show_u] is what
   std::ostream::operator<<(unsigned long) prints with dec flags; [read_u] is
   std::istream::operator>>(unsigned long&) in the "C" locale (libstdc++
   num_get::_M_extract_int): skip white space, optional sign, digits (all of
   them are consumed even after an overflow), then
     no digit      -> value 0, failbit
     overflow      -> value max, failbit
     otherwise     -> value (negated modulo 2^64 after a '-') *)
Fixpoint digits_f (fuel : nat) (n : N) : list N :=     (* least significant first *)
  match fuel with
  | O => [n mod 10]
  | S f => if n <? 10 then [n] else (n mod 10) :: digits_f f (n / 10)
  end.
Definition digits (n : N) : list N := digits_f (N.size_nat n) n.
Definition show_u (n : N) : list N := map (fun d => d + 48) (rev (digits n)).

Definition is_digit (c : N) : bool := (48 <=? c) && (c <=? 57).
Definition is_space (c : N) : bool := (c =? 32) || ((9 <=? c) && (c <=? 13)).

Fixpoint skip_ws (l : list N) : list N :=
  match l with
  | c :: r => if is_space c then skip_ws r else l
  | [] => []
  end.

(* consumes the maximal run of digits; returns value, number of digits>0, rest *)
Fixpoint read_digits (acc : N) (seen : bool) (l : list N) : N * bool * list N :=
  match l with
  | c :: r => if is_digit c then read_digits (acc * 10 + (c - 48)) true r else (acc, seen, l)
  | [] => (acc, seen, [])
  end.

Inductive rd :=
| RdOk (v : N) (rest : list N)      (* stream still good (or only eofbit) *)
| RdFail (v : N).                   (* failbit set; v is what was stored *)

Definition read_u (l : list N) : rd :=
  match skip_ws l with
  | [] => RdFail 0                            (* sentry: eof -> failbit; value: see load *)
  | c :: r =>
      let neg := c =? 45 in
      let body := if (c =? 45) || (c =? 43) then r else c :: r in
      let '(v, seen, rest) := read_digits 0 false body in
      if negb seen then RdFail 0
      else if M64 <=? v then RdFail (M64 - 1)
      else RdOk (if neg then (M64 - v) mod M64 else v) rest
  end.

(* std::ostream &operator<<(std::ostream &o, const xoshiro256ss &e)
   { return o << e.state[0] << ' ' << e.state[1] << ' ' << e.state[2] << ' ' << e.state[3]; } *)
Definition save_state (st : state) : list N :=
  show_u (s0 st) ++ [32] ++ show_u (s1 st) ++ [32] ++ show_u (s2 st) ++ [32] ++ show_u (s3 st).

(* std::istream &operator>>(std::istream &i, xoshiro256ss &e)
   { return i >> e.state[0] >> e.state[1] >> e.state[2] >> e.state[3]; }   (repaired tree)
   A failed extraction stores its value (C++11) and makes the remaining
   extractions no-ops.  An extraction attempted at end of input fails in the
   sentry and stores nothing. *)
Inductive load_res :=
| LoadOk (st : state) (rest : list N)
| LoadFail (st : state).            (* the partially overwritten engine *)

Definition at_eof (l : list N) : bool := match skip_ws l with [] => true | _ => false end.

Definition load_state (old : state) (l : list N) : load_res :=
  match read_u l with
  | RdFail v => LoadFail (if at_eof l then old else mk_state v (s1 old) (s2 old) (s3 old))
  | RdOk a l1 =>
  let st := mk_state a (s1 old) (s2 old) (s3 old) in
  match read_u l1 with
  | RdFail v => LoadFail (if at_eof l1 then st else mk_state (s0 st) v (s2 st) (s3 st))
  | RdOk b l2 =>
  let st := mk_state (s0 st) b (s2 st) (s3 st) in
  match read_u l2 with
  | RdFail v => LoadFail (if at_eof l2 then st else mk_state (s0 st) (s1 st) v (s3 st))
  | RdOk c l3 =>
  let st := mk_state (s0 st) (s1 st) c (s3 st) in
  match read_u l3 with
  | RdFail v => LoadFail (if at_eof l3 then st else mk_state (s0 st) (s1 st) (s2 st) v)
  | RdOk d l4 => LoadOk (mk_state (s0 st) (s1 st) (s2 st) d) l4
  end end end end.

(* ------------------------------------------------------------ the pinned tree
   `i >> e.state[0] >> e.state[1] >> e.state[2] >> e.state[31]` on an array of
   four elements.  The state is a list; a store outside the bounds is
   undefined behaviour ([None]).  [LitUB] is the outcome of the literal
   source; [load_state_benign] is what one observes when the stray store
   happens to hit memory nobody reads: state[3] keeps its old value. *)
Definition store (i : nat) (v : N) (a : list N) : option (list N) :=
  if Nat.ltb i (length a) then Some (firstn i a ++ v :: skipn (S i) a) else None.

Inductive lit_res :=
| LitOk (a : list N) (rest : list N)
| LitFail
| LitUB.                             (* out-of-bounds store executed *)

Definition load_state_literal (old : list N) (l : list N) : lit_res :=
  match read_u l with RdFail _ => LitFail | RdOk a l1 =>
  match store 0 a old with None => LitUB | Some st =>
  match read_u l1 with RdFail _ => LitFail | RdOk b l2 =>
  match store 1 b st with None => LitUB | Some st =>
  match read_u l2 with RdFail _ => LitFail | RdOk c l3 =>
  match store 2 c st with None => LitUB | Some st =>
  match read_u l3 with RdFail _ => LitFail | RdOk d l4 =>
  match store 31 d st with None => LitUB | Some st => LitOk st l4
  end end end end end end end end.

Definition load_state_benign (old : state) (l : list N) : load_res :=
  match load_state old l with
  | LoadOk st rest => LoadOk (mk_state (s0 st) (s1 st) (s2 st) (s3 old)) rest
  | LoadFail st => LoadFail st
  end.

Definition state_list (st : state) : list N := [s0 st; s1 st; s2 st; s3 st].

(* ------------------------------------------------------------ oracles used by the check *)
(* save, append [rest], load into [other], then draw n: must equal drawing n from st *)
Definition reload_outputs (st other : state) (rest : list N) (n : nat) : option (list N) :=
  match load_state other (save_state st ++ rest) with
  | LoadOk st' _ => Some (outputs n st')
  | LoadFail _ => None
  end.
