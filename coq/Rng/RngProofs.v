(* C07 -- lemmas about the engine model and its decimal codec. *)
From Coq Require Import NArith List Bool Lia ZifyBool ZifyN.
From VV Require Import Rng.RngDefs.
Import ListNotations.
Local Open Scope N_scope.

(* ------------------------------------------------------------ 64-bit range *)
Definition lt64 (x : N) : Prop := x < M64.
Definition wf (st : state) : Prop := lt64 (s0 st) /\ lt64 (s1 st) /\ lt64 (s2 st) /\ lt64 (s3 st).

Lemma M64_pow : M64 = 2 ^ 64.  Proof. reflexivity. Qed.
Lemma M64_pos : M64 <> 0.  Proof. discriminate. Qed.

Lemma log2_lt64 : forall a, a < M64 -> N.log2 a < 64.
Proof.
  intros a Ha. destruct (N.eq_dec a 0) as [->|Hn].
  - reflexivity.
  - apply N.log2_lt_pow2; [lia|]. rewrite <- M64_pow. exact Ha.
Qed.

Lemma lt64_of_log2 : forall a, N.log2 a < 64 -> a < M64.
Proof.
  intros a Ha. destruct (N.eq_dec a 0) as [->|Hn].
  - reflexivity.
  - rewrite M64_pow. apply N.log2_lt_pow2; [lia|exact Ha].
Qed.

Lemma xor64_lt : forall a b, lt64 a -> lt64 b -> lt64 (xor64 a b).
Proof.
  unfold lt64, xor64. intros a b Ha Hb. apply lt64_of_log2.
  pose proof (N.log2_lxor a b) as H.
  pose proof (log2_lt64 a Ha). pose proof (log2_lt64 b Hb). lia.
Qed.

Lemma or64_lt : forall a b, lt64 a -> lt64 b -> lt64 (or64 a b).
Proof.
  unfold lt64, or64. intros a b Ha Hb. apply lt64_of_log2.
  pose proof (N.log2_lor a b) as H.
  pose proof (log2_lt64 a Ha). pose proof (log2_lt64 b Hb). lia.
Qed.

Lemma shr64_lt : forall a k, lt64 a -> lt64 (shr64 a k).
Proof.
  unfold lt64, shr64. intros a k Ha. rewrite N.shiftr_div_pow2.
  assert (a / 2 ^ k <= a). { apply N.div_le_upper_bound; [apply N.pow_nonzero; discriminate|].
    assert (2 ^ k <> 0) by (apply N.pow_nonzero; discriminate). nia. }
  lia.
Qed.

Lemma add64_lt : forall a b, lt64 (add64 a b).
Proof. intros. apply N.mod_lt, M64_pos. Qed.
Lemma mul64_lt : forall a b, lt64 (mul64 a b).
Proof. intros. apply N.mod_lt, M64_pos. Qed.
Lemma shl64_lt : forall a k, lt64 (shl64 a k).
Proof. intros. apply N.mod_lt, M64_pos. Qed.
Lemma rotl_lt : forall x k, lt64 x -> lt64 (rotl x k).
Proof. intros. unfold rotl. apply or64_lt; [apply shl64_lt|apply shr64_lt; assumption]. Qed.

Lemma sm_next_lt : forall x, lt64 (fst (sm_next x)) /\ lt64 (snd (sm_next x)).
Proof.
  intro x. unfold sm_next. cbn [fst snd]. split; [apply add64_lt|].
  apply xor64_lt; [apply mul64_lt|apply shr64_lt, mul64_lt].
Qed.

Lemma seed_engine_wf : forall old s, wf (seed_engine old s).
Proof.
  intros old s. unfold seed_engine.
  set (sd := if s =? 0 then def_seed else s).
  destruct (sm_next sd) as [x1 a] eqn:E1.
  destruct (sm_next x1) as [x2 b] eqn:E2.
  destruct (sm_next x2) as [x3 c] eqn:E3.
  destruct (sm_next x3) as [x4 d] eqn:E4.
  pose proof (sm_next_lt sd) as H1. pose proof (sm_next_lt x1) as H2.
  pose proof (sm_next_lt x2) as H3. pose proof (sm_next_lt x3) as H4.
  rewrite E1 in H1. rewrite E2 in H2. rewrite E3 in H3. rewrite E4 in H4.
  cbn [fst snd] in *. unfold wf. cbn [s0 s1 s2 s3]. tauto.
Qed.

(* seeding overwrites the whole state: nothing of the previous history survives *)
Lemma seed_engine_forgets : forall old1 old2 s, seed_engine old1 s = seed_engine old2 s.
Proof.
  intros. unfold seed_engine.
  destruct (sm_next (if s =? 0 then def_seed else s)) as [x1 a].
  destruct (sm_next x1) as [x2 b]. destruct (sm_next x2) as [x3 c]. destruct (sm_next x3) as [x4 d].
  reflexivity.
Qed.

Lemma seed_zero_is_default : forall old, seed_engine old 0 = seed_engine old def_seed.
Proof. intro. reflexivity. Qed.

Lemma random_seed_forgets : forall old1 old2 s, random_seed old1 s = random_seed old2 s.
Proof. intros. apply seed_engine_forgets. Qed.

Lemma next_wf : forall st, wf st -> lt64 (fst (next st)) /\ wf (snd (next st)).
Proof.
  intros [a b c d] (Ha & Hb & Hc & Hd). cbn [s0 s1 s2 s3] in *.
  unfold next. cbn [fst snd s0 s1 s2 s3]. split; [apply mul64_lt|].
  unfold wf. cbn [s0 s1 s2 s3].
  assert (lt64 (xor64 c a)) by (apply xor64_lt; assumption).
  assert (lt64 (xor64 d b)) by (apply xor64_lt; assumption).
  repeat split.
  - apply xor64_lt; assumption.
  - apply xor64_lt; assumption.
  - apply xor64_lt; [assumption|apply shl64_lt].
  - apply rotl_lt; assumption.
Qed.

Lemma advance_wf : forall n st, wf st -> wf (advance n st).
Proof.
  induction n as [|n IH]; intros st H; cbn [advance]; [exact H|].
  apply IH. apply next_wf. exact H.
Qed.

Lemma outputs_lt : forall n st, wf st -> Forall lt64 (outputs n st).
Proof.
  induction n as [|n IH]; intros st H; cbn [outputs]; [constructor|].
  pose proof (next_wf st H) as [Ho Hw]. destruct (next st) as [r st']. cbn [fst snd] in *.
  constructor; [exact Ho|apply IH; exact Hw].
Qed.

Lemma outputs_length : forall n st, length (outputs n st) = n.
Proof.
  induction n as [|n IH]; intro st; cbn [outputs]; [reflexivity|].
  destruct (next st) as [r st']. cbn [length]. rewrite IH. reflexivity.
Qed.

(* the stream splits: n+m outputs = n outputs, then m outputs from the advanced state *)
Lemma outputs_app : forall n m st, outputs (n + m) st = outputs n st ++ outputs m (advance n st).
Proof.
  induction n as [|n IH]; intros m st; [reflexivity|].
  cbn [plus outputs advance]. destruct (next st) as [r st'] eqn:E. cbn [snd app].
  rewrite IH. reflexivity.
Qed.

(* reachable states: any seed, any number of draws *)
Inductive reachable : state -> Prop :=
| reach_seed : forall old s, reachable (seed_engine old s)
| reach_next : forall st, reachable st -> reachable (snd (next st)).

Lemma reachable_wf : forall st, reachable st -> wf st.
Proof.
  induction 1 as [old s|st _ IH]; [apply seed_engine_wf|apply next_wf; exact IH].
Qed.

(* ------------------------------------------------------------ decimal codec *)
Definition value_lsb (ds : list N) : N := fold_right (fun d a => a * 10 + d) 0 ds.

Lemma digits_f_spec : forall fuel n, n < 2 ^ N.of_nat fuel ->
  Forall (fun d => d < 10) (digits_f fuel n) /\ value_lsb (digits_f fuel n) = n /\ digits_f fuel n <> [].
Proof.
  induction fuel as [|f IH]; intros n Hn.
  - cbn in Hn. assert (n = 0) by lia. subst n. cbn. split; [constructor; [reflexivity|constructor]|]. split; [reflexivity|discriminate].
  - cbn [digits_f]. destruct (n <? 10) eqn:E.
    + split; [constructor; [lia|constructor]|]. split; [cbn; lia|discriminate].
    + assert (Hd : n / 10 < 2 ^ N.of_nat f).
      { rewrite Nat2N.inj_succ, N.pow_succ_r' in Hn.
        apply N.div_lt_upper_bound; [discriminate|]. lia. }
      destruct (IH _ Hd) as (H1 & H2 & H3).
      split; [|split].
      * constructor; [apply N.mod_lt; discriminate|exact H1].
      * cbn [value_lsb fold_right]. fold (value_lsb (digits_f f (n / 10))). rewrite H2.
        pose proof (N.div_mod n 10). lia.
      * discriminate.
Qed.

Lemma size_nat_gt : forall n, n < 2 ^ N.of_nat (N.size_nat n).
Proof.
  intro n. destruct n as [|p]; [reflexivity|].
  cbn [N.size_nat]. induction p as [p IH|p IH|]; cbn [Pos.size_nat].
  - rewrite Nat2N.inj_succ, N.pow_succ_r'. lia.
  - rewrite Nat2N.inj_succ, N.pow_succ_r'. lia.
  - reflexivity.
Qed.

Lemma digits_spec : forall n,
  Forall (fun d => d < 10) (digits n) /\ value_lsb (digits n) = n /\ digits n <> [].
Proof. intro n. apply digits_f_spec, size_nat_gt. Qed.

Definition head_not_digit (l : list N) : Prop :=
  match l with [] => True | c :: _ => is_digit c = false end.

Lemma read_digits_app : forall ds acc seen rest,
  Forall (fun d => d < 10) ds -> head_not_digit rest ->
  read_digits acc seen (map (fun d => d + 48) ds ++ rest) =
  (fold_left (fun a d => a * 10 + d) ds acc, match ds with [] => seen | _ => true end, rest).
Proof.
  induction ds as [|d ds IH]; intros acc seen rest Hd Hr.
  - cbn [map app fold_left]. destruct rest as [|c r]; [reflexivity|].
    cbn [head_not_digit] in Hr. cbn [read_digits]. rewrite Hr. reflexivity.
  - inversion Hd as [|? ? Hd1 Hd2]; subst.
    cbn [map app read_digits fold_left].
    assert (E : is_digit (d + 48) = true) by (unfold is_digit; lia).
    rewrite E. rewrite (IH _ true rest Hd2 Hr).
    replace (d + 48 - 48) with d by lia.
    destruct ds; reflexivity.
Qed.

Lemma show_u_digits : forall n, Forall (fun c => is_digit c = true) (show_u n).
Proof.
  intro n. unfold show_u. destruct (digits_spec n) as (H & _ & _).
  apply Forall_forall. intros c Hc. apply in_map_iff in Hc. destruct Hc as (d & <- & Hin).
  apply in_rev in Hin. rewrite Forall_forall in H. specialize (H d Hin). unfold is_digit. lia.
Qed.

Lemma show_u_nonempty : forall n, exists c t, show_u n = c :: t /\ is_digit c = true.
Proof.
  intro n. pose proof (show_u_digits n) as H. destruct (show_u n) as [|c t] eqn:E.
  - exfalso. unfold show_u in E. apply map_eq_nil in E.
    destruct (digits_spec n) as (_ & _ & Hne). apply Hne.
    rewrite <- (rev_involutive (digits n)), E. reflexivity.
  - exists c, t. split; [reflexivity|]. inversion H; assumption.
Qed.

Lemma read_digits_show : forall n rest, head_not_digit rest ->
  read_digits 0 false (show_u n ++ rest) = (n, true, rest).
Proof.
  intros n rest Hr. unfold show_u. destruct (digits_spec n) as (H1 & H2 & H3).
  rewrite read_digits_app; [|apply Forall_rev; exact H1|exact Hr].
  rewrite <- fold_left_rev_right, rev_involutive.
  fold (value_lsb (digits n)). rewrite H2.
  destruct (rev (digits n)) eqn:E; [|reflexivity].
  exfalso. apply H3. rewrite <- (rev_involutive (digits n)), E. reflexivity.
Qed.

(* the codec theorem: reading back what was printed *)
Lemma read_show : forall n rest, n < M64 -> head_not_digit rest ->
  read_u (show_u n ++ rest) = RdOk n rest.
Proof.
  intros n rest Hn Hr. destruct (show_u_nonempty n) as (c & t & E & Hc).
  pose proof (read_digits_show n rest Hr) as Hrd.
  unfold read_u. rewrite E in *. cbn [app skip_ws].
  assert (Hs : is_space c = false) by (unfold is_digit, is_space in *; lia).
  rewrite Hs.
  assert (H45 : (c =? 45) = false) by (unfold is_digit in Hc; lia).
  assert (H43 : (c =? 43) = false) by (unfold is_digit in Hc; lia).
  rewrite H45, H43. cbn [orb]. cbn [app] in Hrd. rewrite Hrd. cbn [negb].
  destruct (M64 <=? n) eqn:Eo; [lia|]. reflexivity.
Qed.

Lemma read_u_space : forall l, read_u (32 :: l) = read_u l.
Proof. intro l. unfold read_u. reflexivity. Qed.

Lemma head_not_digit_space : forall l, head_not_digit (32 :: l).
Proof. intro. reflexivity. Qed.

(* load (save s ++ rest) = s, rest     -- for EVERY 64-bit state and previous engine *)
Lemma load_save : forall old st rest, wf st -> head_not_digit rest ->
  load_state old (save_state st ++ rest) = LoadOk st rest.
Proof.
  intros old [a b c d] rest (Ha & Hb & Hc & Hd) Hr. cbn [s0 s1 s2 s3] in *.
  unfold save_state. cbn [s0 s1 s2 s3]. repeat rewrite <- app_assoc. cbn [app].
  unfold load_state.
  rewrite (read_show a _ Ha (head_not_digit_space _)).
  rewrite read_u_space, (read_show b _ Hb (head_not_digit_space _)).
  rewrite read_u_space, (read_show c _ Hc (head_not_digit_space _)).
  rewrite read_u_space, (read_show d _ Hd Hr).
  reflexivity.
Qed.

Lemma reload_same_sequence : forall n old st rest, wf st -> head_not_digit rest ->
  exists st', load_state old (save_state st ++ rest) = LoadOk st' rest /\
              outputs n st' = outputs n st /\ advance n st' = advance n st.
Proof.
  intros n old st rest Hw Hr. exists st. rewrite (load_save old st rest Hw Hr). auto.
Qed.

Lemma reload_outputs_ok : forall n st other rest, wf st -> head_not_digit rest ->
  reload_outputs st other rest n = Some (outputs n st).
Proof.
  intros. unfold reload_outputs. rewrite load_save by assumption. reflexivity.
Qed.

(* ------------------------------------------------------------ the pinned tree *)
Lemma literal_never_loads : forall old l, length old = 4%nat ->
  forall a rest, load_state_literal old l <> LitOk a rest.
Proof.
  intros old l Hlen a rest. unfold load_state_literal.
  destruct (read_u l) as [v0 l1|]; [|discriminate].
  destruct (store 0 v0 old) as [st1|] eqn:E1; [|discriminate].
  destruct (read_u l1) as [v1 l2|]; [|discriminate].
  destruct (store 1 v1 st1) as [st2|] eqn:E2; [|discriminate].
  destruct (read_u l2) as [v2 l3|]; [|discriminate].
  destruct (store 2 v2 st2) as [st3|] eqn:E3; [|discriminate].
  destruct (read_u l3) as [v3 l4|]; [|discriminate].
  assert (Hl : forall i v x y, store i v x = Some y -> length y = length x).
  { intros i v x y. unfold store. destruct (Nat.ltb i (length x)) eqn:E; [|discriminate].
    intro H. injection H as <-. apply PeanoNat.Nat.ltb_lt in E.
    rewrite app_length, firstn_length.
    change (match x with [] => [] | _ :: l => skipn i l end) with (skipn (S i) x).
    change (length (v :: skipn (S i) x)) with (S (length (skipn (S i) x))).
    rewrite skipn_length. lia. }
  apply Hl in E1, E2, E3.
  unfold store. replace (length st3) with 4%nat by congruence. cbn. discriminate.
Qed.

(* ------------------------------------------------------------ a seeded engine is never all zero
   (the all-zero state is the fixed point of xoshiro256**: it would emit 0 forever) *)
Definition sm_mix (z : N) : N :=
  let z := mul64 (xor64 z (shr64 z 30)) 13787848793156543929 in
  let z := mul64 (xor64 z (shr64 z 27)) 10723151780598845931 in
  xor64 z (shr64 z 31).

Lemma sm_next_mix : forall x, sm_next x = (add64 x 11400714819323198485, sm_mix (add64 x 11400714819323198485)).
Proof. reflexivity. Qed.

Lemma xorshift_zero : forall z k, 0 < k -> xor64 z (shr64 z k) = 0 -> z = 0.
Proof.
  unfold xor64, shr64. intros z k Hk H. apply N.lxor_eq in H. rewrite N.shiftr_div_pow2 in H.
  destruct (N.eq_dec z 0) as [|Hz]; [assumption|exfalso].
  assert (z / 2 ^ k < z).
  { apply N.div_lt; [lia|]. apply (N.pow_gt_1 2 k); lia. }
  lia.
Qed.

Lemma mul64_unit_zero : forall a c d, a < M64 -> (c * d) mod M64 = 1 -> mul64 a c = 0 -> a = 0.
Proof.
  unfold mul64. intros a c d Ha Hcd H.
  assert (E : a = (a * c mod M64 * d) mod M64).
  { rewrite N.mul_mod_idemp_l by exact M64_pos. rewrite <- N.mul_assoc.
    rewrite <- N.mul_mod_idemp_r by exact M64_pos. rewrite Hcd, N.mul_1_r. symmetry. apply N.mod_small. exact Ha. }
  rewrite H in E. rewrite E. reflexivity.
Qed.

Lemma sm_mix_zero : forall z, z < M64 -> sm_mix z = 0 -> z = 0.
Proof.
  intros z Hz H. unfold sm_mix in H.
  apply xorshift_zero in H; [|reflexivity].
  apply (mul64_unit_zero _ _ 3573116690164977347) in H; [|apply xor64_lt; [apply mul64_lt|apply shr64_lt, mul64_lt]|reflexivity].
  apply xorshift_zero in H; [|reflexivity].
  apply (mul64_unit_zero _ _ 10871156337175269513) in H; [|apply xor64_lt; [exact Hz|apply shr64_lt; exact Hz]|reflexivity].
  apply xorshift_zero in H; [|reflexivity]. exact H.
Qed.

Lemma seed_engine_not_zero : forall old s, s0 (seed_engine old s) <> 0 \/ s1 (seed_engine old s) <> 0.
Proof.
  intros old s. unfold seed_engine.
  set (sd := if s =? 0 then def_seed else s).
  rewrite (sm_next_mix sd). set (x1 := add64 sd 11400714819323198485).
  rewrite (sm_next_mix x1). set (x2 := add64 x1 11400714819323198485).
  destruct (sm_next x2) as [x3 c]. destruct (sm_next x3) as [x4 d]. cbn [s0 s1].
  destruct (N.eq_dec (sm_mix x1) 0) as [E1|E1]; [|left; exact E1].
  right. intro E2.
  apply sm_mix_zero in E1; [|apply add64_lt]. apply sm_mix_zero in E2; [|apply add64_lt].
  unfold x2 in E2. rewrite E1 in E2. vm_compute in E2. discriminate E2.
Qed.

Lemma zero_state_is_fixed : next zero_state = (0, zero_state).
Proof. reflexivity. Qed.
