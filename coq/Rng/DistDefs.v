(* C07 (round 2) -- the libstdc++ distributions that vita::random puts on top of the
   engine, modelled on the engine model of RngDefs.v, so that every draw logged by
   hook H1 is PREDICTED from the seed.  Definitions only.

   Sources mirrored (GCC 12, /usr/include/c++/12/bits):
     uniform_int_dist.h  uniform_int_distribution<T>::operator() with a 64-bit
                         generator (urngrange = 2^64-1): "downscaling" through
                         _S_nd<unsigned __int128> (Lemire's nearly divisionless
                         method) when the range is smaller than the generator's,
                         the raw output when they are equal
     random.tcc          generate_canonical<double,53>: one engine output u,
                         double(u) / 2^64, replaced by nextafter(1,0) when >= 1
     random.h            uniform_real_distribution: canonical * (b - a) + a
                         bernoulli_distribution: (canonical - 0.0) < p * (1.0 - 0.0)
   and src/kernel/random.h: between<integral>(min,sup) = uniform_int(min, sup-1),
   between<floating>(min,sup) (with the repaired wide-interval branch),
   boolean(p), sup(n).

   A rejection loop has no bound: it takes [fuel] and returns [None] when the
   fuel is exhausted (each round rejects with probability < range / 2^64). *)
From Coq Require Import NArith ZArith List Bool.
From VV Require Import Base.F64 Rng.RngDefs.
Import ListNotations.

Local Open Scope N_scope.

(* while (__low < __threshold) { __product = _Wp(__g()) * _Wp(__range); __low = _Up(__product); } *)
Fixpoint nd_loop (fuel : nat) (range threshold : N) (st : state) : option (N * state) :=
  match fuel with
  | O => None
  | S f =>
      let '(g, st') := next st in
      let product := g * range in
      let low := product mod M64 in
      if low <? threshold then nd_loop f range threshold st' else Some (product / M64, st')
  end.

(* _S_nd<unsigned __int128>(__g, __range),  0 < range < 2^64 *)
Definition s_nd (fuel : nat) (range : N) (st : state) : option (N * state) :=
  let '(g, st') := next st in
  let product := g * range in
  let low := product mod M64 in
  if low <? range then
    let threshold := (M64 - range) mod range in          (* -__range % __range in 64 bits *)
    if low <? threshold then nd_loop fuel range threshold st' else Some (product / M64, st')
  else Some (product / M64, st').

(* uniform_int_distribution<T>(a, b)(engine) as an offset from a; urange = b - a < 2^64 *)
Definition uniform_offset (fuel : nat) (urange : N) (st : state) : option (N * state) :=
  if urange <? M64 - 1 then s_nd fuel (urange + 1) st               (* __urngrange > __urange *)
  else if urange =? M64 - 1 then Some (next st)                        (* equal ranges *)
  else None.                                                           (* no integral type of vita is wider *)

Local Open Scope Z_scope.

(* vita::random::between<integral>(min, sup): Expects(min < sup);
   uniform_int_distribution<T> d(min, sup - 1); return d(engine); *)
Definition between_int (fuel : nat) (lo hi : Z) (st : state) : option (Z * state) :=
  if hi <=? lo then None
  else match uniform_offset fuel (Z.to_N (hi - 1 - lo)) st with
       | None => None
       | Some (r, st') => Some (lo + Z.of_N r, st')
       end.

(* ------------------------------------------------------------ reals *)
Definition two64 : f64 := F64.of_Z 18446744073709551616.
Definition pred_one : f64 := F64.of_bits 4607182418800017407.        (* nextafter(1.0, 0.0) = 0x3FEFFFFFFFFFFFFF *)

(* generate_canonical<double,53>(engine): __m = 1 round;
   __sum = double(u) * 1.0;  __tmp = 2^64;  __ret = __sum / __tmp;  if (__ret >= 1) __ret = nextafter(1, 0) *)
Definition canonical (st : state) : f64 * state :=
  let '(g, st') := next st in
  let ret := F64.div (F64.mul (F64.of_Z (Z.of_N g)) (F64.of_Z 1)) two64 in
  (if F64.leb (F64.of_Z 1) ret then pred_one else ret, st').

(* uniform_real_distribution<double>(a, b)(engine) *)
Definition uniform_real (a b : f64) (st : state) : f64 * state :=
  let '(u, st') := canonical st in
  (F64.add (F64.mul u (F64.sub b a)) a, st').

(* vita::random::between<double>(min, sup) on the repaired tree:
     const bool wide(!std::isfinite(sup - min));
     std::uniform_real_distribution<T> d(wide ? min / 2 : min, wide ? sup / 2 : sup);
     return wide ? 2 * d(engine) : d(engine); *)
Definition between_real (lo hi : f64) (st : state) : f64 * state :=
  let two := F64.of_Z 2 in
  if F64.is_finite (F64.sub hi lo) then uniform_real lo hi st
  else let '(v, st') := uniform_real (F64.div lo two) (F64.div hi two) st in (F64.mul two v, st').

(* std::bernoulli_distribution(p)(engine): (canonical - 0.0) < p * (1.0 - 0.0) *)
Definition boolean (p : f64) (st : state) : bool * state :=
  let '(u, st') := canonical st in
  (F64.ltb (F64.sub u F64.zero) (F64.mul p (F64.sub (F64.of_Z 1) F64.zero)), st').

(* ------------------------------------------------------------ std::discrete_distribution<unsigned>
   as population.tcc:pickup uses it (weights = the sizes of the layers).
   param_type::_M_initialize (random.tcc):  fewer than two weights -> no table (always 0, nothing drawn);
     sum = std::accumulate(prob, 0.0);  prob[i] /= sum;  cp = std::partial_sum(prob);  cp.back() = 1.0
   operator(): p = generate_canonical;  return std::lower_bound(cp.begin(), cp.end(), p) - cp.begin() *)
Fixpoint partial_sums (acc : f64) (l : list f64) : list f64 :=
  match l with
  | [] => []
  | x :: r => let s := F64.add acc x in s :: partial_sums s r
  end.

Fixpoint set_last (l : list f64) (v : f64) : list f64 :=
  match l with
  | [] => []
  | [_] => [v]
  | x :: r => x :: set_last r v
  end.

Definition discrete_cp (ws : list Z) : list f64 :=
  match ws with
  | [] | [_] => []
  | _ =>
      let pr := map F64.of_Z ws in
      let sum := fold_left F64.add pr F64.zero in
      match map (fun x => F64.div x sum) pr with
      | [] => []
      | p0 :: r => set_last (p0 :: partial_sums p0 r) (F64.of_Z 1)
      end
  end.

(* std::lower_bound: binary search with operator<, exactly as libstdc++ does it (bits/stl_algobase.h):
     while (len > 0) { half = len >> 1; middle = first + half;
                       if (middle[0] < val) { first = middle + 1; len = len - half - 1; } else len = half; } *)
Fixpoint lower_bound_loop (fuel : nat) (cp : list f64) (val : f64) (first len : nat) : nat :=
  match fuel with
  | O => first
  | S f =>
      match len with
      | O => first
      | _ =>
          let half := Nat.div2 len in
          let middle := (first + half)%nat in
          if F64.ltb (nth middle cp F64.nan) val
          then lower_bound_loop f cp val (S middle) (len - half - 1)%nat
          else lower_bound_loop f cp val first half
      end
  end.

Definition lower_bound (cp : list f64) (val : f64) : nat :=
  lower_bound_loop (S (length cp)) cp val 0%nat (length cp).

Definition discrete (ws : list Z) (st : state) : Z * state :=
  match discrete_cp ws with
  | [] => (0, st)
  | cp => let '(u, st') := canonical st in (Z.of_nat (lower_bound cp u), st')
  end.

(* ------------------------------------------------------------ a sequence of requests answered from a state
   (what the correspondence replays: the kinds and bounds of the H1 log, values predicted) *)
Inductive request :=
| QInt (lo hi : Z)
| QReal (lo hi : f64)
| QBool (p : f64)
| QDisc (ws : list Z)   (* std::discrete_distribution over the given weights *)
| QSkip.          (* a draw that consumes exactly one engine output and whose value is not predicted
                     (std::discrete_distribution in population pickup: its weights are not in the log) *)

Inductive answer := AInt (v : Z) | AReal (v : f64) | ABool (b : bool) | ADisc (v : Z) | ASkipped | AFail.

Fixpoint answers (fuel : nat) (qs : list request) (st : state) : list answer :=
  match qs with
  | [] => []
  | QInt lo hi :: r =>
      match between_int fuel lo hi st with
      | Some (v, st') => AInt v :: answers fuel r st'
      | None => [AFail]
      end
  | QReal lo hi :: r => let '(v, st') := between_real lo hi st in AReal v :: answers fuel r st'
  | QBool p :: r => let '(b, st') := boolean p st in ABool b :: answers fuel r st'
  | QDisc ws :: r => let '(v, st') := discrete ws st in ADisc v :: answers fuel r st'
  | QSkip :: r => ASkipped :: answers fuel r (snd (next st))
  end.
