(* C07 (round 2) -- the real-valued part of the distribution pipeline, by Flocq's correctness theorems:
   generate_canonical<double,53> is a finite double in [0,1) and std::bernoulli_distribution honours
   boolean(0) = false, boolean(1) = true, for EVERY 64-bit engine state. *)
From Coq Require Import ZArith Reals Lia Lra Bool.
From Flocq Require Import Core IEEE754.BinarySingleNaN.
From VV Require Import Base.F64 Rng.RngDefs Rng.RngProofs Rng.DistDefs.
Local Open Scope R_scope.

Notation fexp64 := (SpecFloat.fexp 53 1024).
Notation rnd64 := (round radix2 fexp64 (round_mode mode_NE)).

Local Instance fexp64_valid : Valid_exp fexp64 := fexp_correct 53 1024 prec_gt_0_53.

Lemma fmt_bpow : forall e, (-1074 <= e)%Z -> generic_format radix2 fexp64 (bpow radix2 e).
Proof.
  intros e He. apply generic_format_bpow. unfold SpecFloat.fexp, SpecFloat.emin. lia.
Qed.

Lemma rnd_bounds : forall x e, (-1074 <= e)%Z -> 0 <= x <= bpow radix2 e -> 0 <= rnd64 x <= bpow radix2 e.
Proof.
  intros x e He [H0 H1]. split.
  - rewrite <- (round_0 radix2 fexp64 (round_mode mode_NE)). apply round_le; auto with typeclass_instances.
  - rewrite <- (round_generic radix2 fexp64 (round_mode mode_NE) (bpow radix2 e)) by (apply fmt_bpow; exact He).
    apply round_le; auto with typeclass_instances.
Qed.

Lemma small_lt_emax : forall x e, (e < 1024)%Z -> 0 <= x <= bpow radix2 e -> Rlt_bool (Rabs x) (bpow radix2 1024) = true.
Proof.
  intros x e He [H0 H1]. apply Rlt_bool_true. rewrite Rabs_pos_eq by exact H0.
  apply Rle_lt_trans with (1 := H1). apply bpow_lt. exact He.
Qed.

(* of_Z on a non-negative integer not above 2^64 *)
Lemma of_Z_correct : forall z, (0 <= z <= 18446744073709551616)%Z ->
  B2R (F64.of_Z z) = rnd64 (IZR z) /\ is_finite (F64.of_Z z) = true /\ 0 <= rnd64 (IZR z) <= bpow radix2 64.
Proof.
  intros z Hz. unfold F64.of_Z.
  pose proof (binary_normalize_correct 53 1024 prec_gt_0_53 prec_lt_emax_53 mode_NE z 0 false) as H. cbv zeta in H.
  assert (E : @F2R radix2 {| Fnum := z; Fexp := 0 |} = IZR z) by (unfold F2R; simpl; ring).
  rewrite E in H.
  assert (B : 0 <= IZR z <= bpow radix2 64).
  { split; [apply IZR_le; lia|]. change (bpow radix2 64) with (IZR (Z.pow_pos 2 64)). apply IZR_le.
    change (Z.pow_pos 2 64) with 18446744073709551616%Z. lia. }
  pose proof (rnd_bounds _ 64 ltac:(lia) B) as RB.
  rewrite (small_lt_emax _ 64 ltac:(lia) RB) in H. destruct H as (H1 & H2 & _). auto.
Qed.

Lemma B2R_one : B2R (F64.of_Z 1) = 1 /\ is_finite (F64.of_Z 1) = true.
Proof.
  destruct (of_Z_correct 1 ltac:(lia)) as (H1 & H2 & _). split; [|exact H2].
  rewrite H1. change 1 with (bpow radix2 0). apply round_generic; auto with typeclass_instances. apply fmt_bpow. lia.
Qed.

Lemma B2R_two64 : B2R two64 = bpow radix2 64 /\ is_finite two64 = true.
Proof.
  unfold two64. destruct (of_Z_correct 18446744073709551616 ltac:(lia)) as (H1 & H2 & _). split; [|exact H2].
  rewrite H1. change (IZR 18446744073709551616) with (bpow radix2 64).
  apply round_generic; auto with typeclass_instances. apply fmt_bpow. lia.
Qed.

(* double(u) * 1.0 / 2^64 is a finite double in [0, 1] *)
Lemma canonical_ratio : forall g, (0 <= g < 18446744073709551616)%Z ->
  let x := F64.div (F64.mul (F64.of_Z g) (F64.of_Z 1)) two64 in
  is_finite x = true /\ 0 <= B2R x <= 1.
Proof.
  intros g Hg. cbv zeta.
  destruct (of_Z_correct g ltac:(lia)) as (A1 & A2 & A3).
  destruct B2R_one as [O1 O2]. destruct B2R_two64 as [T1 T2].
  (* the product *)
  unfold F64.mul. pose proof (Bmult_correct 53 1024 prec_gt_0_53 prec_lt_emax_53 mode_NE (F64.of_Z g) (F64.of_Z 1)) as M.
  rewrite O1, Rmult_1_r, A1 in M.
  assert (G : rnd64 (rnd64 (IZR g)) = rnd64 (IZR g)).
  { apply round_generic; auto with typeclass_instances. apply generic_format_round; auto with typeclass_instances. }
  rewrite G in M. rewrite (small_lt_emax _ 64 ltac:(lia) A3) in M. destruct M as (M1 & M2 & _).
  rewrite A2, O2 in M2. cbn [andb] in M2.
  (* the quotient *)
  unfold F64.div.
  pose proof (Bdiv_correct 53 1024 prec_gt_0_53 prec_lt_emax_53 mode_NE (@Bmult 53 1024 prec_gt_0_53 prec_lt_emax_53 mode_NE (F64.of_Z g) (F64.of_Z 1)) two64) as D.
  rewrite T1, M1 in D.
  assert (P : 0 < bpow radix2 64) by apply bpow_gt_0.
  assert (Q : 0 <= rnd64 (IZR g) / bpow radix2 64 <= bpow radix2 0).
  { change (bpow radix2 0) with 1. split.
    - apply Rmult_le_pos; [tauto|]. apply Rlt_le, Rinv_0_lt_compat. exact P.
    - apply Rmult_le_reg_r with (bpow radix2 64); [exact P|]. unfold Rdiv. rewrite Rmult_assoc, Rinv_l, Rmult_1_r, Rmult_1_l by lra. tauto. }
  pose proof (rnd_bounds _ 0 ltac:(lia) Q) as RB.
  specialize (D ltac:(lra)). rewrite (small_lt_emax _ 0 ltac:(lia) RB) in D. destruct D as (D1 & D2 & _).
  split; [rewrite D2; exact M2|]. rewrite D1. exact RB.
Qed.

Lemma cmp_finite : forall x y, is_finite x = true -> is_finite y = true ->
  F64.cmp x y = Some (Rcompare (B2R x) (B2R y)).
Proof. intros. unfold F64.cmp. apply Bcompare_correct; assumption. Qed.

(* generate_canonical<double,53> is a finite double u with 0 <= u < 1, for every 64-bit engine state *)
Lemma canonical_unit : forall st, wf st ->
  let u := fst (canonical st) in
  is_finite u = true /\ 0 <= B2R u < 1 /\ F64.leb F64.zero u = true /\ F64.ltb u (F64.of_Z 1) = true.
Proof.
  intros st Hw. cbv zeta. unfold canonical.
  pose proof (next_wf st Hw) as [Hg _]. destruct (next st) as [g st']. cbn [fst] in *.
  assert (Hz : (0 <= Z.of_N g < 18446744073709551616)%Z) by (unfold lt64, M64 in Hg; lia).
  destruct (canonical_ratio _ Hz) as [F [R0 R1]].
  set (ret := F64.div (F64.mul (F64.of_Z (Z.of_N g)) (F64.of_Z 1)) two64) in *.
  destruct B2R_one as [O1 O2].
  assert (Z0 : B2R F64.zero = 0) by reflexivity.
  assert (V : forall u, is_finite u = true -> 0 <= B2R u < 1 ->
              is_finite u = true /\ 0 <= B2R u < 1 /\ F64.leb F64.zero u = true /\ F64.ltb u (F64.of_Z 1) = true).
  { intros u Fu [U0 U1]. split; [exact Fu|]. split; [lra|]. split.
    - unfold F64.leb. rewrite (cmp_finite F64.zero u eq_refl Fu), Z0.
      destruct (Rcompare_spec 0 (B2R u)); try reflexivity. lra.
    - unfold F64.ltb. rewrite (cmp_finite u (F64.of_Z 1) Fu O2), O1.
      rewrite Rcompare_Lt by exact U1. reflexivity. }
  destruct (F64.leb (F64.of_Z 1) ret) eqn:E.
  - apply V; [reflexivity|]. unfold pred_one.
    assert (P : B2R (F64.of_bits 4607182418800017407) = IZR 9007199254740991 * bpow radix2 (-53)) by reflexivity.
    rewrite P. change (bpow radix2 (-53)) with (/ IZR (Z.pow_pos 2 53)).
    change (Z.pow_pos 2 53) with 9007199254740992%Z. split.
    + apply Rmult_le_pos; [apply IZR_le; lia|]. apply Rlt_le, Rinv_0_lt_compat, IZR_lt. lia.
    + apply Rmult_lt_reg_r with (IZR 9007199254740992); [apply IZR_lt; lia|].
      rewrite Rmult_assoc, Rinv_l, Rmult_1_r, Rmult_1_l by (apply not_0_IZR; lia). apply IZR_lt. lia.
  - apply V; [exact F|]. split; [exact R0|].
    unfold F64.leb in E. rewrite (cmp_finite (F64.of_Z 1) ret O2 F), O1 in E.
    destruct (Rcompare_spec 1 (B2R ret)); try discriminate E. lra.
Qed.

Lemma sub_zero : forall u, is_finite u = true ->
  is_finite (F64.sub u F64.zero) = true /\ B2R (F64.sub u F64.zero) = B2R u.
Proof.
  intros u Fu. destruct u as [s|s| |s m e H]; try discriminate Fu.
  - destruct s; split; reflexivity.
  - split; reflexivity.
Qed.

(* std::bernoulli_distribution: p = 0 never fires, p = 1 always fires, for every 64-bit engine state *)
Lemma boolean_contract : forall p st, wf st ->
  (F64.eqb p F64.zero = true -> fst (boolean p st) = false) /\
  (F64.eqb p (F64.of_Z 1) = true -> fst (boolean p st) = true).
Proof.
  intros p st Hw. unfold boolean.
  pose proof (canonical_unit st Hw) as (Fu & [U0 U1] & _). destruct (canonical st) as [u st']. cbn [fst] in *.
  destruct (sub_zero u Fu) as [Fs Bs].
  destruct B2R_one as [O1 O2]. destruct (sub_zero (F64.of_Z 1) O2) as [F1 B1]. rewrite O1 in B1.
  set (one' := F64.sub (F64.of_Z 1) F64.zero) in *.
  pose proof (Bmult_correct 53 1024 prec_gt_0_53 prec_lt_emax_53 mode_NE p one') as M. rewrite B1, Rmult_1_r in M.
  split; intro Hp.
  - (* p = +-0 *)
    assert (Pz : exists s, p = B754_zero s).
    { unfold F64.eqb, F64.cmp in Hp. destruct p as [s|s| |s m e H]; [eexists; reflexivity| | |]; exfalso.
      - destruct s; discriminate Hp.
      - discriminate Hp.
      - destruct s; discriminate Hp. }
    destruct Pz as [s ->].
    assert (Mz : exists s', F64.mul (B754_zero s) one' = B754_zero s').
    { unfold F64.mul. destruct one' as [s1|s1| |s1 m1 e1 H1]; try discriminate F1; eexists; reflexivity. }
    destruct Mz as [s' ->]. unfold F64.ltb. rewrite (cmp_finite _ (B754_zero s') Fs eq_refl), Bs.
    change (B2R (B754_zero s')) with 0. destruct (Rcompare_spec (B2R u) 0); try reflexivity. lra.
  - (* p = 1 *)
    assert (Fp : is_finite p = true).
    { unfold F64.eqb, F64.cmp in Hp. destruct p as [s|s| |s m e H]; try reflexivity; exfalso.
      - destruct s; vm_compute in Hp; discriminate Hp.
      - vm_compute in Hp. discriminate Hp. }
    assert (Bp : B2R p = 1).
    { unfold F64.eqb in Hp. rewrite (cmp_finite p (F64.of_Z 1) Fp O2), O1 in Hp.
      destruct (Rcompare_spec (B2R p) 1); try discriminate Hp. assumption. }
    rewrite Bp in M.
    assert (R1 : rnd64 1 = 1).
    { change 1 with (bpow radix2 0). apply round_generic; auto with typeclass_instances. apply fmt_bpow. lia. }
    rewrite R1 in M. rewrite Rlt_bool_true in M.
    2:{ rewrite Rabs_R1. change 1 with (bpow radix2 0). apply bpow_lt. lia. }
    destruct M as (M1 & M2 & _). rewrite Fp, F1 in M2. cbn [andb] in M2.
    unfold F64.ltb, F64.mul. rewrite (cmp_finite _ _ Fs M2), Bs, M1. rewrite Rcompare_Lt by exact U1. reflexivity.
Qed.
