(* C07 (round 2) -- the real-valued part of the distribution pipeline, by Flocq's correctness theorems:
   generate_canonical<double,53> is a finite double in [0,1) and std::bernoulli_distribution honours
   boolean(0) = false, boolean(1) = true, for EVERY 64-bit engine state. *)
From Coq Require Import ZArith Reals Lia Lra Bool List PeanoNat.
Import ListNotations.
From Flocq Require Import Core IEEE754.BinarySingleNaN.
From Flocq Require Import Plus_error Mult_error.
From VV Require Import Base.F64 Rng.RngDefs Rng.RngProofs Rng.DistDefs.
Local Open Scope R_scope.

Notation fexp64 := (SpecFloat.fexp 53 1024).
Notation rnd64 := (round radix2 fexp64 (round_mode mode_NE)).

Local Instance fexp64_valid : Valid_exp fexp64 := fexp_correct 53 1024 prec_gt_0_53.

Lemma fmt_bpow : forall e, (-1074 <= e)%Z -> generic_format radix2 fexp64 (bpow radix2 e).
Proof.
  intros e He. apply generic_format_bpow. unfold SpecFloat.fexp, SpecFloat.emin. lia.
Qed.

Lemma rnd_bounds : forall x e, (-1074 <= e)%Z -> 0 <= x <= bpow radix2 e -> 0 <= rnd64 x <= bpow radix2 e.
Proof.
  intros x e He [H0 H1]. split.
  - rewrite <- (round_0 radix2 fexp64 (round_mode mode_NE)). apply round_le; auto with typeclass_instances.
  - rewrite <- (round_generic radix2 fexp64 (round_mode mode_NE) (bpow radix2 e)) by (apply fmt_bpow; exact He).
    apply round_le; auto with typeclass_instances.
Qed.

Lemma small_lt_emax : forall x e, (e < 1024)%Z -> 0 <= x <= bpow radix2 e -> Rlt_bool (Rabs x) (bpow radix2 1024) = true.
Proof.
  intros x e He [H0 H1]. apply Rlt_bool_true. rewrite Rabs_pos_eq by exact H0.
  apply Rle_lt_trans with (1 := H1). apply bpow_lt. exact He.
Qed.

(* of_Z on a non-negative integer not above 2^64 *)
Lemma of_Z_correct : forall z, (0 <= z <= 18446744073709551616)%Z ->
  B2R (F64.of_Z z) = rnd64 (IZR z) /\ is_finite (F64.of_Z z) = true /\ 0 <= rnd64 (IZR z) <= bpow radix2 64.
Proof.
  intros z Hz. unfold F64.of_Z.
  pose proof (binary_normalize_correct 53 1024 prec_gt_0_53 prec_lt_emax_53 mode_NE z 0 false) as H. cbv zeta in H.
  assert (E : @F2R radix2 {| Fnum := z; Fexp := 0 |} = IZR z) by (unfold F2R; simpl; ring).
  rewrite E in H.
  assert (B : 0 <= IZR z <= bpow radix2 64).
  { split; [apply IZR_le; lia|]. change (bpow radix2 64) with (IZR (Z.pow_pos 2 64)). apply IZR_le.
    change (Z.pow_pos 2 64) with 18446744073709551616%Z. lia. }
  pose proof (rnd_bounds _ 64 ltac:(lia) B) as RB.
  rewrite (small_lt_emax _ 64 ltac:(lia) RB) in H. destruct H as (H1 & H2 & _). auto.
Qed.

Lemma B2R_one : B2R (F64.of_Z 1) = 1 /\ is_finite (F64.of_Z 1) = true.
Proof.
  destruct (of_Z_correct 1 ltac:(lia)) as (H1 & H2 & _). split; [|exact H2].
  rewrite H1. change 1 with (bpow radix2 0). apply round_generic; auto with typeclass_instances. apply fmt_bpow. lia.
Qed.

Lemma B2R_two64 : B2R two64 = bpow radix2 64 /\ is_finite two64 = true.
Proof.
  unfold two64. destruct (of_Z_correct 18446744073709551616 ltac:(lia)) as (H1 & H2 & _). split; [|exact H2].
  rewrite H1. change (IZR 18446744073709551616) with (bpow radix2 64).
  apply round_generic; auto with typeclass_instances. apply fmt_bpow. lia.
Qed.

(* double(u) * 1.0 / 2^64 is a finite double in [0, 1] *)
Lemma canonical_ratio : forall g, (0 <= g < 18446744073709551616)%Z ->
  let x := F64.div (F64.mul (F64.of_Z g) (F64.of_Z 1)) two64 in
  is_finite x = true /\ 0 <= B2R x <= 1.
Proof.
  intros g Hg. cbv zeta.
  destruct (of_Z_correct g ltac:(lia)) as (A1 & A2 & A3).
  destruct B2R_one as [O1 O2]. destruct B2R_two64 as [T1 T2].
  (* the product *)
  unfold F64.mul. pose proof (Bmult_correct 53 1024 prec_gt_0_53 prec_lt_emax_53 mode_NE (F64.of_Z g) (F64.of_Z 1)) as M.
  rewrite O1, Rmult_1_r, A1 in M.
  assert (G : rnd64 (rnd64 (IZR g)) = rnd64 (IZR g)).
  { apply round_generic; auto with typeclass_instances. apply generic_format_round; auto with typeclass_instances. }
  rewrite G in M. rewrite (small_lt_emax _ 64 ltac:(lia) A3) in M. destruct M as (M1 & M2 & _).
  rewrite A2, O2 in M2. cbn [andb] in M2.
  (* the quotient *)
  unfold F64.div.
  pose proof (Bdiv_correct 53 1024 prec_gt_0_53 prec_lt_emax_53 mode_NE (@Bmult 53 1024 prec_gt_0_53 prec_lt_emax_53 mode_NE (F64.of_Z g) (F64.of_Z 1)) two64) as D.
  rewrite T1, M1 in D.
  assert (P : 0 < bpow radix2 64) by apply bpow_gt_0.
  assert (Q : 0 <= rnd64 (IZR g) / bpow radix2 64 <= bpow radix2 0).
  { change (bpow radix2 0) with 1. split.
    - apply Rmult_le_pos; [tauto|]. apply Rlt_le, Rinv_0_lt_compat. exact P.
    - apply Rmult_le_reg_r with (bpow radix2 64); [exact P|]. unfold Rdiv. rewrite Rmult_assoc, Rinv_l, Rmult_1_r, Rmult_1_l by lra. tauto. }
  pose proof (rnd_bounds _ 0 ltac:(lia) Q) as RB.
  specialize (D ltac:(lra)). rewrite (small_lt_emax _ 0 ltac:(lia) RB) in D. destruct D as (D1 & D2 & _).
  split; [rewrite D2; exact M2|]. rewrite D1. exact RB.
Qed.

Lemma cmp_finite : forall x y, is_finite x = true -> is_finite y = true ->
  F64.cmp x y = Some (Rcompare (B2R x) (B2R y)).
Proof. intros. unfold F64.cmp. apply Bcompare_correct; assumption. Qed.

(* generate_canonical<double,53> is a finite double u with 0 <= u < 1, for every 64-bit engine state *)
Lemma canonical_unit : forall st, wf st ->
  let u := fst (canonical st) in
  is_finite u = true /\ 0 <= B2R u < 1 /\ F64.leb F64.zero u = true /\ F64.ltb u (F64.of_Z 1) = true.
Proof.
  intros st Hw. cbv zeta. unfold canonical.
  pose proof (next_wf st Hw) as [Hg _]. destruct (next st) as [g st']. cbn [fst] in *.
  assert (Hz : (0 <= Z.of_N g < 18446744073709551616)%Z) by (unfold lt64, M64 in Hg; lia).
  destruct (canonical_ratio _ Hz) as [F [R0 R1]].
  set (ret := F64.div (F64.mul (F64.of_Z (Z.of_N g)) (F64.of_Z 1)) two64) in *.
  destruct B2R_one as [O1 O2].
  assert (Z0 : B2R F64.zero = 0) by reflexivity.
  assert (V : forall u, is_finite u = true -> 0 <= B2R u < 1 ->
              is_finite u = true /\ 0 <= B2R u < 1 /\ F64.leb F64.zero u = true /\ F64.ltb u (F64.of_Z 1) = true).
  { intros u Fu [U0 U1]. split; [exact Fu|]. split; [lra|]. split.
    - unfold F64.leb. rewrite (cmp_finite F64.zero u eq_refl Fu), Z0.
      destruct (Rcompare_spec 0 (B2R u)); try reflexivity. lra.
    - unfold F64.ltb. rewrite (cmp_finite u (F64.of_Z 1) Fu O2), O1.
      rewrite Rcompare_Lt by exact U1. reflexivity. }
  destruct (F64.leb (F64.of_Z 1) ret) eqn:E.
  - apply V; [reflexivity|]. unfold pred_one.
    assert (P : B2R (F64.of_bits 4607182418800017407) = IZR 9007199254740991 * bpow radix2 (-53)) by reflexivity.
    rewrite P. change (bpow radix2 (-53)) with (/ IZR (Z.pow_pos 2 53)).
    change (Z.pow_pos 2 53) with 9007199254740992%Z. split.
    + apply Rmult_le_pos; [apply IZR_le; lia|]. apply Rlt_le, Rinv_0_lt_compat, IZR_lt. lia.
    + apply Rmult_lt_reg_r with (IZR 9007199254740992); [apply IZR_lt; lia|].
      rewrite Rmult_assoc, Rinv_l, Rmult_1_r, Rmult_1_l by (apply not_0_IZR; lia). apply IZR_lt. lia.
  - apply V; [exact F|]. split; [exact R0|].
    unfold F64.leb in E. rewrite (cmp_finite (F64.of_Z 1) ret O2 F), O1 in E.
    destruct (Rcompare_spec 1 (B2R ret)); try discriminate E. lra.
Qed.

Lemma sub_zero : forall u, is_finite u = true ->
  is_finite (F64.sub u F64.zero) = true /\ B2R (F64.sub u F64.zero) = B2R u.
Proof.
  intros u Fu. destruct u as [s|s| |s m e H]; try discriminate Fu.
  - destruct s; split; reflexivity.
  - split; reflexivity.
Qed.

(* std::bernoulli_distribution: p = 0 never fires, p = 1 always fires, for every 64-bit engine state *)
Lemma boolean_contract : forall p st, wf st ->
  (F64.eqb p F64.zero = true -> fst (boolean p st) = false) /\
  (F64.eqb p (F64.of_Z 1) = true -> fst (boolean p st) = true).
Proof.
  intros p st Hw. unfold boolean.
  pose proof (canonical_unit st Hw) as (Fu & [U0 U1] & _). destruct (canonical st) as [u st']. cbn [fst] in *.
  destruct (sub_zero u Fu) as [Fs Bs].
  destruct B2R_one as [O1 O2]. destruct (sub_zero (F64.of_Z 1) O2) as [F1 B1]. rewrite O1 in B1.
  set (one' := F64.sub (F64.of_Z 1) F64.zero) in *.
  pose proof (Bmult_correct 53 1024 prec_gt_0_53 prec_lt_emax_53 mode_NE p one') as M. rewrite B1, Rmult_1_r in M.
  split; intro Hp.
  - (* p = +-0 *)
    assert (Pz : exists s, p = B754_zero s).
    { unfold F64.eqb, F64.cmp in Hp. destruct p as [s|s| |s m e H]; [eexists; reflexivity| | |]; exfalso.
      - destruct s; discriminate Hp.
      - discriminate Hp.
      - destruct s; discriminate Hp. }
    destruct Pz as [s ->].
    assert (Mz : exists s', F64.mul (B754_zero s) one' = B754_zero s').
    { unfold F64.mul. destruct one' as [s1|s1| |s1 m1 e1 H1]; try discriminate F1; eexists; reflexivity. }
    destruct Mz as [s' ->]. unfold F64.ltb. rewrite (cmp_finite _ (B754_zero s') Fs eq_refl), Bs.
    change (B2R (B754_zero s')) with 0. destruct (Rcompare_spec (B2R u) 0); try reflexivity. lra.
  - (* p = 1 *)
    assert (Fp : is_finite p = true).
    { unfold F64.eqb, F64.cmp in Hp. destruct p as [s|s| |s m e H]; try reflexivity; exfalso.
      - destruct s; vm_compute in Hp; discriminate Hp.
      - vm_compute in Hp. discriminate Hp. }
    assert (Bp : B2R p = 1).
    { unfold F64.eqb in Hp. rewrite (cmp_finite p (F64.of_Z 1) Fp O2), O1 in Hp.
      destruct (Rcompare_spec (B2R p) 1); try discriminate Hp. assumption. }
    rewrite Bp in M.
    assert (R1 : rnd64 1 = 1).
    { change 1 with (bpow radix2 0). apply round_generic; auto with typeclass_instances. apply fmt_bpow. lia. }
    rewrite R1 in M. rewrite Rlt_bool_true in M.
    2:{ rewrite Rabs_R1. change 1 with (bpow radix2 0). apply bpow_lt. lia. }
    destruct M as (M1 & M2 & _). rewrite Fp, F1 in M2. cbn [andb] in M2.
    unfold F64.ltb, F64.mul. rewrite (cmp_finite _ _ Fs M2), Bs, M1. rewrite Rcompare_Lt by exact U1. reflexivity.
Qed.

(* ------------------------------------------------------------ uniform_real_distribution stays in [lo, hi] *)
Notation F64fmt := (generic_format radix2 fexp64).

Lemma fexp64_FLT : fexp64 = FLT_exp (-1074) 53.
Proof. reflexivity. Qed.

Local Instance prec53 : Prec_gt_0 53 := prec_gt_0_53.

Lemma rnd64_N : forall x, rnd64 x = round radix2 fexp64 (Znearest (fun z => negb (Z.even z))) x.
Proof. reflexivity. Qed.

Lemma rnd_ge0 : forall x, 0 <= x -> 0 <= rnd64 x.
Proof. intros x Hx. rewrite <- (round_0 radix2 fexp64 (round_mode mode_NE)). apply round_le; auto with typeclass_instances. Qed.

Lemma rnd_id : forall x, F64fmt x -> rnd64 x = x.
Proof. intros. apply round_generic; auto with typeclass_instances. Qed.

Lemma rnd_mono : forall x y, x <= y -> rnd64 x <= rnd64 y.
Proof. intros. apply round_le; auto with typeclass_instances. Qed.

Lemma unit_le_pred1 : forall U, F64fmt U -> U < 1 -> U <= 1 - bpow radix2 (-53).
Proof.
  intros U FU HU.
  assert (F1 : F64fmt 1) by (change 1 with (bpow radix2 0); apply fmt_bpow; lia).
  pose proof (pred_ge_gt radix2 fexp64 U 1 FU F1 HU) as H.
  change 1 with (bpow radix2 0) in H at 1. rewrite pred_bpow in H. exact H.
Qed.

(* the heart of uniform_real_distribution: u * fl(H - L), rounded, never exceeds the exact H - L *)
Lemma scaled_le_width : forall L H U, F64fmt L -> F64fmt H -> L < H -> F64fmt U -> 0 <= U < 1 ->
  0 <= rnd64 (U * rnd64 (H - L)) <= H - L.
Proof.
  intros L H U FL FH HLH FU [U0 U1].
  set (D := H - L). assert (D0 : 0 < D) by (unfold D; lra).
  set (dr := rnd64 D). assert (dr0 : 0 <= dr) by (apply rnd_ge0; lra).
  assert (Fdr : F64fmt dr) by (apply generic_format_round; auto with typeclass_instances).
  pose proof (unit_le_pred1 U FU U1) as Up.
  assert (B53 : 0 < bpow radix2 (-53)) by apply bpow_gt_0.
  split; [apply rnd_ge0; apply Rmult_le_pos; assumption|].
  destruct (Rle_or_lt dr D) as [A|B].
  - apply Rle_trans with dr; [|exact A]. rewrite <- (rnd_id dr Fdr) at 2. apply rnd_mono. nra.
  - (* dr > D: D is not representable and dr is its upward rounding *)
    assert (NF : ~ F64fmt D) by (intro FD; unfold dr in B; rewrite (rnd_id D FD) in B; lra).
    assert (DNle : round radix2 fexp64 Zfloor D <= D).
    { apply (round_DN_pt radix2 fexp64 D). }
    assert (UPdr : dr = round radix2 fexp64 Zceil D).
    { destruct (round_DN_or_UP radix2 fexp64 (round_mode mode_NE) D) as [E|E]; [|exact E].
      fold dr in E. lra. }
    set (pd := pred radix2 fexp64 dr).
    assert (Epd : pd = round radix2 fexp64 Zfloor D) by (unfold pd; rewrite UPdr; apply pred_UP_eq_DN; auto with typeclass_instances).
    assert (Fpd : F64fmt pd) by (apply generic_format_pred; auto with typeclass_instances).
    assert (pdD : pd <= D) by (rewrite Epd; exact DNle).
    assert (drpos : 0 < dr) by lra.
    (* small differences are exact, so D is large *)
    assert (Dbig : bpow radix2 (-1021) < D).
    { apply Rnot_le_lt. intro Hs. apply NF. unfold D. replace (H - L) with (H + - L) by ring.
      assert (Hsm : generic_format radix2 (FLT_exp (-1074) 53) (H + - L)).
      { apply FLT_format_plus_small.
        - exact prec53.
        - exact FH.
        - apply generic_format_opp. exact FL.
        - replace (H + - L) with D by (unfold D; ring). rewrite Rabs_pos_eq by lra. exact Hs. }
      exact Hsm. }
    assert (pdbig : bpow radix2 (-1021) <= pd).
    { rewrite Epd. rewrite <- (round_generic radix2 fexp64 Zfloor (bpow radix2 (-1021))) by (apply fmt_bpow; lia).
      apply round_le; auto with typeclass_instances. lra. }
    assert (P1021 : 0 < bpow radix2 (-1021)) by apply bpow_gt_0.
    assert (Hulp : pd + ulp radix2 fexp64 pd = dr) by (apply pred_plus_ulp; auto with typeclass_instances).
    assert (Hul : ulp radix2 fexp64 pd <= pd * bpow radix2 (1 - 53)).
    { rewrite fexp64_FLT. rewrite <- (Rabs_pos_eq pd) at 2 by lra. apply ulp_FLT_le.
      rewrite Rabs_pos_eq by lra. apply Rle_trans with (2 := pdbig). apply bpow_le. lia. }
    assert (E52 : bpow radix2 (1 - 53) = 2 * bpow radix2 (-53)).
    { change (1 - 53)%Z with (1 + -53)%Z. rewrite bpow_plus. reflexivity. }
    apply Rle_trans with pd; [|exact pdD].
    rewrite rnd64_N. apply round_N_le_midp; [exact fexp64_valid|exact Fpd|].
    replace (succ radix2 fexp64 pd) with dr by (unfold pd; symmetry; apply succ_pred; auto with typeclass_instances).
    nra.
Qed.

Lemma lt_emax_of_bool : forall x, Rlt_bool (Rabs x) (bpow radix2 1024) = true -> Rabs x < bpow radix2 1024.
Proof. intros x H. destruct (Rlt_bool_spec (Rabs x) (bpow radix2 1024)); [assumption|discriminate H]. Qed.

Lemma between_lt_emax : forall a x b, Rabs a < bpow radix2 1024 -> Rabs b < bpow radix2 1024 -> a <= x <= b ->
  Rlt_bool (Rabs x) (bpow radix2 1024) = true.
Proof.
  intros a x b Ha Hb [H1 H2]. apply Rlt_bool_true. apply Rabs_def2 in Ha. apply Rabs_def2 in Hb. apply Rabs_def1; lra.
Qed.

(* std::uniform_real_distribution<double>(lo, hi)(engine), lo < hi with a finite width: a finite double in [lo, hi] *)
Lemma uniform_real_in : forall lo hi st, wf st ->
  is_finite lo = true -> is_finite hi = true -> B2R lo < B2R hi -> is_finite (F64.sub hi lo) = true ->
  let v := fst (uniform_real lo hi st) in
  is_finite v = true /\ B2R lo <= B2R v <= B2R hi.
Proof.
  intros lo hi st Hw Flo Fhi Hlt Fd. cbv zeta. unfold uniform_real.
  pose proof (canonical_unit st Hw) as (Fu & [U0 U1] & _). destruct (canonical st) as [u st']. cbn [fst] in *.
  set (L := B2R lo) in *. set (H := B2R hi) in *. set (U := B2R u) in *.
  assert (FL : F64fmt L) by apply generic_format_B2R.
  assert (FH : F64fmt H) by apply generic_format_B2R.
  assert (FU : F64fmt U) by apply generic_format_B2R.
  pose proof (scaled_le_width L H U FL FH Hlt FU (conj U0 U1)) as [Y0 Y1].
  (* d = hi - lo *)
  unfold F64.sub in *.
  pose proof (Bminus_correct 53 1024 prec_gt_0_53 prec_lt_emax_53 mode_NE hi lo Fhi Flo) as S. fold L H in S.
  destruct (Rlt_bool (Rabs (rnd64 (H - L))) (bpow radix2 1024)) eqn:Eov.
  2:{ exfalso. destruct S as [S _]. unfold binary_overflow, overflow_to_inf in S.
      destruct (Bminus mode_NE hi lo); try discriminate Fd; discriminate S. }
  destruct S as (S1 & S2 & _). apply lt_emax_of_bool in Eov.
  set (d := @Bminus 53 1024 prec_gt_0_53 prec_lt_emax_53 mode_NE hi lo) in *.
  assert (dr0 : 0 <= rnd64 (H - L)) by (apply rnd_ge0; lra).
  (* y = u * d *)
  unfold F64.mul.
  pose proof (Bmult_correct 53 1024 prec_gt_0_53 prec_lt_emax_53 mode_NE u d) as M. fold U in M. rewrite S1 in M.
  assert (Ydr : rnd64 (U * rnd64 (H - L)) <= rnd64 (H - L)).
  { rewrite <- (rnd_id (rnd64 (H - L))) at 2 by (apply generic_format_round; auto with typeclass_instances).
    apply rnd_mono. nra. }
  rewrite Rlt_bool_true in M.
  2:{ rewrite Rabs_pos_eq by exact Y0. rewrite Rabs_pos_eq in Eov by exact dr0. lra. }
  destruct M as (M1 & M2 & _). rewrite Fu, S2 in M2. cbn [andb] in M2.
  set (y := @Bmult 53 1024 prec_gt_0_53 prec_lt_emax_53 mode_NE u d) in *.
  (* v = y + lo *)
  unfold F64.add.
  pose proof (Bplus_correct 53 1024 prec_gt_0_53 prec_lt_emax_53 mode_NE y lo M2 Flo) as P. fold L in P. rewrite M1 in P.
  assert (V : L <= rnd64 (rnd64 (U * rnd64 (H - L)) + L) <= H).
  { split.
    - rewrite <- (rnd_id L FL) at 1. apply rnd_mono. lra.
    - rewrite <- (rnd_id H FH) at 2. apply rnd_mono. lra. }
  rewrite (between_lt_emax L _ H (abs_B2R_lt_emax 53 1024 lo) (abs_B2R_lt_emax 53 1024 hi) V) in P.
  destruct P as (P1 & P2 & _). split; [exact P2|]. rewrite P1. exact V.
Qed.

(* vita::random::between<double>(lo, hi) for an interval of finite width (the ordinary branch) *)
Lemma between_real_in : forall lo hi st, wf st ->
  is_finite lo = true -> is_finite hi = true -> B2R lo < B2R hi -> is_finite (F64.sub hi lo) = true ->
  let v := fst (between_real lo hi st) in
  is_finite v = true /\ F64.leb lo v = true /\ F64.leb v hi = true.
Proof.
  intros lo hi st Hw Flo Fhi Hlt Fd. cbv zeta. unfold between_real, F64.is_finite. rewrite Fd.
  destruct (uniform_real_in lo hi st Hw Flo Fhi Hlt Fd) as [Fv [V1 V2]].
  destruct (uniform_real lo hi st) as [v st']. cbn [fst] in *.
  split; [exact Fv|]. unfold F64.leb. rewrite (cmp_finite lo v Flo Fv), (cmp_finite v hi Fv Fhi).
  split.
  - destruct (Rcompare_spec (B2R lo) (B2R v)); try reflexivity. lra.
  - destruct (Rcompare_spec (B2R v) (B2R hi)); try reflexivity. lra.
Qed.

Lemma ltb_B2R : forall a b, is_finite a = true -> is_finite b = true -> F64.ltb a b = true -> B2R a < B2R b.
Proof.
  intros a b Fa Fb H. unfold F64.ltb in H. rewrite (cmp_finite a b Fa Fb) in H.
  destruct (Rcompare_spec (B2R a) (B2R b)); try discriminate H. assumption.
Qed.

(* the H_draws contract for reals, stated with the library's own predicates *)
Lemma between_real_contract : forall lo hi st, wf st ->
  F64.is_finite lo = true -> F64.is_finite hi = true -> F64.ltb lo hi = true -> F64.is_finite (F64.sub hi lo) = true ->
  F64.leb lo (fst (between_real lo hi st)) = true /\ F64.leb (fst (between_real lo hi st)) hi = true /\
  F64.is_finite (fst (between_real lo hi st)) = true.
Proof.
  intros lo hi st Hw Flo Fhi Hlt Fd.
  destruct (between_real_in lo hi st Hw Flo Fhi (ltb_B2R lo hi Flo Fhi Hlt) Fd) as (A & B & C). auto.
Qed.

(* ------------------------------------------------------------ the wide-interval branch of between<double> *)
Definition MAXF : R := bpow radix2 1024 - bpow radix2 971.

Lemma bpow_succ2 : forall e, bpow radix2 (e + 1) = 2 * bpow radix2 e.
Proof. intro e. rewrite bpow_plus. change (bpow radix2 1) with 2. ring. Qed.

Lemma MAXF_fmt : F64fmt MAXF.
Proof.
  assert (E : MAXF = B2R (F64.of_bits 9218868437227405311)).
  { assert (P : B2R (F64.of_bits 9218868437227405311) = IZR 9007199254740991 * bpow radix2 971) by reflexivity.
    rewrite P. unfold MAXF. change 1024%Z with (53 + 971)%Z. rewrite bpow_plus.
    change (bpow radix2 53) with (IZR 9007199254740992).
    replace 9007199254740991%Z with (9007199254740992 - 1)%Z by reflexivity. rewrite minus_IZR. ring. }
  rewrite E. apply generic_format_B2R.
Qed.

Lemma half_exact : forall x, F64fmt x -> bpow radix2 970 <= Rabs x -> F64fmt (x / 2).
Proof.
  intros x Fx Hx. replace (x / 2) with (x * bpow radix2 (-1)) by (change (bpow radix2 (-1)) with (/ 2); field).
  rewrite fexp64_FLT. apply mult_bpow_exact_FLT; [rewrite <- fexp64_FLT; exact Fx|].
  pose proof (mag_ge_bpow radix2 x 971 Hx). lia.
Qed.

(* when the rounded width overflows, both ends are huge (and of opposite signs) *)
Lemma wide_large : forall L H, Rabs L <= MAXF -> Rabs H <= MAXF -> L < H ->
  ~ (Rabs (rnd64 (H - L)) < bpow radix2 1024) -> bpow radix2 970 <= - L /\ bpow radix2 970 <= H.
Proof.
  intros L H HL HH Hlt Hov. set (x := H - L) in *. assert (x0 : 0 < x) by (unfold x; lra).
  assert (r0 : 0 <= rnd64 x) by (apply rnd_ge0; lra). rewrite Rabs_pos_eq in Hov by exact r0.
  assert (E971 : bpow radix2 971 = 2 * bpow radix2 970) by (change 971%Z with (970 + 1)%Z; apply bpow_succ2).
  assert (E1024 : bpow radix2 1024 = 2 * bpow radix2 1023) by (change 1024%Z with (1023 + 1)%Z; apply bpow_succ2).
  assert (P970 : 0 < bpow radix2 970) by apply bpow_gt_0.
  assert (L970 : bpow radix2 970 < bpow radix2 1023) by (apply bpow_lt; lia).
  assert (X : bpow radix2 1024 - bpow radix2 970 <= x).
  { apply Rnot_lt_le. intro Hx. apply Hov.
    destruct (Rlt_or_le x (bpow radix2 1023)) as [S|B].
    - apply Rle_lt_trans with (bpow radix2 1023); [|lra].
      rewrite <- (rnd_id (bpow radix2 1023)) by (apply fmt_bpow; lia). apply rnd_mono. lra.
    - pose proof (error_le_half_ulp radix2 fexp64 (fun z => negb (Z.even z)) x) as Er.
      rewrite <- rnd64_N in Er.
      assert (U : ulp radix2 fexp64 x = bpow radix2 971).
      { rewrite ulp_neq_0 by lra. rewrite (cexp_fexp_pos radix2 fexp64 x 1024); [reflexivity|].
        change (1024 - 1)%Z with 1023%Z. lra. }
      rewrite U in Er. apply Rabs_le_inv in Er. lra. }
  apply Rabs_le_inv in HL. apply Rabs_le_inv in HH. unfold MAXF, x in *. split.
  - destruct (Rle_or_lt H (bpow radix2 1024 - bpow radix2 971)); lra.
  - destruct (Rle_or_lt (-L) (bpow radix2 1024 - bpow radix2 971)); lra.
Qed.

Lemma B2R_two : B2R (F64.of_Z 2) = 2 /\ is_finite (F64.of_Z 2) = true.
Proof.
  destruct (of_Z_correct 2 ltac:(lia)) as (H1 & H2 & _). split; [|exact H2].
  rewrite H1. change 2 with (bpow radix2 1). apply rnd_id. apply fmt_bpow. lia.
Qed.

(* x / 2.0 for a huge finite double: exact *)
Lemma half_float : forall x, is_finite x = true -> bpow radix2 970 <= Rabs (B2R x) ->
  is_finite (F64.div x (F64.of_Z 2)) = true /\ B2R (F64.div x (F64.of_Z 2)) = B2R x / 2.
Proof.
  intros x Fx Hx. destruct B2R_two as [T1 T2]. unfold F64.div.
  pose proof (Bdiv_correct 53 1024 prec_gt_0_53 prec_lt_emax_53 mode_NE x (F64.of_Z 2)) as D. rewrite T1 in D.
  specialize (D ltac:(lra)).
  rewrite (rnd_id (B2R x / 2)) in D by (apply half_exact; [apply generic_format_B2R|exact Hx]).
  rewrite Rlt_bool_true in D.
  2:{ pose proof (abs_B2R_lt_emax 53 1024 x) as A. unfold Rdiv. rewrite Rabs_mult, (Rabs_pos_eq (/ 2)) by lra.
      pose proof (Rabs_pos (B2R x)). lra. }
  destruct D as (D1 & D2 & _). rewrite Fx in D2. auto.
Qed.

(* the repaired wide-interval branch of vita::random::between<double> *)
Lemma between_real_wide_in : forall lo hi st, wf st ->
  is_finite lo = true -> is_finite hi = true -> B2R lo < B2R hi -> is_finite (F64.sub hi lo) = false ->
  let v := fst (between_real lo hi st) in
  is_finite v = true /\ B2R lo <= B2R v <= B2R hi.
Proof.
  intros lo hi st Hw Flo Fhi Hlt Fd. cbv zeta. unfold between_real, F64.is_finite. rewrite Fd.
  set (L := B2R lo) in *. set (H := B2R hi) in *.
  (* the width overflows, so both ends are huge *)
  assert (Hov : ~ (Rabs (rnd64 (H - L)) < bpow radix2 1024)).
  { intro Hs. unfold F64.sub in Fd.
    pose proof (Bminus_correct 53 1024 prec_gt_0_53 prec_lt_emax_53 mode_NE hi lo Fhi Flo) as S. fold L H in S.
    rewrite Rlt_bool_true in S by exact Hs. destruct S as (_ & S2 & _). rewrite S2 in Fd. discriminate Fd. }
  assert (ML : Rabs L <= MAXF) by (apply (abs_B2R_le_emax_minus_prec 53 1024 prec_gt_0_53 lo)).
  assert (MH : Rabs H <= MAXF) by (apply (abs_B2R_le_emax_minus_prec 53 1024 prec_gt_0_53 hi)).
  destruct (wide_large L H ML MH Hlt Hov) as [BL BH].
  assert (P970 : 0 < bpow radix2 970) by apply bpow_gt_0.
  destruct (half_float lo Flo) as [Fl2 Bl2]; [fold L; rewrite Rabs_left by lra; lra|].
  destruct (half_float hi Fhi) as [Fh2 Bh2]; [fold H; rewrite Rabs_pos_eq by lra; lra|].
  fold L in Bl2. fold H in Bh2.
  set (lo2 := F64.div lo (F64.of_Z 2)) in *. set (hi2 := F64.div hi (F64.of_Z 2)) in *.
  (* the halved interval has a finite width *)
  assert (Fd2 : is_finite (F64.sub hi2 lo2) = true).
  { unfold F64.sub. pose proof (Bminus_correct 53 1024 prec_gt_0_53 prec_lt_emax_53 mode_NE hi2 lo2 Fh2 Fl2) as S.
    rewrite Bl2, Bh2 in S.
    assert (B : 0 <= rnd64 (H / 2 - L / 2) <= MAXF).
    { split; [apply rnd_ge0; lra|]. rewrite <- (rnd_id MAXF MAXF_fmt). apply rnd_mono.
      apply Rabs_le_inv in ML. apply Rabs_le_inv in MH. lra. }
    rewrite Rlt_bool_true in S.
    2:{ rewrite Rabs_pos_eq by tauto. unfold MAXF in B. pose proof (bpow_gt_0 radix2 971). lra. }
    tauto. }
  assert (Hlt2 : B2R lo2 < B2R hi2) by (rewrite Bl2, Bh2; lra).
  destruct (uniform_real_in lo2 hi2 st Hw Fl2 Fh2 Hlt2 Fd2) as [Fw [W1 W2]].
  destruct (uniform_real lo2 hi2 st) as [w st']. cbn [fst] in *. rewrite Bl2 in W1. rewrite Bh2 in W2.
  (* 2 * w *)
  destruct B2R_two as [T1 T2]. unfold F64.mul.
  pose proof (Bmult_correct 53 1024 prec_gt_0_53 prec_lt_emax_53 mode_NE (F64.of_Z 2) w) as M. rewrite T1 in M.
  assert (V : L <= rnd64 (2 * B2R w) <= H).
  { split.
    - rewrite <- (rnd_id L) at 1 by apply generic_format_B2R. apply rnd_mono. lra.
    - rewrite <- (rnd_id H) at 1 by apply generic_format_B2R. apply rnd_mono. lra. }
  rewrite (between_lt_emax L _ H (abs_B2R_lt_emax 53 1024 lo) (abs_B2R_lt_emax 53 1024 hi) V) in M.
  destruct M as (M1 & M2 & _). rewrite T2, Fw in M2. split; [exact M2|]. rewrite M1. exact V.
Qed.

(* both branches: the H_draws contract for reals holds for every finite lo < hi and every 64-bit engine state *)
Lemma between_real_contract_all : forall lo hi st, wf st ->
  F64.is_finite lo = true -> F64.is_finite hi = true -> F64.ltb lo hi = true ->
  F64.leb lo (fst (between_real lo hi st)) = true /\ F64.leb (fst (between_real lo hi st)) hi = true /\
  F64.is_finite (fst (between_real lo hi st)) = true.
Proof.
  intros lo hi st Hw Flo Fhi Hlt.
  destruct (F64.is_finite (F64.sub hi lo)) eqn:Fd; [apply between_real_contract; assumption|].
  destruct (between_real_wide_in lo hi st Hw Flo Fhi (ltb_B2R lo hi Flo Fhi Hlt) Fd) as [Fv [V1 V2]].
  set (v := fst (between_real lo hi st)) in *. unfold F64.is_finite. split; [|split; [|exact Fv]].
  - unfold F64.leb. rewrite (cmp_finite lo v Flo Fv). destruct (Rcompare_spec (B2R lo) (B2R v)); try reflexivity. lra.
  - unfold F64.leb. rewrite (cmp_finite v hi Fv Fhi). destruct (Rcompare_spec (B2R v) (B2R hi)); try reflexivity. lra.
Qed.

(* ------------------------------------------------------------ std::discrete_distribution returns an existing index *)
Lemma lower_bound_loop_lt : forall cp val n, n = length cp -> (1 <= n)%nat ->
  F64.ltb (nth (n - 1) cp F64.nan) val = false ->
  forall fuel first len, (first + len <= n)%nat -> (first <= n - 1)%nat ->
  (lower_bound_loop fuel cp val first len <= n - 1)%nat.
Proof.
  intros cp val n Hn Hn1 Hlast. induction fuel as [|f IH]; intros first len H1 H2; [exact H2|].
  cbn [lower_bound_loop]. destruct len as [|len']; [exact H2|].
  set (len := S len') in *. set (half := Nat.div2 len).
  assert (Hh : (half < len)%nat) by (apply Nat.lt_div2; unfold len; lia).
  destruct (F64.ltb (nth (first + half) cp F64.nan) val) eqn:E.
  - assert (first + half <> n - 1)%nat by (intro Q; rewrite Q, Hlast in E; discriminate E).
    apply IH; lia.
  - apply IH; lia.
Qed.

Lemma set_last_length : forall l v, length (set_last l v) = length l.
Proof. induction l as [|x [|y r] IH]; intro v; try reflexivity. cbn [set_last length] in *. rewrite IH. reflexivity. Qed.

Lemma set_last_nth : forall l v d, l <> nil -> nth (length l - 1) (set_last l v) d = v.
Proof.
  induction l as [|x [|y r] IH]; intros v d Hl; [contradiction|reflexivity|].
  change (set_last (x :: y :: r) v) with (x :: set_last (y :: r) v).
  replace (length (x :: y :: r) - 1)%nat with (S (length (y :: r) - 1)) by (cbn [length]; lia).
  cbn [nth]. apply IH. discriminate.
Qed.

Lemma partial_sums_length : forall l acc, length (partial_sums acc l) = length l.
Proof. induction l as [|x r IH]; intro acc; [reflexivity|]. cbn [partial_sums length]. rewrite IH. reflexivity. Qed.

(* std::discrete_distribution<unsigned> over at least two weights returns an index below their number,
   for every 64-bit engine state *)
Lemma discrete_in_range : forall ws st, wf st -> (2 <= length ws)%nat ->
  (0 <= fst (discrete ws st) < Z.of_nat (length ws))%Z.
Proof.
  intros ws st Hw Hlen. unfold discrete.
  destruct ws as [|w0 [|w1 wr]]; try (cbn in Hlen; lia).
  assert (Ecp : exists p0 r, discrete_cp (w0 :: w1 :: wr) = set_last (p0 :: partial_sums p0 r) (F64.of_Z 1) /\
                              length (p0 :: r) = length (w0 :: w1 :: wr)).
  { unfold discrete_cp. set (pr := map F64.of_Z (w0 :: w1 :: wr)).
    set (sum := fold_left F64.add pr F64.zero).
    destruct (map (fun x => F64.div x sum) pr) as [|p0 r] eqn:E.
    - apply (f_equal (@length _)) in E. rewrite map_length in E. unfold pr in E. rewrite map_length in E. discriminate E.
    - exists p0, r. split; [reflexivity|]. rewrite <- E, map_length. unfold pr. rewrite map_length. reflexivity. }
  destruct Ecp as (p0 & r & Ecp & El). rewrite Ecp.
  remember (set_last (p0 :: partial_sums p0 r) (F64.of_Z 1)) as cp eqn:Hcp.
  assert (Lcp : length cp = length (w0 :: w1 :: wr)).
  { rewrite Hcp, set_last_length. cbn [length]. rewrite partial_sums_length. cbn [length] in El. exact El. }
  assert (Hone : forall d, nth (length cp - 1) cp d = F64.of_Z 1).
  { intro d. rewrite Hcp. rewrite set_last_length. apply set_last_nth. discriminate. }
  destruct cp as [|c0 cr]; [cbn in Lcp; discriminate Lcp|].
  pose proof (canonical_unit st Hw) as (Fu & [U0 U1] & _). destruct (canonical st) as [u st']. cbn [fst] in *.
  unfold lower_bound. set (L := c0 :: cr) in *.
  assert (Hlast : F64.ltb (nth (length L - 1) L F64.nan) u = false).
  { rewrite Hone. destruct B2R_one as [O1 O2].
    unfold F64.ltb. rewrite (cmp_finite (F64.of_Z 1) u O2 Fu), O1.
    destruct (Rcompare_spec 1 (B2R u)); try reflexivity. lra. }
  assert (L1 : (1 <= length L)%nat) by (rewrite Lcp; cbn [length]; lia).
  pose proof (lower_bound_loop_lt L u (length L) eq_refl L1 Hlast
                (S (length L)) 0%nat (length L) ltac:(lia) ltac:(lia)) as H.
  lia.
Qed.
