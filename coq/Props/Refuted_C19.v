(* C19 -- statements that are FALSE of the pinned tree (findings), with computed
   witnesses.  The texts are those the pinned code printed (replayed on the
   implementation: findings/C19.json); the positive theorems of
   Properties_C19.v are about the repaired tree. *)
From Coq Require Import ZArith List Bool String.
From VV Require Import Base.F64 Mep.Genome Lang.LangBase Gen.Templates Lang.LangDefs
  Lang.SynDefs Lang.ReadProofs Lang.Witness.
Import ListNotations.
Local Open Scope Z_scope.

(* the table check rejects the pinned FSIGMOID template (not parenthesised: its
   root is a division), the pinned Python NOT and the pinned C FLENGTH *)
Theorem C19_table_ok_refuted :
  entry_ok FC (1%nat, pinned_sigmoid_c) = false /\
  entry_ok FPy (1%nat, pinned_not_py) = false.
Proof. vm_compute. split; reflexivity. Qed.
Print Assumptions C19_table_ok_refuted.

(* FDIV(x, FSIGMOID(y)) printed with the pinned template reads as
   (x/1) / (1 + exp(-y)), not as x / (1 / (1 + exp(-y))) *)
Theorem C19_sigmoid_denotes_another_expression_refuted :
  exists x y,
    let child := inst (segs_of pinned_sigmoid_c) [y] in
    let txt := strip_outer (inst (segs_of tmpl_div) [x; child]) in
    txt = bz "X1/1 / (1 + exp(-Y))" /\
    exists got want,
      read FC txt = Some got /\
      tmpl_ast c_gram 2 tmpl_div = Some (EParen want) /\
      got = EBin (p1 47) (EBin (p1 47) (EAtom x) (EAtom (bz "1")))
                 (EParen (EBin (p1 43) (EAtom (bz "1")) (ECall (EAtom (bz "exp")) (EUn (p1 45) (EAtom y))))) /\
      want = EBin (p1 47) (EHole 0) (EHole 1).
Proof.
  exists (bz "X1"), (bz "Y"). cbv zeta. split; [vm_compute; reflexivity|].
  eexists. eexists. split; [vm_compute; reflexivity|]. split; [vm_compute; reflexivity|]. split; reflexivity.
Qed.
Print Assumptions C19_sigmoid_denotes_another_expression_refuted.

(* a negative constant printed without parentheses glues to a preceding minus:
   the text of FSUB(X1, -3.5) is not an expression *)
Theorem C19_negative_literal_glues_refuted :
  let txt := inst (segs_of tmpl_sub) [bz "X1"; bz "-3.500000"] in
  txt = bz "(X1--3.500000)" /\
  lex txt = Some [TP [40]; TW (bz "X1"); TP [45; 45]; TW (bz "3.500000"); TP [41]] /\
  read FC txt = None /\ read FPy txt = None.
Proof. vm_compute. repeat split; reflexivity. Qed.
Print Assumptions C19_negative_literal_glues_refuted.

(* Python's "not(x)" as an argument of an arithmetic template is not an expression *)
Theorem C19_python_not_refuted :
  let txt := inst (segs_of tmpl_add) [bz "X1"; inst (segs_of pinned_not_py) [bz "B1"]] in
  txt = bz "(X1+not(B1))" /\ read FPy txt = None.
Proof. vm_compute. split; reflexivity. Qed.
Print Assumptions C19_python_not_refuted.

(* without the hypothesis "placeholder-free terminals" the sequential
   replacement is NOT the simultaneous instantiation: a variable named %%2%% *)
Theorem C19_render_placeholder_terminal_refuted :
  render_tree env0 FC t_placeholder_name = Some (bz "(Y+Y)") /\
  inst (segs_of tmpl_add) [bz "%%2%%"; bz "Y"] = bz "(%%2%%+Y)".
Proof. vm_compute. split; reflexivity. Qed.
Print Assumptions C19_render_placeholder_terminal_refuted.

(* the strip test of language() is naive: on a text of the shape (a)+(b) --
   which no shipped template or terminal produces (theorem 6), but a symbol
   NAMED so does -- it removes two parentheses that do not match *)
Theorem C19_naive_strip_refuted :
  let txt := bz "(a)+(b)" in
  strips txt = true /\ strip_outer txt = bz "a)+(b" /\
  read FC txt = Some (EBin (p1 43) (EParen (EAtom (bz "a"))) (EParen (EAtom (bz "b")))) /\
  read FC (strip_outer txt) = None.
Proof. vm_compute. repeat split; reflexivity. Qed.
Print Assumptions C19_naive_strip_refuted.
