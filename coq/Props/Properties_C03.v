(* C03 -- A signature identifies the active program and is never stale.
   Statements only; proofs are in Sig/SigProofs.v.  The model (Sig/SigDefs.v)
   mirrors i_mep::pack / hash / signature, MurmurHash3 x64-128 (seed 1973),
   hash_t::combine and the cache action of every public mutator of i_mep,
   i_ga, i_de and team, and is compared numerically with the real code on
   every check run. *)
From Coq Require Import ZArith NArith List Bool.
From VV Require Import Base.F64 Mep.Genome Sig.Bits64 Sig.Murmur Sig.SigDefs Sig.SigProofs.
Import ListNotations.

(* ---- pack is the code of the active expression tree *)
Theorem C03_pack_is_tree_code : forall fuel g l,
  pack fuel g l = option_map encode_tree (tree_of fuel g l).
Proof. exact pack_is_tree_code. Qed.
Print Assumptions C03_pack_is_tree_code.

(* ---- the signature is a function of the active tree only *)
Theorem C03_signature_depends_only_on_tree : forall g,
  hash_mep g = option_map (fun t => murmur128 (encode_tree t)) (active_tree g).
Proof. exact hash_mep_is_tree_hash. Qed.
Print Assumptions C03_signature_depends_only_on_tree.

(* ---- never stale, i_de: in every state reachable by public operations
   (operator[], operator=(vector), crossover, load, signature) the signature
   reported is the hash of the current content *)
Theorem C03_cache_never_stale_ide : forall x h x',
  ide_reach x -> signature hash_de x = Some (h, x') -> hash_de (content x) = Some h.
Proof. exact ide_never_stale. Qed.
Print Assumptions C03_cache_never_stale_ide.
