(* C03 -- A signature identifies the active program and is never stale.

   Statements only; the proofs are in Sig/SigProofs.v and Sig/TreeProofs.v.
   The model (Sig/SigDefs.v, Sig/Murmur.v, Sig/Bits64.v on top of the shared
   Mep/Genome.v) mirrors i_mep::pack / hash / signature, MurmurHash3 x64-128
   (seed 1973), hash_t::combine and the cache action of every public mutator
   of i_mep, i_ga, i_de and team<i_mep>; it is compared numerically with the
   real code (128-bit signatures, the raw cached member, return values) after
   every operation on every check run.

   Reading guide.
     canon t          the expression tree as the property means it: opcode of
                      every node, bits of the constant of every parametric
                      terminal, children in order -- no positions
     cache_ok h x     signature_ is empty or equals the hash of the content
     *_reach x        x is a state of an object after ANY finite sequence of
                      public operations (histories of unbounded length); the
                      operands of crossover are arbitrary individuals
   What is assumed, by name:
     coherent U / distinct_opcodes U   opcodes < 2^16 identify the symbol
     A_hash           MurmurHash3 does not collide on the two streams involved
     sym_id U         opcodes are primary keys of the symbols in use
   (H_cse of round 1 is now the theorem C03_cse_preserves_pack.) *)
From Coq Require Import ZArith NArith List Bool.
From VV Require Import Base.F64 Base.Values Interp.Strategy Mep.Genome Mep.OpsDefs.
From VV Require Import Sig.Bits64 Sig.Murmur Sig.SigDefs Sig.SigProofs Sig.TreeProofs Sig.CseDefs Sig.CseSig Sig.F64Bits Sig.TreeValues.
Import ListNotations.

(* ================= 1. pack is a prefix-free code of the active tree ====== *)
Theorem C03_pack_is_tree_code : forall fuel g l,
  pack fuel g l = option_map encode_tree (tree_of fuel g l).
Proof. exact pack_is_tree_code. Qed.
Print Assumptions C03_pack_is_tree_code.

(* no code is a proper prefix of another, and equal codes mean equal trees *)
Theorem C03_encode_tree_prefix_free : forall U, coherent U -> forall t1, shaped t1 -> over U t1 ->
  forall t2 r1 r2, shaped t2 -> over U t2 ->
  encode_tree t1 ++ r1 = encode_tree t2 ++ r2 -> canon t1 = canon t2 /\ r1 = r2.
Proof. exact encode_prefix_inj. Qed.
Print Assumptions C03_encode_tree_prefix_free.

Theorem C03_pack_eq_iff_tree_eq : forall U, coherent U -> forall g1 g2 t1 t2,
  genome_over U g1 -> genome_over U g2 -> active_tree g1 = Some t1 -> active_tree g2 = Some t2 ->
  (mep_pack g1 = mep_pack g2 <-> canon t1 = canon t2).
Proof. exact pack_eq_iff_tree_eq. Qed.
Print Assumptions C03_pack_eq_iff_tree_eq.

(* the model's binary64 values are determined by their object representation *)
Theorem C03_to_bits_injective : forall x y : f64, F64.to_bits x = F64.to_bits y -> x = y.
Proof. exact to_bits_injective. Qed.
Print Assumptions C03_to_bits_injective.

(* so canonical trees are trees of symbols and constant VALUES: with distinct
   16-bit opcodes, equal packs <-> same symbol at every node and same constant
   at every parametric terminal (same_tree) *)
Theorem C03_canon_eq_iff_same_symbols_and_constants : forall U, distinct_opcodes U -> forall t1 t2,
  over U t1 -> over U t2 -> (canon t1 = canon t2 <-> same_tree t1 t2).
Proof. exact canon_eq_iff_same_tree. Qed.
Print Assumptions C03_canon_eq_iff_same_symbols_and_constants.

Theorem C03_pack_eq_iff_same_symbols_and_constants : forall U, distinct_opcodes U -> forall g1 g2 t1 t2,
  genome_over U g1 -> genome_over U g2 -> active_tree g1 = Some t1 -> active_tree g2 = Some t2 ->
  (mep_pack g1 = mep_pack g2 <-> same_tree t1 t2).
Proof. exact pack_eq_iff_same_tree. Qed.
Print Assumptions C03_pack_eq_iff_same_symbols_and_constants.

(* ================= 2. the signature is a function of the tree only ======= *)
Theorem C03_signature_depends_only_on_tree : forall g,
  hash_mep g = option_map (fun t => murmur128 (encode_tree t)) (active_tree g).
Proof. exact hash_mep_is_tree_hash. Qed.
Print Assumptions C03_signature_depends_only_on_tree.

Theorem C03_same_tree_same_signature : forall g1 g2 t1 t2,
  active_tree g1 = Some t1 -> active_tree g2 = Some t2 -> shaped t1 -> shaped t2 ->
  canon t1 = canon t2 -> hash_mep g1 = hash_mep g2.
Proof. exact same_tree_same_signature. Qed.
Print Assumptions C03_same_tree_same_signature.

(* changing any gene outside the active code never changes the signature *)
Theorem C03_signature_ignores_introns : forall g l' x,
  ~ reaches g (best g) l' -> hash_mep (set_cell g l' x) = hash_mep g.
Proof. exact signature_ignores_introns. Qed.
Print Assumptions C03_signature_ignores_introns.

(* laying the same tree out differently (any simulation between the loci of
   two genomes of any sizes: permuted rows, gaps, shared or duplicated
   sub-expressions) never changes tree or signature *)
Theorem C03_signature_ignores_layout : forall R g g' t t',
  layout_sim R g g' -> R (best g) (best g') ->
  active_tree g = Some t -> active_tree g' = Some t' ->
  t = t' /\ hash_mep g = hash_mep g'.
Proof. exact signature_ignores_layout. Qed.
Print Assumptions C03_signature_ignores_layout.

(* "distinct trees => distinct signatures", up to the hash: A_hash is the
   named hypothesis; the correspondence run measures it (a colliding pair of
   generated streams is reported as a violation with both inputs) *)
Theorem C03_signature_eq_iff_tree_eq_up_to_A_hash :
  forall Streams : list byte -> Prop,
  (forall a b, Streams a -> Streams b -> murmur128 a = murmur128 b -> a = b) (* A_hash *) ->
  forall U, coherent U -> forall g1 g2 t1 t2,
  genome_over U g1 -> genome_over U g2 -> active_tree g1 = Some t1 -> active_tree g2 = Some t2 ->
  Streams (encode_tree t1) -> Streams (encode_tree t2) ->
  (hash_mep g1 = hash_mep g2 <-> canon t1 = canon t2).
Proof. exact signature_eq_iff_tree_eq. Qed.
Print Assumptions C03_signature_eq_iff_tree_eq_up_to_A_hash.

(* equal signatures => equal outputs: any semantics that is a function of the
   expression tree (C01 proves the interpreter is one: its result is the
   denotation of the unfolded tree) gives equal results for equal trees *)
Theorem C03_equal_tree_equal_output : forall (X : Type) (den : ctree -> X) g1 g2 t1 t2,
  active_tree g1 = Some t1 -> active_tree g2 = Some t2 -> canon t1 = canon t2 ->
  den (canon t1) = den (canon t2).
Proof. exact equal_tree_equal_output. Qed.
Print Assumptions C03_equal_tree_equal_output.

(* ================= 3. the cached signature is never stale ================= *)
(* one step: every public mutator preserves the invariant ... *)
Theorem C03_mep_step_preserves_invariant : forall pc x o y,
  cache_ok hash_mep x -> mep_op_ok (cache_ok hash_mep) x o -> mep_step pc x o = Some y -> cache_ok hash_mep y.
Proof. exact mep_step_preserves. Qed.
Print Assumptions C03_mep_step_preserves_invariant.

(* i_mep::cse() -- C02's executable model of the repaired code, with the
   comparator of "fix: i_mep::cse() merges the constants +0.0 and -0.0" -- keeps
   the packed stream, hence the signature (the cached one it copies stays valid) *)
Theorem C03_cse_preserves_pack : forall U g g', sym_id U -> typed g -> genome_over U g ->
  cse_bits g = Some g' -> mep_pack g' = mep_pack g /\ hash_mep g' = hash_mep g.
Proof. exact cse_preserves_pack. Qed.
Print Assumptions C03_cse_preserves_pack.

(* and every unfolded tree, at every locus and every depth, up to canon *)
Theorem C03_cse_preserves_every_tree : forall U g g', sym_id U -> typed g -> genome_over U g ->
  cse_bits g = Some g' ->
  rows g' = rows g /\ cats g' = cats g /\ best g' = best g /\ typed g' /\ genome_over U g' /\
  forall f l, option_map canon (tree_of f g' l) = option_map canon (tree_of f g l).
Proof. exact cse_bits_trees. Qed.
Print Assumptions C03_cse_preserves_every_tree.

(* the comparator before that fix (a.par < b.par) only under the proviso that
   parameters comparing equal have equal bytes (false for +0.0/-0.0: Refuted_C03) *)
Theorem C03_cse_ltb_preserves_pack_partial : forall (Good : f64 -> Prop),
  (forall x y, Good x -> Good y -> par_incomp x y = true -> par_bits x = par_bits y) ->
  forall U g g', sym_id U -> typed g -> genome_over U g ->
  (forall r c ge, cell g r c = Some ge -> good_gene Good ge) ->
  cse_ltb g = Some g' -> mep_pack g' = mep_pack g /\ hash_mep g' = hash_mep g.
Proof. exact cse_ltb_preserves_pack_proviso. Qed.
Print Assumptions C03_cse_ltb_preserves_pack_partial.

(* ... hence, for every history (and every gene-equality tolerance pc); the
   MCse step is the computed cse of a well-typed genome, nothing is assumed: *)
Theorem C03_cache_never_stale_mep : forall U pc, sym_id U -> forall x h x',
  mep_reach2 U pc x -> signature hash_mep x = Some (h, x') -> hash_mep (content x) = Some h.
Proof. exact mep_never_stale2. Qed.
Print Assumptions C03_cache_never_stale_mep.

Theorem C03_cache_never_stale_iga : forall x h x',
  iga_reach x -> signature hash_ga x = Some (h, x') -> hash_ga (content x) = Some h.
Proof. exact iga_never_stale. Qed.
Print Assumptions C03_cache_never_stale_iga.

(* i_de with the repaired operator=(const std::vector<double>&) *)
Theorem C03_cache_never_stale_ide : forall x h x',
  ide_reach x -> signature hash_de x = Some (h, x') -> hash_de (content x) = Some h.
Proof. exact ide_never_stale. Qed.
Print Assumptions C03_cache_never_stale_ide.

(* teams: the team's cache and every member's cache *)
Theorem C03_cache_never_stale_team : forall pc t h t',
  team_reach pc t -> team_signature t = Some (h, t') ->
  hash_team (content t) = Some h /\ Forall (cache_ok hash_mep) (content t').
Proof. exact team_never_stale. Qed.
Print Assumptions C03_cache_never_stale_team.

(* one step of a team (mutation, crossover, load ok/failed, member signature(),
   assignment from a consistent team) preserves the team's and every member's
   invariant; in particular team::load leaves all caches empty *)
Theorem C03_team_step_preserves_invariant : forall pc t o t',
  team_ok t -> team_op_ok team_ok o -> team_step pc t o = Some t' -> team_ok t'.
Proof. exact team_step_preserves. Qed.
Print Assumptions C03_team_step_preserves_invariant.

Theorem C03_team_load_clears_every_cache : forall pc t gs t',
  team_step pc t (TLoad (Some gs)) = Some t' ->
  sig_cache t' = None /\ Forall (fun m : mep => sig_cache m = None) (content t') /\ map (@content genome) (content t') = gs.
Proof. exact team_load_clears. Qed.
Print Assumptions C03_team_load_clears_every_cache.

(* ================= 4. team signature = ordered fold of combine ============ *)
Theorem C03_team_signature_is_fold_of_combine : forall pc t h t',
  team_reach pc t -> team_signature t = Some (h, t') ->
  exists hs, all_some (map member_hash (content t)) = Some hs /\ h = fold_combine hzero hs.
Proof. exact team_signature_is_fold. Qed.
Print Assumptions C03_team_signature_is_fold_of_combine.

(* ================= non-vacuity ============================================ *)
Definition sX := mk_sym 0 0 [] false.
Definition sC := mk_sym 2 0 [] true.
Definition sF := mk_sym 4 0 [0%nat; 0%nat] false.
Definition one : f64 := F64.of_bits 4607182418800017408.
Definition gF a b := mk_gene sF F64.zero [a; b].
Definition gX := mk_gene sX F64.zero [].
Definition gC := mk_gene sC one [].
(* F(X, 1.0) on rows 0,1,2 ... *)
Definition ex_g1 : genome :=
  {| rows := 3; cats := 1; best := mk_locus 0 0;
     cell := fun r c => match r, c with
                        | 0, 0 => Some (gF 1 2) | 1, 0 => Some gX | 2, 0 => Some gC | _, _ => None end%nat |}.
(* ... and on rows 1,3,4 of a larger genome with introns on rows 0 and 2 *)
Definition ex_g2 : genome :=
  {| rows := 5; cats := 1; best := mk_locus 1 0;
     cell := fun r c => match r, c with
                        | 0, 0 => Some (gF 2 3) | 1, 0 => Some (gF 3 4) | 2, 0 => Some gC
                        | 3, 0 => Some gX | 4, 0 => Some gC | _, _ => None end%nat |}.
Definition ex_U (s : sym) : Prop := In s [sX; sC; sF].

Example ex_distinct_opcodes : distinct_opcodes ex_U /\ coherent ex_U.
Proof.
  assert (H : distinct_opcodes ex_U).
  { intros s1 s2 [<-|[<-|[<-|[]]]] [<-|[<-|[<-|[]]]] E; try reflexivity; vm_compute in E; discriminate. }
  split; [exact H|apply distinct_coherent; exact H].
Qed.

(* the packed stream: 04 00 | 00 00 | 02 00 + 8 bytes of 1.0 *)
Example ex_pack : mep_pack ex_g1 = Some [4; 0; 0; 0; 2; 0; 0; 0; 0; 0; 0; 0; 240; 63]%N.
Proof. vm_compute. reflexivity. Qed.

Example ex_same_tree_two_layouts :
  exists t, active_tree ex_g1 = Some t /\ active_tree ex_g2 = Some t /\ shaped t /\
            hash_mep ex_g1 = hash_mep ex_g2 /\ hash_mep ex_g1 <> None.
Proof.
  destruct (active_tree ex_g1) as [t|] eqn:E1; [|vm_compute in E1; discriminate].
  exists t. split; [reflexivity|]. assert (E2 : active_tree ex_g2 = Some t).
  { vm_compute in E1. inversion E1. vm_compute. reflexivity. }
  split; [exact E2|].
  assert (GO : genome_over ex_U ex_g1).
  { intros r c ge H. destruct r as [|[|[|r]]]; destruct c as [|c]; cbn in H; inversion H; cbn; unfold ex_U; cbn; tauto. }
  split; [exact (proj1 (tree_of_props ex_U ex_g1 GO _ _ _ E1))|].
  split; [|vm_compute; discriminate]. vm_compute. reflexivity.
Qed.

(* a different constant gives a different stream and (here) a different signature *)
Example ex_different_constant_different_signature :
  hash_mep (set_cell ex_g1 (mk_locus 2 0) (mk_gene sC F64.zero [])) <> hash_mep ex_g1.
Proof. vm_compute. discriminate. Qed.

(* a history with mutation, replace, crossover, load and signature calls is
   reachable, and its signature is defined *)
Definition ex_history : list mep_op :=
  [MSignature; MReplace (mk_locus 1 0) gC; MSignature; MMutation [(mk_locus 2 0, gX)];
   MCrossover (clear ex_g1) true false [mk_locus 2 0]; MSignature; MLoad (Some ex_g1); MGetBlock (mk_locus 1 0);
   MSignature].
Example ex_history_runs : exists x, run (mep_step (fun _ _ => false)) (clear ex_g1) ex_history = Some x /\
  sig_cache x <> None /\ cache_ok_b hash_mep x = true.
Proof. eexists. split; [vm_compute; reflexivity|]. split; [vm_compute; discriminate|vm_compute; reflexivity]. Qed.

(* cse: F(F(X,1.0), F(X,1.0)) with the two equal sub-expressions on rows 1 and 2
   is rewired to use row 2 twice; pack and signature do not move; +0.0 and -0.0
   are NOT merged by the repaired comparator *)
Definition ex_g3 : genome :=
  {| rows := 5; cats := 1; best := mk_locus 0 0;
     cell := fun r c => match r, c with
                        | 0, 0 => Some (gF 1 2) | 1, 0 => Some (gF 3 4) | 2, 0 => Some (gF 3 4)
                        | 3, 0 => Some gX | 4, 0 => Some gC | _, _ => None end%nat |}.
Definition ex_g4 : genome :=
  {| rows := 3; cats := 1; best := mk_locus 0 0;
     cell := fun r c => match r, c with
                        | 0, 0 => Some (gF 1 2) | 1, 0 => Some (mk_gene sC F64.zero [])
                        | 2, 0 => Some (mk_gene sC (F64.neg F64.zero) []) | _, _ => None end%nat |}.
Example ex_cse_rewires_and_keeps_pack :
  exists g', cse_bits ex_g3 = Some g' /\ option_map g_args (cell g' 0 0)%nat = Some [2; 2]%nat /\
             mep_pack g' = mep_pack ex_g3 /\ mep_pack ex_g3 <> None.
Proof.
  destruct (cse_bits ex_g3) as [g'|] eqn:E; [|vm_compute in E; discriminate]. exists g'. split; [reflexivity|].
  vm_compute in E. inversion E. subst g'. repeat split; vm_compute; try reflexivity; discriminate.
Qed.
Example ex_cse_keeps_signed_zeros_apart :
  exists g', cse_bits ex_g4 = Some g' /\ option_map g_args (cell g' 0 0)%nat = Some [1; 2]%nat.
Proof.
  destruct (cse_bits ex_g4) as [g'|] eqn:E; [|vm_compute in E; discriminate]. exists g'. split; [reflexivity|].
  vm_compute in E. inversion E. subst g'. vm_compute. reflexivity.
Qed.
Example ex_sym_id_typed : sym_id ex_U /\ typed ex_g3 /\ genome_over ex_U ex_g3.
Proof.
  split; [|split].
  - intros s1 s2 [<-|[<-|[<-|[]]]] [<-|[<-|[<-|[]]]] E; try reflexivity; vm_compute in E; discriminate.
  - intros r c ge H. destruct r as [|[|[|[|[|r]]]]]; destruct c as [|c]; cbn in H; inversion H; reflexivity.
  - intros r c ge H. destruct r as [|[|[|[|[|r]]]]]; destruct c as [|c]; cbn in H; inversion H; cbn; unfold ex_U; cbn; tauto.
Qed.

(* combine is not commutative: the order of the members matters *)
Example C03_combine_not_commutative :
  fold_combine hzero [(1, 2); (3, 4)]%N <> fold_combine hzero [(3, 4); (1, 2)]%N.
Proof. vm_compute. discriminate. Qed.

(* wrap-around of combine is modulo 2^64 *)
Example ex_combine_wraps : hcombine (M64 - 1, 1)%N (5, 0)%N = (18446744073709551584, 37)%N.
Proof. vm_compute. reflexivity. Qed.
