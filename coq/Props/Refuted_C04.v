(* C04 -- findings: statements that are FALSE of the model of the code as it
   was before the fix: commits (the *_pinned functions of Cache/CacheDefs.v),
   each with a computed witness that the check replays on the implementation. *)
From Coq Require Import NArith List Bool.
From VV Require Import Cache.CacheDefs Cache.CacheProofs.
Import ListNotations.
Local Open Scope N_scope.

(* cache::save counted the slots with a non-empty key regardless of their
   seal: after any clear() the announced count is too large and load fails *)
Theorem C04_save_count_refuted :
  exists ops, let t := run ops (fresh 3) in
    Inv t /\ fst (load (save_pinned t) (fresh 3)) = false.
Proof.
  exists [Insert (1, 5) [7]; Clear; Insert (2, 6) [8]]. cbv zeta. split.
  - apply run_inv. apply fresh_inv.
  - vm_compute. reflexivity.
Qed.
Print Assumptions C04_save_count_refuted.

(* an empty fitness was written as an empty line, which fitness_t::load skips:
   the next key is read as the value of the previous one *)
Theorem C04_empty_fitness_refuted :
  exists ops, let t := run ops (fresh 3) in
    Inv t /\ fst (load (save_pinned t) (fresh 3)) = false /\
    find (snd (load (save_pinned t) (fresh 3))) (2, 6) = [3; 7] /\ find t (2, 6) = [].
Proof.
  exists [Insert (1, 5) [1]; Insert (2, 6) []; Insert (3, 7) [3]]. cbv zeta. split.
  - apply run_inv. apply fresh_inv.
  - vm_compute. repeat split.
Qed.
Print Assumptions C04_empty_fitness_refuted.

(* the 32-bit seal wrapped: after 2^32 clear() calls a value stored before
   them is returned again (closed form of the iterate, not a list) *)
Theorem C04_seal_wrap_refuted :
  exists k v, v <> [] /\ find (clears_pinned M32 (insert (fresh 2) k v)) k = v.
Proof.
  exists (1, 5), [7]. split; [discriminate|].
  destruct (clears_pinned_closed M32 (insert (fresh 2) (1, 5) [7])) as [E|E]; [|discriminate].
  rewrite E. vm_compute. reflexivity.
Qed.
Print Assumptions C04_seal_wrap_refuted.

(* with the repaired clear() the same history returns nothing, for every
   number of clears *)
Theorem C04_seal_wrap_repaired : forall n k v t, Inv t -> 0 < n ->
  find (clears n (insert t k v)) k = [].
Proof.
  intros n k v t HI Hn. unfold clears.
  assert (G : forall m, Inv (N.iter m clear (insert t k v)) /\
                        (0 < m -> find (N.iter m clear (insert t k v)) k = [])).
  { induction m as [|m IH] using N.peano_ind.
    - split; [apply insert_inv; exact HI|intro H; inversion H].
    - rewrite N.iter_succ. destruct IH as (HIm & _). split.
      + apply clear_inv. exact HIm.
      + intros _. apply clear_refines. exact HIm. }
  apply G. exact Hn.
Qed.
Print Assumptions C04_seal_wrap_repaired.
