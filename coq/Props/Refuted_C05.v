(* C05 -- statements that are FALSE of the faithful model of the pinned tree
   (findings; each witness was replayed on the real evaluators, see
   findings/C05.json).  The repaired functions are [soe_eval] / [rmae_err];
   the positive theorems of Properties_C05.v are about those. *)
From Coq Require Import ZArith NArith List Bool.
From VV Require Import Base.F64 Eval.EvalDefs.
Import ListNotations.
Local Open Scope Z_scope.

Definition w_row (x t : Z) : example :=
  mk_example [PDouble (F64.of_bits x)] (PDouble (F64.of_bits t)) 0%N 0%N.
(* the identity program on column 1 *)
Definition w_out (i : list pout) : pout := match i with x :: _ => x | [] => PVoid end.

(* "the fitness is never NaN" fails for mse: output 1e200, target 0, two rows *)
Theorem C05_sum_of_errors_nan_refuted :
  exists d : list example,
    Forall (fun e => F64.is_finite (lex_double (w_out (ex_in e))) = true /\ F64.is_finite (target e) = true) d /\
    exists f, snd (soe_eval_pinned (mse_err w_out) d) = [f] /\ F64.is_nan f = true.
Proof.
  exists [w_row 7598819089118487130 0; w_row 7598819089118487130 0].    (* 0x6974e718d7d7625a = 1e200 *)
  split; [repeat constructor|]. eexists. split; vm_compute; reflexivity.
Qed.
Print Assumptions C05_sum_of_errors_nan_refuted.

(* same for mae: output DBL_MAX, target -DBL_MAX, two rows *)
Theorem C05_mae_nan_refuted :
  exists d : list example,
    Forall (fun e => F64.is_finite (lex_double (w_out (ex_in e))) = true /\ F64.is_finite (target e) = true) d /\
    exists f, snd (soe_eval_pinned (mae_err w_out) d) = [f] /\ F64.is_nan f = true.
Proof.
  exists [w_row 9218868437227405311 18442240474082181119; w_row 9218868437227405311 18442240474082181119].
  split; [repeat constructor|]. eexists. split; vm_compute; reflexivity.
Qed.
Print Assumptions C05_mae_nan_refuted.

(* "rmae errors lie in [0;200]" fails: output DBL_MAX, target -DBL_MAX gives
   inf / inf = NaN on a single row; output 1e306, target -1e306 gives +inf *)
Theorem C05_rmae_error_nan_refuted :
  exists e : example,
    F64.is_finite (lex_double (w_out (ex_in e))) = true /\ F64.is_finite (target e) = true /\
    F64.is_nan (rmae_err_pinned w_out e) = true.
Proof.
  exists (w_row 9218868437227405311 18442240474082181119). repeat split; vm_compute; reflexivity.
Qed.
Print Assumptions C05_rmae_error_nan_refuted.

Theorem C05_rmae_error_infinite_refuted :
  exists e : example,
    F64.is_finite (lex_double (w_out (ex_in e))) = true /\ F64.is_finite (target e) = true /\
    rmae_err_pinned w_out e = F64.inf false.
Proof.
  exists (w_row 9184614872283090985 18407986909137866793).      (* 0x7f76c8e5ca239029 = 1e306, -1e306 *)
  repeat split; vm_compute; reflexivity.
Qed.
Print Assumptions C05_rmae_error_infinite_refuted.

(* the repaired functions on the same witnesses: finite, not positive *)
Example C05_witnesses_after_repair :
  snd (soe_eval (mse_err w_out) [w_row 7598819089118487130 0; w_row 7598819089118487130 0]) = [F64.neg dbl_max] /\
  F64.to_bits (rmae_err w_out (w_row 9218868437227405311 18442240474082181119)) = F64.to_bits two_hundred /\
  F64.to_bits (rmae_err w_out (w_row 9184614872283090985 18407986909137866793)) = F64.to_bits two_hundred.
Proof. repeat split; vm_compute; reflexivity. Qed.
