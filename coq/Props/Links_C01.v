(* C01 -- cross-property links.  Statements only.

   (a) C13: the tree evaluator of Prims/RealDefs.v ([run_tree]) IS the
       denotation [den] of C01, so C13_program_closed transfers to the machine
       of interpreter.cc: for every well-formed genome whose genes are shipped
       real/string primitives used with coherent categories, input variables
       bound to finite-or-undefined values of the right kind, good constants
       and finite ephemeral parameters ([genome_c13]), a run returns -- from
       EVERY prior interpreter state -- a value that is undefined or finite
       (never NaN / infinity), never an exception, never undefined behaviour.
       Hypotheses on libm: exactly those of C13 (sincos_finite, exp_unit).
   (b) C03: two well-formed genomes with equal i_mep::pack (hence, under
       A_hash, equal signatures) return equal results on every example, from
       any two interpreter states.  Named hypotheses: H_dec "opcodes identify
       symbols" (a decoder from 16-bit opcodes back to behaviours exists on the
       symbol set U), H_nopar "only parametric terminals read the gene's
       parameter", genome_params_ok "a parameter is the double its 64 bits
       say" (decidable; true of every finite double), coherent U (from C03). *)
From Coq Require Import ZArith NArith List Bool.
From VV Require Import Base.F64 Base.Values Interp.Strategy Cxx.CxxMini Gen.Prims Mep.Genome.
From VV Require Import Prims.RealDefs Sig.Bits64 Sig.Murmur Sig.SigDefs Sig.TreeProofs.
From VV Require Import Interp.MachineDefs Interp.MachineProofs Interp.MachineNoParam Interp.MachineLinks Interp.MachineLinkExamples.
Import ListNotations.

(* ---------------------------------------------------------------- C13 *)
Theorem C01_C13_run_tree_is_den : forall vars t, run_tree vars t = den vars t.
Proof. exact run_tree_is_den. Qed.
Print Assumptions C01_C13_run_tree_is_den.

Theorem C01_C13_unfolded_tree_is_a_C13_program : forall lm kc vars g,
  wf_genome g -> genome_c13 lm kc vars g ->
  forall n l t, tree_of n g l = Some t -> wt lm kc vars t /\ root_cat t = l_cat l.
Proof. exact unfolded_tree_wt. Qed.
Print Assumptions C01_C13_unfolded_tree_is_a_C13_program.

Theorem C01_C13_machine_closed : forall lm, sincos_finite lm -> exp_unit lm ->
  forall kc g ex, wf_genome g -> genome_c13 lm kc (nth_error ex) g ->
  forall st, exists v, fst (run_ex true g ex st) = RVal v /\ fou v /\
                       good (kc (l_cat (best g))) v.
Proof. exact machine_closed. Qed.
Print Assumptions C01_C13_machine_closed.

Theorem C01_C13_machine_closed_history : forall lm, sincos_finite lm -> exp_unit lm ->
  forall kc g, wf_genome g ->
  forall exs, (forall ex, In ex exs -> genome_c13 lm kc (nth_error ex) g) ->
  forall st, Forall (fun r => exists v, r = RVal v /\ fou v) (fst (run_many true g exs st)).
Proof. exact machine_closed_history. Qed.
Print Assumptions C01_C13_machine_closed_history.

(* ---------------------------------------------------------------- C03 *)
Theorem C01_C03_den_factors_through_canon : forall (U : sym -> Prop) (dec : N -> sym),
  (forall s, U s -> s_strat (dec (opc16 s)) = s_strat s) ->
  (forall s, U s -> Nat.eqb (arity s) 0 && s_parametric s = false ->
     forall vars p1 p2 a, apply_strat vars (s_strat s) p1 a = apply_strat vars (s_strat s) p2 a) ->
  forall vars t, over U t -> pok t -> den vars t = cden dec vars (canon t).
Proof. exact den_factors_through_canon. Qed.
Print Assumptions C01_C03_den_factors_through_canon.

Theorem C01_C03_equal_pack_equal_output : forall (U : sym -> Prop) (dec : N -> sym), coherent U ->
  (forall s, U s -> s_strat (dec (opc16 s)) = s_strat s) ->
  (forall s, U s -> Nat.eqb (arity s) 0 && s_parametric s = false ->
     forall vars p1 p2 a, apply_strat vars (s_strat s) p1 a = apply_strat vars (s_strat s) p2 a) ->
  forall g1 g2, wf_genome g1 -> wf_genome g2 ->
  genome_over U g1 -> genome_over U g2 -> genome_params_ok g1 -> genome_params_ok g2 ->
  mep_pack g1 = mep_pack g2 ->
  forall ex st1 st2, fst (run_ex true g1 ex st1) = fst (run_ex true g2 ex st2).
Proof. exact equal_pack_equal_run. Qed.
Print Assumptions C01_C03_equal_pack_equal_output.

Theorem C01_C03_equal_signature_equal_output_up_to_A_hash :
  forall Streams : list byte -> Prop,
  (forall a b, Streams a -> Streams b -> murmur128 a = murmur128 b -> a = b) (* A_hash *) ->
  forall (U : sym -> Prop) (dec : N -> sym), coherent U ->
  (forall s, U s -> s_strat (dec (opc16 s)) = s_strat s) ->
  (forall s, U s -> Nat.eqb (arity s) 0 && s_parametric s = false ->
     forall vars p1 p2 a, apply_strat vars (s_strat s) p1 a = apply_strat vars (s_strat s) p2 a) ->
  forall g1 g2 t1 t2, wf_genome g1 -> wf_genome g2 ->
  genome_over U g1 -> genome_over U g2 -> genome_params_ok g1 -> genome_params_ok g2 ->
  active_tree g1 = Some t1 -> active_tree g2 = Some t2 ->
  Streams (encode_tree t1) -> Streams (encode_tree t2) ->
  hash_mep g1 = hash_mep g2 ->
  forall ex st1 st2, fst (run_ex true g1 ex st1) = fst (run_ex true g2 ex st2).
Proof. exact equal_signature_equal_run. Qed.
Print Assumptions C01_C03_equal_signature_equal_output_up_to_A_hash.

(* ---------------------------------------------------------------- C08 *)
(* reg_lambda_f<team<i_mep>>: the members' interpreters are run in order; the
   output is the running mean of the denotations of the members' active trees,
   whatever each member's interpreter object executed before *)
Theorem C01_C08_team_run_is_member_denotations : forall ms ex,
  Forall (fun m => wf_genome (fst m)) ms ->
  exists ts, Forall2 (fun m t => active_tree (fst m) = Some t) ms ts /\
             fst (team_run ms ex) = team_den ts (nth_error ex) F64.zero F64.zero.
Proof. exact team_run_is_member_denotations. Qed.
Print Assumptions C01_C08_team_run_is_member_denotations.

(* H_nopar is a theorem for the shipped primitives: a translated body that
   does not mention p.fetch_param() yields a strategy that does not depend on
   the gene's parameter, and every regenerated body except the three
   ephemeral-constant terminals (int number, real, integer) is of that kind *)
Theorem C01_C03_body_without_fetch_param_ignores_parameter : forall lm opc b cat argcats par,
  body_np b = true ->
  forall vars p1 p2 a,
    apply_strat vars (s_strat (prim_sym lm opc b cat argcats par)) p1 a =
    apply_strat vars (s_strat (prim_sym lm opc b cat argcats par)) p2 a.
Proof. exact prim_par_irrelevant. Qed.
Print Assumptions C01_C03_body_without_fetch_param_ignores_parameter.

Theorem C01_C03_shipped_functions_never_read_the_parameter :
  forallb (fun b => body_np b || is_param_terminal_body b) prims_all = true /\
  length (filter is_param_terminal_body prims_all) = 3.
Proof. exact shipped_bodies_noparam. Qed.
Print Assumptions C01_C03_shipped_functions_never_read_the_parameter.

(* ---------------------------------------------------------- non-vacuity *)
(* a 4-gene program FADD(X0, FMUL(2.5, 2.5)) over one real category is a C13
   genome for a libm that meets the C13 hypotheses *)
Example C01_C13_hypotheses_met :
  sincos_finite link_lm /\ exp_unit link_lm /\ wf_genome (link_genome link_lm) /\
  genome_c13 link_lm (fun _ => KReal) (nth_error link_ex) (link_genome link_lm).
Proof. exact link_c13_hyps. Qed.
(* the C03 hypotheses are met by the symbol set of that program and by a
   second layout of it (the shared constant duplicated): equal pack, two
   different genomes *)
Example C01_C03_hypotheses_met :
  coherent (link_U link_lm) /\
  (forall s, link_U link_lm s -> s_strat (link_dec link_lm (opc16 s)) = s_strat s) /\
  (forall s, link_U link_lm s -> Nat.eqb (arity s) 0 && s_parametric s = false ->
     forall vars p1 p2 a, apply_strat vars (s_strat s) p1 a = apply_strat vars (s_strat s) p2 a) /\
  genome_over (link_U link_lm) (link_genome link_lm) /\ genome_over (link_U link_lm) (link_genome2 link_lm) /\
  genome_params_ok (link_genome link_lm) /\ genome_params_ok (link_genome2 link_lm) /\
  wf_genome (link_genome2 link_lm) /\
  mep_pack (link_genome link_lm) = mep_pack (link_genome2 link_lm) /\
  rows (link_genome link_lm) <> rows (link_genome2 link_lm).
Proof. exact link_c03_hyps. Qed.
Example C01_links_example_runs :
  map show_res (fst (run_many true (link_genome link_lm) [link_ex] (init_state (link_genome link_lm))))
  = [[2; 0x401D000000000000]]%Z.     (* 1 + 2.5 * 2.5 = 7.25 *)
Proof. exact link_run. Qed.
