(* C14 -- Integer primitives never overflow and saturate as documented.

   The bodies [int_*_body] are regenerated from
   /repo/src/kernel/gp/src/primitive/int.h on every check run
   (coq/Gen/Prims.v); [run_body] runs them under the C++ semantics of
   Cxx/CxxMini.v, in which signed overflow, division by zero, INT_MIN / -1 and
   invalid shifts are the outcome [Stuck].  Each theorem therefore says: for
   ALL pairs of 32-bit integers the primitive has no undefined behaviour and
   returns exactly the documented value.  Nothing else lives in this file. *)
From Coq Require Import ZArith List Bool.
From VV Require Import Base.F64 Base.Values Interp.Strategy Cxx.CxxMini Gen.Prims Prims.IntSpec Prims.IntProofs.
Import ListNotations.
Local Open Scope Z_scope.

Theorem C14_add_defined_and_saturates : forall lm v0 v1, is32 v0 -> is32 v1 ->
  run_body lm int_add_body [VInt v0; VInt v1] = Val (VInt (clamp (v0 + v1))).
Proof. exact add_ok. Qed.
Print Assumptions C14_add_defined_and_saturates.

Theorem C14_sub_defined_and_saturates : forall lm v0 v1, is32 v0 -> is32 v1 ->
  run_body lm int_sub_body [VInt v0; VInt v1] = Val (VInt (clamp (v0 - v1))).
Proof. exact sub_ok. Qed.
Print Assumptions C14_sub_defined_and_saturates.

Theorem C14_mul_defined_and_saturates : forall lm v0 v1, is32 v0 -> is32 v1 ->
  run_body lm int_mul_body [VInt v0; VInt v1] = Val (VInt (clamp (v0 * v1))).
Proof. exact mul_ok. Qed.
Print Assumptions C14_mul_defined_and_saturates.

Theorem C14_div_defined_with_fallback : forall lm v0 v1, is32 v0 -> is32 v1 ->
  run_body lm int_div_body [VInt v0; VInt v1] =
  Val (VInt (if (v1 =? 0) || ((v0 =? i32_min) && (v1 =? -1)) then v0 else Z.quot v0 v1)).
Proof. exact div_ok. Qed.
Print Assumptions C14_div_defined_with_fallback.

Theorem C14_mod_defined_with_fallback : forall lm v0 v1, is32 v0 -> is32 v1 ->
  run_body lm int_mod_body [VInt v0; VInt v1] =
  Val (VInt (if (v1 =? 0) || ((v0 =? i32_min) && (v1 =? -1)) then v1 else Z.rem v0 v1)).
Proof. exact mod_ok. Qed.
Print Assumptions C14_mod_defined_with_fallback.

Theorem C14_shl_defined_with_fallback : forall lm v0 v1, is32 v0 -> is32 v1 ->
  run_body lm int_shl_body [VInt v0; VInt v1] =
  Val (VInt (if (v0 <? 0) || (v1 <? 0) || (32 <=? v1) || (i32_max <? v0 * 2 ^ v1)
             then v0 else v0 * 2 ^ v1)).
Proof. exact shl_ok. Qed.
Print Assumptions C14_shl_defined_with_fallback.

(* "exact whenever representable, otherwise the nearer bound" *)
Theorem C14_clamp_exact_iff_representable : forall z,
  (is32 z -> clamp z = z) /\ (i32_max < z -> clamp z = i32_max) /\ (z < i32_min -> clamp z = i32_min).
Proof. intro z. split; [exact (clamp_exact z)|split; [exact (clamp_hi z)|exact (clamp_lo z)]]. Qed.
Print Assumptions C14_clamp_exact_iff_representable.

Theorem C14_shl_exact_iff_representable : forall v0 v1, is32 v0 -> is32 v1 -> 0 <= v0 -> 0 <= v1 < 32 ->
  (shl_spec v0 v1 = v0 * 2 ^ v1 <-> (is32 (v0 * 2 ^ v1) \/ v0 * 2 ^ v1 = v0)).
Proof. exact shl_exact_iff_representable. Qed.
Print Assumptions C14_shl_exact_iff_representable.

(* conditionals select, and fetch only the selected argument *)
Theorem C14_ife_selects : forall lm v0 v1 a2 a3,
  run_body lm int_ife_body [VInt v0; VInt v1; a2; a3] = Val (if v0 =? v1 then a2 else a3) /\
  fetched_body lm int_ife_body [VInt v0; VInt v1; a2; a3] = [0%nat; 1%nat; if v0 =? v1 then 2%nat else 3%nat].
Proof. intros. split; [apply ife_ok|apply ife_fetched]. Qed.
Print Assumptions C14_ife_selects.

Theorem C14_ifl_selects : forall lm v0 v1 a2 a3,
  run_body lm int_ifl_body [VInt v0; VInt v1; a2; a3] = Val (if v0 <? v1 then a2 else a3) /\
  fetched_body lm int_ifl_body [VInt v0; VInt v1; a2; a3] = [0%nat; 1%nat; if v0 <? v1 then 2%nat else 3%nat].
Proof. intros. split; [apply ifl_ok|apply ifl_fetched]. Qed.
Print Assumptions C14_ifl_selects.

Theorem C14_ifz_selects : forall lm v0 a1 a2,
  run_body lm int_ifz_body [VInt v0; a1; a2] = Val (if v0 =? 0 then a1 else a2) /\
  fetched_body lm int_ifz_body [VInt v0; a1; a2] = [0%nat; if v0 =? 0 then 1%nat else 2%nat].
Proof. intros. split; [apply ifz_ok|apply ifz_fetched]. Qed.
Print Assumptions C14_ifz_selects.


(* the ephemeral integer constant INT: static_cast<int> of the stored
   parameter is defined exactly when its truncation fits in 32 bits (number::init
   draws integers in [min, upp), so stored parameters always do) *)
Theorem C14_number_terminal_defined_iff_in_range : forall lm p z, F64.to_Z_trunc p = Some z ->
  (is32 z -> run_stub (strategy_of lm int_number_body) (par_stub p) = Val (VInt z)) /\
  (~ is32 z -> run_stub (strategy_of lm int_number_body) (par_stub p) = Stuck).
Proof. intros lm p z H. split; [exact (number_ok lm p z H)|exact (number_out_of_range_stuck lm p z H)]. Qed.
Print Assumptions C14_number_terminal_defined_iff_in_range.

(* non-vacuity: the hypotheses are met by the extreme pair, and the model
   does distinguish defined from undefined behaviour *)
Example C14_hypotheses_met : is32 i32_min /\ is32 i32_max /\ is32 (-1).
Proof. unfold is32, i32_min, i32_max. repeat split; discriminate. Qed.
Example C14_model_sees_overflow : forall lm,
  run_body lm [SReturn (EBin BAdd (ECall1 F_get_int (EArg 0)) (ECall1 F_get_int (EArg 1)))]
           [VInt i32_max; VInt 1] = Stuck.
Proof. intro. reflexivity. Qed.
