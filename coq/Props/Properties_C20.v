(* C20 -- The inline-storage vector behaves like a standard vector.

   Statements about the model of src/utility/small_vector.{h,tcc} in
   SmallVec/SmallVecDefs.v (the repaired methods), for ALL inline capacities
   S >= 1 and ALL element classes P = (S, triv, dflt, mv): trivially default
   constructible or not, value of T(), value left in a moved-from object.
   [step]/[run] execute the methods as sequences of cell actions and stop with
   an error on a construction over a live object, a destruction of or
   assignment to raw memory, a read of raw or indeterminate memory, a leak.
   Nothing else lives in this file. *)
From Coq Require Import ZArith List Bool Arith.
From VV Require Import SmallVec.SmallVecAst Gen.SmallVecOps SmallVec.SmallVecModelled SmallVec.SmallVecDefs SmallVec.SmallVecProofs.
Import ListNotations.

(* the tie to the source: Gen/SmallVecOps.v is regenerated from
   src/utility/small_vector.tcc on every run.  (a) the range operations of
   insert(i, b, e) that the model INTERPRETS are the extracted ones (the model's
   [insert] is [insert_with insert_shape_gen]); they are the ones the proofs
   below are about; (b) the normalised statement lists of all member
   definitions are the ones the hand-written methods were modelled on. *)
Theorem C20_source_as_modelled :
  method_bodies = modelled_bodies /\
  insert_shape_gen =
    mkInsertShape
      [IGAppendAtEnd; IGReturnIfEmpty]
      ICondTailAtLeastN
      [RAppendMoved (PMinus PEnd Nn) PEnd; RMove Bwd WAssign PI (PMinus POldEnd Nn) POldEnd; RCopyIn WAssign PI]
      [RSizeAdd; RMove Fwd WByStorage PI POldEnd (PMinus PEnd Noverwritten); ROverwrite; RCopyIn WByStorage POldEnd].
Proof. exact (conj bodies_as_modelled gen_shape). Qed.
Print Assumptions C20_source_as_modelled.

(* two default-constructed vectors satisfy the invariant *)
Theorem C20_init_inv : forall P, 1 <= pS P -> Inv P (init P).
Proof. exact init_inv. Qed.
Print Assumptions C20_init_inv.

(* one operation with valid arguments, from any state satisfying the invariant:
   no lifetime error, the invariant again, and the abstract values are what
   std::vector specifies (a moved-from source is unspecified but valid) *)
Theorem C20_step_refines : forall P, 1 <= pS P -> forall o st tgt,
  Inv P st -> abs (target (op_target o) st) = Some tgt -> valid_op o tgt ->
  exists st' r, step P o st = Ok (st', r) /\ Inv P st' /\ spec_ok P o st st' r.
Proof. exact step_refines. Qed.
Print Assumptions C20_step_refines.

(* every script: [run] never ends in a lifetime error; it stops early only at an
   operation whose arguments are invalid (Invalid); every recorded step keeps
   the invariant and agrees with std::vector; at the end both vectors are
   destroyed without error *)
Theorem C20_refines_vector : forall P, 1 <= pS P -> forall ops st, Inv P st ->
  match run P ops st with
  | Finished tr d => trace_ok P ops st tr /\ length tr = length ops
  | Invalid tr => trace_ok P ops st tr /\ length tr < length ops
  | Failed _ _ => False
  end.
Proof. exact run_refines. Qed.
Print Assumptions C20_refines_vector.

(* destruction: no error (nothing destroyed twice, nothing left alive in a
   released block) and the number of element destructor calls is exactly the
   number of live objects the two vectors own *)
Theorem C20_destroy_balanced : forall P, 1 <= pS P -> forall st, Inv P st ->
  finish P st = Ok (live_count P (sa st) + live_count P (sb st)).
Proof. exact finish_ok. Qed.
Print Assumptions C20_destroy_balanced.

(* operator== and operator< read only constructed elements; == is "same size
   and the ELEMENT operator== holds pointwise" (std::equal), < is
   std::lexicographical_compare with the element operator<.  The element
   comparisons peq / plt are arbitrary functions of the parameters, so this
   covers double with its IEEE comparisons (+0.0 == -0.0, NaN != NaN: vectors
   holding a NaN are not equal to themselves, exactly as std::vector<double>);
   when the element operator== is equality of values, == is list equality *)
Theorem C20_compare_is_list_compare : forall P a b xs ys,
  sv_inv P a -> sv_inv P b -> abs a = Some xs -> abs b = Some ys ->
  sv_eq P a b = Ok (list_eqb (peq P) xs ys) /\ sv_lt P a b = Ok (lex_ltb (plt P) xs ys) /\
  (list_eqb (peq P) xs ys = true <-> Forall2 (fun x y => peq P x y = true) xs ys) /\
  ((forall x y, peq P x y = true <-> x = y) -> (list_eqb (peq P) xs ys = true <-> xs = ys)).
Proof.
  intros P a b xs ys Ha Hb Hx Hy.
  destruct (compare_ok P a b xs ys Ha Hb Hx Hy) as (H1 & H2).
  split; [exact H1|split; [exact H2|split; [exact (list_eqb_Forall2 (peq P) xs ys)|]]].
  intro Heq. exact (list_eqb_eq (peq P) Heq xs ys).
Qed.
Print Assumptions C20_compare_is_list_compare.

(* the double class: an IEEE-like element equality on value codes (code 100001
   is -0.0, codes 100002 / 100003 are two NaNs) -- a vector holding a NaN is not
   equal to itself, and vectors differing only in the sign of a zero are equal *)
Definition is_nan_code (x : Z) : bool := Z.eqb x 100002 || Z.eqb x 100003.
Definition zero_code (x : Z) : Z := if Z.eqb x 100001 then 0%Z else x.
Definition peq_ieee (x y : Z) : bool :=
  negb (is_nan_code x) && negb (is_nan_code y) && Z.eqb (zero_code x) (zero_code y).

Example C20_nan_vector_differs_from_itself :
  list_eqb peq_ieee [1; 100002; 3]%Z [1; 100002; 3]%Z = false.
Proof. reflexivity. Qed.

Example C20_zero_sign_is_ignored :
  list_eqb peq_ieee [1; 0; 3]%Z [1; 100001; 3]%Z = true.
Proof. reflexivity. Qed.

(* non-vacuity: scripts that cross the inline/heap boundary both ways run to
   the end (so Inv and valid_op are satisfiable along them), for a trivial and
   a non-trivial element type; an invalid position is reported as Invalid *)
Definition P_int (S : nat) : params := mkParams S true 0%Z (fun x => x) Z.eqb Z.ltb.
Definition P_str (S : nat) : params := mkParams S false 0%Z (fun _ => 0%Z) Z.eqb Z.ltb.

Definition script1 : list op :=
  [CtorList false [1; 2; 3]%Z; PushBack false 4%Z; Insert false 1 [7; 8; 9]%Z; PushBackSelf false 0;
   CopyCtor true; Resize false 1; Clear false; MoveAssign false; Insert true 0 [5]%Z;
   CtorN true 2; CopyAssign false; Reserve true 9; SetAt true 1 6%Z].

Example C20_script_runs_str :
  match run (P_str 3) script1 (init (P_str 3)) with Finished tr _ => length tr = 13 | _ => False end.
Proof. vm_compute. reflexivity. Qed.

Example C20_script_runs_int :
  match run (P_int 2) script1 (init (P_int 2)) with Finished tr _ => length tr = 13 | _ => False end.
Proof. vm_compute. reflexivity. Qed.

Example C20_invalid_is_invalid :
  run (P_int 2) [Insert false 1 [5]%Z] (init (P_int 2)) = Invalid [].
Proof. vm_compute. reflexivity. Qed.
