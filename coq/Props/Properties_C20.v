(* C20 -- The inline-storage vector behaves like a standard vector.

   Statements about the model of src/utility/small_vector.{h,tcc} in
   SmallVec/SmallVecDefs.v, for ALL inline capacities S >= 1 and ALL element
   classes (params: trivially constructible or not, value of T(), value left
   in a moved-from object).  Nothing else lives in this file. *)
From Coq Require Import ZArith List Bool Arith.
From VV Require Import SmallVec.SmallVecDefs SmallVec.SmallVecProofs.
Import ListNotations.

(* two default-constructed vectors satisfy the invariant *)
Theorem C20_init_inv : forall P, 1 <= pS P -> Inv P (init P).
Proof. exact init_inv. Qed.
Print Assumptions C20_init_inv.
