(* C07 -- Same seed, same run.

   Model: coq/Rng/RngDefs.v mirrors src/utility/xoshiro256ss.{h,cc} (splitmix64,
   seed, xoshiro256** operator(), operator<< / operator>>) and
   vita::random::seed of src/kernel/random.cc over N modulo 2^64, with the
   decimal text codec of libstdc++'s operator<< / operator>> for unsigned long.
   The theorems hold for EVERY 64-bit state (hence for every state reachable
   from any seed after any number of draws), every previous engine content and
   every text following the saved state that does not start with a digit.

   Proof level: generator + codec.  Whole-run determinism of the C++ process
   (no uninitialised read, no address-dependent order, no hidden static state,
   libstdc++ distributions being functions of the engine output) is NOT a
   theorem: the check tests it by running searches twice in separate,
   differently perturbed processes (labelled testing, see checks/c07.py).
   Nothing else lives in this file. *)
From Coq Require Import NArith List Bool.
From VV Require Import Rng.RngDefs Rng.RngProofs.
Import ListNotations.
Local Open Scope N_scope.

(* operator() is total on 64-bit states: 64-bit output, 64-bit state *)
Theorem C07_next_total : forall st, wf st -> lt64 (fst (next st)) /\ wf (snd (next st)).
Proof. exact next_wf. Qed.
Print Assumptions C07_next_total.

(* every state the program can reach (any seed, any previous engine content,
   any number of draws) is a 64-bit state *)
Theorem C07_reachable_wf : forall st, reachable st -> wf st.
Proof. exact reachable_wf. Qed.
Print Assumptions C07_reachable_wf.

(* the decimal codec: operator>> reads back what operator<< printed *)
Theorem C07_read_show : forall n rest, n < M64 -> head_not_digit rest ->
  read_u (show_u n ++ rest) = RdOk n rest.
Proof. exact read_show. Qed.
Print Assumptions C07_read_show.

Theorem C07_load_save_state : forall old st rest, wf st -> head_not_digit rest ->
  load_state old (save_state st ++ rest) = LoadOk st rest.
Proof. exact load_save. Qed.
Print Assumptions C07_load_save_state.

(* a state written to a stream and read back continues with exactly the same
   sequence: all n, all reachable states, whatever engine it is loaded into *)
Theorem C07_same_sequence_after_reload : forall st, reachable st ->
  forall n old rest, head_not_digit rest ->
  exists st', load_state old (save_state st ++ rest) = LoadOk st' rest /\
              outputs n st' = outputs n st /\ advance n st' = advance n st.
Proof. intros st H n old rest Hr. apply reload_same_sequence; [apply reachable_wf; exact H|exact Hr]. Qed.
Print Assumptions C07_same_sequence_after_reload.

(* indeed for every 64-bit state *)
Theorem C07_same_sequence_after_reload_all_states : forall n old st rest, wf st -> head_not_digit rest ->
  exists st', load_state old (save_state st ++ rest) = LoadOk st' rest /\
              outputs n st' = outputs n st /\ advance n st' = advance n st.
Proof. exact reload_same_sequence. Qed.
Print Assumptions C07_same_sequence_after_reload_all_states.

(* seeding determines the whole state: nothing of the previous history of the
   engine survives, 0 stands for the default seed, the result is a 64-bit state *)
Theorem C07_seed_deterministic : forall old1 old2 s n,
  seed_engine old1 s = seed_engine old2 s /\
  outputs n (seed_engine old1 s) = outputs n (seed_engine old2 s) /\
  seed_engine old1 0 = seed_engine old1 def_seed /\
  wf (seed_engine old1 s).
Proof.
  intros. rewrite (seed_engine_forgets old1 old2 s).
  split; [reflexivity|split; [reflexivity|split; [apply seed_zero_is_default|apply seed_engine_wf]]].
Qed.
Print Assumptions C07_seed_deterministic.

(* "The state must be seeded so that it is not everywhere zero" (xoshiro256ss.h): for EVERY seed the
   seeded state differs from the all-zero state, which is the fixed point of operator() and would make
   the generator emit 0 forever (see C07_zero_state_is_stuck); splitmix64's output function is injective at 0 *)
Theorem C07_seeded_engine_never_stuck : forall old s, seed_engine old s <> zero_state.
Proof.
  intros old s E. destruct (seed_engine_not_zero old s) as [H|H]; apply H; rewrite E; reflexivity.
Qed.
Print Assumptions C07_seeded_engine_never_stuck.

(* FULL STATEMENT WANTED (property C07, first sentence): two executions of the
   same search with the same seed, problem, data and parameters produce the
   same draws, populations, best individual and summary.
   PROVED PART: after vita::random::seed(s) the engine's output stream is a
   function of s alone (not of what the process did before).
   GAP: the C++ process between the engine and the results (libstdc++
   distributions, evolution, evaluators, containers) is not modelled; its
   determinism is tested by the double-run comparison of the check. *)
Theorem C07_same_seed_same_engine_stream_partial : forall old1 old2 s n,
  outputs n (random_seed old1 s) = outputs n (random_seed old2 s).
Proof. intros. rewrite (random_seed_forgets old1 old2 s). reflexivity. Qed.
Print Assumptions C07_same_seed_same_engine_stream_partial.

(* ---- non-vacuity *)
Example C07_wf_met : wf (mk_state (M64 - 1) 0 1 (M64 - 1)).
Proof. unfold wf, lt64. cbn. repeat split. Qed.
Example C07_reachable_met : reachable (advance 3 (new_engine 1)) /\ advance 3 (new_engine 1) <> new_engine 1.
Proof.
  split.
  - cbn [advance]. do 3 apply reach_next. apply reach_seed.
  - vm_compute. discriminate.
Qed.
Example C07_rest_met : head_not_digit [10; 49; 50] /\ head_not_digit [].
Proof. split; reflexivity. Qed.
(* the side condition on [rest] is necessary: a digit glued to the text is read as part of the number *)
Example C07_rest_condition_needed : read_u (show_u 12 ++ [51]) = RdOk 123 [].
Proof. vm_compute. reflexivity. Qed.
Example C07_codec_extremes :
  show_u 0 = [48] /\ read_u (show_u (M64 - 1)) = RdOk (M64 - 1) [] /\ read_u (show_u (M64 - 1) ++ [48]) = RdFail (M64 - 1).
Proof. vm_compute. repeat split. Qed.
Example C07_zero_state_is_stuck : next zero_state = (0, zero_state).
Proof. reflexivity. Qed.
(* the model is the real generator: first outputs of the default-seeded engine *)
Example C07_known_answer : outputs 2 (new_engine 1) = outputs 2 (seed_engine (new_engine 7) 1) /\
  length (outputs 5 (new_engine 0)) = 5%nat.
Proof. vm_compute. split; reflexivity. Qed.
