(* C05 -- Evaluators compute the documented standardized fitness.

   Model: coq/Eval/EvalDefs.v (hand-written mirror of
   kernel/gp/src/evaluator.tcc, kernel/ga/evaluator.tcc,
   kernel/constrained_evaluator.tcc; tied to the source by the
   correspondence check of checks/c05.py).  The program is an oracle
   [out : inputs -> void|int|double]; the dyn_slot / gaussian classifiers are
   an oracle [tag : inputs -> (label, sureness)].  Only statements here;
   proofs are in coq/Eval/*Proofs.v. *)
From Coq Require Import ZArith NArith QArith Reals List Bool.
From Flocq Require Import IEEE754.BinarySingleNaN.
From VV Require Import Base.F64 Eval.EvalDefs Eval.EvalProofs Eval.EvalExactProofs Eval.EvalFloatProofs Eval.EvalMeanProofs.
Import ListNotations.

(* ================================================================ exact == *)
Section ExactLayer.
Local Open Scope Q_scope.

(* the update `avg += (err - avg) / ++n` computes the arithmetic mean *)
Theorem C05_running_mean_is_mean : forall errs : list Q, errs <> [] ->
  fst (q_running errs) == qmean errs.
Proof. exact running_mean_is_mean. Qed.
Print Assumptions C05_running_mean_is_mean.

Theorem C05_fitness_nonpositive : forall errs : list Q, errs <> [] ->
  Forall (fun e => 0 <= e) errs -> q_fitness errs <= 0.
Proof. exact fitness_nonpositive. Qed.
Print Assumptions C05_fitness_nonpositive.

Theorem C05_fitness_zero_iff_all_errors_zero : forall errs : list Q, errs <> [] ->
  Forall (fun e => 0 <= e) errs ->
  (q_fitness errs == 0 <-> Forall (fun e => e == 0) errs).
Proof. exact fitness_zero_iff_all_errors_zero. Qed.
Print Assumptions C05_fitness_zero_iff_all_errors_zero.

Example C05_exact_nonvacuous :
  q_fitness [1; 2; 6] == - (3) /\ q_fitness [0; 0] == 0 /\ ~ q_fitness [0; 1 # 2] == 0.
Proof. repeat split; vm_compute; discriminate. Qed.
End ExactLayer.

(* ============================================================= binary64 == *)
Local Open Scope Z_scope.

(* ---- each evaluation increments the difficulty of exactly the wrong
        examples; nothing else changes; order and length are preserved ---- *)
Theorem C05_difficulty_frame_errors : forall (errf : example -> f64) (d : list example),
  fst (soe_eval errf d) =
  map (fun e => if negb (issmall (errf e))
                then mk_example (ex_in e) (ex_out e) (N.modulo (ex_diff e + 1) two64) (ex_age e)
                else e) d.
Proof. exact soe_eval_frame. Qed.
Print Assumptions C05_difficulty_frame_errors.

(* fast() (1 example out of 5) and any other stride *)
Theorem C05_difficulty_frame_any_step : forall (errf : example -> f64) (step : nat) (d : list example),
  Forall2 (fun e e' => e' = e \/ (negb (issmall (errf e)) = true /\ e' = bump e))
          d (fst (sum_of_errors_impl errf step d)).
Proof.
  intros errf step d. unfold sum_of_errors_impl.
  pose proof (soe_loop_frame errf step d 0%nat (F64.zero, F64.zero)) as H.
  destruct (soe_loop errf step 0 d (F64.zero, F64.zero)). exact H.
Qed.
Print Assumptions C05_difficulty_frame_any_step.

Theorem C05_difficulty_frame_classification : forall tag (d d' : list example) (f : fitness),
  dyn_slot_eval tag d = Some (d', f) ->
  d' = map (fun e => if cls_wrong tag e then bump e else e) d.
Proof.
  intros tag d d' f H. unfold dyn_slot_eval, count_eval in H.
  destruct (count_loop tag d F64.zero) as [[r err]|] eqn:E; [|discriminate].
  injection H as <- _. exact (count_loop_frame tag d F64.zero (r, err) E).
Qed.
Print Assumptions C05_difficulty_frame_classification.

Theorem C05_difficulty_frame_gaussian : forall tag classes (d d' : list example) (f : fitness),
  gaussian_eval tag classes d = Some (d', f) ->
  d' = map (fun e => if cls_wrong tag e then bump e else e) d.
Proof.
  intros tag classes d d' f H. unfold gaussian_eval in H.
  destruct (gaussian_loop tag (gaussian_scale classes) d F64.zero) as [[r v]|] eqn:E; [|discriminate].
  injection H as <- _. exact (gaussian_loop_frame tag _ d F64.zero (r, v) E).
Qed.
Print Assumptions C05_difficulty_frame_gaussian.

(* the classification loops only fail (std::bad_variant_access) on an example
   whose output cell is not an integer label *)
Theorem C05_classification_total : forall tag d, Forall (fun e => label e <> None) d ->
  exists r, dyn_slot_eval tag d = Some r.
Proof.
  intros tag d H. unfold dyn_slot_eval, count_eval.
  destruct (count_loop_total tag d F64.zero H) as [[r err] ->]. eexists; reflexivity.
Qed.
Print Assumptions C05_classification_total.

(* ---- ga_evaluator, constrained_evaluator ------------------------------- *)
Theorem C05_ga_nonfinite_is_empty : forall v, F64.is_finite v = false -> ga_eval v = [].
Proof. exact ga_nonfinite_is_empty. Qed.
Print Assumptions C05_ga_nonfinite_is_empty.

Theorem C05_ga_finite_is_value : forall v, F64.is_finite v = true -> ga_eval v = [v].
Proof. exact ga_finite_is_value. Qed.
Print Assumptions C05_ga_finite_is_value.

Theorem C05_constrained_prepends_minus_penalty : forall p base,
  constrained_eval p base = F64.neg p :: base.
Proof. exact constrained_prepends. Qed.
Print Assumptions C05_constrained_prepends_minus_penalty.

(* ---- an undefined output gets the documented penalty ------------------- *)
Theorem C05_undefined_output_gets_penalty : forall out e, out (ex_in e) = PVoid ->
  mae_err out e = F64.div dbl_max hundred /\ mse_err out e = F64.div dbl_max hundred /\
  rmae_err out e = two_hundred /\ count_err out e = one.
Proof.
  intros out e H. repeat split;
  [exact (undefined_mae out e H)|exact (undefined_mse out e H)|exact (undefined_rmae out e H)|exact (undefined_count out e H)].
Qed.
Print Assumptions C05_undefined_output_gets_penalty.

Example C05_penalty_values :
  F64.to_bits (F64.div dbl_max hundred) = 9188604247731475578 /\   (* 0x7F847AE147AE147A = DBL_MAX/100 *)
  F64.to_bits two_hundred = 4641240890982006784 /\ F64.to_bits one = 4607182418800017408.
Proof. repeat split; vm_compute; reflexivity. Qed.

(* ======================================= binary64: sign, NaN, zero, counts == *)
(* [B2R x] is the real value of a finite double (0 for NaN/infinities, hence
   always paired with [is_finite]). *)

(* ---- never NaN, never positive (indeed always finite) for the four error
        based evaluators, operator() and fast(), for ALL programs and ALL
        datasets: no hypothesis on outputs or targets (infinities and NaN
        cells included).  This is about the REPAIRED sum_of_errors_impl /
        rmae functor; the pinned ones are refuted in Refuted_C05.v. ---------- *)
Theorem C05_error_evaluators_never_nan_never_positive :
  forall (out : list pout -> pout) (step : nat) (d : list example) (errf : example -> f64),
  errf = mae_err out \/ errf = mse_err out \/ errf = rmae_err out \/ errf = count_err out ->
  exists v, snd (sum_of_errors_impl errf step d) = [v] /\
            F64.is_finite v = true /\ F64.is_nan v = false /\ (B2R v <= 0)%R.
Proof.
  intros out step d errf H.
  destruct (sum_of_errors_sign errf step d) as (v & E & F & P).
  - intros e _. destruct H as [ -> | [ -> | [ -> | -> ] ] ]; [apply nn_mae|apply nn_mse|apply nn_rmae|apply nn_count].
  - exists v. repeat split; try assumption. destruct v; try discriminate F; reflexivity.
Qed.
Print Assumptions C05_error_evaluators_never_nan_never_positive.

(* any user supplied error functor that never returns a negative value *)
Theorem C05_sum_of_errors_never_nan_never_positive :
  forall (errf : example -> f64) (step : nat) (d : list example),
  (forall e, In e d -> F64.ltb (errf e) F64.zero = false) ->
  exists v, snd (sum_of_errors_impl errf step d) = [v] /\ F64.is_finite v = true /\ (B2R v <= 0)%R.
Proof.
  intros errf step d H. apply sum_of_errors_sign. intros e He. specialize (H e He).
  destruct (errf e) as [s|s| |s m ex pf]; cbn; auto; destruct s; try reflexivity; discriminate H.
Qed.
Print Assumptions C05_sum_of_errors_never_nan_never_positive.

(* ---- every target reproduced => fitness is zero (bit pattern of -0.0) ---- *)
Theorem C05_all_reproduced_gives_zero :
  forall (out : list pout -> pout) (step : nat) (d : list example) (errf : example -> f64),
  errf = mae_err out \/ errf = mse_err out \/ errf = rmae_err out \/ errf = count_err out ->
  (forall e, In e d ->
     p_has_value (out (ex_in e)) = true /\ lex_double (out (ex_in e)) = target e /\ F64.is_finite (target e) = true) ->
  snd (sum_of_errors_impl errf step d) = [F64.neg F64.zero].
Proof.
  intros out step d errf H R. apply all_reproduced_gives_zero. intros e He.
  destruct (reproduced_errors_zero out e (R e He)) as (E1 & E2 & E3 & E4).
  destruct H as [ -> | [ -> | [ -> | -> ] ] ]; assumption.
Qed.
Print Assumptions C05_all_reproduced_gives_zero.

(* ---- single-row data: the fitness is exactly minus the error ------------- *)
Theorem C05_single_row_fitness_is_minus_error : forall (errf : example -> f64) (e : example),
  F64.is_finite (errf e) = true -> (0 <= B2R (errf e))%R ->
  exists v, snd (soe_eval errf [e]) = [v] /\ F64.is_finite v = true /\ B2R v = (- B2R (errf e))%R.
Proof. exact single_row_fitness. Qed.
Print Assumptions C05_single_row_fitness_is_minus_error.

(* ---- dyn_slot / binary: minus the number of misclassified examples ------- *)
Theorem C05_count_is_minus_mismatches : forall tag (d d' : list example) (f : fitness),
  dyn_slot_eval tag d = Some (d', f) -> (Z.of_nat (length d) < 2 ^ 53)%Z ->
  exists v, f = [v] /\ F64.is_finite v = true /\
            B2R v = (- IZR (Z.of_nat (length (filter (cls_wrong tag) d))))%R.
Proof. exact count_is_minus_mismatches. Qed.
Print Assumptions C05_count_is_minus_mismatches.

Theorem C05_binary_is_minus_mismatches : forall out (d d' : list example) (f : fitness),
  binary_eval out d = Some (d', f) -> (Z.of_nat (length d) < 2 ^ 53)%Z ->
  exists v, f = [v] /\ F64.is_finite v = true /\
            B2R v = (- IZR (Z.of_nat (length (filter (cls_wrong (binary_tag out)) d))))%R.
Proof. intros out. exact (count_is_minus_mismatches (binary_tag out)). Qed.
Print Assumptions C05_binary_is_minus_mismatches.

Theorem C05_count_zero_iff_all_right : forall tag (d d' : list example) (f : fitness),
  dyn_slot_eval tag d = Some (d', f) -> (Z.of_nat (length d) < 2 ^ 53)%Z ->
  (f = [F64.neg F64.zero] <-> forall e, In e d -> cls_wrong tag e = false).
Proof. exact count_zero_iff_all_right. Qed.
Print Assumptions C05_count_zero_iff_all_right.

(* ---- gaussian: -n <= fitness <= 0, finite (never NaN) -------------------- *)
Theorem C05_gaussian_bounds : forall tag classes (d d' : list example) (f : fitness),
  (forall i, F64.is_finite (snd (tag i)) = true /\ (0 <= B2R (snd (tag i)) <= 1)%R) ->
  (2 <= classes <= 2 ^ 53)%Z -> (Z.of_nat (length d) < 2 ^ 53)%Z ->
  gaussian_eval tag classes d = Some (d', f) ->
  exists v, f = [v] /\ F64.is_finite v = true /\ (- IZR (Z.of_nat (length d)) <= B2R v <= 0)%R.
Proof. exact gaussian_bounds. Qed.
Print Assumptions C05_gaussian_bounds.

(* ---- the binary64 running mean of finite, non negative errors --------------
   Every intermediate average (the statement holds for every dataset, hence
   for every prefix) is finite, >= 0 and <= any double B that bounds the
   errors (take B = the greatest error): the guard added by the repair never
   fires and the fitness is exactly minus the running average. ------------- *)
Theorem C05_running_mean_finite : forall (B : f64) (errf : example -> f64) (step : nat) (d : list example),
  (0 <= B2R B)%R ->
  (forall e, In e d -> F64.is_finite (errf e) = true /\ (0 <= B2R (errf e) <= B2R B)%R) ->
  let avg := fst (snd (soe_loop errf step 0 d (F64.zero, F64.zero))) in
  F64.is_finite avg = true /\ (0 <= B2R avg <= B2R B)%R /\
  snd (sum_of_errors_impl errf step d) = [F64.neg avg].
Proof. exact running_mean_finite. Qed.
Print Assumptions C05_running_mean_finite.

(* no bound needed: finite errors are at most DBL_MAX *)
Theorem C05_running_mean_finite_all : forall (errf : example -> f64) (step : nat) (d : list example),
  (forall e, In e d -> F64.is_finite (errf e) = true /\ (0 <= B2R (errf e))%R) ->
  let avg := fst (snd (soe_loop errf step 0 d (F64.zero, F64.zero))) in
  F64.is_finite avg = true /\ (0 <= B2R avg)%R /\
  snd (sum_of_errors_impl errf step d) = [F64.neg avg].
Proof. exact running_mean_finite_all. Qed.
Print Assumptions C05_running_mean_finite_all.

(* ---- some example wrong (error not `issmall`, i.e. >= 2^-51) => the fitness
        is strictly negative, for ANY number of rows (the counter n saturates
        at 2^53, so err/n never underflows to zero). ------------------------- *)
Theorem C05_wrong_example_gives_negative_fitness : forall (B : f64) (errf : example -> f64) (d : list example),
  (0 <= B2R B)%R ->
  (forall e, In e d -> F64.is_finite (errf e) = true /\ (0 <= B2R (errf e) <= B2R B)%R) ->
  (exists e, In e d /\ negb (issmall (errf e)) = true) ->
  exists v, snd (soe_eval errf d) = [v] /\ F64.is_finite v = true /\ (B2R v < 0)%R.
Proof. exact wrong_gives_negative. Qed.
Print Assumptions C05_wrong_example_gives_negative_fitness.

(* still true without any finiteness hypothesis: the average is NaN or not
   negative at every step (this is what makes the guarded result non positive) *)
Theorem C05_running_mean_never_negative : forall (errf : example -> f64) (step : nat) (d : list example),
  (forall e, In e d -> nn (errf e)) ->
  nn (fst (snd (soe_loop errf step 0 d (F64.zero, F64.zero)))).
Proof.
  intros errf step d H. exact (proj1 (soe_loop_inv errf step d 0%nat _ H soe_inv_init)).
Qed.
Print Assumptions C05_running_mean_never_negative.

(* non-vacuity of the hypotheses above *)
Example C05_float_nonvacuous :
  (* a tag oracle meeting the gaussian hypothesis, on a dataset with a right and a wrong example *)
  let tag := fun i : list pout => (1%Z, one) in
  let d := [mk_example [PDouble one] (PInt 1) 0%N 0%N; mk_example [PDouble one] (PInt 0) 7%N 0%N] in
  (forall i, F64.is_finite (snd (tag i)) = true) /\
  option_map (fun r => (map ex_diff (fst r), map F64.to_bits (snd r))) (gaussian_eval tag 2 d)
    = Some ([0%N; 8%N], [F64.to_bits (F64.neg one)]) /\
  option_map (fun r => (map ex_diff (fst r), map F64.to_bits (snd r))) (dyn_slot_eval tag d)
    = Some ([0%N; 8%N], [F64.to_bits (F64.neg one)]).
Proof. repeat split; vm_compute; reflexivity. Qed.

Example C05_mean_nonvacuous :
  (* errors 0 (right) and 1 (wrong), bounded by B = 1: fitness -0.5 *)
  let out := fun i : list pout => match i with x :: _ => x | [] => PVoid end in
  let d := [mk_example [PDouble one] (PDouble one) 0%N 0%N; mk_example [PDouble two] (PDouble one) 0%N 0%N] in
  map F64.to_bits (map (mae_err out) d) = [0%Z; F64.to_bits one] /\
  map negb (map issmall (map (mae_err out) d)) = [false; true] /\
  map F64.to_bits (snd (soe_eval (mae_err out) d)) = [13826050856027422720%Z].     (* 0xBFE0... = -0.5 *)
Proof. repeat split; vm_compute; reflexivity. Qed.
