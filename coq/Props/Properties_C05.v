(* C05 -- Evaluators compute the documented standardized fitness.

   Model: coq/Eval/EvalDefs.v (hand-written mirror of
   kernel/gp/src/evaluator.tcc, kernel/ga/evaluator.tcc,
   kernel/constrained_evaluator.tcc; tied to the source by the
   correspondence check of checks/c05.py).  The program is an oracle
   [out : inputs -> void|int|double]; the dyn_slot / gaussian classifiers are
   an oracle [tag : inputs -> (label, sureness)].  Only statements here;
   proofs are in coq/Eval/*Proofs.v. *)
From Coq Require Import ZArith NArith QArith Reals List Bool.
From Flocq Require Import IEEE754.BinarySingleNaN.
From VV Require Import Lambda.LambdaDefs Lambda.LambdaFloat.
From VV Require Import Base.F64 Eval.EvalDefs Eval.EvalProofs Eval.EvalExactProofs Eval.EvalFloatProofs Eval.EvalMeanProofs
  Eval.EvalClassDefs Eval.EvalClassProofs Eval.EvalGlue.
Import ListNotations.

(* ================================================================ exact == *)
Section ExactLayer.
Local Open Scope Q_scope.

(* the update `avg += (err - avg) / ++n` computes the arithmetic mean *)
Theorem C05_running_mean_is_mean : forall errs : list Q, errs <> [] ->
  fst (q_running errs) == qmean errs.
Proof. exact running_mean_is_mean. Qed.
Print Assumptions C05_running_mean_is_mean.

Theorem C05_fitness_nonpositive : forall errs : list Q, errs <> [] ->
  Forall (fun e => 0 <= e) errs -> q_fitness errs <= 0.
Proof. exact fitness_nonpositive. Qed.
Print Assumptions C05_fitness_nonpositive.

Theorem C05_fitness_zero_iff_all_errors_zero : forall errs : list Q, errs <> [] ->
  Forall (fun e => 0 <= e) errs ->
  (q_fitness errs == 0 <-> Forall (fun e => e == 0) errs).
Proof. exact fitness_zero_iff_all_errors_zero. Qed.
Print Assumptions C05_fitness_zero_iff_all_errors_zero.

Example C05_exact_nonvacuous :
  q_fitness [1; 2; 6] == - (3) /\ q_fitness [0; 0] == 0 /\ ~ q_fitness [0; 1 # 2] == 0.
Proof. repeat split; vm_compute; discriminate. Qed.
End ExactLayer.

(* ============================================================= binary64 == *)
Local Open Scope Z_scope.

(* ---- each evaluation increments the difficulty of exactly the wrong
        examples; nothing else changes; order and length are preserved ---- *)
Theorem C05_difficulty_frame_errors : forall (errf : example -> f64) (d : list example),
  fst (soe_eval errf d) =
  map (fun e => if negb (issmall (errf e))
                then mk_example (ex_in e) (ex_out e) (N.modulo (ex_diff e + 1) two64) (ex_age e)
                else e) d.
Proof. exact soe_eval_frame. Qed.
Print Assumptions C05_difficulty_frame_errors.

(* fast() (1 example out of 5) and any other stride *)
Theorem C05_difficulty_frame_any_step : forall (errf : example -> f64) (step : nat) (d : list example),
  Forall2 (fun e e' => e' = e \/ (negb (issmall (errf e)) = true /\ e' = bump e))
          d (fst (sum_of_errors_impl errf step d)).
Proof. exact P_difficulty_frame_any_step. Qed.
Print Assumptions C05_difficulty_frame_any_step.

(* classification loops, for ANY tag function: what the loop leaves behind,
   exception included (label() throws std::bad_variant_access on an example
   whose output cell is not an integer: the examples before it keep their
   increments, that one and the following ones are untouched) *)
Theorem C05_difficulty_frame_classification : forall tag (d : list example),
  fst (dyn_slot_eval tag d) = frame_cls (cls_wrong tag) d /\
  (forall f, snd (dyn_slot_eval tag d) = Some f ->
     fst (dyn_slot_eval tag d) = map (fun e => if cls_wrong tag e then bump e else e) d).
Proof. exact P_difficulty_frame_classification. Qed.
Print Assumptions C05_difficulty_frame_classification.

Theorem C05_difficulty_frame_gaussian : forall tag classes (d : list example),
  fst (gaussian_eval tag classes d) = frame_cls (cls_wrong tag) d /\
  (forall f, snd (gaussian_eval tag classes d) = Some f ->
     fst (gaussian_eval tag classes d) = map (fun e => if cls_wrong tag e then bump e else e) d).
Proof. exact P_difficulty_frame_gaussian. Qed.
Print Assumptions C05_difficulty_frame_gaussian.

(* the loops complete exactly when every output cell is an integer label *)
Theorem C05_classification_total : forall tag d, Forall (fun e => label e <> None) d ->
  exists f, snd (dyn_slot_eval tag d) = Some f.
Proof. exact P_classification_total. Qed.
Print Assumptions C05_classification_total.

(* ---- ga_evaluator, constrained_evaluator ------------------------------- *)
Theorem C05_ga_nonfinite_is_empty : forall v, F64.is_finite v = false -> ga_eval v = [].
Proof. exact ga_nonfinite_is_empty. Qed.
Print Assumptions C05_ga_nonfinite_is_empty.

Theorem C05_ga_finite_is_value : forall v, F64.is_finite v = true -> ga_eval v = [v].
Proof. exact ga_finite_is_value. Qed.
Print Assumptions C05_ga_finite_is_value.

Theorem C05_constrained_prepends_minus_penalty : forall p base,
  constrained_eval p base = F64.neg p :: base.
Proof. exact constrained_prepends. Qed.
Print Assumptions C05_constrained_prepends_minus_penalty.

(* ---- an undefined output gets the documented penalty ------------------- *)
Theorem C05_undefined_output_gets_penalty : forall out e, out (ex_in e) = PVoid ->
  mae_err out e = F64.div dbl_max hundred /\ mse_err out e = F64.div dbl_max hundred /\
  rmae_err out e = two_hundred /\ count_err out e = one.
Proof. exact P_undefined_output_gets_penalty. Qed.
Print Assumptions C05_undefined_output_gets_penalty.

Example C05_penalty_values :
  F64.to_bits (F64.div dbl_max hundred) = 9188604247731475578 /\   (* 0x7F847AE147AE147A = DBL_MAX/100 *)
  F64.to_bits two_hundred = 4641240890982006784 /\ F64.to_bits one = 4607182418800017408.
Proof. repeat split; vm_compute; reflexivity. Qed.

(* ======================================= binary64: sign, NaN, zero, counts == *)
(* [B2R x] is the real value of a finite double (0 for NaN/infinities, hence
   always paired with [is_finite]). *)

(* ---- never NaN, never positive (indeed always finite) for the four error
        based evaluators, operator() and fast(), for ALL programs and ALL
        datasets: no hypothesis on outputs or targets (infinities and NaN
        cells included).  This is about the REPAIRED sum_of_errors_impl /
        rmae functor; the pinned ones are refuted in Refuted_C05.v. ---------- *)
Theorem C05_error_evaluators_never_nan_never_positive :
  forall (out : list pout -> pout) (step : nat) (d : list example) (errf : example -> f64),
  errf = mae_err out \/ errf = mse_err out \/ errf = rmae_err out \/ errf = count_err out ->
  exists v, snd (sum_of_errors_impl errf step d) = [v] /\
            F64.is_finite v = true /\ F64.is_nan v = false /\ (B2R v <= 0)%R.
Proof. exact P_error_evaluators_never_nan_never_positive. Qed.
Print Assumptions C05_error_evaluators_never_nan_never_positive.

(* any user supplied error functor that never returns a negative value *)
Theorem C05_sum_of_errors_never_nan_never_positive :
  forall (errf : example -> f64) (step : nat) (d : list example),
  (forall e, In e d -> F64.ltb (errf e) F64.zero = false) ->
  exists v, snd (sum_of_errors_impl errf step d) = [v] /\ F64.is_finite v = true /\ (B2R v <= 0)%R.
Proof. exact P_sum_of_errors_never_nan_never_positive. Qed.
Print Assumptions C05_sum_of_errors_never_nan_never_positive.

(* ---- every target reproduced => fitness is zero (bit pattern of -0.0) ---- *)
Theorem C05_all_reproduced_gives_zero :
  forall (out : list pout -> pout) (step : nat) (d : list example) (errf : example -> f64),
  errf = mae_err out \/ errf = mse_err out \/ errf = rmae_err out \/ errf = count_err out ->
  (forall e, In e d ->
     p_has_value (out (ex_in e)) = true /\ lex_double (out (ex_in e)) = target e /\ F64.is_finite (target e) = true) ->
  snd (sum_of_errors_impl errf step d) = [F64.neg F64.zero].
Proof. exact P_all_reproduced_gives_zero. Qed.
Print Assumptions C05_all_reproduced_gives_zero.

(* ---- single-row data: the fitness is exactly minus the error ------------- *)
Theorem C05_single_row_fitness_is_minus_error : forall (errf : example -> f64) (e : example),
  F64.is_finite (errf e) = true -> (0 <= B2R (errf e))%R ->
  exists v, snd (soe_eval errf [e]) = [v] /\ F64.is_finite v = true /\ B2R v = (- B2R (errf e))%R.
Proof. exact single_row_fitness. Qed.
Print Assumptions C05_single_row_fitness_is_minus_error.

(* ---- dyn_slot / binary: minus the number of misclassified examples ------- *)
Theorem C05_count_is_minus_mismatches : forall tag (d d' : list example) (f : fitness),
  dyn_slot_eval tag d = (d', Some f) -> (Z.of_nat (length d) < 2 ^ 53)%Z ->
  exists v, f = [v] /\ F64.is_finite v = true /\
            B2R v = (- IZR (Z.of_nat (length (filter (cls_wrong tag) d))))%R.
Proof. exact count_is_minus_mismatches. Qed.
Print Assumptions C05_count_is_minus_mismatches.

Theorem C05_binary_is_minus_mismatches : forall out (d d' : list example) (f : fitness),
  binary_eval out d = (d', Some f) -> (Z.of_nat (length d) < 2 ^ 53)%Z ->
  exists v, f = [v] /\ F64.is_finite v = true /\
            B2R v = (- IZR (Z.of_nat (length (filter (cls_wrong (EvalDefs.binary_tag out)) d))))%R.
Proof. exact P_binary_is_minus_mismatches. Qed.
Print Assumptions C05_binary_is_minus_mismatches.

Theorem C05_count_zero_iff_all_right : forall tag (d d' : list example) (f : fitness),
  dyn_slot_eval tag d = (d', Some f) -> (Z.of_nat (length d) < 2 ^ 53)%Z ->
  (f = [F64.neg F64.zero] <-> forall e, In e d -> cls_wrong tag e = false).
Proof. exact count_zero_iff_all_right. Qed.
Print Assumptions C05_count_zero_iff_all_right.

(* ---- gaussian: -n <= fitness <= 0, finite (never NaN) -------------------- *)
Theorem C05_gaussian_bounds : forall tag classes (d d' : list example) (f : fitness),
  (forall i, F64.is_finite (snd (tag i)) = true /\ (0 <= B2R (snd (tag i)) <= 1)%R) ->
  (2 <= classes <= 2 ^ 53)%Z -> (Z.of_nat (length d) < 2 ^ 53)%Z ->
  gaussian_eval tag classes d = (d', Some f) ->
  exists v, f = [v] /\ F64.is_finite v = true /\ (- IZR (Z.of_nat (length d)) <= B2R v <= 0)%R.
Proof. exact gaussian_bounds. Qed.
Print Assumptions C05_gaussian_bounds.

(* ---- the binary64 running mean of finite, non negative errors --------------
   Every intermediate average (the statement holds for every dataset, hence
   for every prefix) is finite, >= 0 and <= any double B that bounds the
   errors (take B = the greatest error): the guard added by the repair never
   fires and the fitness is exactly minus the running average. ------------- *)
Theorem C05_running_mean_finite : forall (B : f64) (errf : example -> f64) (step : nat) (d : list example),
  (0 <= B2R B)%R ->
  (forall e, In e d -> F64.is_finite (errf e) = true /\ (0 <= B2R (errf e) <= B2R B)%R) ->
  let avg := fst (snd (soe_loop errf step 0 d (F64.zero, F64.zero))) in
  F64.is_finite avg = true /\ (0 <= B2R avg <= B2R B)%R /\
  snd (sum_of_errors_impl errf step d) = [F64.neg avg].
Proof. exact running_mean_finite. Qed.
Print Assumptions C05_running_mean_finite.

(* no bound needed: finite errors are at most DBL_MAX *)
Theorem C05_running_mean_finite_all : forall (errf : example -> f64) (step : nat) (d : list example),
  (forall e, In e d -> F64.is_finite (errf e) = true /\ (0 <= B2R (errf e))%R) ->
  let avg := fst (snd (soe_loop errf step 0 d (F64.zero, F64.zero))) in
  F64.is_finite avg = true /\ (0 <= B2R avg)%R /\
  snd (sum_of_errors_impl errf step d) = [F64.neg avg].
Proof. exact running_mean_finite_all. Qed.
Print Assumptions C05_running_mean_finite_all.

(* ---- some example wrong (error not `issmall`, i.e. >= 2^-51) => the fitness
        is strictly negative, for ANY number of rows (the counter n saturates
        at 2^53, so err/n never underflows to zero). ------------------------- *)
Theorem C05_wrong_example_gives_negative_fitness : forall (B : f64) (errf : example -> f64) (d : list example),
  (0 <= B2R B)%R ->
  (forall e, In e d -> F64.is_finite (errf e) = true /\ (0 <= B2R (errf e) <= B2R B)%R) ->
  (exists e, In e d /\ negb (issmall (errf e)) = true) ->
  exists v, snd (soe_eval errf d) = [v] /\ F64.is_finite v = true /\ (B2R v < 0)%R.
Proof. exact wrong_gives_negative. Qed.
Print Assumptions C05_wrong_example_gives_negative_fitness.

(* still true without any finiteness hypothesis: the average is NaN or not
   negative at every step (this is what makes the guarded result non positive) *)
Theorem C05_running_mean_never_negative : forall (errf : example -> f64) (step : nat) (d : list example),
  (forall e, In e d -> nn (errf e)) ->
  nn (fst (snd (soe_loop errf step 0 d (F64.zero, F64.zero)))).
Proof. exact P_running_mean_never_negative. Qed.
Print Assumptions C05_running_mean_never_negative.

(* non-vacuity of the hypotheses above *)
Example C05_float_nonvacuous :
  (* a tag oracle meeting the gaussian hypothesis, on a dataset with a right and a wrong example *)
  let tag := fun i : list pout => (1%Z, one) in
  let d := [mk_example [PDouble one] (PInt 1) 0%N 0%N; mk_example [PDouble one] (PInt 0) 7%N 0%N] in
  (forall i, F64.is_finite (snd (tag i)) = true) /\
  (map ex_diff (fst (gaussian_eval tag 2 d)), option_map (map F64.to_bits) (snd (gaussian_eval tag 2 d)))
    = ([0%N; 8%N], Some [F64.to_bits (F64.neg one)]) /\
  (map ex_diff (fst (dyn_slot_eval tag d)), option_map (map F64.to_bits) (snd (dyn_slot_eval tag d)))
    = ([0%N; 8%N], Some [F64.to_bits (F64.neg one)]) /\
  (* an exception in the middle: the first (wrong) example keeps its increment *)
  (map ex_diff (fst (dyn_slot_eval tag (mk_example [] (PInt 0) 1%N 0%N :: mk_example [] PVoid 5%N 0%N :: d))),
   snd (dyn_slot_eval tag (mk_example [] (PInt 0) 1%N 0%N :: mk_example [] PVoid 5%N 0%N :: d)))
    = ([2%N; 5%N; 0%N; 7%N], None).
Proof. repeat split; vm_compute; reflexivity. Qed.

Example C05_mean_nonvacuous :
  (* errors 0 (right) and 1 (wrong), bounded by B = 1: fitness -0.5 *)
  let out := fun i : list pout => match i with x :: _ => x | [] => PVoid end in
  let d := [mk_example [PDouble one] (PDouble one) 0%N 0%N; mk_example [PDouble two] (PDouble one) 0%N 0%N] in
  map F64.to_bits (map (mae_err out) d) = [0%Z; F64.to_bits one] /\
  map negb (map issmall (map (mae_err out) d)) = [false; true] /\
  map F64.to_bits (snd (soe_eval (mae_err out) d)) = [13826050856027422720%Z].     (* 0xBFE0... = -0.5 *)
Proof. repeat split; vm_compute; reflexivity. Qed.

(* ============================ the evaluators on the REAL classifiers ==========
   dyn_slot_evaluator / gaussian_evaluator build their classifier from the
   program and the dataset (model: C08's coq/Lambda/LambdaDefs.v; libm's atan
   and exp are parameters) and score the tag() of that very object. *)

(* a completed dyn_slot evaluation: the fitness is minus the number of examples
   that the dyn_slot model built from THIS dataset misclassifies, and exactly
   those examples have their difficulty incremented *)
Theorem C05_dyn_slot_real_counts_model_mismatches :
  forall (libm_atan : f64 -> f64) (out : list pout -> pout) (classes x_slot : nat) (d d' : list example) (f : fitness),
  dyn_slot_eval_real libm_atan out classes x_slot d = Done d' f -> (Z.of_nat (length d) < 2 ^ 53)%Z ->
  exists tr m v, train_of out classes d = Built tr /\ dyn_build libm_atan classes x_slot tr = Some m /\
    d' = map (fun e => if cls_wrong (dyn_tag_fn libm_atan out m) e then bump e else e) d /\
    f = [v] /\ F64.is_finite v = true /\
    B2R v = (- IZR (Z.of_nat (length (filter (cls_wrong (dyn_tag_fn libm_atan out m)) d))))%R.
Proof. exact dyn_slot_real_counts. Qed.
Print Assumptions C05_dyn_slot_real_counts_model_mismatches.

(* a non integer label makes the constructors throw before anything is touched *)
Theorem C05_real_constructor_throw_leaves_dataset :
  forall (libm_atan libm_exp : f64 -> f64) (out : list pout -> pout) (classes x_slot : nat) (d : list example),
  train_of out classes d = BuildThrows ->
  dyn_slot_eval_real libm_atan out classes x_slot d = Thrown d /\
  gaussian_eval_real libm_exp out classes d = Thrown d /\
  exists e, In e d /\ label e = None.
Proof. exact real_constructor_throw. Qed.
Print Assumptions C05_real_constructor_throw_leaves_dataset.

(* binary_evaluator has no constructor pass: an exception in the loop keeps the
   increments already made; it never indexes a table (negative or huge labels
   are merely never equal to a tag) *)
Theorem C05_binary_real_frame : forall (out : list pout -> pout) (d : list example),
  match binary_eval_real out d with
  | Done d' _ => d' = map (fun e => if cls_wrong (EvalDefs.binary_tag out) e then bump e else e) d /\
                 Forall (fun e => label e <> None) d
  | Thrown d' => d' = frame_cls (cls_wrong (EvalDefs.binary_tag out)) d /\ exists e, In e d /\ label e = None
  | Undefined => False
  end.
Proof. exact binary_real_frame. Qed.
Print Assumptions C05_binary_real_frame.

(* gaussian on the real classifier: finite, in [-n, 0], exactly the
   misclassified examples bumped.
   Hypotheses (C08's): H_libm -- exp(NaN) is NaN, exp(x) in [0,1] for x <= 0;
   the per-class variances of the built model are NaN (empty class) or >= 0
   (C08's open gap: Welford's m2 >= 0 under binary64 rounding). *)
Theorem C05_gaussian_real_bounds :
  forall (libm_exp : f64 -> f64) (out : list pout -> pout),
  (forall x : f64, is_nan x = true -> is_nan (libm_exp x) = true) ->
  (forall x : f64, F64.leb x F64.zero = true -> le01 (libm_exp x)) ->
  forall (classes : nat) (d d' : list example) (f : fitness),
  gaussian_eval_real libm_exp out classes d = Done d' f ->
  (forall g tr, train_of out classes d = Built tr -> gauss_build classes tr = Some g ->
                Forall (fun mv => var_ok (snd mv)) (gauss_stats g)) ->
  (2 <= Z.of_nat classes <= 2 ^ 53)%Z -> (Z.of_nat (length d) < 2 ^ 53)%Z ->
  exists tr g v, train_of out classes d = Built tr /\ gauss_build classes tr = Some g /\
    d' = map (fun e => if cls_wrong (gauss_tag_fn libm_exp out g) e then bump e else e) d /\
    f = [v] /\ F64.is_finite v = true /\ (- IZR (Z.of_nat (length d)) <= B2R v <= 0)%R.
Proof. exact gaussian_real_bounds. Qed.
Print Assumptions C05_gaussian_real_bounds.

(* =============================== lexical_cast and the exception path ==========
   lexical_cast<D_DOUBLE>(value_t) (utility.cc): double -> itself, int ->
   converted, string -> std::stod (a string cell carries what stod answers on
   it: a double, or "throws"), empty -> 0.0 (only reachable if the has_value
   test is skipped: the functors test has_value first). *)
Theorem C05_lexical_cast_alternatives : forall (d : f64) (z : Z) (s : list Z) (v : f64) (p : pout),
  lex_double (PDouble d) = d /\ lex_double (PInt z) = F64.of_Z z /\
  lex_double (PString s (Some v)) = v /\ lex_double PVoid = F64.zero /\
  (lex_throws p = true <-> exists s', p = PString s' None).
Proof. exact P_lexical_cast_alternatives. Qed.
Print Assumptions C05_lexical_cast_alternatives.

(* when no example makes the functor throw, the evaluation with the exception
   path IS the total one: every theorem above applies to it *)
Theorem C05_no_exception_same_as_total : forall (throws : example -> bool) (errf : example -> f64) (step : nat) (d : list example),
  (forall e, In e d -> throws e = false) ->
  sum_of_errors_impl_x throws errf step d =
  (fst (sum_of_errors_impl errf step d), Some (snd (sum_of_errors_impl errf step d))).
Proof. exact P_no_exception_same_as_total. Qed.
Print Assumptions C05_no_exception_same_as_total.

(* operator(): the evaluation throws exactly when some example makes the
   functor throw; the examples before the first such one have been processed
   (bumped iff wrong), that one and the following ones are untouched *)
Theorem C05_exception_frame : forall (throws : example -> bool) (errf : example -> f64) (d : list example),
  fst (sum_of_errors_impl_x throws errf 1 d) = frame_x throws (fun e => negb (issmall (errf e))) d /\
  (snd (sum_of_errors_impl_x throws errf 1 d) = None <-> existsb throws d = true).
Proof. exact P_exception_frame. Qed.
Print Assumptions C05_exception_frame.

(* any stride (fast()): nothing but difficulty increments of wrong examples,
   and an exception has a culprit *)
Theorem C05_exception_frame_any_step : forall (throws : example -> bool) (errf : example -> f64) (step : nat) (d : list example),
  Forall2 (fun e e' => e' = e \/ (negb (issmall (errf e)) = true /\ e' = bump e))
          d (fst (sum_of_errors_impl_x throws errf step d)) /\
  (snd (sum_of_errors_impl_x throws errf step d) = None -> exists e, In e d /\ throws e = true).
Proof. exact P_exception_frame_any_step. Qed.
Print Assumptions C05_exception_frame_any_step.

Example C05_exception_nonvacuous :
  (* mae, identity program: wrong row, then a non numeric string, then a row that stays untouched *)
  let out := fun i : list pout => match i with x :: _ => x | [] => PVoid end in
  let d := [mk_example [PDouble two] (PDouble one) 1%N 0%N;
            mk_example [PString [97%Z] None] (PDouble one) 2%N 0%N;
            mk_example [PDouble two] (PDouble one) 3%N 0%N] in
  let r := sum_of_errors_impl_x (err_throws out) (mae_err out) 1 d in
  (map ex_diff (fst r), snd r) = ([2%N; 2%N; 3%N], None) /\
  (* a numeric string behaves as its value: "1" parsed as 1.0 against target 1.0 *)
  option_map (map F64.to_bits)
    (snd (sum_of_errors_impl_x (err_throws out) (mae_err out) 1 [mk_example [PString [49%Z] (Some one)] (PDouble one) 0%N 0%N]))
    = Some [F64.to_bits (F64.neg F64.zero)].
Proof. split; vm_compute; reflexivity. Qed.

(* ================================ two-sided bound and accuracy of the mean ==== *)
(* operator() on a non empty dataset whose errors are finite and lie between the
   doubles A and B (take the least and the greatest error): every running
   average -- the statement holds for every dataset, hence every prefix -- lies
   in [A, B]; the fitness is minus it *)
Theorem C05_running_mean_two_sided : forall (A B : f64) (errf : example -> f64) (d : list example),
  d <> [] -> (0 <= B2R A)%R ->
  (forall e, In e d -> F64.is_finite (errf e) = true /\ (B2R A <= B2R (errf e) <= B2R B)%R) ->
  let avg := fst (snd (soe_loop errf 1 0 d (F64.zero, F64.zero))) in
  F64.is_finite avg = true /\ (B2R A <= B2R avg <= B2R B)%R /\ snd (soe_eval errf d) = [F64.neg avg].
Proof. exact running_mean_two_sided. Qed.
Print Assumptions C05_running_mean_two_sided.

(* [Rmean l] = (sum of l) / (length l) over the reals: the documented mean *)
Theorem C05_running_mean_accuracy_coarse : forall (A B : f64) (errf : example -> f64) (d : list example),
  d <> [] -> (0 <= B2R A)%R ->
  (forall e, In e d -> F64.is_finite (errf e) = true /\ (B2R A <= B2R (errf e) <= B2R B)%R) ->
  let avg := fst (snd (soe_loop errf 1 0 d (F64.zero, F64.zero))) in
  (Rabs (B2R avg - Rmean (map (fun e => B2R (errf e)) d)) <= B2R B - B2R A)%R.
Proof. exact running_mean_accuracy_coarse. Qed.
Print Assumptions C05_running_mean_accuracy_coarse.

(* the documented fitness is "minus the mean": distance between the binary64
   running mean and the exact mean of the same errors, for n < 2^53 rows with
   errors in [0, B]:   |avg - mean| <= (n + 1)/2 * 3 * (2^-53 * B + 2^-1075)
   (u53 = 2^-53, heta = 2^-1075: one rounding is off by at most u53*|t| + heta,
   an iteration makes three, and the recurrence damps old errors by (k-1)/k) *)
Theorem C05_running_mean_accuracy : forall (B : f64) (errf : example -> f64) (d : list example),
  d <> [] -> (0 <= B2R B)%R ->
  (forall e, In e d -> F64.is_finite (errf e) = true /\ (0 <= B2R (errf e) <= B2R B)%R) ->
  (Z.of_nat (length d) < 2 ^ 53)%Z ->
  let avg := fst (snd (soe_loop errf 1 0 d (F64.zero, F64.zero))) in
  (Rabs (B2R avg - Rmean (map (fun e => B2R (errf e)) d)) <=
   (INR (length d) + 1) / 2 * (3 * (u53 * B2R B + heta)))%R.
Proof. exact running_mean_accuracy. Qed.
Print Assumptions C05_running_mean_accuracy.

Example C05_accuracy_constants : u53 = (/ 2 * / 4503599627370496)%R /\ (0 < heta)%R.
Proof.
  split.
  - unfold u53. f_equal.
  - unfold heta. assert (0 < Flocq.Core.Raux.bpow Flocq.Core.Zaux.radix2 (-1074))%R by apply Flocq.Core.Raux.bpow_gt_0.
    apply Rmult_lt_0_compat; [apply Rinv_0_lt_compat, Rlt_0_2|assumption].
Qed.

(* ================================================ test_evaluator (debug) ====== *)
(* type `distinct`: asking again for the fitness of a program gives the same
   answer and does not grow the buffer (T::operator== reflexive on it) *)
Theorem C05_test_distinct_time_invariant : forall (prog : Type) (eqb : prog -> prog -> bool) (buf : list prog) (p : prog),
  eqb p p = true ->
  test_distinct prog eqb (fst (test_distinct prog eqb buf p)) p =
  (fst (test_distinct prog eqb buf p), snd (test_distinct prog eqb buf p)).
Proof. exact P_test_distinct_time_invariant. Qed.
Print Assumptions C05_test_distinct_time_invariant.

Example C05_test_distinct_example :
  map (map F64.to_bits) (test_distinct_run Z Z.eqb [] [5; 3; 5; 1; 3]%Z)
  = map (fun z => [F64.to_bits (F64.of_Z z)]) [0; 1; 0; 2; 1]%Z.
Proof. vm_compute. reflexivity. Qed.

(* ======================================================== TEAM programs ========
   Every theorem above quantifies over the output oracle [out]; for a
   team<T> the oracle is [fun i => team_out (map (fun member => member i) members)]
   (running mean of the members' defined outputs, C08's team_eval), and for the
   classification evaluators the tag function is the winner-takes-all of the
   members' classifiers (dyn_slot_eval_team / gaussian_eval_team /
   binary_eval_team instantiate the generic loops).  Witness of the shape of
   seeded change C05-r3-1: two members yielding 1.5e308 (their sum overflows,
   their mean does not) reproduce the target 1.5e308 exactly. *)
Example C05_team_huge_members_reproduce_target :
  let big := F64.of_bits 9216995797984332016 in                    (* 0x7feab36d48e1acf0 = 1.5e308 *)
  let members := [fun i : list pout => nth 0 i PVoid; fun i : list pout => nth 1 i PVoid] in
  let out := fun i : list pout => team_out (map (fun m => m i) members) in
  let d := [mk_example [PDouble big; PDouble big] (PDouble big) 7%N 0%N;
            mk_example [PVoid; PVoid] (PDouble one) 2%N 0%N] in
  match out [PDouble big; PDouble big] with PDouble v => F64.to_bits v = F64.to_bits big | _ => False end /\
  out [PVoid; PVoid] = PVoid /\
  (map ex_diff (fst (soe_eval (mae_err out) [hd (mk_example [] PVoid 0%N 0%N) d])),
   map F64.to_bits (snd (soe_eval (mae_err out) [hd (mk_example [] PVoid 0%N 0%N) d])))
  = ([7%N], [F64.to_bits (F64.neg F64.zero)]) /\
  map ex_diff (fst (soe_eval (count_err out) d)) = [7%N; 3%N].
Proof. repeat split; vm_compute; reflexivity. Qed.
