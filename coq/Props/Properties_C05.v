(* C05 -- Evaluators compute the documented standardized fitness.

   Model: coq/Eval/EvalDefs.v (hand-written mirror of
   kernel/gp/src/evaluator.tcc, kernel/ga/evaluator.tcc,
   kernel/constrained_evaluator.tcc; tied to the source by the
   correspondence check of checks/c05.py).  The program is an oracle
   [out : inputs -> void|int|double]; the dyn_slot / gaussian classifiers are
   an oracle [tag : inputs -> (label, sureness)].  Only statements here;
   proofs are in coq/Eval/*Proofs.v. *)
From Coq Require Import ZArith NArith QArith List Bool.
From VV Require Import Base.F64 Eval.EvalDefs Eval.EvalProofs Eval.EvalExactProofs.
Import ListNotations.

(* ================================================================ exact == *)
Section ExactLayer.
Local Open Scope Q_scope.

(* the update `avg += (err - avg) / ++n` computes the arithmetic mean *)
Theorem C05_running_mean_is_mean : forall errs : list Q, errs <> [] ->
  fst (q_running errs) == qmean errs.
Proof. exact running_mean_is_mean. Qed.
Print Assumptions C05_running_mean_is_mean.

Theorem C05_fitness_nonpositive : forall errs : list Q, errs <> [] ->
  Forall (fun e => 0 <= e) errs -> q_fitness errs <= 0.
Proof. exact fitness_nonpositive. Qed.
Print Assumptions C05_fitness_nonpositive.

Theorem C05_fitness_zero_iff_all_errors_zero : forall errs : list Q, errs <> [] ->
  Forall (fun e => 0 <= e) errs ->
  (q_fitness errs == 0 <-> Forall (fun e => e == 0) errs).
Proof. exact fitness_zero_iff_all_errors_zero. Qed.
Print Assumptions C05_fitness_zero_iff_all_errors_zero.

Example C05_exact_nonvacuous :
  q_fitness [1; 2; 6] == - (3) /\ q_fitness [0; 0] == 0 /\ ~ q_fitness [0; 1 # 2] == 0.
Proof. repeat split; vm_compute; discriminate. Qed.
End ExactLayer.

(* ============================================================= binary64 == *)
Local Open Scope Z_scope.

(* ---- each evaluation increments the difficulty of exactly the wrong
        examples; nothing else changes; order and length are preserved ---- *)
Theorem C05_difficulty_frame_errors : forall (errf : example -> f64) (d : list example),
  fst (soe_eval errf d) =
  map (fun e => if negb (issmall (errf e))
                then mk_example (ex_in e) (ex_out e) (N.modulo (ex_diff e + 1) two64) (ex_age e)
                else e) d.
Proof. exact soe_eval_frame. Qed.
Print Assumptions C05_difficulty_frame_errors.

(* fast() (1 example out of 5) and any other stride *)
Theorem C05_difficulty_frame_any_step : forall (errf : example -> f64) (step : nat) (d : list example),
  Forall2 (fun e e' => e' = e \/ (negb (issmall (errf e)) = true /\ e' = bump e))
          d (fst (sum_of_errors_impl errf step d)).
Proof.
  intros errf step d. unfold sum_of_errors_impl.
  pose proof (soe_loop_frame errf step d 0%nat (F64.zero, F64.zero)) as H.
  destruct (soe_loop errf step 0 d (F64.zero, F64.zero)). exact H.
Qed.
Print Assumptions C05_difficulty_frame_any_step.

Theorem C05_difficulty_frame_classification : forall tag (d d' : list example) (f : fitness),
  dyn_slot_eval tag d = Some (d', f) ->
  d' = map (fun e => if cls_wrong tag e then bump e else e) d.
Proof.
  intros tag d d' f H. unfold dyn_slot_eval, count_eval in H.
  destruct (count_loop tag d F64.zero) as [[r err]|] eqn:E; [|discriminate].
  injection H as <- _. exact (count_loop_frame tag d F64.zero (r, err) E).
Qed.
Print Assumptions C05_difficulty_frame_classification.

Theorem C05_difficulty_frame_gaussian : forall tag classes (d d' : list example) (f : fitness),
  gaussian_eval tag classes d = Some (d', f) ->
  d' = map (fun e => if cls_wrong tag e then bump e else e) d.
Proof.
  intros tag classes d d' f H. unfold gaussian_eval in H.
  destruct (gaussian_loop tag (gaussian_scale classes) d F64.zero) as [[r v]|] eqn:E; [|discriminate].
  injection H as <- _. exact (gaussian_loop_frame tag _ d F64.zero (r, v) E).
Qed.
Print Assumptions C05_difficulty_frame_gaussian.

(* the classification loops only fail (std::bad_variant_access) on an example
   whose output cell is not an integer label *)
Theorem C05_classification_total : forall tag d, Forall (fun e => label e <> None) d ->
  exists r, dyn_slot_eval tag d = Some r.
Proof.
  intros tag d H. unfold dyn_slot_eval, count_eval.
  destruct (count_loop_total tag d F64.zero H) as [[r err] ->]. eexists; reflexivity.
Qed.
Print Assumptions C05_classification_total.

(* ---- ga_evaluator, constrained_evaluator ------------------------------- *)
Theorem C05_ga_nonfinite_is_empty : forall v, F64.is_finite v = false -> ga_eval v = [].
Proof. exact ga_nonfinite_is_empty. Qed.
Print Assumptions C05_ga_nonfinite_is_empty.

Theorem C05_ga_finite_is_value : forall v, F64.is_finite v = true -> ga_eval v = [v].
Proof. exact ga_finite_is_value. Qed.
Print Assumptions C05_ga_finite_is_value.

Theorem C05_constrained_prepends_minus_penalty : forall p base,
  constrained_eval p base = F64.neg p :: base.
Proof. exact constrained_prepends. Qed.
Print Assumptions C05_constrained_prepends_minus_penalty.

(* ---- an undefined output gets the documented penalty ------------------- *)
Theorem C05_undefined_output_gets_penalty : forall out e, out (ex_in e) = PVoid ->
  mae_err out e = F64.div dbl_max hundred /\ mse_err out e = F64.div dbl_max hundred /\
  rmae_err out e = two_hundred /\ count_err out e = one.
Proof.
  intros out e H. repeat split;
  [exact (undefined_mae out e H)|exact (undefined_mse out e H)|exact (undefined_rmae out e H)|exact (undefined_count out e H)].
Qed.
Print Assumptions C05_undefined_output_gets_penalty.

Example C05_penalty_values :
  F64.to_bits (F64.div dbl_max hundred) = 9188604247731475578 /\   (* 0x7F847AE147AE147A = DBL_MAX/100 *)
  F64.to_bits two_hundred = 4641240890982006784 /\ F64.to_bits one = 4607182418800017408.
Proof. repeat split; vm_compute; reflexivity. Qed.
