(* C11 -- the trained models.

   Imported corollaries: the token-level model of serialize::save /
   serialize::lambda::load (SERIALIZE_ID dispatch, one printer/parser per model
   kind) and its proofs belong to C08 (coq/Lambda/LambdaSerialDefs.v,
   coq/Lambda/LambdaSerial.v, tied to lambda_f.cc/.tcc by C08's own
   correspondence check; numbers travel through the decimal / 17-digit text of
   C11's codec).  For EVERY well-formed model of every kind, loading what save
   printed gives back the model itself, hence the same prediction on EVERY
   input; the slot matrix and the slot classes of a dyn_slot model survive.
   ./check C11 replays these statements on the real models: 11 kinds, training
   rows and many unseen / extreme queries, save(load(save)) bytes. *)
From Coq Require Import ZArith List Bool.
From VV Require Import Base.F64 Lambda.LambdaDefs Lambda.LambdaSerialDefs Lambda.LambdaSerial.
Import ListNotations.
Local Open Scope Z_scope.

Theorem C11_model_load_of_save_is_the_model : forall (ind : Type) (m : smodel ind) rest, wf_model ind m ->
  load_model ind (save_model ind m ++ rest) = Some (m, rest).
Proof. exact load_save. Qed.
Print Assumptions C11_model_load_of_save_is_the_model.

Theorem C11_model_identical_predictions_after_reload :
  forall (ind : Type) libm_atan libm_exp run (m : smodel ind) rest m' rest',
  wf_model ind m ->
  load_model ind (save_model ind m ++ rest) = Some (m', rest') ->
  rest' = rest /\ spredict ind libm_atan libm_exp run m' = spredict ind libm_atan libm_exp run m.
Proof. exact predict_load_save. Qed.
Print Assumptions C11_model_identical_predictions_after_reload.

Theorem C11_model_dyn_tables_roundtrip : forall d dsize,
  length (dm_matrix d) = dm_ns d -> Forall (fun r => length r = dm_classes d) (dm_matrix d) ->
  dyn_of_sdyn (sdyn_of_dyn d dsize) = d.
Proof. exact dyn_of_sdyn_of_dyn. Qed.
Print Assumptions C11_model_dyn_tables_roundtrip.
