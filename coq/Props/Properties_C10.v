(* C10 -- Dataset import is memory-safe on malformed input.

   Statements only; proofs are [exact lemma] (Csv/SafeProofs.v).  The model
   Csv/CsvDefs.v is in checked form: every vector access of the C++ readers
   is [get site v i] and a std::rotate carries its bound, so [OOB site] is an
   out-of-bounds access; [Exn] is a C++ exception escaping the reader.  The
   theorems are about the REPAIRED tree (variant [fixed_v]); the witnesses
   for the pinned tree are in Props/Refuted_C10.v.

   PARTIAL BY NATURE (C10_*_partial): what is proved is the index arithmetic
   and control flow of the readers, for ALL byte strings / DOM trees, ALL
   reading parameters, ALL filter hooks and ALL behaviours of strtod/stod/stoi.
   Undefined behaviour inside std::string, tinyxml2 or the allocator, and
   leaks, are outside any Gallina model: they are searched for (not proved
   absent) by running the malformed stream under ASan/UBSan/LSan.
   Termination is structural (every model function is a Fixpoint on its input). *)
From Coq Require Import ZArith List Bool.
From VV Require Import Csv.CsvDefs Csv.SafeProofs Csv.HistoryDefs Csv.HistoryProofs Csv.StateDefs Csv.StateProofs.
Import ListNotations.
Local Open Scope Z_scope.

(* full statement of the property: "for any byte sequence given as CSV input and
   any admissible parameters, reading terminates and either raises a standard
   exception or returns a frame that passes its own consistency check with every
   example having the same number of inputs; it never reads or writes out of
   bounds, leaks, or otherwise executes undefined behaviour" *)
Theorem C10_read_csv_total_safe_partial :
  forall (is_number : bytes -> bool) (stod stoi : bytes -> conv) (text : bytes) (p : params),
    safe (read_csv is_number stod stoi fixed_v text p)
    /\ (forall df, read_csv is_number stod stoi fixed_v text p = Ok df ->
          is_valid df = Ok true /\ dataset df <> [] /\ uniform_input_width df).
Proof. exact read_csv_total_safe_lemma. Qed.
Print Assumptions C10_read_csv_total_safe_partial.

(* XRFF over ANY DOM tree: exception, return 0, or n > 0 examples of a valid
   frame with uniform width *)
Theorem C10_read_xrff_total_safe_partial :
  forall (is_number : bytes -> bool) (stod stoi : bytes -> conv) (dom : xdom) (flt : filter_t),
    safe (read_xrff is_number stod stoi fixed_v dom flt)
    /\ (forall df n, read_xrff is_number stod stoi fixed_v dom flt = Ok (df, n) ->
          n = 0%nat \/ (n = length (dataset df) /\ is_valid df = Ok true /\ uniform_input_width df)).
Proof. exact read_xrff_total_safe_lemma. Qed.
Print Assumptions C10_read_xrff_total_safe_partial.

(* src_problem(stream): after ANY successful read, setting up the terminals and
   running ANY generated variable on ANY stored example stays in bounds *)
Theorem C10_terminals_fetch_safe_partial :
  forall (is_number : bytes -> bool) (stod stoi : bytes -> conv) (text : bytes) (p : params) df strong,
    read_csv is_number stod stoi fixed_v text p = Ok df ->
    safe (setup_terminals fixed_v (columns df) strong) /\
    (forall vars, setup_terminals fixed_v (columns df) strong = Ok vars ->
       forall vi e, In vi vars -> In e (dataset df) ->
         (v_id vi < length (e_input e))%nat /\ safe (run_variable vi e)).
Proof. exact terminals_fetch_safe_lemma. Qed.
Print Assumptions C10_terminals_fetch_safe_partial.

(* READS ON A FRAME THAT ALREADY HAS STATE (dataframe::clear() keeps columns and class map):
   for ANY existing frame, text, parameters -- the output index is an unbounded nat, i.e.
   every std::size_t value up to SIZE_MAX: the repaired code only compares it with
   record.size() before using it -- the read never goes out of bounds. *)
Theorem C10_read_csv_on_total_safe_partial :
  forall is_number stod stoi (df0 : dataframe) (text : bytes) (p : params),
  safe (read_csv_on is_number stod stoi fixed_v df0 text p)
  /\ (forall df, read_csv_on is_number stod stoi fixed_v df0 text p = Ok df ->
        is_valid df = Ok true /\ dataset df <> [] /\ uniform_input_width df).
Proof. exact read_csv_on_total_safe_lemma. Qed.
Print Assumptions C10_read_csv_on_total_safe_partial.

(* read_xrff on ANY existing frame and ANY DOM; [uint_max] is the value of the unsigned
   `index - 1` when the attribute list is empty (0u - 1): the theorem holds for EVERY value,
   in particular 2^32 - 1. *)
Theorem C10_read_xrff_on_total_safe_partial :
  forall is_number stod stoi uint_max (df0 : dataframe) (dom : xdom) (flt : filter_t),
  safe (read_xrff_on is_number stod stoi uint_max fixed_v df0 dom flt)
  /\ (forall df n, read_xrff_on is_number stod stoi uint_max fixed_v df0 dom flt = Ok (df, n) ->
        n = 0%nat \/ (n = length (dataset df) /\ is_valid df = Ok true /\ uniform_input_width df)).
Proof. exact read_xrff_on_total_safe_lemma. Qed.
Print Assumptions C10_read_xrff_on_total_safe_partial.

(* any sequence of CSV / XRFF reads on one object *)
Theorem C10_run_history_safe_partial :
  forall is_number stod stoi uint_max (steps : list read_step) (df0 : dataframe),
  safe (run_history is_number stod stoi uint_max fixed_v df0 steps).
Proof. exact run_history_safe_lemma. Qed.
Print Assumptions C10_run_history_safe_partial.

(* on a fresh frame the history readers ARE the plain readers *)
Theorem C10_history_readers_extend_plain :
  (forall is_number stod stoi v text p, read_csv_on is_number stod stoi v empty_df text p = read_csv is_number stod stoi v text p)
  /\ (forall is_number stod stoi uint_max v dom flt,
        read_xrff_on is_number stod stoi uint_max v empty_df dom flt = read_xrff is_number stod stoi v dom flt).
Proof. exact (conj read_csv_on_empty read_xrff_on_empty). Qed.
Print Assumptions C10_history_readers_extend_plain.

(* HISTORIES THAT GO ON AFTER A FAILING READ.  Csv/StateDefs.v returns the frame a throwing
   read leaves behind (which members were already cleared / filled, following dataframe.cc:
   missing <attributes> throws before clear(); a throwing record keeps the class-map entry and
   the states inserted before the failing cell; the final insufficient_data keeps all the
   examples; ...) and [run_history_st] continues with it.  For ANY sequence of CSV/XRFF reads
   on one object, ANY start frame, ANY DOMs / texts / parameters / uint_max: no read of the
   history -- in particular none of those after a failure -- goes out of bounds. *)
Theorem C10_run_history_st_safe_partial :
  forall is_number stod stoi uint_max steps df0,
  no_oob (snd (run_history_st is_number stod stoi uint_max fixed_v df0 steps)).
Proof. exact run_history_st_safe_lemma. Qed.
Print Assumptions C10_run_history_st_safe_partial.

(* whatever the earlier reads did, a read that returns normally returns a valid frame *)
Theorem C10_read_csv_st_ok_partial :
  forall is_number stod stoi df0 text p df n,
  read_csv_st is_number stod stoi fixed_v df0 text p = (df, Ok n) ->
  n = length (dataset df) /\ is_valid df = Ok true /\ dataset df <> [] /\ uniform_input_width df.
Proof. exact read_csv_st_ok_lemma. Qed.
Print Assumptions C10_read_csv_st_ok_partial.

Theorem C10_read_xrff_st_ok_partial :
  forall is_number stod stoi uint_max df0 dom flt df n,
  read_xrff_st is_number stod stoi uint_max fixed_v df0 dom flt = (df, Ok n) ->
  n = 0%nat \/ (n = length (dataset df) /\ is_valid df = Ok true /\ uniform_input_width df).
Proof. exact read_xrff_st_ok_lemma. Qed.
Print Assumptions C10_read_xrff_st_ok_partial.

(* the state-returning readers refine the plain ones (any variant) *)
Theorem C10_state_readers_refine :
  (forall is_number stod stoi v df0 text p df,
     read_csv_on is_number stod stoi v df0 text p = Ok df <->
     read_csv_st is_number stod stoi v df0 text p = (df, Ok (length (dataset df))))
  /\ (forall is_number stod stoi uint_max v df0 dom flt df n,
        read_xrff_on is_number stod stoi uint_max v df0 dom flt = Ok (df, n) <->
        read_xrff_st is_number stod stoi uint_max v df0 dom flt = (df, Ok n)).
Proof. exact (conj read_csv_st_refines_count read_xrff_st_refines). Qed.
Print Assumptions C10_state_readers_refine.

(* src_problem (problem.cc): the constructor from a stream, data().read_*() and
   setup_symbols() never go out of bounds, on ANY problem state; after a successful
   construction, and after setup_symbols() following ANY successful read on ANY earlier state,
   the symbol set matches the frame: variable ids are 0..n-1 and every stored example has
   exactly n inputs (so every generated variable can be run on every example). *)
Theorem C10_src_problem_safe_partial :
  (forall is_number stod stoi text strong, safe (prob_construct is_number stod stoi fixed_v text strong))
  /\ (forall pr strong, safe (snd (prob_setup_symbols fixed_v pr strong)))
  /\ (forall is_number stod stoi pr text p, safe (snd (prob_read_csv is_number stod stoi fixed_v pr text p)))
  /\ (forall is_number stod stoi uint_max pr dom, safe (snd (prob_read_xrff is_number stod stoi uint_max fixed_v pr dom))).
Proof. exact (conj prob_construct_safe (conj prob_setup_symbols_safe (conj prob_read_csv_safe prob_read_xrff_safe))). Qed.
Print Assumptions C10_src_problem_safe_partial.

Theorem C10_src_problem_symbols_match_frame :
  (forall is_number stod stoi text strong pr,
     prob_construct is_number stod stoi fixed_v text strong = Ok pr ->
     prob_consistent pr /\ length (p_vars pr) = prob_variables pr)
  /\ (forall is_number stod stoi pr text p df n strong pr' m,
        read_csv_st is_number stod stoi fixed_v (training pr) text p = (df, Ok n) ->
        prob_setup_symbols fixed_v {| training := df; p_vars := p_vars pr; p_other := p_other pr |} strong = (pr', Ok m) ->
        prob_consistent pr' /\ length (p_vars pr') = prob_variables pr').
Proof. exact (conj prob_construct_consistent prob_setup_symbols_consistent). Qed.
Print Assumptions C10_src_problem_symbols_match_frame.

(* non-vacuity of the history theorems: without the guards (pinned variant) a second read_xrff
   with an EMPTY attribute list on a frame that has columns, and read_csv with an output index
   beyond the record, are out of bounds; with them they return normally / throw *)
Example C10_history_nonvacuous :=
  (hx_history_pinned_oob, hx_history_fixed_ok, hx_xrff_fresh_pinned, hx_csv_pinned_oob, hx_csv_fixed_exn).

(* non-vacuity: the three outcomes occur, and the checked model does
   distinguish in-bounds from out-of-bounds (the pinned variant is OOB on the
   same ragged input the repaired variant reads) *)
Definition nv_num : bytes -> bool := fun s => match s with [] => false | c :: _ => (48 <=? c) && (c <=? 57) end.
Definition nv_conv : bytes -> conv := fun s => match s with [] => CvInvalid | c :: _ => CvOk (c - 48) end.
Definition nv_p (oi : option nat) : params :=
  {| p_dialect := {| delimiter := 44; trim_ws := false; has_header := NO_HEADER; quoting := REMOVE_QUOTES |};
     p_filter := no_filter; p_output_index := oi |}.

Example C10_nonvacuous_outcomes :
  (* "1,2\n3,4,5\n6,7\n": ragged, read with the wide row skipped *)
  (exists df, read_csv nv_num nv_conv nv_conv fixed_v [49;44;50;10;51;44;52;44;53;10;54;44;55;10] (nv_p (Some O)) = Ok df
              /\ length (dataset df) = 2%nat)
  (* the same text on the pinned variant *)
  /\ read_csv nv_num nv_conv nv_conv pinned_v [49;44;50;10;51;44;52;44;53;10;54;44;55;10] (nv_p (Some O)) = OOB S_build_cols
  (* empty file: exception *)
  /\ read_csv nv_num nv_conv nv_conv fixed_v [] (nv_p (Some O)) = Exn E_insufficient_data
  (* "1,2\n3,\n": empty cell in a numeric column: std::stod throws *)
  /\ read_csv nv_num nv_conv nv_conv fixed_v [49;44;50;10;51;44;10] (nv_p (Some O)) = Exn E_invalid_argument.
Proof. vm_compute. repeat split; try reflexivity. eexists. split; reflexivity. Qed.
