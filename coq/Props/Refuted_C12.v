(* C12 -- statements that are FALSE of the faithful model of the pinned tree:
   population::load of the pinned tree, in checked form, indexes out of bounds
   (replayed on the real code by ./check C12: ASan/UBSan report; fixed in the
   worktree: the layers are built in temporaries). *)
From Coq Require Import ZArith List Bool.
From VV Require Import Serial.SerialDefs Serial.SerialExtraProofs.
Import ListNotations.
Local Open Scope Z_scope.

(* "2\n1 0\n1 0\n": two layers; allowed_[1] is outside the vector of size 1 *)
Theorem C12_population_load_pinned_no_oob_refuted :
  exists fresh s, pop_load_pinned vec_ind ga_load fresh s [] = POob.
Proof. exists [(1, [vec_default])], [50; 10; 49; 32; 48; 10; 49; 32; 48; 10]. exact pinned_pop_oob_witness. Qed.
Print Assumptions C12_population_load_pinned_no_oob_refuted.

(* "1\n2 2\n0\n0\n0\n0\n": one layer announcing 2 individuals, env.individuals = 1 *)
Theorem C12_population_load_pinned_layer0_no_oob_refuted :
  exists fresh s, length fresh = 1%nat /\ pop_load_pinned vec_ind ga_load fresh s [] = POob.
Proof.
  exists [(1, [vec_default])], [49; 10; 50; 32; 50; 10; 48; 10; 48; 10; 48; 10; 48; 10].
  split; [reflexivity|exact pinned_pop_oob_witness2].
Qed.
Print Assumptions C12_population_load_pinned_layer0_no_oob_refuted.
