(* C16 -- what is FALSE of the pinned tree (finding, DESIGN 7 #8, shared with
   C06): src_search::tune_parameters compares typeid(this->vs_.get()), the
   static type of a pointer, with a class type; the model of that code is
   [tune_pinned].  The witnesses below were replayed on the real code
   (findings/C16.json); the repaired code is [tune_fixed]
   (C16_tune_fills_validation_parameters). *)
From Coq Require Import ZArith List Bool.
From VV Require Import Valid.ValidDefs Valid.ValidProofs.
Import ListNotations.
Local Open Scope Z_scope.

Definition rows (n : nat) : state unit := mkSt (map (fun u => mkEx (Z.of_nat u) tt 0 0) (seq 0 n)) [] 0 0.
Definition pinned_cfg (vs : vs_kind) : config :=
  let dp := tune_pinned vs sentinel sentinel in mkCfg (snd dp) (fst dp) target_q.

(* an open percentage / period is NOT given its default *)
Theorem C16_tune_fills_validation_parameters_refuted :
  exists vs d p, vs = VsHoldout /\ p = sentinel /\ snd (tune_pinned vs d p) <> dflt_perc
                 /\ fst (tune_pinned VsDss sentinel p) <> dflt_dss.
Proof. exists VsHoldout, sentinel, sentinel. repeat split; discriminate. Qed.
Print Assumptions C16_tune_fills_validation_parameters_refuted.

(* hold-out with the percentage left open, 100 rows: init(0) leaves defined
   behaviour (skip = 101 > 100: iterator past the end) whatever the draws *)
Theorem C16_holdout_defined_refuted :
  exists n, forall ds, holdout_init unit (pinned_cfg VsHoldout) 0 (rows n) ds = None.
Proof. exists 100%nat. intros ds. vm_compute. reflexivity. Qed.
Print Assumptions C16_holdout_defined_refuted.

(* 20 rows: nothing is held out although 20% is the documented default *)
Theorem C16_holdout_share_refuted :
  exists n st', holdout_init unit (pinned_cfg VsHoldout) 0 (rows n) [] = Some (st', [])
                /\ zlen unit (training st') = 20 /\ validation st' = []
                /\ Z.max (20 * (100 - dflt_perc) / 100) 1 = 16.
Proof. exists 20%nat. eexists. vm_compute. repeat split; reflexivity. Qed.
Print Assumptions C16_holdout_share_refuted.

(* dss with the period left open: no generation up to 2^32 - 2 ever reshuffles *)
Theorem C16_shake_reports_refuted :
  forall gen, 0 <= gen < sentinel -> shake_due (pinned_cfg VsDss) gen = false.
Proof.
  intros gen H. rewrite shake_due_unfold. change (gap (pinned_cfg VsDss)) with sentinel.
  destruct (gen =? 0) eqn:E; [reflexivity|]. cbn [negb andb].
  apply Z.eqb_neq. rewrite Z.mod_small by exact H. apply Z.eqb_neq in E. exact E.
Qed.
Print Assumptions C16_shake_reports_refuted.
