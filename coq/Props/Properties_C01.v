(* C01 -- The interpreter returns the denotation of the program.

   [run], [run_ex], [run_locus], [run_many] (Interp/MachineDefs.v) are the
   machine of kernel/gp/mep/interpreter.cc + kernel/gp/src/interpreter.tcc:
   memo with valid flags cleared by run_locus, instruction pointer saved and
   restored by fetch_opaque_arg, fetch_param reading the gene at ip_,
   fetch_var reading the example.  [den] is the recursive evaluation of the
   unfolded active tree (Mep/Genome.v: tree_of / active_tree): no memo, no
   instruction pointer, no genome.  A symbol is ANY strategy (Interp/Strategy.v);
   the shipped primitives are the strategies [strategy_of lm body] of the
   bodies regenerated from the source on every run (Gen/Prims.v), so every
   theorem below holds in particular for every shipped real / integer /
   boolean / string primitive, for `variable` and for constants.

   Results are compared as [mres]: a value, a C++ exception (RThrow), undefined
   behaviour (RStuck) -- the equality with the denotation covers all three --
   or ROutOfFuel, which the theorems exclude.  [st] is ANY interpreter state:
   whatever earlier runs (including runs that ended in an exception, which do
   not restore ip_) left in the memo and in ip_.

   Nothing but statements closed by `exact` lives in this file. *)
From Coq Require Import ZArith List Bool.
From VV Require Import Base.F64 Base.Values Interp.Strategy Cxx.CxxMini Gen.Prims Mep.Genome
  Interp.MachineDefs Interp.MachineProofs Interp.MachineExamples.
Import ListNotations.

(* --- the interpreter returns the denotation, from every prior state ------ *)

(* src_interpreter<i_mep>::run(example) *)
Theorem C01_run_is_denotation : forall g, wf_genome g -> forall st ex,
  exists t, active_tree g = Some t /\
            fst (run_ex true g ex st) = res_of_outcome (den (nth_error ex) t).
Proof. exact run_is_denotation. Qed.
Print Assumptions C01_run_is_denotation.

(* interpreter<i_mep>::run()  (vita::run(ind)): variables read an empty value *)
Theorem C01_run_base_is_denotation : forall g, wf_genome g -> forall st,
  exists t, active_tree g = Some t /\
            fst (run false g st) = res_of_outcome (den (fun _ => Some VVoid) t).
Proof. exact run_base_is_denotation. Qed.
Print Assumptions C01_run_base_is_denotation.

(* starting from any populated locus (i_mep::get_block) *)
Theorem C01_run_locus_is_denotation : forall g, wf_genome g -> forall l ge, gene_at g l = Some ge ->
  forall src st, exists t, tree_of (S (rows g)) g l = Some t /\
    fst (run_locus src g l st) = res_of_outcome (den (vars_of src (example st)) t).
Proof. exact run_locus_is_denotation. Qed.
Print Assumptions C01_run_locus_is_denotation.

(* without any well-formedness assumption on the genes outside the active
   tree: whenever the tree rooted at [l] unfolds with fuel n, the machine run
   with that fuel returns its denotation *)
Theorem C01_run_is_denotation_of_any_unfolding : forall src g n l t st,
  tree_of n g l = Some t ->
  fst (run_locus_fuel src g n l st) = res_of_outcome (den (vars_of src (example st)) t).
Proof. exact run_locus_fuel_den. Qed.
Print Assumptions C01_run_is_denotation_of_any_unfolding.

(* any sequence of runs on one interpreter object *)
Theorem C01_history_independent : forall g, wf_genome g -> forall exs st,
  exists t, active_tree g = Some t /\
    fst (run_many true g exs st) = map (fun ex => res_of_outcome (den (nth_error ex) t)) exs.
Proof. exact history_independent. Qed.
Print Assumptions C01_history_independent.

(* --- the memo invariant -------------------------------------------------- *)

(* one call  sym->eval( *this)  at ip_, from a state whose valid memo entries
   are sound: returns the denotation of the tree at ip_, keeps the memo sound,
   never overwrites a valid entry, restores ip_ (unless an exception or
   undefined behaviour ends the call), and validates entries only at loci
   reached through arguments that were asked for *)
Theorem C01_memo_sound : forall src g ex n st t,
  tree_of n g (ip st) = Some t ->
  cache_sound (vars_of src ex) g st -> example st = ex ->
  let r := eval_sym src g n st in
  fst r = res_of_outcome (den (vars_of src ex) t) /\
  cache_sound (vars_of src ex) g (snd r) /\
  example (snd r) = ex /\
  cache_ext st (snd r) /\
  (is_val (fst r) -> ip (snd r) = ip st) /\
  (forall lb, e_valid (cache (snd r) lb) = true ->
     e_valid (cache st lb) = true \/ needed (vars_of src ex) g (ip st) lb).
Proof. exact eval_sym_sound. Qed.
Print Assumptions C01_memo_sound.

(* the state a whole run leaves behind *)
Theorem C01_memo_sound_after_run : forall src g n l t st,
  tree_of n g l = Some t ->
  let r := run_locus_fuel src g n l st in
  cache_sound (vars_of src (example st)) g (snd r) /\
  example (snd r) = example st /\
  (is_val (fst r) -> ip (snd r) = l).
Proof. exact run_locus_fuel_state. Qed.
Print Assumptions C01_memo_sound_after_run.

(* --- termination: fuel = number of rows is enough ------------------------- *)
Theorem C01_no_out_of_fuel : forall g, wf_genome g -> forall l ge, gene_at g l = Some ge ->
  forall src st, fst (run_locus src g l st) <> ROutOfFuel.
Proof. exact no_out_of_fuel. Qed.
Print Assumptions C01_no_out_of_fuel.

Theorem C01_wf_unfolds_within_rows : forall g, wf_genome g ->
  forall k l ge, gene_at g l = Some ge -> rows g - l_index l <= k ->
  exists t, tree_of k g l = Some t.
Proof. exact wf_tree_of. Qed.
Print Assumptions C01_wf_unfolds_within_rows.

(* --- independence from layout, sharing and inactive genes ----------------- *)
Theorem C01_den_depends_only_on_tree : forall g1 g2, wf_genome g1 -> wf_genome g2 ->
  active_tree g1 = active_tree g2 ->
  forall ex st1 st2, fst (run_ex true g1 ex st1) = fst (run_ex true g2 ex st2).
Proof. exact same_tree_same_result_ex. Qed.
Print Assumptions C01_den_depends_only_on_tree.

Theorem C01_den_depends_only_on_tree_base : forall g1 g2, wf_genome g1 -> wf_genome g2 ->
  active_tree g1 = active_tree g2 ->
  forall src st1 st2, example st1 = example st2 ->
    fst (run src g1 st1) = fst (run src g2 st2).
Proof. exact same_tree_same_result. Qed.
Print Assumptions C01_den_depends_only_on_tree_base.

(* the same without any assumption on the genes outside the active part *)
Theorem C01_same_unfolding_same_result : forall src g1 g2 n1 n2 l1 l2 t st1 st2,
  tree_of n1 g1 l1 = Some t -> tree_of n2 g2 l2 = Some t -> example st1 = example st2 ->
  fst (run_locus_fuel src g1 n1 l1 st1) = fst (run_locus_fuel src g2 n2 l2 st2).
Proof. exact same_unfolding_same_result. Qed.
Print Assumptions C01_same_unfolding_same_result.

(* --- laziness: only the arguments a symbol asks for matter ---------------- *)

(* the value of a node depends on the denotations of exactly the children
   its symbol asks for *)
Theorem C01_only_asked_arguments_matter : forall vars s par kids kids',
  (forall i, In i (asked_at vars (Node s par kids)) ->
     option_map (den vars) (nth_error kids' i) = option_map (den vars) (nth_error kids i)) ->
  den vars (Node s par kids') = den vars (Node s par kids).
Proof. exact den_asked_only. Qed.
Print Assumptions C01_only_asked_arguments_matter.

Theorem C01_unasked_argument_irrelevant : forall vars s par kids j u,
  ~ In j (asked_at vars (Node s par kids)) ->
  den vars (Node s par (replace_nth j u kids)) = den vars (Node s par kids).
Proof. exact den_unasked_replace. Qed.
Print Assumptions C01_unasked_argument_irrelevant.

(* operationally: a run from l evaluates (memoises) only loci reached from l
   through arguments that the symbols on the way asked for *)
Theorem C01_only_needed_arguments_evaluated : forall src g n l t st,
  tree_of n g l = Some t ->
  forall lb, e_valid (cache (snd (run_locus_fuel src g n l st)) lb) = true ->
    needed (vars_of src (example st)) g l lb.
Proof. exact only_needed_evaluated. Qed.
Print Assumptions C01_only_needed_arguments_evaluated.

(* ... and so for the machine *)
Theorem C01_unasked_argument_irrelevant_run : forall g1 g2 s par kids j u,
  wf_genome g1 -> wf_genome g2 ->
  active_tree g1 = Some (Node s par kids) ->
  active_tree g2 = Some (Node s par (replace_nth j u kids)) ->
  forall ex, ~ In j (asked_at (nth_error ex) (Node s par kids)) ->
  forall st1 st2, fst (run_ex true g1 ex st1) = fst (run_ex true g2 ex st2).
Proof. exact unasked_machine. Qed.
Print Assumptions C01_unasked_argument_irrelevant_run.

(* --- variables read the example's feature at their position --------------- *)
Theorem C01_fetch_var_reads_feature : forall g ge i ex st,
  gene_at g (best g) = Some ge ->
  s_strat (g_sym ge) = Var i (fun v => Ret (Val v)) ->
  fst (run_ex true g ex st) = match nth_error ex i with Some v => RVal v | None => RStuck end.
Proof. exact fetch_var_reads_feature. Qed.
Print Assumptions C01_fetch_var_reads_feature.

Theorem C01_variable_denotes_feature : forall vars opc i c par kids,
  den vars (Node (variable_sym opc i c) par kids) =
  match vars i with Some v => Val v | None => Stuck end.
Proof. exact den_variable. Qed.
Print Assumptions C01_variable_denotes_feature.

(* --- penalty() and teams --------------------------------------------------- *)
(* interpreter<i_mep>::penalty_locus only moves ip_ and reads the argument
   indices of the gene it is pointed at; runs interleaved with penalty() calls
   still return the denotation *)
Theorem C01_penalty_reads_gene_only : forall g pk l st1 st2,
  fst (penalty_locus g pk l st1) = fst (penalty_locus g pk l st2) /\
  snd (penalty_locus g pk l st1) = set_ip st1 l.
Proof. intros. split; [apply penalty_depends_on_gene_only|apply penalty_locus_state]. Qed.
Print Assumptions C01_penalty_reads_gene_only.

Theorem C01_comparison_penalty : forall g pk l st ge a b c d,
  gene_at g l = Some ge -> pk (s_opcode (g_sym ge)) = PenCmp4 -> g_args ge = [a; b; c; d] ->
  fst (penalty_locus g pk l st) = Some (b2z (Nat.eqb a b) + b2z (Nat.eqb c d))%Z.
Proof. exact penalty_cmp4. Qed.
Print Assumptions C01_comparison_penalty.

(* comparison_function_penalty on a gene with fewer than four arguments reads
   an argument that does not exist (integer::ifz on the pinned tree) *)
Theorem C01_comparison_penalty_needs_four_arguments : forall g pk l st ge,
  gene_at g l = Some ge -> pk (s_opcode (g_sym ge)) = PenCmp4 -> length (g_args ge) < 4 ->
  fst (penalty_locus g pk l st) = None.
Proof. exact penalty_cmp4_short. Qed.
Print Assumptions C01_comparison_penalty_needs_four_arguments.

Theorem C01_run_after_penalty_is_denotation : forall g, wf_genome g -> forall pk l st ex,
  exists t, active_tree g = Some t /\
    fst (run_ex true g ex (snd (penalty_locus g pk l st))) = res_of_outcome (den (nth_error ex) t).
Proof. exact run_after_penalty. Qed.
Print Assumptions C01_run_after_penalty_is_denotation.

(* --- non-vacuity ---------------------------------------------------------- *)
(* a 3-category, DAG-shaped genome of shipped primitives (FIFL on category 0
   selecting between two category-1 sub-expressions that share a gene, a
   string comparison on category 2) is well-formed, has an active tree, and
   is evaluated twice on one state with different examples *)
Example C01_wf_nonvacuous : forall lm, wf_genome (demo_genome lm).
Proof. exact demo_wf. Qed.
Example C01_run_twice_on_one_state : forall lm,
  map show_res
      (fst (run_many true (demo_genome lm) [demo_ex1; demo_ex2] (init_state (demo_genome lm))))
  = [[2; 0x4022000000000000]; [2; 0x4030000000000000]]%Z.     (* 9.0, 16.0 *)
Proof. exact demo_run_twice. Qed.
(* the tree unfolds the DAG (15 nodes from 9 genes); on the first example the
   root FIFL asks for arguments 0, 1, 2: the untaken branch 3 is not asked for *)
Example C01_demo_untaken_branch_not_asked : forall lm,
  match active_tree (demo_genome lm) with
  | Some t => asked_at (nth_error demo_ex1) t = [0; 1; 2]%nat /\ tree_size t = 15%nat
  | None => False
  end.
Proof. exact demo_asked. Qed.
(* the memo invariant's premise is met by a state with valid entries *)
Example C01_sound_state_with_valid_entries : forall lm,
  let g := demo_genome lm in
  let st := snd (run_ex true g demo_ex1 (init_state g)) in
  cache_sound (nth_error demo_ex1) g st /\ valid_entries g st <> [].
Proof. exact demo_sound_state. Qed.
(* on the second example the root takes the other branch: the gene at [3,1]
   (SIFE) is active in the tree but never evaluated, its sibling [4,1] is *)
Example C01_untaken_branch_not_evaluated : forall lm,
  let g := demo_genome lm in
  let st := snd (run_ex true g demo_ex2 (init_state g)) in
  e_valid (cache st {| l_index := 3; l_cat := 1 |}) = false /\
  e_valid (cache st {| l_index := 4; l_cat := 1 |}) = true.
Proof. exact demo_untaken_not_evaluated. Qed.
(* the model keeps the exceptional outcome, and the state an exception leaves
   behind (ip_ not restored) is among the prior states quantified over *)
Example C01_model_sees_exception : forall lm,
  show_res (fst (run_ex true (demo_throw_genome lm) demo_ex1 (init_state (demo_throw_genome lm))))
  = [10%Z].
Proof. exact demo_throw. Qed.
Example C01_exception_leaves_ip_unrestored : forall lm,
  let g := demo_throw_genome lm in
  l_index (ip (snd (run_ex true g demo_ex1 (init_state g)))) = 1%nat.
Proof. exact demo_throw_leaves_ip. Qed.
