(* C07 (round 2) -- "same seed, same random draws" as a statement about a modelled pipeline:
   engine (RngDefs.v) + the libstdc++ distributions vita::random uses (DistDefs.v).
   The draws of a run are a FUNCTION of the seed and of the sequence of requests
   ([answers]); the check compares that function with the H1 log of real runs.
   What is proved here: the integer pipeline (uniform_int_distribution through
   Lemire's multiply-and-reject, vita::random::between) returns lo <= v < hi for every
   engine state and every fuel -- the H_draws contract for integers is a theorem, not
   an assumption; so is the one for booleans (boolean(0)=false, boolean(1)=true) and the fact that the
   canonical real is a finite double in [0,1), and lo <= between<double>(lo,hi) <= hi on both branches: the whole
   H_draws contract (integers, booleans, reals) is proved for every finite request.  The rejection loop is bounded by [fuel]; exhaustion is [None]/[AFail]
   (it cannot be proved impossible for an arbitrary generator).
   Nothing else lives in this file. *)
From Coq Require Import NArith ZArith List Bool Reals.
From Flocq Require Import Core IEEE754.BinarySingleNaN.
From VV Require Import Base.F64 Rng.RngDefs Rng.RngProofs Rng.DistDefs Rng.DistProofs Rng.DistRealProofs.
Import ListNotations.
Local Open Scope Z_scope.

(* _S_nd<unsigned __int128>: the downscaled value is below the range *)
Theorem C07_lemire_below_range : forall fuel range st r st',
  wf st -> (0 < range)%N -> s_nd fuel range st = Some (r, st') -> (r < range)%N /\ wf st'.
Proof. exact s_nd_lt. Qed.
Print Assumptions C07_lemire_below_range.

(* vita::random::between<integral>(lo, hi) is in [lo, hi): every state, every fuel *)
Theorem C07_between_int_in_range : forall fuel lo hi st v st',
  wf st -> between_int fuel lo hi st = Some (v, st') -> lo <= v < hi /\ wf st'.
Proof. exact between_int_range. Qed.
Print Assumptions C07_between_int_in_range.

(* in particular after any seed and any number of earlier draws *)
Theorem C07_between_int_in_range_reachable : forall fuel lo hi st v st',
  reachable st -> between_int fuel lo hi st = Some (v, st') -> lo <= v < hi.
Proof.
  intros fuel lo hi st v st' Hr H. apply reachable_wf in Hr.
  destruct (between_int_range fuel lo hi st v st' Hr H) as [H1 _]. exact H1.
Qed.
Print Assumptions C07_between_int_in_range_reachable.

(* generate_canonical<double,53>(engine): a finite double u with 0 <= u < 1, for every 64-bit engine state
   (proved from Flocq's binary_normalize / Bmult / Bdiv / Bcompare correctness theorems) *)
Theorem C07_canonical_in_unit_interval : forall st, wf st ->
  let u := fst (canonical st) in
  is_finite u = true /\ (0 <= B2R u < 1)%R /\ F64.leb F64.zero u = true /\ F64.ltb u (F64.of_Z 1) = true.
Proof. exact canonical_unit. Qed.
Print Assumptions C07_canonical_in_unit_interval.

(* vita::random::boolean(p) = std::bernoulli_distribution(p)(engine): boolean(0) is false and boolean(1) is true
   for every 64-bit engine state -- the H_draws contract for booleans is a theorem *)
Theorem C07_boolean_contract : forall p st, wf st ->
  (F64.eqb p F64.zero = true -> fst (boolean p st) = false) /\
  (F64.eqb p (F64.of_Z 1) = true -> fst (boolean p st) = true).
Proof. exact boolean_contract. Qed.
Print Assumptions C07_boolean_contract.

(* vita::random::between<double>(lo, hi): for EVERY finite lo < hi the result is a finite double with lo <= v <= hi,
   for every 64-bit engine state -- on the ordinary branch (std::uniform_real_distribution: u * fl(hi - lo) rounded
   never exceeds the exact hi - lo, a midpoint argument on Flocq's pred/ulp) and on the repaired wide-interval branch
   (hi - lo overflows: both ends are then >= 2^970 in magnitude, their halves are exact, the halved interval has a
   finite width and doubling the sample stays inside).  This is the H_draws contract for reals, now a theorem. *)
Theorem C07_between_real_in_interval : forall lo hi st, wf st ->
  F64.is_finite lo = true -> F64.is_finite hi = true -> F64.ltb lo hi = true ->
  F64.leb lo (fst (between_real lo hi st)) = true /\ F64.leb (fst (between_real lo hi st)) hi = true /\
  F64.is_finite (fst (between_real lo hi st)) = true.
Proof. exact between_real_contract_all. Qed.
Print Assumptions C07_between_real_in_interval.

(* std::discrete_distribution<unsigned> as population.tcc:pickup builds it from the layer sizes (normalised cumulative
   probabilities, last forced to 1.0, generate_canonical, libstdc++'s binary-search std::lower_bound): over at least
   two weights the drawn layer index exists, for every 64-bit engine state *)
Theorem C07_discrete_index_in_range : forall ws st, wf st -> (2 <= length ws)%nat ->
  0 <= fst (discrete ws st) < Z.of_nat (length ws).
Proof. exact discrete_in_range. Qed.
Print Assumptions C07_discrete_index_in_range.

(* a whole sequence of requests answered from a seed: every integer answer is in range *)
Theorem C07_draw_sequence_int_answers_in_range : forall fuel qs old s,
  answers_ok qs (answers fuel qs (random_seed old s)).
Proof. intros. apply answers_in_range. apply seed_engine_wf. Qed.
Print Assumptions C07_draw_sequence_int_answers_in_range.

(* the draws are a function of the seed and the requests alone (not of the engine's past) *)
Theorem C07_same_seed_same_draws : forall fuel qs old1 old2 s,
  answers fuel qs (random_seed old1 s) = answers fuel qs (random_seed old2 s).
Proof. intros. rewrite (random_seed_forgets old1 old2 s). reflexivity. Qed.
Print Assumptions C07_same_seed_same_draws.

(* ---- non-vacuity: requests are answered (no fuel exhaustion) on concrete states, incl. a range above 2^63 *)
Example C07_between_int_met :
  (exists v st', between_int 10 (-5) 3 (new_engine 1) = Some (v, st')) /\
  (exists v st', between_int 10 0 18446744073709551615 (new_engine 1) = Some (v, st')) /\
  between_int 10 7 8 (new_engine 2) = Some (7, snd (next (new_engine 2))) /\
  between_int 10 3 3 (new_engine 2) = None.
Proof. repeat split; try (eexists; eexists); vm_compute; reflexivity. Qed.
