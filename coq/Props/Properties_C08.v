(* C08 -- Models agree with the interpreter and honour the prediction contract.

   Statements only; the proofs are in Lambda/LambdaProofs.v (tables, votes,
   counting), Lambda/LambdaHeap.v (object identities) and Lambda/LambdaFloat.v
   (binary64).  The model is Lambda/LambdaDefs.v, which mirrors
   detail/lambda_f.h, lambda_f.tcc, discretization.h, distribution.tcc,
   model_metric.cc and the classification evaluators function by function; the
   output of a program on an example is an oracle (property C01), [libm_atan]
   and [libm_exp] are the C library's functions. *)
From Coq Require Import ZArith List Bool Reals.
From Flocq Require Import Core IEEE754.BinarySingleNaN.
From VV Require Import Base.F64 Lambda.LambdaDefs Lambda.LambdaProofs Lambda.LambdaHeap Lambda.LambdaFloat Lambda.LambdaWelford
  Lambda.LambdaSerialDefs Lambda.LambdaSerial.
Import ListNotations.
Local Open Scope Z_scope.

(* ------------------------------------------------------- object identities *)
(* For EVERY history of constructions, copies, moves, assignments (also
   self-assignment), destructions and std::vector relocations / erasures that
   is valid for values (it only names live models), the object model of
   detail/lambda_f.h runs without any interpreter designating a destroyed
   object, each model then runs exactly the program(s) it stores according to
   value semantics -- whatever happened to the originals --, and every live
   interpreter points at the individual stored in its own object. *)
Theorem C08_target_is_self : forall (ind : Type) (ops : list (op ind)) (vs : vstate ind),
  vrun vinit ops = Some vs ->
  exists st : state ind, run_ops Reseat init ops = Some st /\
    (forall m, model_program st m = v_get vs m) /\
    (forall a o, lookup (st_heap st) a = Some o -> o_tgt o = a).
Proof. exact target_is_self. Qed.
Print Assumptions C08_target_is_self.

(* ---------------------------------------------------------------- slots *)
(* slot() never leaves the table: for every program output (any double the
   conversion is defined for, or undefined) the slot is < number of slots *)
Theorem C08_slot_in_range : forall libm_atan ns o s, (0 < ns)%nat ->
  slot libm_atan ns o = Some s -> (s < ns)%nat.
Proof. exact slot_in_range. Qed.
Print Assumptions C08_slot_in_range.

(* slot = min(discretization(x, last), last); undefined output -> last slot *)
Theorem C08_slot_is_clamped_discretization : forall libm_atan ns val s, (0 < ns)%nat ->
  slot libm_atan ns (Some val) = Some s ->
  exists w, discretization libm_atan val (Z.of_nat (ns - 1)) = Some w /\ 0 <= w /\
            Z.of_nat s = Z.min w (Z.of_nat (ns - 1)).
Proof. exact slot_is_min. Qed.
Print Assumptions C08_slot_is_clamped_discretization.

(* ------------------------------------------------------------- dyn_slot *)
(* every answer of a dyn_slot model names an existing class: all training
   sets (any labels the table accepts, empty classes, no example at all),
   all queries *)
Theorem C08_dyn_slot_label_lt_classes : forall libm_atan classes x_slot train d o lab c,
  (0 < classes)%nat ->
  dyn_build libm_atan classes x_slot train = Some d ->
  dyn_tag libm_atan d o = Some (lab, c) -> (lab < classes)%nat.
Proof. exact dyn_slot_label_lt_classes. Qed.
Print Assumptions C08_dyn_slot_label_lt_classes.

(* "the class chosen by the documented rule": a slot that saw training
   examples answers the class with the largest count in that slot, the
   highest such class on ties *)
Theorem C08_dyn_slot_known_slot_is_argmax : forall libm_atan classes x_slot train d s,
  (0 < classes)%nat ->
  dyn_build libm_atan classes x_slot train = Some d -> (s < dm_ns d)%nat ->
  let r := nth s (dm_matrix d) [] in
  let lab := nth s (dm_slot_class d) O in
  0 < nth (best_class r) r 0 ->
  lab = best_class r /\
  (forall k, (k < classes)%nat -> nth k r 0 <= nth lab r 0) /\
  (forall k, (lab < k < classes)%nat -> nth k r 0 < nth lab r 0).
Proof. exact dyn_known_slot_is_argmax. Qed.
Print Assumptions C08_dyn_slot_known_slot_is_argmax.

(* ------------------------------------------------------------------ teams *)
Theorem C08_team_mean_is_running_mean : forall outs avg,
  team_eval outs = Some avg -> avg = running_mean (defined outs).
Proof. exact team_eval_value. Qed.
Print Assumptions C08_team_mean_is_running_mean.

Theorem C08_all_undefined_gives_undefined : forall outs,
  defined outs = [] -> team_eval outs = None.
Proof. exact team_all_undefined. Qed.
Print Assumptions C08_all_undefined_gives_undefined.

(* winner-takes-all answers with one member's answer *)
Theorem C08_wta_is_a_member_answer : forall tags t, wta tags = Some t -> In t tags.
Proof. exact wta_in. Qed.
Print Assumptions C08_wta_is_a_member_answer.

(* -------------------------------------------------------------- evaluator *)
(* the error the dyn_slot / binary evaluators report is the number of
   examples on which the SAME tag function disagrees with the label, counted
   in a double *)
Theorem C08_evaluator_scores_the_model : forall pl,
  count_eval pl = F64.neg (L.count_up F64.zero (n_bad pl)) /\
  (n_ok pl + n_bad pl = length pl)%nat.
Proof. intro pl. split; [exact (count_eval_is_count_up pl)|exact (n_ok_bad pl)]. Qed.
Print Assumptions C08_evaluator_scores_the_model.

(* a team with at least one defined member answers (count > 0 holds however
   long the team is) *)
Theorem C08_team_defined_gives_value : forall outs,
  defined outs <> [] -> exists avg, team_eval outs = Some avg.
Proof. exact team_defined_gives_value. Qed.
Print Assumptions C08_team_defined_gives_value.

(* exact layer: the recurrence avg += (x - avg) / ++count, without rounding,
   is the arithmetic mean *)
Theorem C08_running_mean_exact_is_arithmetic_mean : forall xs, xs <> [] ->
  rmean_from 0 0 xs = (rsum xs / INR (length xs))%R.
Proof. exact running_mean_exact_is_arithmetic_mean. Qed.
Print Assumptions C08_running_mean_exact_is_arithmetic_mean.

(* ------------------------------------------------------------ confidences *)
(* [le01 c]: 0 <= c and c <= 1 as IEEE comparisons (so c is not NaN) *)
Theorem C08_dyn_slot_confidence_01 : forall libm_atan classes x_slot train d o lab c,
  Z.of_nat (length train) <= 2 ^ 64 ->
  dyn_build libm_atan classes x_slot train = Some d ->
  dyn_tag libm_atan d o = Some (lab, c) -> le01 c.
Proof. exact dyn_slot_confidence_01. Qed.
Print Assumptions C08_dyn_slot_confidence_01.

Theorem C08_gaussian_label_lt_classes : forall libm_exp classes train g o, (0 < classes)%nat ->
  gauss_build classes train = Some g -> (fst (gauss_tag libm_exp g o) < classes)%nat.
Proof. exact gauss_build_label. Qed.
Print Assumptions C08_gaussian_label_lt_classes.

(* the gaussian confidence is in [0,1] for EVERY training set (empty classes,
   single examples, identical outputs, outputs beyond the +-1e7 clamp,
   undefined outputs) and EVERY query output (NaN, +-inf, undefined included).
   H_libm: exp(NaN) is NaN; exp(x) in [0,1] for x <= 0. *)
Theorem C08_gaussian_confidence_01 : forall libm_exp : f64 -> f64,
  (forall x : f64, is_nan x = true -> is_nan (libm_exp x) = true) ->
  (forall x : f64, F64.leb x F64.zero = true -> le01 (libm_exp x)) ->
  forall classes train g o, Z.of_nat (length train) <= 2 ^ 64 ->
  gauss_build classes train = Some g -> le01 (snd (gauss_tag libm_exp g o)).
Proof. exact gaussian_confidence_01. Qed.
Print Assumptions C08_gaussian_confidence_01.

(* the same for ANY per-class (mean, variance) table whose variances are NaN
   or >= 0 (+inf allowed): what a de-serialised model may contain *)
Theorem C08_gaussian_confidence_01_for_tables : forall libm_exp : f64 -> f64,
  (forall x : f64, is_nan x = true -> is_nan (libm_exp x) = true) ->
  (forall x : f64, F64.leb x F64.zero = true -> le01 (libm_exp x)) ->
  forall stats o, Forall (fun mv => var_ok (snd mv)) stats ->
  le01 (snd (gauss_tag_stats libm_exp stats o)).
Proof. exact gaussian_confidence_01_stats. Qed.
Print Assumptions C08_gaussian_confidence_01_for_tables.

(* distribution<double> under add() (Welford, as the code writes it, in
   binary64): variance() of every class of every training set is NaN (no
   example) or >= 0 *)
Theorem C08_welford_variance_nan_or_nonneg : forall classes train g,
  Z.of_nat (length train) <= 2 ^ 64 ->
  gauss_build classes train = Some g -> Forall (fun mv => var_ok (snd mv)) (gauss_stats g).
Proof. exact gauss_build_var_ok. Qed.
Print Assumptions C08_welford_variance_nan_or_nonneg.

(* ... because the updated mean RN(m + RN(RN(x - m) / c)) lies between the old
   mean m and the new value x for doubles x, m and a count c >= 2 (c >= 1 for
   the first value), so delta and (x - mean_new) never have opposite signs *)
Theorem C08_welford_mean_between : forall x m c : R,
  generic_format radix2 (SpecFloat.fexp 53 1024) x -> generic_format radix2 (SpecFloat.fexp 53 1024) m ->
  (2 <= c \/ (x = m /\ 1 <= c))%R ->
  let m1 := RN (m + RN (RN (x - m) / c)) in
  ((m <= x -> m <= m1 <= x) /\ (x <= m -> x <= m1 <= m))%R.
Proof. exact mean_between. Qed.
Print Assumptions C08_welford_mean_between.

Theorem C08_binary_label_01 : forall o, (fst (binary_tag o) < 2)%nat.
Proof. exact binary_label_01. Qed.
Print Assumptions C08_binary_label_01.

(* the binary sureness |val| is >= 0 for every program output that is not NaN *)
Theorem C08_binary_sureness_nonneg : forall o,
  match o with Some x => is_nan x = false | None => True end ->
  F64.leb F64.zero (snd (binary_tag o)) = true.
Proof. exact binary_sureness_nonneg. Qed.
Print Assumptions C08_binary_sureness_nonneg.

(* winner-takes-all: the answer is a member's answer and no member is surer *)
Theorem C08_wta_picks_max_sureness : forall tags best,
  (forall t, In t tags -> is_nan (snd t) = false) ->
  wta tags = Some best ->
  In best tags /\ forall t, In t tags -> F64.gtb (snd t) (snd best) = false.
Proof. exact wta_picks_max_sureness. Qed.
Print Assumptions C08_wta_picks_max_sureness.

Theorem C08_mv_confidence_01 : forall classes tags lab c, (0 < classes)%nat -> tags <> [] ->
  Z.of_nat (length tags) <= 2 ^ 64 ->
  mv classes tags = Some (lab, c) -> (lab < classes)%nat /\ le01 c.
Proof. exact mv_confidence_01. Qed.
Print Assumptions C08_mv_confidence_01.

(* --------------------------------------------------------------- accuracy *)
Theorem C08_accuracy_is_fraction : forall pl, pl <> [] -> Z.of_nat (length pl) <= 2 ^ 64 ->
  accuracy_class pl = F64.div (F64.of_Z (Z.of_nat (n_ok pl))) (F64.of_Z (Z.of_nat (length pl))) /\
  (n_ok pl <= length pl)%nat /\ le01 (accuracy_class pl).
Proof. exact accuracy_is_fraction. Qed.
Print Assumptions C08_accuracy_is_fraction.

Theorem C08_accuracy_reg_in_01 : forall pl, pl <> [] -> Z.of_nat (length pl) <= 2 ^ 64 ->
  le01 (accuracy_reg pl).
Proof. exact accuracy_reg_is_fraction. Qed.
Print Assumptions C08_accuracy_reg_in_01.

(* ---------------------------------------------------------- (de)serialisation *)
(* serialize::save followed by serialize::lambda::load gives back the model
   (token level: SERIALIZE_ID dispatch, individual, tables / distributions /
   members, class names), for every kind of model: regression, team
   regression, dyn_slot / gaussian / binary, and their (winner-takes-all) teams.
   [wf_model]: what the constructors guarantee (matrix data = cols * rows,
   one class per row, at least one class name, members of the team's kind). *)
Theorem C08_load_of_save_is_the_model : forall (ind : Type) (m : smodel ind) rest, wf_model ind m ->
  load_model ind (save_model ind m ++ rest) = Some (m, rest).
Proof. exact load_save. Qed.
Print Assumptions C08_load_of_save_is_the_model.

Theorem C08_predict_load_save : forall (ind : Type) libm_atan libm_exp run (m : smodel ind) rest m' rest',
  wf_model ind m ->
  load_model ind (save_model ind m ++ rest) = Some (m', rest') ->
  rest' = rest /\ spredict ind libm_atan libm_exp run m' = spredict ind libm_atan libm_exp run m.
Proof. exact predict_load_save. Qed.
Print Assumptions C08_predict_load_save.

(* the tables of a freshly built dyn_slot model survive (matrix flattened row
   by row, read back cols * rows) *)
Theorem C08_dyn_tables_roundtrip : forall d dsize,
  length (dm_matrix d) = dm_ns d -> Forall (fun r => length r = dm_classes d) (dm_matrix d) ->
  dyn_of_sdyn (sdyn_of_dyn d dsize) = d.
Proof. exact dyn_of_sdyn_of_dyn. Qed.
Print Assumptions C08_dyn_tables_roundtrip.

(* ------------------------------------------------------------ non-vacuity *)
Example C08_ex_slot_class : fix_unknown 2 None [2; 1; 2; 2; 0; 2]%nat = [1; 1; 1; 1; 0; 0]%nat.
Proof. reflexivity. Qed.
Example C08_ex_first_unknown_all : fix_unknown 3 None [3; 3; 3]%nat = [0; 0; 0]%nat.
Proof. reflexivity. Qed.
Example C08_ex_tie_goes_up : best_class [4; 7; 7; 1] = 2%nat /\ raw_class 4 [0; 0; 0; 0] = 4%nat.
Proof. split; reflexivity. Qed.

(* a history with copies, self-assignment, moves, vector growth and erasure is valid *)
Example C08_ex_history :
  exists vs : vstate nat, vrun vinit [MNew 10; MNew 20; MCopy 0; MAssign 0 1; MAssign 2 2; VPush 0; VPush 2; VPush 3;
                            MDestroy 0; VErase 0; MMove 1; MDestroy 2]%nat = Some vs /\
             v_get vs 3 = Some 10%nat /\ v_get vs 4 = Some 20%nat /\ v_get vs 6 = Some 20%nat.
Proof. eexists. split; [vm_compute; reflexivity|]. repeat split. Qed.

(* the hypotheses about exp are satisfiable, and so is var_ok on a table with an empty class *)
Example C08_ex_libm : exists e : f64 -> f64,
  (forall x : f64, is_nan x = true -> is_nan (e x) = true) /\
  (forall x : f64, F64.leb x F64.zero = true -> le01 (e x)).
Proof.
  exists (fun x => if is_nan x then F64.nan else F64.zero). split.
  - intros x H. rewrite H. reflexivity.
  - intros x H. destruct (leb_true_nonnan _ _ H) as [N _]. rewrite N. apply le01_zero.
Qed.
Example C08_ex_var_ok : Forall (fun mv : f64 * f64 => var_ok (snd mv)) [(F64.zero, L.one); (F64.zero, F64.nan)].
Proof. constructor; [right; reflexivity|]. constructor; [left; reflexivity|constructor]. Qed.
Example C08_ex_dyn_build : exists d, dyn_build (fun _ => F64.zero) 2 2 [(Some L.one, 1%nat); (None, 0%nat)] = Some d.
Proof. eexists. vm_compute. reflexivity. Qed.
Example C08_ex_gauss_build : exists g, gauss_build 3 [(Some L.one, 0%nat); (Some L.cut, 0%nat); (None, 2%nat)] = Some g /\
  length g = 3%nat.
Proof. eexists. split; [unfold gauss_build; cbn [gauss_fill repeat nth_error set_nth]; reflexivity|reflexivity]. Qed.
Example C08_ex_wf_team : wf_model nat (MTeam nat KDyn 2 [CDyn nat 7%nat {| sy_cols := 2; sy_rows := 1; sy_data := [3; 0]; sy_cls := [0]; sy_dsize := 3 |}] [5; 6]).
Proof. split; [constructor; [split; [reflexivity|unfold wf_core, wf_sdyn; simpl; repeat split; discriminate || reflexivity]|constructor]|discriminate]. Qed.
