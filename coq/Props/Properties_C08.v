(* C08 -- Models agree with the interpreter and honour the prediction contract.

   Statements only; the proofs are in Lambda/LambdaProofs.v (tables, votes,
   counting), Lambda/LambdaHeap.v (object identities) and Lambda/LambdaFloat.v
   (binary64).  The model is Lambda/LambdaDefs.v, which mirrors
   detail/lambda_f.h, lambda_f.tcc, discretization.h, distribution.tcc,
   model_metric.cc and the classification evaluators function by function; the
   output of a program on an example is an oracle (property C01), [libm_atan]
   and [libm_exp] are the C library's functions. *)
From Coq Require Import ZArith List Bool.
From VV Require Import Base.F64 Lambda.LambdaDefs Lambda.LambdaProofs.
Import ListNotations.
Local Open Scope Z_scope.

(* ---------------------------------------------------------------- slots *)
(* slot() never leaves the table: for every program output (any double the
   conversion is defined for, or undefined) the slot is < number of slots *)
Theorem C08_slot_in_range : forall libm_atan ns o s, (0 < ns)%nat ->
  slot libm_atan ns o = Some s -> (s < ns)%nat.
Proof. exact slot_in_range. Qed.
Print Assumptions C08_slot_in_range.

(* slot = min(discretization(x, last), last); undefined output -> last slot *)
Theorem C08_slot_is_clamped_discretization : forall libm_atan ns val s, (0 < ns)%nat ->
  slot libm_atan ns (Some val) = Some s ->
  exists w, discretization libm_atan val (Z.of_nat (ns - 1)) = Some w /\ 0 <= w /\
            Z.of_nat s = Z.min w (Z.of_nat (ns - 1)).
Proof. exact slot_is_min. Qed.
Print Assumptions C08_slot_is_clamped_discretization.

(* ------------------------------------------------------------- dyn_slot *)
(* every answer of a dyn_slot model names an existing class: all training
   sets (any labels the table accepts, empty classes, no example at all),
   all queries *)
Theorem C08_dyn_slot_label_lt_classes : forall libm_atan classes x_slot train d o lab c,
  (0 < classes)%nat ->
  dyn_build libm_atan classes x_slot train = Some d ->
  dyn_tag libm_atan d o = Some (lab, c) -> (lab < classes)%nat.
Proof. exact dyn_slot_label_lt_classes. Qed.
Print Assumptions C08_dyn_slot_label_lt_classes.

(* "the class chosen by the documented rule": a slot that saw training
   examples answers the class with the largest count in that slot, the
   highest such class on ties *)
Theorem C08_dyn_slot_known_slot_is_argmax : forall libm_atan classes x_slot train d s,
  (0 < classes)%nat ->
  dyn_build libm_atan classes x_slot train = Some d -> (s < dm_ns d)%nat ->
  let r := nth s (dm_matrix d) [] in
  let lab := nth s (dm_slot_class d) O in
  0 < nth (best_class r) r 0 ->
  lab = best_class r /\
  (forall k, (k < classes)%nat -> nth k r 0 <= nth lab r 0) /\
  (forall k, (lab < k < classes)%nat -> nth k r 0 < nth lab r 0).
Proof. exact dyn_known_slot_is_argmax. Qed.
Print Assumptions C08_dyn_slot_known_slot_is_argmax.

(* ------------------------------------------------------------------ teams *)
Theorem C08_team_mean_is_running_mean : forall outs avg,
  team_eval outs = Some avg -> avg = running_mean (defined outs).
Proof. exact team_eval_value. Qed.
Print Assumptions C08_team_mean_is_running_mean.

Theorem C08_all_undefined_gives_undefined : forall outs,
  defined outs = [] -> team_eval outs = None.
Proof. exact team_all_undefined. Qed.
Print Assumptions C08_all_undefined_gives_undefined.

(* winner-takes-all answers with one member's answer *)
Theorem C08_wta_is_a_member_answer : forall tags t, wta tags = Some t -> In t tags.
Proof. exact wta_in. Qed.
Print Assumptions C08_wta_is_a_member_answer.

(* -------------------------------------------------------------- evaluator *)
(* the error the dyn_slot / binary evaluators report is the number of
   examples on which the SAME tag function disagrees with the label, counted
   in a double *)
Theorem C08_evaluator_scores_the_model : forall pl,
  count_eval pl = F64.neg (L.count_up F64.zero (n_bad pl)) /\
  (n_ok pl + n_bad pl = length pl)%nat.
Proof. intro pl. split; [exact (count_eval_is_count_up pl)|exact (n_ok_bad pl)]. Qed.
Print Assumptions C08_evaluator_scores_the_model.

(* ------------------------------------------------------------ non-vacuity *)
Example C08_ex_slot_class : fix_unknown 2 None [2; 1; 2; 2; 0; 2]%nat = [1; 1; 1; 1; 0; 0]%nat.
Proof. reflexivity. Qed.
Example C08_ex_first_unknown_all : fix_unknown 3 None [3; 3; 3]%nat = [0; 0; 0]%nat.
Proof. reflexivity. Qed.
Example C08_ex_tie_goes_up : best_class [4; 7; 7; 1] = 2%nat /\ raw_class 4 [0; 0; 0; 0] = 4%nat.
Proof. split; reflexivity. Qed.
