(* C11 -- Save followed by load reproduces the object.

   Model: coq/Serial/SerialDefs.v (byte-level printers/parsers mirroring each
   save()/load() of the repaired tree; doubles are 64-bit patterns, so equality
   is bitwise).  [rt_spec save load norm x] unfolds to

     forall pre rest t, all_ws pre ->
       load (pre ++ save x ++ rest) t = (true, norm x, 10 :: rest)

   i.e. for EVERY target t, EVERY white space before and EVERY continuation of
   the stream, load succeeds, returns exactly [norm x] (x with the cached
   signatures cleared; x itself for the types without one) and stops before the
   final newline of save x.  The floating-point text enters through two
   hypotheses on the oracles show17 / read_f (proved satisfiable below):
     float_text_ok : the text of a finite double is non-empty, free of white
                     space and read back bit for bit (17 significant digits);
     blank_fails   : operator>> fails on a stream of blanks.
   The wf_* predicates only bound the integers by their C++ types, ask the
   doubles to be finite, and state the class invariants checked by is_valid().
   Nothing but statements lives in this file. *)
From Coq Require Import ZArith List Bool Lia Sorted.
From VV Require Import Serial.SerialDefs Serial.CodecProofs Serial.SerialProofs Serial.LoopProofs Serial.OrderProofs Serial.SerialExtraProofs.
Import ListNotations.
Local Open Scope Z_scope.

Theorem C11_decimal_unsigned_roundtrip : forall hi n pre r, 0 <= n <= hi -> all_ws pre -> nds r ->
  read_int true 0 hi (pre ++ show_u n ++ r) = Some (n, r).
Proof. exact read_int_show_u. Qed.
Print Assumptions C11_decimal_unsigned_roundtrip.

Theorem C11_decimal_signed_roundtrip : forall lo hi n pre r, lo <= n <= hi -> all_ws pre -> nds r ->
  read_int false lo hi (pre ++ show_i n ++ r) = Some (n, r).
Proof. exact read_int_show_i. Qed.
Print Assumptions C11_decimal_signed_roundtrip.

Theorem C11_hash_roundtrip : forall h pre rest t, wf_hash h -> all_ws pre ->
  hash_load (pre ++ hash_save h ++ rest) t = (true, h, 10 :: rest).
Proof. exact hash_rt. Qed.
Print Assumptions C11_hash_roundtrip.

(* fitness_t::load consumes its whole line *)
Theorem C11_fitness_roundtrip : forall show17 read_f, float_text_ok show17 read_f -> blank_fails read_f ->
  forall f pre rest t, wf_fit f -> all_ws pre ->
  fit_load read_f (pre ++ fit_save show17 f ++ rest) t = (true, f, rest).
Proof. exact fit_rt. Qed.
Print Assumptions C11_fitness_roundtrip.

Theorem C11_i_mep_roundtrip : forall show17 read_f, float_text_ok show17 read_f ->
  forall ss m, wf_mep ss m -> rt_spec (mep_save show17 ss) (mep_load read_f ss) mep_norm m.
Proof. exact mep_rt. Qed.
Print Assumptions C11_i_mep_roundtrip.

Theorem C11_i_ga_roundtrip : forall v, wf_ga v -> rt_spec ga_save ga_load vec_norm v.
Proof. exact ga_rt. Qed.
Print Assumptions C11_i_ga_roundtrip.

Theorem C11_i_de_roundtrip : forall show17 read_f, float_text_ok show17 read_f ->
  forall v, wf_de v -> rt_spec (de_save show17) (de_load read_f) vec_norm v.
Proof. exact de_rt. Qed.
Print Assumptions C11_i_de_roundtrip.

(* containers: over ANY kind of individual that round-trips *)
Theorem C11_team_roundtrip : forall (I : Type) isave iload (idflt : I) inorm (wfI : I -> Prop),
  (forall x, wfI x -> rt_spec isave iload inorm x) -> (forall x, (0 < length (isave x))%nat) ->
  forall tm, wf_team I wfI tm ->
  rt_spec (team_save I isave) (team_load I iload idflt) (team_norm I inorm) tm.
Proof. exact team_rt. Qed.
Print Assumptions C11_team_roundtrip.

Theorem C11_population_roundtrip : forall (I : Type) isave iload (idflt : I) inorm (wfI : I -> Prop),
  (forall x, wfI x -> rt_spec isave iload inorm x) -> (forall x, (0 < length (isave x))%nat) ->
  forall p, wf_pop I wfI p ->
  rt_spec (pop_save I isave) (pop_load I iload idflt) (map (layer_norm I inorm)) p.
Proof. exact pop_rt. Qed.
Print Assumptions C11_population_roundtrip.

(* [eread]/[ewf]: the reader of the elapsed time and the range it covers
   (read_i32 / is_i32 for the `int ms` of the pinned summary::load, read_i64 /
   is_i64 once it is read with the width it is saved with) *)
Theorem C11_summary_roundtrip : forall show17 read_f, float_text_ok show17 read_f -> blank_fails read_f ->
  forall (I : Type) isave iload (idflt : I) inorm (wfI : I -> Prop),
  (forall x, wfI x -> rt_spec isave iload inorm x) ->
  forall isempty eread (ewf : Z -> Prop),
  (forall n pre r, ewf n -> all_ws pre -> nds r -> eread (pre ++ show_i n ++ r) = Some (n, r)) ->
  forall x, wf_summary I idflt wfI isempty ewf x ->
  rt_spec (summary_save show17 I isave isempty) (summary_load read_f I iload idflt eread) (sum_norm I inorm isempty) x.
Proof. exact summary_rt. Qed.
Print Assumptions C11_summary_roundtrip.

Theorem C11_distribution_roundtrip : forall show17 read_f, float_text_ok show17 read_f ->
  forall d, wf_dist d -> rt_spec (dist_save show17) (dist_load read_f) (fun d => d) d.
Proof. exact dist_rt. Qed.
Print Assumptions C11_distribution_roundtrip.

Theorem C11_matrix_roundtrip : forall m, wf_matrix m -> rt_spec matrix_save matrix_load (fun m => m) m.
Proof. exact matrix_rt. Qed.
Print Assumptions C11_matrix_roundtrip.

(* The field orders regenerated from the C++ source on this run agree between
   each save()/load() pair and with the order the model streams them in
   (the numeric tail of summary is printed/parsed BY the regenerated orders;
   C11_summary_roundtrip above is therefore a statement about them). *)
Theorem C11_field_orders_agree : orders_agree.
Proof. exact orders_agree_holds. Qed.
Print Assumptions C11_field_orders_agree.

(* both elapsed-time readers meet the premise of C11_summary_roundtrip *)
Theorem C11_summary_elapsed_readers : forall n pre r, all_ws pre -> nds r ->
  (is_i32 n -> read_i32 (pre ++ show_i n ++ r) = Some (n, r)) /\
  (i64_min <= n <= i64_max -> read_i64 (pre ++ show_i n ++ r) = Some (n, r)).
Proof. exact elapsed_readers. Qed.
Print Assumptions C11_summary_elapsed_readers.

(* distribution::save does not refuse a distribution with finite statistics *)
Theorem C11_distribution_save_accepts : forall d, wf_dist d -> dist_save_ok d = true.
Proof. exact dist_save_ok_wf. Qed.
Print Assumptions C11_distribution_save_accepts.

(* ---- the loops carry no fuel ------------------------------------------------
   [rep p fuel n s] is how the model writes  for (i = 0; i < n; ++i) <parse one
   element> ; the loaders call it with fuel = length of the stream.  It computes
   exactly the fuel-free semantics [Reps] of the loop -- exhaustion of the fuel
   never passes for a result, whatever n (2^64-1 included) -- for every parser
   that consumes at least one byte when it succeeds, and every element parser at
   every call site is such a parser, for EVERY behaviour of the float oracle. *)
Theorem C11_loops_are_fuel_free : forall A (p : parser A), prog p ->
  forall n s fuel, (length s <= fuel)%nat ->
  Reps p n s (rep p fuel n s) /\ rep p fuel n s = rep p (length s) n s.
Proof. exact loops_fuel_free. Qed.
Print Assumptions C11_loops_are_fuel_free.

Theorem C11_loop_semantics_deterministic : forall A (p : parser A) n s r1 r2,
  Reps p n s r1 -> Reps p n s r2 -> r1 = r2.
Proof. exact loop_det. Qed.
Print Assumptions C11_loop_semantics_deterministic.

Theorem C11_gene_arguments_loop_fuel_free : forall (p : parser Z) arity s,
  Reps p (Z.of_nat arity) s (rep p arity (Z.of_nat arity) s).
Proof. exact args_loop_fuel_free. Qed.
Print Assumptions C11_gene_arguments_loop_fuel_free.

Theorem C11_element_parsers_make_progress : forall read_f ss,
  prog read_i32 /\ prog (rdf read_f) /\ prog (gene_parse read_f ss) /\ prog (kv_parse read_f) /\
  prog (ind_parse mep (mep_load read_f ss) mep_default) /\
  prog (ind_parse vec_ind ga_load vec_default) /\ prog (ind_parse vec_ind (de_load read_f) vec_default) /\
  (forall (I : Type) iload (idflt : I), lprog iload ->
     prog (ind_parse I iload idflt) /\ lprog (team_load I iload idflt) /\ prog (layer_parse I iload idflt)).
Proof. exact element_parsers_prog. Qed.
Print Assumptions C11_element_parsers_make_progress.

(* a concrete tower: multi-layer populations of teams of MEP individuals *)
Theorem C11_population_of_teams_roundtrip : forall show17 read_f, float_text_ok show17 read_f ->
  forall ss p, wf_pop (team mep) (wf_team mep (wf_mep ss)) p ->
  rt_spec (pop_save (team mep) (team_save mep (mep_save show17 ss)))
          (pop_load (team mep) (team_load mep (mep_load read_f ss) mep_default) team_default)
          (map (layer_norm (team mep) (team_norm mep mep_norm))) p.
Proof. exact pop_of_teams_rt. Qed.
Print Assumptions C11_population_of_teams_roundtrip.

(* saving the reloaded object yields the same bytes again *)
Theorem C11_resave_same_bytes_individuals : forall s17 ss m v,
  mep_save s17 ss (mep_norm m) = mep_save s17 ss m /\
  ga_save (vec_norm v) = ga_save v /\ de_save s17 (vec_norm v) = de_save s17 v.
Proof. intros. exact (conj (mep_save_norm s17 ss m) (conj (ga_save_norm v) (de_save_norm s17 v))). Qed.
Print Assumptions C11_resave_same_bytes_individuals.

Theorem C11_resave_same_bytes_containers : forall (I : Type) (isave : I -> stream) inorm,
  (forall x, isave (inorm x) = isave x) ->
  (forall t, team_save I isave (team_norm I inorm t) = team_save I isave t) /\
  (forall p, pop_save I isave (map (layer_norm I inorm) p) = pop_save I isave p).
Proof. intros I isave inorm H. exact (conj (fun t => team_save_norm I isave inorm t H) (fun p => pop_save_norm I isave inorm p H)). Qed.
Print Assumptions C11_resave_same_bytes_containers.

(* the signature of the reloaded individual is the signature of the original,
   for every hash function of the content *)
Theorem C11_signature_preserved : forall h m, mep_sig_valid h m ->
  mep_signature h (mep_norm m) = mep_signature h m.
Proof. exact mep_signature_norm. Qed.
Print Assumptions C11_signature_preserved.

(* ---- non-vacuity ---- *)
(* the two hypotheses on the floating-point oracles are satisfiable *)
Example C11_float_hypotheses_satisfiable : float_text_ok show_u read_u64 /\ blank_fails read_u64.
Proof. exact (conj toy_float_text_ok toy_blank_fails). Qed.

Definition ex_ss : symset := [ {| sy_opcode := 0; sy_arity := 0; sy_param := true |};
                              {| sy_opcode := 1; sy_arity := 2; sy_param := false |} ].
Definition ex_mep : mep :=
  {| m_age := 7; m_cols := 1;
     m_genes := [ {| g_op := 1; g_par := 0; g_args := [1; 2] |};
                  {| g_op := 0; g_par := 4638355772470722560; g_args := [] |};
                  {| g_op := 0; g_par := 9218868437227405311; g_args := [] |} ];
     m_best := (0, 0); m_sig := (5, 6) |}.
Example C11_wf_mep_met : wf_mep ex_ss ex_mep.
Proof.
  assert (G1 : wf_gene ex_ss {| g_op := 1; g_par := 0; g_args := [1; 2] |}).
  { split; [unfold is_u32, u32_max; cbn; lia|].
    exists {| sy_opcode := 1; sy_arity := 2; sy_param := false |}.
    repeat split; try reflexivity. repeat constructor; unfold is_u16, u16_max; lia. }
  assert (G2 : forall p, finite_b p = true -> wf_gene ex_ss {| g_op := 0; g_par := p; g_args := [] |}).
  { intros p Hp. split; [unfold is_u32, u32_max; cbn; lia|].
    exists {| sy_opcode := 0; sy_arity := 0; sy_param := true |}.
    repeat split; try reflexivity; [constructor|exact Hp]. }
  unfold wf_mep, ex_mep, mep_rows, is_u32, is_u64, u32_max, u64_max.
  cbn [m_age m_cols m_genes m_best m_sig zlen length fst snd].
  repeat split; try (cbn; lia).
  constructor; [exact G1|]. constructor; [apply G2; reflexivity|].
  constructor; [apply G2; reflexivity|constructor].
Qed.
Example C11_mep_example_runs :
  mep_load read_u64 ex_ss (mep_save show_u ex_ss ex_mep) mep_default = (true, mep_norm ex_mep, [10]).
Proof. vm_compute. reflexivity. Qed.
Example C11_wf_population_met :
  wf_pop vec_ind wf_ga [ (5, [ {| v_age := 3; v_genome := [-2147483648; 2147483647]; v_sig := (1, 1) |} ]); (4, []) ].
Proof.
  unfold wf_pop, wf_layer, wf_ga, is_u32, is_u64, is_i32, u32_max, u64_max, i32_min, i32_max.
  repeat split; try discriminate; try (cbn; lia).
  repeat constructor; cbn; try lia; repeat constructor; cbn; lia.
Qed.
