(* C11 -- Save followed by load reproduces the object.

   Model: coq/Serial/SerialDefs.v (byte-level printers/parsers mirroring each
   save()/load() of the repaired tree).  Every theorem: for ALL well-formed
   objects x, ALL targets t, ALL white-space prefixes and ALL continuations of
   the stream, load reads back exactly x (doubles bitwise; cached signatures
   cleared), and leaves the stream just before the final newline of save x.
   Nothing but statements lives in this file. *)
From Coq Require Import ZArith List Bool Lia.
From VV Require Import Serial.SerialDefs Serial.CodecProofs Serial.SerialProofs.
Import ListNotations.
Local Open Scope Z_scope.

Theorem C11_decimal_codec_roundtrip : forall hi n pre r, 0 <= n <= hi -> all_ws pre -> nds r ->
  read_int true 0 hi (pre ++ show_u n ++ r) = Some (n, r).
Proof. exact read_int_show_u. Qed.
Print Assumptions C11_decimal_codec_roundtrip.

Theorem C11_hash_roundtrip : forall h pre rest t, wf_hash h -> all_ws pre ->
  hash_load (pre ++ hash_save h ++ rest) t = (true, h, 10 :: rest).
Proof. exact hash_rt. Qed.
Print Assumptions C11_hash_roundtrip.

Example C11_hash_nonvacuous : wf_hash (18446744073709551615, 0) /\
  hash_load (hash_save (18446744073709551615, 0)) (1, 2) = (true, (18446744073709551615, 0), [10]).
Proof. split; [unfold wf_hash, is_u64, u64_max; cbn; lia|vm_compute; reflexivity]. Qed.
