(* C02 -- findings on the pinned tree, as refuted statements.

   std::map requires its comparator to be a strict weak ordering.  The
   gene_cmp of the pinned i_mep::cse() ([gene_cmp_old]) is not asymmetric:
   two genes with the same function symbol and arguments [1;5] / [2;3] are
   each "less" than the other.  (On the implementation this shows as lost map
   nodes -- LeakSanitizer -- and, for multi-category genomes, as arguments
   redirected to the gene's own row; the check replays such an individual on
   the real code.)  The repaired comparator [gene_cmp] orders the witness. *)
From Coq Require Import ZArith List Bool.
Local Ltac c02_scan0 := idtac. (* separates the Require lines for the dependency scanner of lib/vv.py *)
From VV Require Import Base.F64 Mep.Genome Mep.OpsDefs Mep.CseProofs.
Local Ltac c02_scan1 := idtac.
Import ListNotations.

Theorem C02_gene_cmp_old_asymmetric_refuted :
  exists a b, gene_cmp_old a b = true /\ gene_cmp_old b a = true.
Proof. exists swo_witness_a, swo_witness_b. exact gene_cmp_old_not_asymmetric. Qed.
Print Assumptions C02_gene_cmp_old_asymmetric_refuted.

Theorem C02_gene_cmp_repaired_orders_the_witness :
  gene_cmp swo_witness_a swo_witness_b = true /\ gene_cmp swo_witness_b swo_witness_a = false.
Proof. exact gene_cmp_asymmetric_on_witness. Qed.
Print Assumptions C02_gene_cmp_repaired_orders_the_witness.
