(* C02 -- findings on the pinned tree, as refuted statements.

   std::map requires its comparator to be a strict weak ordering.  The
   gene_cmp of the pinned i_mep::cse() ([gene_cmp_old]) is not asymmetric:
   two genes with the same function symbol and arguments [1;5] / [2;3] are
   each "less" than the other.  A map with such a comparator guarantees only
   that the node find() returns is equivalent to the key (Mep/CseAnyDefs.v).
   [C02_cse_pinned_comparator_wf_refuted]: a well-formed two-category
   individual (9 rows) and a resolution of the lookups under which cse()
   rewrites the argument of [2,1] to row 2, its own row -- ill-formed, not
   executable.  libstdc++'s red-black tree makes exactly these choices: the
   check replays this individual on the real code (on the pinned comparator it
   prints [2,1] G 2; on the current one G 3, as [w_new_verdict] computes).
   [gene_cmp] is the comparator after that repair (parameters compared with
   operator<), [gene_cmp_mem] the current one (std::memcmp of the parameter). *)
From Coq Require Import ZArith List Bool.
Local Ltac c02_scan0 := idtac. (* separates the Require lines for the dependency scanner of lib/vv.py *)
From VV Require Import Base.F64 Mep.Genome Mep.OpsDefs Mep.CseProofs Mep.CseAnyDefs Mep.CseAnyProofs.
Local Ltac c02_scan1 := idtac.
Import ListNotations.

Theorem C02_gene_cmp_old_asymmetric_refuted :
  exists a b, gene_cmp_old a b = true /\ gene_cmp_old b a = true.
Proof. exists swo_witness_a, swo_witness_b. exact gene_cmp_old_not_asymmetric. Qed.
Print Assumptions C02_gene_cmp_old_asymmetric_refuted.

Theorem C02_gene_cmp_repaired_orders_the_witness :
  gene_cmp swo_witness_a swo_witness_b = true /\ gene_cmp swo_witness_b swo_witness_a = false.
Proof. exact gene_cmp_asymmetric_on_witness. Qed.
Print Assumptions C02_gene_cmp_repaired_orders_the_witness.

Theorem C02_cse_pinned_comparator_wf_refuted :
  wf_sset_b w_ss = true /\ ind_ok_b w_ss 1 w_genome = true /\
  exists g', cse_genome_any gene_cmp_old w_genome w_choices = Some g' /\
             ind_ok_b w_ss 1 g' = false /\
             exists ge, cell g' 2 1 = Some ge /\ g_args ge = [2].
Proof. exact cse_old_witness. Qed.
Print Assumptions C02_cse_pinned_comparator_wf_refuted.

Theorem C02_cse_repaired_on_the_witness : w_new_verdict_b = true.
Proof. exact w_new_verdict. Qed.
Print Assumptions C02_cse_repaired_on_the_witness.
