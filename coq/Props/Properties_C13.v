(* C13 -- Real-valued primitives are closed over finite-or-undefined values.

   The bodies [real_*_body] and [string_ife_body] are regenerated from
   /repo/src/kernel/gp/src/primitive/{real,string}.h on every check run
   (coq/Gen/Prims.v); [run_body] runs them under the C++ semantics of
   Cxx/CxxMini.v over Flocq's binary64 (Base/F64.v); an exception
   (std::bad_variant_access) is the outcome [Throw], undefined behaviour is
   [Stuck].  Vocabulary (Prims/RealDefs.v):
     rarg v            v is undefined or a FINITE double
     fou v             v is undefined, an int, a string or a FINITE double
     returns P o       o = Val v for some v with P v   (so: no Throw, no Stuck)
     closed_on lm b [D0;..;Dn] P   for all a0..an with Di ai: returns P (run_body lm b [a0;..;an])
     strict_on lm b n  for all n-tuples of values of ANY alternative: if an argument
                       that is actually fetched is undefined, the result is undefined
   Only statements live here; proofs are in Prims/RealProofs.v. *)
From Coq Require Import ZArith List Bool Reals.
From Flocq Require Import Core IEEE754.BinarySingleNaN.
From VV Require Import Base.F64 Base.Values Interp.Strategy Cxx.CxxMini Gen.Prims Mep.Genome
                       Prims.RealDefs Prims.RealProofs.
Import ListNotations.
Local Open Scope Z_scope.


(* ------------------------------------------------------------------ *)
(* closure: finite-or-undefined in, finite-or-undefined out (never NaN,
   never an infinity, never an exception) *)

Theorem C13_arithmetic_closed : forall lm,
  closed_on lm real_add_body [rarg; rarg] rarg /\ closed_on lm real_sub_body [rarg; rarg] rarg /\
  closed_on lm real_mul_body [rarg; rarg] rarg /\ closed_on lm real_div_body [rarg; rarg] rarg /\
  closed_on lm real_idiv_body [rarg; rarg] rarg /\ closed_on lm real_mod_body [rarg; rarg] rarg /\
  closed_on lm real_max_body [rarg; rarg] rarg /\ closed_on lm real_aq_body [rarg; rarg] rarg.
Proof. exact arith_closed_all. Qed.
Print Assumptions C13_arithmetic_closed.

(* the comparisons return 0 or 1 of the int alternative *)
Theorem C13_comparisons_closed : forall lm,
  closed_on lm real_gt_body [rarg; rarg] (fun v => v = VVoid \/ v = VInt 0 \/ v = VInt 1) /\
  closed_on lm real_lt_body [rarg; rarg] (fun v => v = VVoid \/ v = VInt 0 \/ v = VInt 1).
Proof. exact compare_closed_all. Qed.
Print Assumptions C13_comparisons_closed.

(* ephemeral constants: the parameter stored in the gene, when finite *)
Theorem C13_constants_closed : forall lm p, F64.is_finite p = true ->
  returns rarg (run_body_p lm real_real_body p) /\ returns rarg (run_body_p lm real_integer_body p).
Proof. exact constants_closed_all. Qed.
Print Assumptions C13_constants_closed.

(* conditionals: any property shared by the undefined value and the two branch
   arguments (in particular [fou], or "undefined or a finite real") holds of the result *)
Theorem C13_conditionals_closed : forall lm (P : value -> Prop), P VVoid ->
  closed_on lm real_ife_body [rarg; rarg; P; P] P /\ closed_on lm real_ifl_body [rarg; rarg; P; P] P /\
  closed_on lm real_ifz_body [rarg; P; P] P /\ closed_on lm real_ifb_body [rarg; rarg; rarg; P; P] P /\
  closed_on lm string_ife_body [anyv; anyv; P; P] P.
Proof. exact conditionals_closed_all. Qed.
Print Assumptions C13_conditionals_closed.

(* ------------------------------------------------------------------ *)
(* strictness: undefined whenever a fetched argument is undefined *)
Theorem C13_strict_on_fetched_arguments : forall lm,
  strict_on lm real_add_body 2 /\ strict_on lm real_sub_body 2 /\ strict_on lm real_mul_body 2 /\
  strict_on lm real_div_body 2 /\ strict_on lm real_idiv_body 2 /\ strict_on lm real_mod_body 2 /\
  strict_on lm real_max_body 2 /\ strict_on lm real_aq_body 2 /\ strict_on lm real_gt_body 2 /\
  strict_on lm real_lt_body 2 /\ strict_on lm real_abs_body 1 /\ strict_on lm real_cos_body 1 /\
  strict_on lm real_sin_body 1 /\ strict_on lm real_ln_body 1 /\ strict_on lm real_sqrt_body 1 /\
  strict_on lm real_sigmoid_body 1 /\ strict_on lm real_length_body 1 /\ strict_on lm real_ife_body 4 /\
  strict_on lm real_ifl_body 4 /\ strict_on lm real_ifz_body 3 /\ strict_on lm real_ifb_body 5 /\
  strict_on lm string_ife_body 4.
Proof. exact strict_all. Qed.
Print Assumptions C13_strict_on_fetched_arguments.

(* non-vacuity *)
Example C13_rarg_inhabited :
  rarg VVoid /\ rarg (VDouble (F64.of_bits 0x7FEFFFFFFFFFFFFF)) /\ rarg (VDouble (F64.of_bits 0x8000000000000001)) /\
  ~ rarg (VDouble (F64.of_bits 0x7FF0000000000000)) /\ ~ rarg (VDouble F64.nan).
Proof. unfold rarg. vm_compute. repeat split; try reflexivity; discriminate. Qed.
(* the guard is exercised: DBL_MAX + DBL_MAX is undefined, DBL_MAX + (-DBL_MAX) is +0 *)
Example C13_add_overflow_is_undefined : forall lm,
  run_body lm real_add_body [VDouble (F64.of_bits 0x7FEFFFFFFFFFFFFF); VDouble (F64.of_bits 0x7FEFFFFFFFFFFFFF)] = Val VVoid /\
  run_body lm real_add_body [VDouble (F64.of_bits 0x7FEFFFFFFFFFFFFF); VDouble (F64.of_bits 0xFFEFFFFFFFFFFFFF)] = Val (VDouble (F64.of_bits 0)).
Proof. intro. split; vm_compute; reflexivity. Qed.
(* the model does see a missing guard: the same body without it returns an infinity *)
Example C13_model_sees_missing_guard : forall lm,
  run_body lm [SReturn (EBin BAdd (ECall1 F_get_double (EArg 0)) (ECall1 F_get_double (EArg 1)))]
           [VDouble (F64.of_bits 0x7FEFFFFFFFFFFFFF); VDouble (F64.of_bits 0x7FEFFFFFFFFFFFFF)]
  = Val (VDouble (F64.inf false)).
Proof. intro. vm_compute. reflexivity. Qed.
