(* C13 -- Real-valued primitives are closed over finite-or-undefined values.

   The bodies [real_*_body] and [string_ife_body] are regenerated from
   /repo/src/kernel/gp/src/primitive/{real,string}.h on every check run
   (coq/Gen/Prims.v), together with the helpers they call -- issmall<double> of
   utility.h (the tolerance test), has_value of value.h, real::base -- which are
   parsed and inlined at their call sites; [run_body] runs them under the C++ semantics of
   Cxx/CxxMini.v over Flocq's binary64 (Base/F64.v); an exception
   (std::bad_variant_access) is the outcome [Throw], undefined behaviour is
   [Stuck].  Vocabulary (Prims/RealDefs.v):
     rarg v            v is undefined or a FINITE double
     fou v             v is undefined, an int, a string or a FINITE double
     returns P o       o = Val v for some v with P v   (so: no Throw, no Stuck)
     closed_on lm b [D0;..;Dn] P   for all a0..an with Di ai: returns P (run_body lm b [a0;..;an])
     strict_on lm b n  for all n-tuples of values of ANY alternative: if an argument
                       that is actually fetched is undefined, the result is undefined
   Only statements live here; proofs are in Prims/RealProofs.v. *)
From Coq Require Import ZArith List Bool Reals.
From Flocq Require Import Core IEEE754.BinarySingleNaN.
From VV Require Import Base.F64 Base.Values Interp.Strategy Cxx.CxxMini Gen.Prims Mep.Genome
                       Prims.RealDefs Prims.RealProofs.
Import ListNotations.
Local Open Scope Z_scope.


(* ------------------------------------------------------------------ *)
(* closure: finite-or-undefined in, finite-or-undefined out (never NaN,
   never an infinity, never an exception) *)

Theorem C13_arithmetic_closed : forall lm,
  closed_on lm real_add_body [rarg; rarg] rarg /\ closed_on lm real_sub_body [rarg; rarg] rarg /\
  closed_on lm real_mul_body [rarg; rarg] rarg /\ closed_on lm real_div_body [rarg; rarg] rarg /\
  closed_on lm real_idiv_body [rarg; rarg] rarg /\ closed_on lm real_mod_body [rarg; rarg] rarg /\
  closed_on lm real_max_body [rarg; rarg] rarg /\ closed_on lm real_aq_body [rarg; rarg] rarg.
Proof. exact arith_closed_all. Qed.
Print Assumptions C13_arithmetic_closed.

(* the comparisons return 0 or 1 of the int alternative *)
Theorem C13_comparisons_closed : forall lm,
  closed_on lm real_gt_body [rarg; rarg] (fun v => v = VVoid \/ v = VInt 0 \/ v = VInt 1) /\
  closed_on lm real_lt_body [rarg; rarg] (fun v => v = VVoid \/ v = VInt 0 \/ v = VInt 1).
Proof. exact compare_closed_all. Qed.
Print Assumptions C13_comparisons_closed.

(* ephemeral constants: the parameter stored in the gene, when finite *)
Theorem C13_constants_closed : forall lm p, F64.is_finite p = true ->
  returns rarg (run_body_p lm real_real_body p) /\ returns rarg (run_body_p lm real_integer_body p).
Proof. exact constants_closed_all. Qed.
Print Assumptions C13_constants_closed.

(* conditionals: any property shared by the undefined value and the two branch
   arguments (in particular [fou], or "undefined or a finite real") holds of the result *)
Theorem C13_conditionals_closed : forall lm (P : value -> Prop), P VVoid ->
  closed_on lm real_ife_body [rarg; rarg; P; P] P /\ closed_on lm real_ifl_body [rarg; rarg; P; P] P /\
  closed_on lm real_ifz_body [rarg; P; P] P /\ closed_on lm real_ifb_body [rarg; rarg; rarg; P; P] P /\
  closed_on lm string_ife_body [anyv; anyv; P; P] P.
Proof. exact conditionals_closed_all. Qed.
Print Assumptions C13_conditionals_closed.

(* the unary primitives; H_libm enters here: sin and cos map finite doubles to
   finite doubles ([sincos_finite]); exp maps a finite x <= 0 into [0,1]
   ([exp_unit]); log needs nothing (its result is guarded); a string is
   shorter than 2^64 bytes *)
Theorem C13_unary_closed : forall lm,
  closed_on lm real_abs_body [rarg] rarg /\ closed_on lm real_sqrt_body [rarg] rarg /\
  closed_on lm real_ln_body [rarg] rarg /\
  (sincos_finite lm -> closed_on lm real_sin_body [rarg] rarg /\ closed_on lm real_cos_body [rarg] rarg) /\
  (exp_unit lm -> closed_on lm real_sigmoid_body [rarg] rarg) /\
  closed_on lm real_length_body
    [(fun v => v = VVoid \/ exists s, v = VString s /\ Z.of_nat (length s) < 2 ^ 64)] rarg.
Proof. exact unary_closed_all. Qed.
Print Assumptions C13_unary_closed.

(* ------------------------------------------------------------------ *)
(* strictness: undefined whenever a fetched argument is undefined *)
Theorem C13_strict_on_fetched_arguments : forall lm,
  strict_on lm real_add_body 2 /\ strict_on lm real_sub_body 2 /\ strict_on lm real_mul_body 2 /\
  strict_on lm real_div_body 2 /\ strict_on lm real_idiv_body 2 /\ strict_on lm real_mod_body 2 /\
  strict_on lm real_max_body 2 /\ strict_on lm real_aq_body 2 /\ strict_on lm real_gt_body 2 /\
  strict_on lm real_lt_body 2 /\ strict_on lm real_abs_body 1 /\ strict_on lm real_cos_body 1 /\
  strict_on lm real_sin_body 1 /\ strict_on lm real_ln_body 1 /\ strict_on lm real_sqrt_body 1 /\
  strict_on lm real_sigmoid_body 1 /\ strict_on lm real_length_body 1 /\ strict_on lm real_ife_body 4 /\
  strict_on lm real_ifl_body 4 /\ strict_on lm real_ifz_body 3 /\ strict_on lm real_ifb_body 5 /\
  strict_on lm string_ife_body 4.
Proof. exact strict_all. Qed.
Print Assumptions C13_strict_on_fetched_arguments.

(* ------------------------------------------------------------------ *)
(* where a result is defined it is the IEEE-754 result of the named operation *)

(* (a) on two (one) doubles of ANY kind -- NaN and infinities included -- each
   body returns the Flocq binary64 operation, behind its guard
   ([guard r] = [VDouble r] when r is finite, else undefined) *)
Theorem C13_bodies_compute_the_ieee_operations : forall lm x y,
  run_body lm real_add_body [VDouble x; VDouble y] = Val (guard (F64.add x y)) /\
  run_body lm real_sub_body [VDouble x; VDouble y] = Val (guard (F64.sub x y)) /\
  run_body lm real_mul_body [VDouble x; VDouble y] = Val (guard (F64.mul x y)) /\
  run_body lm real_div_body [VDouble x; VDouble y] = Val (guard (F64.div x y)) /\
  run_body lm real_idiv_body [VDouble x; VDouble y] = Val (guard (F64.floor (F64.div x y))) /\
  run_body lm real_mod_body [VDouble x; VDouble y] = Val (guard (F64.fmod x y)) /\
  run_body lm real_max_body [VDouble x; VDouble y] = Val (guard (F64.fmax x y)) /\
  run_body lm real_aq_body [VDouble x; VDouble y] =
    Val (guard (F64.div x (F64.sqrt (F64.add one (F64.mul y y))))) /\
  run_body lm real_gt_body [VDouble x; VDouble y] = Val (VInt (if F64.ltb y x then 1 else 0)) /\
  run_body lm real_lt_body [VDouble x; VDouble y] = Val (VInt (if F64.ltb x y then 1 else 0)) /\
  run_body lm real_abs_body [VDouble x] = Val (VDouble (F64.abs x)) /\
  run_body lm real_sqrt_body [VDouble x] = Val (if F64.ltb x zero then VVoid else VDouble (F64.sqrt x)) /\
  run_body lm real_ln_body [VDouble x] = Val (guard (l_log lm x)) /\
  run_body lm real_sin_body [VDouble x] = Val (VDouble (l_sin lm x)) /\
  run_body lm real_cos_body [VDouble x] = Val (VDouble (l_cos lm x)) /\
  run_body lm real_sigmoid_body [VDouble x] =
    Val (VDouble (if F64.leb zero x then F64.div one (F64.add one (l_exp lm (F64.neg x)))
                  else F64.div (l_exp lm x) (F64.add one (l_exp lm x)))).
Proof. exact bodies_ieee. Qed.
Print Assumptions C13_bodies_compute_the_ieee_operations.

(* (b) and those operations are the correctly rounded real operations
   (RN = round to nearest even into binary64) whenever their result is finite;
   floor is the real floor and keeps the sign (floor(-0.0) = -0.0); fmax / fmin are
   the real max / min and return their FIRST argument when the two compare equal
   (glibc; so fmax(-0,+0) = -0); fmod is EXACT, x - trunc(x/y)*y with no rounding,
   smaller than |y| and with the sign of x, and a zero divisor gives a NaN (which
   the guard of real::mod turns into the undefined value) *)
Theorem C13_ieee_operations_on_the_reals : forall x y, F64.is_finite x = true -> F64.is_finite y = true ->
  (F64.is_finite (F64.add x y) = true -> B2R (F64.add x y) = RN (B2R x + B2R y)) /\
  (F64.is_finite (F64.sub x y) = true -> B2R (F64.sub x y) = RN (B2R x - B2R y)) /\
  (F64.is_finite (F64.mul x y) = true -> B2R (F64.mul x y) = RN (B2R x * B2R y)) /\
  (F64.is_finite (F64.div x y) = true -> B2R y <> 0%R /\ B2R (F64.div x y) = RN (B2R x / B2R y)) /\
  (F64.ltb x zero = false -> F64.is_finite (F64.sqrt x) = true /\ B2R (F64.sqrt x) = RN (sqrt (B2R x))) /\
  (F64.is_finite (F64.abs x) = true /\ B2R (F64.abs x) = Rabs (B2R x)) /\
  (F64.is_finite (F64.floor x) = true /\ B2R (F64.floor x) = IZR (Zfloor (B2R x)) /\
   Bsign (F64.floor x) = Bsign x) /\
  (F64.is_finite (F64.fmax x y) = true /\ B2R (F64.fmax x y) = Rmax (B2R x) (B2R y) /\
   ((B2R y <= B2R x)%R -> F64.fmax x y = x) /\ ((B2R x < B2R y)%R -> F64.fmax x y = y)) /\
  (F64.is_finite (F64.fmin x y) = true /\ B2R (F64.fmin x y) = Rmin (B2R x) (B2R y) /\
   ((B2R x <= B2R y)%R -> F64.fmin x y = x) /\ ((B2R y < B2R x)%R -> F64.fmin x y = y)) /\
  (B2R y <> 0%R ->
     F64.is_finite (F64.fmod x y) = true /\
     B2R (F64.fmod x y) = (B2R x - IZR (Ztrunc (B2R x / B2R y)) * B2R y)%R /\
     (Rabs (B2R (F64.fmod x y)) < Rabs (B2R y))%R /\
     Bsign (F64.fmod x y) = Bsign x) /\
  (B2R y = 0%R -> F64.is_finite (F64.fmod x y) = false).
Proof. exact ieee_values. Qed.
Print Assumptions C13_ieee_operations_on_the_reals.

(* ------------------------------------------------------------------ *)
(* conditionals take the documented branch -- value returned, argument
   fetched, and the test characterised on the reals, so also AT the boundary
   of the equality tolerance 2^-51 = 2 * DBL_EPSILON *)
Theorem C13_ife_branch : forall lm x y t e, F64.is_finite x = true -> F64.is_finite y = true ->
  run_body lm real_ife_body [VDouble x; VDouble y; t; e] = Val (if issmall (F64.sub x y) then t else e) /\
  fetched_body lm real_ife_body [VDouble x; VDouble y; t; e] =
    [0%nat; 1%nat; if issmall (F64.sub x y) then 2%nat else 3%nat] /\
  (issmall (F64.sub x y) = true <-> (Rabs (RN (B2R x - B2R y)) < bpow radix2 (-51))%R).
Proof. exact ife_branch. Qed.
Print Assumptions C13_ife_branch.

Theorem C13_ifz_branch : forall lm x t e,
  run_body lm real_ifz_body [VDouble x; t; e] = Val (if issmall x then t else e) /\
  fetched_body lm real_ifz_body [VDouble x; t; e] = [0%nat; if issmall x then 1%nat else 2%nat] /\
  (issmall x = true <-> F64.is_finite x = true /\ (Rabs (B2R x) < bpow radix2 (-51))%R).
Proof. exact ifz_branch. Qed.
Print Assumptions C13_ifz_branch.

Theorem C13_ifl_branch : forall lm x y t e, F64.is_finite x = true -> F64.is_finite y = true ->
  run_body lm real_ifl_body [VDouble x; VDouble y; t; e] = Val (if F64.ltb x y then t else e) /\
  fetched_body lm real_ifl_body [VDouble x; VDouble y; t; e] =
    [0%nat; 1%nat; if F64.ltb x y then 2%nat else 3%nat] /\
  (F64.ltb x y = true <-> (B2R x < B2R y)%R).
Proof. exact ifl_branch. Qed.
Print Assumptions C13_ifl_branch.

(* ifb: argument 3 when min(v1,v2) <= v0 <= max(v1,v2), else argument 4 *)
Theorem C13_ifb_branch : forall lm x y z t e,
  F64.is_finite x = true -> F64.is_finite y = true -> F64.is_finite z = true ->
  run_body lm real_ifb_body [VDouble x; VDouble y; VDouble z; t; e] = Val (if ifb_outside x y z then e else t) /\
  fetched_body lm real_ifb_body [VDouble x; VDouble y; VDouble z; t; e] =
    [0%nat; 1%nat; 2%nat; if ifb_outside x y z then 4%nat else 3%nat] /\
  (ifb_outside x y z = false <-> (Rmin (B2R y) (B2R z) <= B2R x <= Rmax (B2R y) (B2R z))%R).
Proof. exact ifb_branch. Qed.
Print Assumptions C13_ifb_branch.

(* ------------------------------------------------------------------ *)
(* programs: every expression tree (Mep/Genome.tree) whose nodes are shipped
   real/string primitives (strategy = the translated body), input variables
   bound to good values, or good constants, with finite ephemeral parameters
   and children rooted in the categories the arguments require ([wt]),
   evaluates -- under ANY assignment [kc] of kinds to categories -- to a value
   that is undefined or a good value of the root's category; in particular
   never to NaN, an infinity, an exception or undefined behaviour.
   By induction over the tree. *)
Theorem C13_program_closed : forall lm, sincos_finite lm -> exp_unit lm ->
  forall kc vars t, wt lm kc vars t ->
  returns (good (kc (root_cat t))) (run_tree vars t) /\ returns fou (run_tree vars t).
Proof. exact program_closed_both. Qed.
Print Assumptions C13_program_closed.

(* non-vacuity *)
Example C13_rarg_inhabited :
  rarg VVoid /\ rarg (VDouble (F64.of_bits 0x7FEFFFFFFFFFFFFF)) /\ rarg (VDouble (F64.of_bits 0x8000000000000001)) /\
  ~ rarg (VDouble (F64.of_bits 0x7FF0000000000000)) /\ ~ rarg (VDouble F64.nan).
Proof. unfold rarg. vm_compute. repeat split; try reflexivity; discriminate. Qed.
(* the guard is exercised: DBL_MAX + DBL_MAX is undefined, DBL_MAX + (-DBL_MAX) is +0 *)
Example C13_add_overflow_is_undefined : forall lm,
  run_body lm real_add_body [VDouble (F64.of_bits 0x7FEFFFFFFFFFFFFF); VDouble (F64.of_bits 0x7FEFFFFFFFFFFFFF)] = Val VVoid /\
  run_body lm real_add_body [VDouble (F64.of_bits 0x7FEFFFFFFFFFFFFF); VDouble (F64.of_bits 0xFFEFFFFFFFFFFFFF)] = Val (VDouble (F64.of_bits 0)).
Proof. intro. split; vm_compute; reflexivity. Qed.
(* the model does see a missing guard: the same body without it returns an infinity *)
Example C13_model_sees_missing_guard : forall lm,
  run_body lm [SReturn (EBin BAdd (ECall1 F_get_double (EArg 0)) (ECall1 F_get_double (EArg 1)))]
           [VDouble (F64.of_bits 0x7FEFFFFFFFFFFFFF); VDouble (F64.of_bits 0x7FEFFFFFFFFFFFFF)]
  = Val (VDouble (F64.inf false)).
Proof. intro. vm_compute. reflexivity. Qed.

(* the tolerance boundary itself: 2^-51 is NOT small, its predecessor is; 1 + 2^-51 is
   not equal to 1 for ife, 1 + 2^-52 is *)
Example C13_tolerance_boundary :
  issmall (F64.of_bits 0x3CC0000000000000) = false /\ issmall (F64.of_bits 0x3CBFFFFFFFFFFFFF) = true /\
  issmall (F64.of_bits 0xBCBFFFFFFFFFFFFF) = true /\ issmall (F64.of_bits 0x8000000000000000) = true /\
  ife_test (F64.of_bits 0x3FF0000000000002) one = false /\ ife_test (F64.of_bits 0x3FF0000000000001) one = true /\
  ife_test (F64.of_bits 0x7FEFFFFFFFFFFFFF) (F64.of_bits 0xFFEFFFFFFFFFFFFF) = false.
Proof. vm_compute. repeat split; reflexivity. Qed.
(* a well-typed program exists and evaluates: ife(x0 + c, c', sqrt(x0), x0 / x0) on x0 = 0 *)
Example C13_program_example : forall lm,
  let kc := fun _ : nat => KReal in
  let vars := fun i : nat => match i with O => Some (VDouble (F64.of_bits 0)) | _ => None end in
  let sy b cats := {| s_opcode := 0; s_cat := 0; s_argcats := cats; s_parametric := false; s_strat := strategy_of lm b |} in
  let x0 := Node {| s_opcode := 1; s_cat := 0; s_argcats := []; s_parametric := false;
                    s_strat := Var 0 (fun v => Ret (Val v)) |} zero [] in
  let c := Node (sy real_real_body []) one [] in
  let t := Node (sy real_ife_body [0;0;0;0]%nat) zero
             [Node (sy real_add_body [0;0]%nat) zero [x0; c]; c;
              Node (sy real_sqrt_body [0]%nat) zero [x0];
              Node (sy real_div_body [0;0]%nat) zero [x0; x0]] in
  wt lm kc vars t /\ run_tree vars t = Val (VDouble (F64.of_bits 0)).
Proof.
  intros.
  assert (P : forall b sg cats, In (b, sg) c13_table -> sig_okb kc sg cats 0%nat = true -> sym_ok lm kc vars (sy b cats)).
  { intros b sg cats Hin Hs. left. exists b, sg. repeat split; assumption. }
  assert (X : wt lm kc vars x0).
  { cbn [wt x0]. repeat split; try reflexivity. right; left. split; [reflexivity|].
    exists 0%nat, (VDouble (F64.of_bits 0)). repeat split; reflexivity. }
  assert (C : wt lm kc vars c).
  { cbn [wt c]. repeat split; try reflexivity. apply (P _ STerm); [cbn; tauto|reflexivity]. }
  split.
  - cbn [wt t]. repeat split; try reflexivity; try exact X; try exact C.
    all: first [ exact (proj1 X) | exact (proj1 C) | apply (P _ (SIf 2)); [cbn; tauto|reflexivity]
               | apply (P _ (SArith 2)); [cbn; tauto|reflexivity]
               | apply (P _ (SArith 1)); [cbn; tauto|reflexivity] ].
  - vm_compute. reflexivity.
Qed.
(* fmod is exact also for a huge ratio: DBL_MAX mod 3 = 2, 5.5 mod -2 = 1.5, -0 mod 3 = -0;
   ties of fmax / fmin return the first argument *)
Example C13_fmod_fmax_examples :
  F64.to_bits (F64.fmod (F64.of_bits 0x7FEFFFFFFFFFFFFF) (F64.of_bits 0x4008000000000000)) = 0x4000000000000000 /\
  F64.to_bits (F64.fmod (F64.of_bits 0x4016000000000000) (F64.of_bits 0xC000000000000000)) = 0x3FF8000000000000 /\
  F64.to_bits (F64.fmod (F64.of_bits 0x8000000000000000) (F64.of_bits 0x4008000000000000)) = 0x8000000000000000 /\
  F64.to_bits (F64.fmax (F64.of_bits 0x8000000000000000) (F64.of_bits 0)) = 0x8000000000000000 /\
  F64.to_bits (F64.fmax (F64.of_bits 0) (F64.of_bits 0x8000000000000000)) = 0 /\
  F64.to_bits (F64.fmin (F64.of_bits 0) (F64.of_bits 0x8000000000000000)) = 0.
Proof. vm_compute. repeat split; reflexivity. Qed.
