(* C16 -- Validation strategies only move examples between the two sets.

   Model: coq/Valid/ValidDefs.v (holdout_validation::init, dss::init / shake /
   shake_impl / close / move_to_validation with libstdc++'s bidirectional
   std::partition, and the validation slice of src_search::tune_parameters),
   which INTERPRETS coq/Gen/ValidFacts.v, regenerated from holdout_validation.cc
   and dss.cc on every run (skip expression, early return, loop header,
   weight(), the guard of shake, the calls of init / shake / close /
   clear_evaluators, the statement sequence of shake_impl), and is tied to
   /repo/src by the correspondence check of checks/c16.py.

   [step c o st ds = Some (st', ds', r)]: call [o] on state [st] with the draw
   stream [ds] stays within defined behaviour, leaves state [st'], the unused
   draws [ds'] and returns [r].  Theorems quantify over every payload type,
   state, history of calls, configuration and draw stream.
   [target_ok c n] (H_target) says that static_cast<ptrdiff_t>(target_size),
   the [tsz] component of the configuration, lies in [1, n) for the n examples
   at hand; it is proved for the exact rational value for every n
   (C16_target_size_in_range) and for the binary64 evaluation of the C++
   expression for every n < 2^53 (C16_target_size_binary64; the three
   ..._binary64 theorems are the only ones that mention Flocq and hence print
   its four standard-library axioms).
   Nothing but statements lives in this file. *)
From Coq Require Import ZArith List Bool Permutation.
From VV Require Import Valid.ValidDefs Valid.ValidProofs Valid.ValidTarget Valid.ValidTargetProofs Valid.ValidTargetInst.
Import ListNotations.
Local Open Scope Z_scope.

(* At every moment of any history the two sets together hold exactly the
   examples originally loaded, each once, with their payloads. *)
Theorem C16_conservation : forall (P : Type) c ops (st0 : state P) ds tr ds',
  run_ops P c ops st0 ds = Some (tr, ds') ->
  Forall (fun sr => Permutation (idents P (fst sr)) (idents P st0)) tr.
Proof. exact run_ops_conservation. Qed.
Print Assumptions C16_conservation.

Theorem C16_conservation_step : forall (P : Type) c o (st : state P) ds st' ds' r,
  step P c o st ds = Some (st', ds', r) -> Permutation (idents P st') (idents P st).
Proof. exact step_conserves. Qed.
Print Assumptions C16_conservation_step.

(* After hold-out setup (run 0) the training set has the documented share and
   is not empty; the validation set receives the rest. *)
Theorem C16_holdout_share : forall (P : Type) c run (st : state P) ds st' ds',
  holdout_init P c run st ds = Some (st', ds') -> run <= 0 ->
  0 <= perc c < 100 -> zlen P (training st) * 100 < two64 ->
  let n := zlen P (training st) in
  zlen P (training st') = Z.max (n * (100 - perc c) / 100) 1
  /\ training st' <> []
  /\ zlen P (validation st') = zlen P (validation st) + (n - zlen P (training st')).
Proof. exact holdout_share_thm. Qed.
Print Assumptions C16_holdout_share.

(* every valid stream of sup() draws is accepted (no undefined behaviour) *)
Theorem C16_holdout_defined : forall (P : Type) c (st : state P) ds,
  let n := zlen P (training st) in
  1 <= n -> 0 <= perc c < 100 -> n * 100 < two64 ->
  fy_valid (Z.to_nat (n - holdout_skip n (perc c))) (n - 1) ds ->
  exists st' ds', holdout_init P c 0 st ds = Some (st', ds').
Proof. exact holdout_defined_thm. Qed.
Print Assumptions C16_holdout_defined.

(* later runs leave the split alone (and consume no draw) *)
Theorem C16_holdout_idempotent_after_run0 : forall (P : Type) c run (st : state P) ds,
  0 < run -> holdout_init P c run st ds = Some (st, ds).
Proof. exact holdout_init_later_run. Qed.
Print Assumptions C16_holdout_idempotent_after_run0.

(* Every dynamic reshuffle (dss::init, and dss::shake on a positive multiple of
   the period) of a history over >= 2 examples leaves both sets non-empty and
   restarts the counters (difficulty 0, age 1) of the selected examples. *)
Theorem C16_shake_nonempty_both_and_resets_selected : forall (P : Type) c ops (st0 : state P) ds tr ds',
  run_ops P c ops st0 ds = Some (tr, ds') -> target_ok c (population P st0) -> 2 <= population P st0 ->
  Forall2 (fun o sr => reshuffles c o = true ->
             training (fst sr) <> [] /\ validation (fst sr) <> []
             /\ Forall (fun e => diff e = 0 /\ age e = 1) (training (fst sr))) ops tr.
Proof. exact run_ops_reshuffles. Qed.
Print Assumptions C16_shake_nonempty_both_and_resets_selected.

Theorem C16_shake_nonempty_both : forall (P : Type) c o (st : state P) ds st' ds' r,
  step P c o st ds = Some (st', ds', r) -> reshuffles c o = true -> target_ok c (population P st) -> 2 <= population P st ->
  training st' <> [] /\ validation st' <> [].
Proof. exact shake_nonempty_both_thm. Qed.
Print Assumptions C16_shake_nonempty_both.

(* the selected examples are exactly the new training set, with counters
   restarted; the others keep theirs (one generation older) *)
Theorem C16_shake_resets_selected : forall (P : Type) c gen (st : state P) ds st' ds',
  dss_shake P c gen st ds = Some (st', ds', true) ->
  exists sel, training st' = map (reset1 P) sel
    /\ Permutation (validation st' ++ sel) (map (inc_age1 P) (validation st ++ training st))
    /\ Forall (fun e => diff e = 0 /\ age e = 1) (training st').
Proof. exact shake_resets_selected_thm. Qed.
Print Assumptions C16_shake_resets_selected.

(* shake returns true exactly on positive multiples of the period; it then
   clears both evaluators (the premise C04 uses); otherwise it changes nothing *)
Theorem C16_shake_reports_and_clears : forall (P : Type) c gen (st : state P) ds st' ds' r,
  dss_shake P c gen st ds = Some (st', ds', r) ->
  r = (negb (gen =? 0) && (gen mod gap c =? 0))
  /\ (r = true -> clr_t st' = clr_t st + 1 /\ clr_v st' = clr_v st + 1)
  /\ (r = false -> st' = st /\ ds' = ds).
Proof. exact shake_reports_and_clears_thm. Qed.
Print Assumptions C16_shake_reports_and_clears.

(* along a history: results and clear() calls of every call *)
Theorem C16_every_call_reports : forall (P : Type) c o (st : state P) ds st' ds' r,
  step P c o st ds = Some (st', ds', r) -> reports P c o st st' r.
Proof. exact step_reports. Qed.
Print Assumptions C16_every_call_reports.

(* a due shake / an init never leaves defined behaviour: it consumes exactly one
   boolean draw per example, whatever the outcomes *)
Theorem C16_shake_defined : forall (P : Type) c gen (st : state P) bs rest,
  gap c <> 0 -> shake_due c gen = true -> target_ok c (population P st) -> 2 <= population P st ->
  Z.of_nat (length bs) = population P st ->
  exists st', dss_shake P c gen st (map DBool bs ++ rest) = Some (st', rest, true).
Proof. exact dss_shake_progress. Qed.
Print Assumptions C16_shake_defined.

Theorem C16_dss_init_defined : forall (P : Type) c run (st : state P) bs rest,
  target_ok c (population P st) -> 2 <= population P st -> Z.of_nat (length bs) = population P st ->
  exists st', dss_init P c run st (map DBool bs ++ rest) = Some (st', rest).
Proof. exact dss_init_progress. Qed.
Print Assumptions C16_dss_init_defined.

(* a whole dss history (any interleaving of init, shake, close and evaluations over >= 2
   examples, any period) never leaves defined behaviour: it consumes exactly one boolean draw
   per example and reshuffle, whatever the outcomes of the draws *)
Theorem C16_dss_history_defined : forall (P : Type) c ops (st : state P) bs,
  forallb is_dss_op ops = true -> gap c <> 0 ->
  2 <= population P st -> target_ok c (population P st) ->
  length bs = (Z.to_nat (population P st) * n_reshuffles c ops)%nat ->
  exists tr, run_ops P c ops st (map DBool bs) = Some (tr, []).
Proof. exact dss_history_defined. Qed.
Print Assumptions C16_dss_history_defined.

(* closing returns all examples to a single set (and clears the evaluators) *)
Theorem C16_close_single_set : forall (P : Type) c run (st : state P) ds,
  exists st', dss_close P c run st ds = Some (st', ds)
    /\ training st' = [] /\ validation st' = validation st ++ training st
    /\ clr_t st' = clr_t st + 1 /\ clr_v st' = clr_v st + 1.
Proof. exact close_single_set_thm. Qed.
Print Assumptions C16_close_single_set.

(* the weight that drives the draw is difficulty + age^3 in uintmax_t arithmetic (the
   expression is regenerated from weight() in dss.cc) *)
Theorem C16_weight_documented : forall (P : Type) (e : example P),
  weight P e = (diff e + age e * age e * age e) mod two64.
Proof. exact weight_documented. Qed.
Print Assumptions C16_weight_documented.

(* H_target holds of the exact value of target_size, for every size *)
Theorem C16_target_size_in_range : forall s, 2 <= s -> 1 <= target_q s < s.
Proof. exact target_q_ok. Qed.
Print Assumptions C16_target_size_in_range.

(* H_target discharged for the code's own arithmetic: the binary64 evaluation (Flocq) of
     ratio = std::min(0.6, 0.2 + 100.0 / (n + 100.0));  target_size = std::max(1.0, n * ratio)
   cast to ptrdiff_t lies in [1, n) for every admissible size (n < 2^53: static_cast<double>(n)
   is exact).  [tsz_f64] is the function the extracted model runs. *)
Theorem C16_target_size_binary64 : forall n, 2 <= n < 2 ^ 53 -> 1 <= tsz_f64 n < n.
Proof. exact tsz_f64_in_range. Qed.
Print Assumptions C16_target_size_binary64.

(* ... hence, with no hypothesis on the target size: every reshuffle of any history leaves both
   sets non-empty and restarts the counters of the selected examples *)
Theorem C16_shake_nonempty_both_binary64 : forall (P : Type) p g ops (st0 : state P) ds tr ds',
  run_ops P (mkCfg p g tsz_f64) ops st0 ds = Some (tr, ds') -> 2 <= population P st0 < 2 ^ 53 ->
  Forall2 (fun o sr => reshuffles (mkCfg p g tsz_f64) o = true ->
             training (fst sr) <> nil /\ validation (fst sr) <> nil
             /\ Forall (fun e => diff e = 0 /\ age e = 1) (training (fst sr))) ops tr.
Proof. exact reshuffles_binary64. Qed.
Print Assumptions C16_shake_nonempty_both_binary64.

(* ... and every dss history is defined for all outcomes of the draws *)
Theorem C16_dss_history_defined_binary64 : forall (P : Type) p g ops (st : state P) bs,
  forallb is_dss_op ops = true -> g <> 0 -> 2 <= population P st < 2 ^ 53 ->
  length bs = (Z.to_nat (population P st) * n_reshuffles (mkCfg p g tsz_f64) ops)%nat ->
  exists tr, run_ops P (mkCfg p g tsz_f64) ops st (map DBool bs) = Some (tr, nil).
Proof. exact dss_history_defined_binary64. Qed.
Print Assumptions C16_dss_history_defined_binary64.

(* src_search::tune_parameters (guards, typeid comparison and defaults regenerated from search.tcc /
   environment.cc) gives an open period / percentage
   its default when the matching strategy is active and keeps user settings *)
Theorem C16_tune_fills_validation_parameters : forall vs d p,
  (vs = VsHoldout -> snd (tune_fixed vs d p) = if p =? sentinel then dflt_perc else p)
  /\ (vs = VsDss -> fst (tune_fixed vs d p) = if d =? sentinel then dflt_dss else d)
  /\ (d <> sentinel -> fst (tune_fixed vs d p) = d) /\ (p <> sentinel -> snd (tune_fixed vs d p) = p).
Proof. exact tune_fixed_fills. Qed.
Print Assumptions C16_tune_fills_validation_parameters.

(* in particular a percentage the user SET to 0 (legal: nothing is held out) and a period set to
   any value are kept; the defaults are those of environment::init *)
Theorem C16_tune_keeps_user_settings : forall vs d p, d <> sentinel -> p <> sentinel -> tune_fixed vs d p = (d, p).
Proof. exact tune_keeps_user_settings. Qed.
Print Assumptions C16_tune_keeps_user_settings.

Theorem C16_tune_defaults : dflt_dss = 1 /\ dflt_perc = 20.
Proof. exact tune_defaults. Qed.
Print Assumptions C16_tune_defaults.

(* ---------------------------------------------------------- non-vacuity *)
Definition ex0 (u : Z) : example unit := mkEx u tt 0 0.
Definition st5 : state unit := mkSt (map ex0 [0; 1; 2; 3; 4]) [] 0 0.
Definition cfg_q (p g : Z) : config := mkCfg p g target_q.

(* hold-out 40% of 5: two swaps, three examples stay *)
Example holdout_runs :
  option_map (fun r => (map uid (training (fst r)), map uid (validation (fst r)), snd r))
    (holdout_init unit (cfg_q 40 1) 0 st5 [DInt 0 5 1; DInt 0 4 0])
  = Some ([3; 4; 2], [0; 1], []).
Proof. vm_compute. reflexivity. Qed.

(* a history: init, evaluations, a shake that is not due, one that is, close *)
Example dss_history_runs :
  option_map (fun r => map (fun sr => (map uid (training (fst sr)), map uid (validation (fst sr)), snd sr)) (fst r))
    (run_ops unit (cfg_q 20 2)
       [DssInit 0; Eval (fun u => u * 10) (fun _ => 7); DssShake 1; DssShake 2; DssClose 0] st5
       (map DBool [false; true; false; true; false] ++ map DBool [true; true; false; false; true]))
  = Some [([2; 1], [0; 4; 3], None); ([2; 1], [0; 4; 3], None); ([2; 1], [0; 4; 3], Some false);
          ([3; 0; 1], [2; 4], Some true); ([], [2; 4; 3; 0; 1], None)].
Proof. vm_compute. reflexivity. Qed.

(* the fallback: nobody selected (all draws false) -> target_size examples *)
Example dss_fallback_runs :
  option_map (fun r => (map uid (training (fst r)), map uid (validation (fst r))))
    (dss_init unit (cfg_q 20 1) 0 st5 (map DBool [false; false; false; false; false]))
  = Some ([3; 4], [0; 1; 2]).
Proof. vm_compute. reflexivity. Qed.

Example target_ok_satisfiable : forall n, 2 <= n -> target_ok (cfg_q 20 1) n.
Proof. exact target_q_ok. Qed.
