(* C19 -- Exported source code denotes the same expression as the program.

   [render_tree env f t] is the model of language_ in kernel/gp/mep/i_mep.cc
   (recursive replace_all of %%k%% in argument order over the text returned
   by display(format)); the templates are regenerated from
   primitive/{real,bool,string,int}.h and function.cc on every check run
   (coq/Gen/Templates.v).  [lex] is a maximal-munch lexer, [ast env f t] the
   expression the program denotes (each function node = the parse of its
   template with every placeholder replaced by the expression of the argument),
   [toks_of] its token sequence (parentheses are explicit nodes), [wf_prec] says
   that every operand offers the precedence its position demands, so that a
   precedence parser regroups the tokens into exactly that tree.
   Nothing but statements lives in this file. *)
From Coq Require Import ZArith List Bool String.
From VV Require Import Base.F64 Base.Values Interp.Strategy Cxx.CxxMini Gen.Prims Mep.Genome Prims.RealDefs Interp.MachineDefs.
From VV Require Import Lang.LangBase Gen.Templates Lang.LangDefs Lang.LangProofs
  Lang.SynDefs Lang.SynProofs Lang.ParseProofs Lang.ReadProofs Lang.TableChecks Lang.CDenote Lang.Witness Lang.CDenoteExample.
Import ListNotations.
Local Open Scope Z_scope.

(* 1. For every node of every program whose symbols have well-formed texts
   ([good_tree]: each text splits into literal pieces without "%%" and
   placeholders %%k%%, 1 <= k <= arity, each followed by a byte that is neither
   '%' nor a digit; terminals, having arity 0, are therefore placeholder-free),
   the text printed for the node is the symbol's template with EVERY
   placeholder %%k%% replaced, simultaneously, by the complete rendering of
   argument k -- although the code substitutes sequentially and re-scans the
   text after each argument. *)
Theorem C19_render_is_template_instantiation : forall env f s par kids,
  good_tree env f (Node s par kids) = true ->
  exists tm kts,
    sym_text env f s par = Some tm /\
    Forall2 (fun k kt => render_tree env f k = Some kt) kids kts /\
    render_tree env f (Node s par kids) = Some (inst (segs_of tm) kts).
Proof. exact render_is_template_instantiation_l. Qed.
Print Assumptions C19_render_is_template_instantiation.

(* every such program does print, and no placeholder survives in its text *)
Theorem C19_render_defined_and_placeholder_free : forall env f t,
  good_tree env f t = true ->
  exists txt, render_tree env f t = Some txt /\ psafe txt = true.
Proof. exact render_good. Qed.
Print Assumptions C19_render_defined_and_placeholder_free.

(* 2. The finite check holds of the template table of the CURRENT source tree,
   in each of the four formats (recomputed by the kernel on every run): every
   template is well-formed, parses with the format's precedences, prints back
   to its own tokens, demands of each placeholder no more precedence than the
   weakest root of the table offers, has no border at which a token could form
   with any first byte / after any final state of a node text, and is a
   parenthesised expression whenever it starts with '('. *)
Theorem C19_table_ok : forall f, table_ok f = true.
Proof. exact tables_ok. Qed.
Print Assumptions C19_table_ok.

(* 3. Finite to infinite.  If the table check of a format holds then for ALL
   programs over the shipped function classes (each used with its own arity)
   and terminals printed as a word, a string literal without a double quote or a
   parenthesised negative number: the printed text lexes -- no token ever forms
   across a template / argument border -- into exactly the token sequence of
   the program's own expression, in which every operand offers the precedence
   its position demands and no placeholder is left. *)
Theorem C19_table_ok_all_trees : forall f env t,
  table_ok f = true -> good_tree env f t = true -> tree_ok env f t = true ->
  exists txt, render_tree env f t = Some txt /\
    lex txt = Some (toks_of (gram_of f) (ast env f t)) /\
    wf_prec (gram_of f) (root_min f) (ast env f t) = true /\
    holes_lt 0 (ast env f t) = true.
Proof. exact lex_render_all_trees. Qed.
Print Assumptions C19_table_ok_all_trees.

(* 4. Printer / parser round trip.  For every expression in which every
   operand offers the precedence its position demands ([wf_prec], for any
   precedence [hp] assumed of placeholders), the precedence-climbing parser
   applied to the expression's tokens returns the expression itself; the fuel
   4 * (number of tokens) + 8 built into [parse] is sufficient. *)
Theorem C19_parse_pp : forall f hp e,
  wf_prec (gram_of f) hp e = true -> parse (gram_of f) (toks_of (gram_of f) e) = Some e.
Proof. exact parse_toks. Qed.
Print Assumptions C19_parse_pp.

(* 5. Together: the text printed for EVERY program over the shipped classes,
   lexed and parsed with the format's precedences, is the program's own
   expression -- every function node is its template with each placeholder
   replaced by the complete sub-expression of the corresponding argument. *)
Theorem C19_printed_text_reads_as_program : forall f env t,
  table_ok f = true -> good_tree env f t = true -> tree_ok env f t = true ->
  exists txt, render_tree env f t = Some txt /\ read f txt = Some (ast env f t).
Proof. exact read_render_all_trees. Qed.
Print Assumptions C19_printed_text_reads_as_program.

(* 6. The outermost-parenthesis strip of language() (length > 2, first byte
   '(' and last byte ')' -- the code does not check that the two match): for
   every program over the table the test fires only on a parenthesised
   expression, and the stripped text reads as that expression without its outer
   pair; otherwise the text reads as the whole expression. *)
Theorem C19_language_strip_preserves_expression : forall f env t,
  table_ok f = true -> good_tree env f t = true -> tree_ok env f t = true ->
  exists txt top,
    render_tree env f t = Some txt /\ language_tree env f t = Some top /\
    read f top = Some (if strips txt then strip_paren (ast env f t) else ast env f t) /\
    (strips txt = true -> is_paren (ast env f t) = true).
Proof. exact language_reads_all_trees. Qed.
Print Assumptions C19_language_strip_preserves_expression.

(* 7. What the C text computes.
   [denote lm c_pow lit rho h e] is the value of the C expression e: doubles are
   binary64 (the operators + - * / < > <= >= unary - (double) and fabs sqrt floor
   fmod fmax fmin are the exact IEEE operations of Base/F64.v), integer literals
   are ints with the usual arithmetic conversions (7/2 is 3), && and ?: are lazy,
   string literals are their characters and strlen their length; sin cos log exp
   are the libm oracle [lm] -- the SAME oracle the interpreter's primitives use --,
   [c_pow] is pow, [lit] strtod on floating literals, [rho] the parameters.
   [den vars t] is C01's denotation of the program (Interp/MachineDefs.v), in which
   every symbol behaves as its REGENERATED body says (strategy_of lm body,
   Gen/Prims.v under the C++ semantics of Cxx/CxxMini.v); C13's closed forms of the
   bodies (Prims/RealProofs.v) are used in the proof, no hand-written reference
   semantics stands in between.
   For ALL programs over FADD FSUB FMUL FDIV FMOD FMAX FIDIV FABS FSQRT FSIN FCOS
   FLN AQ > < FLENGTH FIFL FIFE FIFZ FIFB whose leaves are exact (reading the
   printed text of a leaf back gives the interpreter's value of it: constants print
   exactly and as floating literals, variables are bound parameters, string
   constants are plain literals): whenever the interpreter yields a double, the C
   text denotes that double.
   Hypotheses (AQ only): strtod("1.0") = 1, strtod("2.0") = 2, pow(y, 2.0) = y * y.
   FIFB: the three compared values are not NaN (the template uses <= where the
   interpreter uses !isless / !isgreater).
   PARTIAL -- outside: FSIGMOID (the template is 1/(1+exp(-x)) for every x while the
   interpreter evaluates exp(x)/(1+exp(x)) for x < 0: equal reals, different
   roundings -- the execution leg compares with a relative tolerance), SIFE (known
   finding: pointer comparison), the boolean and integer primitives. *)
Theorem C19_c_denotes_partial : forall lm c_pow lit rho vars env,
  lit [49; 46; 48] = Some RealDefs.one ->
  lit [50; 46; 48] = Some (F64.of_bits 4611686018427387904) ->
  (forall y, c_pow y (F64.of_bits 4611686018427387904) = F64.mul y y) ->
  forall t r, frag lm c_pow lit rho vars env t ->
  den vars t = Val (VDouble r) ->
  denote lm c_pow lit rho no_holes (ast env FC t) = Some (CD r).
Proof. exact c_denotes_double. Qed.
Print Assumptions C19_c_denotes_partial.

(* the same for every kind of value: a comparison primitive yields the int 0 / 1,
   a string-valued conditional the characters of a string *)
Theorem C19_c_denotes_values_partial : forall lm c_pow lit rho vars env,
  lit [49; 46; 48] = Some RealDefs.one ->
  lit [50; 46; 48] = Some (F64.of_bits 4611686018427387904) ->
  (forall y, c_pow y (F64.of_bits 4611686018427387904) = F64.mul y y) ->
  forall t, frag lm c_pow lit rho vars env t ->
  forall v, den vars t = Val v -> v <> VVoid ->
  exists c, denote lm c_pow lit rho no_holes (ast env FC t) = Some c /\ crel v c.
Proof. exact c_denotes_den. Qed.
Print Assumptions C19_c_denotes_values_partial.

(* ---- non-vacuity: the hypotheses hold of real programs, the model computes,
   and on them the full chain text -> tokens -> tree closes by computation *)
Example good_and_ok :
  forallb (fun f => good_tree env0 f t_div_sigmoid && tree_ok env0 f t_div_sigmoid &&
                    good_tree env0 f t_cond && tree_ok env0 f t_cond) [FC; FCpp; FMql; FPy] = true.
Proof. vm_compute. reflexivity. Qed.

Example printed_c : language_tree env0 FC t_div_sigmoid = Some (bz "X1/(1 / (1 + exp(-(X1-(-3.500000)))))").
Proof. vm_compute. reflexivity. Qed.
Example printed_py : language_tree env0 FPy t_cond =
  Some (bz "len(""a b"") if X1<(-3.500000) else (X1/X1)").
Proof. vm_compute. reflexivity. Qed.
Example printed_cpp : language_tree env0 FCpp t_cond =
  Some (bz "X1<(-3.500000) ? double(std::string(""a b"").length()) : (X1/X1)").
Proof. vm_compute. reflexivity. Qed.

(* the printed text, read with the format's precedences, is the program's expression *)
Example read_back :
  forallb (fun f => match render_tree env0 f t_div_sigmoid, render_tree env0 f t_cond with
                    | Some a, Some b =>
                        match read f a, read f b with
                        | Some x, Some y =>
                            forallb2 tok_eqb (toks_of (gram_of f) x) (toks_of (gram_of f) (ast env0 f t_div_sigmoid)) &&
                            forallb2 tok_eqb (toks_of (gram_of f) y) (toks_of (gram_of f) (ast env0 f t_cond))
                        | _, _ => false
                        end
                    | _, _ => false
                    end) [FC; FCpp; FMql; FPy] = true.
Proof. vm_compute. reflexivity. Qed.

(* the hypothesis "placeholder-free terminals" of theorem 1 is needed *)
Example placeholder_terminal_is_excluded : good_tree env0 FC t_placeholder_name = false.
Proof. vm_compute. reflexivity. Qed.

(* the hypotheses of theorem 7 hold of a real program whose symbols carry the
   regenerated bodies (input X1 = 1.5); by the theorem its C text
   X1<3.500000 ? (X1/sqrt(3.500000)) : fabs(X1)  denotes the interpreter's value *)
Example c_denotes_hypotheses :
  frag lm0 pow0 lit0 rho0 vars0 env1 t_exec /\
  language_tree env1 FC t_exec = Some (bz "X1<3.500000 ? (X1/sqrt(3.500000)) : fabs(X1)").
Proof. split; [exact frag_example|]. vm_compute. reflexivity. Qed.

(* a real constant printed as an integer literal denotes an int: 7/2 is 3 *)
Example integer_literals_are_ints :
  denote lm0 pow0 lit0 rho0 no_holes (EBin (p1 47) (EAtom (bz "7")) (EAtom (bz "2"))) = Some (CI 3).
Proof. vm_compute. reflexivity. Qed.
