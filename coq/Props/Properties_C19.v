(* C19 -- Exported source code denotes the same expression as the program.

   [render_tree env f t] is the model of language_ in kernel/gp/mep/i_mep.cc
   (recursive replace_all of %%k%% in argument order over the text returned
   by display(format)); the function templates are regenerated from
   primitive/{real,bool,string,int}.h and function.cc on every check run
   (coq/Gen/Templates.v).  Nothing but statements lives in this file. *)
From Coq Require Import ZArith List Bool.
From VV Require Import Base.F64 Mep.Genome Lang.LangBase Gen.Templates Lang.LangDefs Lang.LangProofs.
Import ListNotations.
Local Open Scope Z_scope.

(* For every node of every program whose symbols have well-formed texts
   ([good_tree]: each text splits into literal pieces without "%%" and
   placeholders %%k%%, 1 <= k <= arity, each followed by a byte that is neither
   '%' nor a digit; terminals, having arity 0, are therefore placeholder-free),
   the text printed for the node is the symbol's template with EVERY
   placeholder %%k%% replaced, simultaneously, by the complete rendering of
   argument k -- although the code substitutes sequentially and re-scans the
   text after each argument. *)
Theorem C19_render_is_template_instantiation : forall env f s par kids,
  good_tree env f (Node s par kids) = true ->
  exists tm kts,
    sym_text env f s par = Some tm /\
    Forall2 (fun k kt => render_tree env f k = Some kt) kids kts /\
    render_tree env f (Node s par kids) = Some (inst (segs_of tm) kts).
Proof. exact render_is_template_instantiation_l. Qed.
Print Assumptions C19_render_is_template_instantiation.

(* every such program does print, and no placeholder survives in its text *)
Theorem C19_render_defined_and_placeholder_free : forall env f t,
  good_tree env f t = true ->
  exists txt, render_tree env f t = Some txt /\ psafe txt = true.
Proof. exact render_good. Qed.
Print Assumptions C19_render_defined_and_placeholder_free.
