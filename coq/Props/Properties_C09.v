(* C09 -- Dataset import is faithful to the table.

   Statements only; every proof is [exact lemma] (lemmas in Csv/CsvProofs.v),
   about the executable model Csv/CsvDefs.v of utility/pocket_csv.h,
   kernel/gp/src/dataframe.cc, category_set.cc and problem.cc, which is run
   against the real code on every check (harness/h_csv.cc).  Text = list of
   bytes; strtod-based is_number/stod/stoi are oracles (universally quantified
   function arguments). *)
From Coq Require Import ZArith List Bool.
From VV Require Import Csv.CsvDefs Csv.CsvProofs.
Import ListNotations.
Local Open Scope Z_scope.

(* Quoted fields with embedded delimiters and doubled quotes are decoded:
   parsing the RFC-4180 rendering of ANY record (any number of fields, any
   text without NUL/CR/LF, any usual delimiter) gives the record back
   (trimmed when the dialect asks for trimming). *)
Theorem C09_parse_render : forall dl fields,
  quoting dl = REMOVE_QUOTES -> usual_delimiter (delimiter dl) ->
  fields <> [] -> Forall ok_field fields ->
  parse_line dl (render_line (delimiter dl) fields) = map (field_out dl) fields.
Proof. exact parse_render_lemma. Qed.
Print Assumptions C09_parse_render.

(* non-vacuity: a record with an embedded delimiter, doubled quotes and
   leading/trailing blanks *)
Example C09_parse_render_nonvacuous :
  let dl := {| delimiter := 44; trim_ws := false; has_header := NO_HEADER; quoting := REMOVE_QUOTES |} in
  let fields := [[97; 44; 98]; [34; 104; 105; 34]; [32; 120; 32]; []; [49; 46; 53]] in
  render_line 44 fields =
    [34; 97; 44; 98; 34; 44; 34; 34; 34; 104; 105; 34; 34; 34; 44; 34; 32; 120; 32; 34; 44; 44; 49; 46; 53]
  /\ parse_line dl (render_line 44 fields) = fields.
Proof. vm_compute. split; reflexivity. Qed.
