(* C09 -- Dataset import is faithful to the table.

   Statements only; every proof is [exact lemma] (lemmas in Csv/*Proofs.v),
   about the executable model Csv/CsvDefs.v of utility/pocket_csv.h,
   kernel/gp/src/dataframe.cc, category_set.cc, problem.cc::setup_terminals and
   src_interpreter::fetch_var, which is run against the real code on every check
   (harness/h_csv.cc).  Text = list of bytes.  The model is in checked form, so
   "= Ok ..." also says: no exception, no out-of-bounds access.  The strtod-based
   is_number / stod / stoi are ORACLES: universally quantified function
   arguments.  [fixed_v] is the repaired tree (see Props/Refuted_C09.v for what
   fails on the pinned one).  All theorems are for tables of ANY size. *)
From Coq Require Import ZArith List Bool.
From VV Require Import Csv.CsvDefs Csv.CsvProofs Csv.IngestProofs Csv.TableProofs Csv.TextProofs
  Csv.SniffProofs Csv.TopProofs Csv.XrffProofs Csv.EndToEndCsv Csv.EndToEndXrff Csv.HeaderProofs Csv.GenTie Csv.SniffedRead
  Gen.CsvConsts.
Import ListNotations.
Local Open Scope Z_scope.

(* ------------------------------------------------------------------ the line parser *)
(* Quoted fields with embedded delimiters and doubled quotes are decoded: parsing the
   RFC-4180 rendering of ANY record (any number of fields, any text without
   NUL/CR/LF, any usual delimiter) gives the record back (trimmed when the dialect
   asks for trimming). *)
Theorem C09_parse_render : forall dl fields,
  quoting dl = REMOVE_QUOTES -> usual_delimiter (delimiter dl) ->
  fields <> [] -> Forall ok_field fields ->
  parse_line dl (render_line (delimiter dl) fields) = map (field_out dl) fields.
Proof. exact parse_render_lemma. Qed.
Print Assumptions C09_parse_render.

(* The record iterator yields the rows of a rendered table, in order (a rendered line
   that is blank -- e.g. a single empty cell -- is skipped by the reader, hence the
   third conjunct of the hypothesis). *)
Theorem C09_records_render_table : forall dl flt rows,
  quoting dl = REMOVE_QUOTES -> usual_delimiter (delimiter dl) ->
  Forall (fun r => r <> [] /\ Forall ok_field r /\ blank (render_line (delimiter dl) r) = false) rows ->
  records dl flt (render_table (delimiter dl) rows) = filter_map flt (map (map (field_out dl)) rows).
Proof. exact records_render_table_lemma. Qed.
Print Assumptions C09_records_render_table.

(* Rows rejected by the filter are absent, the others are kept in order (any text). *)
Theorem C09_filtered_rows_absent : forall dl (flt : filter_t) (keep : record -> bool) text,
  (forall r, flt r = (if keep r then Some r else None)) ->
  records dl flt text = filter keep (records dl no_filter text).
Proof. exact filtered_rows_absent_pure. Qed.
Print Assumptions C09_filtered_rows_absent.

(* ------------------------------------------------------------------ the output column *)
(* std::rotate(begin, begin+k, begin+k+1): the designated column moves to the front and
   the inputs are the other columns in their original order. *)
Theorem C09_rotate_output_front : forall s r k, (k < length r)%nat ->
  exists out rest, rotate_front s r k = Ok (out :: rest) /\ nth_error r k = Some out /\
    length rest = (length r - 1)%nat /\
    forall j, nth_error rest j = if Nat.ltb j k then nth_error r j else nth_error r (S j).
Proof. exact rotate_output_front_lemma. Qed.
Print Assumptions C09_rotate_output_front.

(* ------------------------------------------------------------------ class labels *)
Theorem C09_encode_injective : forall m l1 l2, wf_classes m ->
  let (i1, m1) := encode m l1 in
  let (i2, m2) := encode m1 l2 in
  (i1 = i2 <-> l1 = l2).
Proof. exact encode_injective_lemma. Qed.
Print Assumptions C09_encode_injective.

Theorem C09_encode_first_appearance : forall labels seen,
  snd (encode_all (numbered seen) labels) = numbered (first_appearance seen labels).
Proof. exact encode_first_appearance_lemma. Qed.
Print Assumptions C09_encode_first_appearance.

Theorem C09_class_name_encode : forall m l, wf_classes m ->
  class_name (snd (encode m l)) (fst (encode m l)) = l.
Proof. exact class_name_encode_lemma. Qed.
Print Assumptions C09_class_name_encode.

(* [wf_classes] is an invariant of the reader: it holds initially and encode keeps it *)
Theorem C09_classes_wellformed : wf_classes [] /\ forall m l, wf_classes m -> wf_classes (snd (encode m l)).
Proof. exact (conj wf_classes_nil encode_wf). Qed.
Print Assumptions C09_classes_wellformed.

(* ------------------------------------------------------------------ one example per row *)
(* A typed rectangular table (TableProofs): [n] arranged columns (output first), a kind
   per column -- KVoid (always blank), KNum (every cell a number that stod converts),
   KText (any text; in the first data row non-blank and not a number; in column 0 =
   class labels, never a number).  [spec_rows] is the property's right-hand side: per
   row, inputs = the cells of the non-output, non-void columns in their original order,
   numbers as [VDouble (stod (trim cell))], text as [VString (trim cell)], output = the
   designated column (number, or class id through [encode]), [VVoid] without output.

   For ANY such table, ANY output index or none, the read_csv loop returns exactly
   one example per data row, in order, equal to the specification; column domains are
   the kinds'.  (Loop level: the records are what the parser yields.) *)
Theorem C09_one_example_per_row_in_order :
  forall (is_number : bytes -> bool) (stod stoi : bytes -> conv) (n : nat), (1 <= n)%nat ->
  forall (kinds : nat -> kind) (oi : option nat) (r1 : record) (rest : list record),
  row_ok is_number stod n kinds true (arrange oi r1) ->
  Forall (fun r => row_ok is_number stod n kinds false (arrange oi r)) rest ->
  (forall k, oi = Some k -> Forall (fun r => (k < length r)%nat) (r1 :: rest)) ->
  exists df,
    ingest is_number stod stoi fixed_v oi false (r1 :: rest) O empty_df = Ok df /\
    dataset df = fst (spec_rows stod n kinds [] (map (arrange oi) (r1 :: rest))) /\
    classes df = snd (spec_rows stod n kinds [] (map (arrange oi) (r1 :: rest))) /\
    length (columns df) = n /\
    (forall j c, nth_error (columns df) j = Some c -> c_domain c = dom_of j (kinds j) /\ c_name c = []).
Proof. exact one_example_per_row_in_order_lemma. Qed.
Print Assumptions C09_one_example_per_row_in_order.

(* With a header row: same, and the column names are the (trimmed) header cells, output
   column first. *)
Theorem C09_header_names :
  forall (is_number : bytes -> bool) (stod stoi : bytes -> conv) (n : nat), (1 <= n)%nat ->
  forall (kinds : nat -> kind) (oi : option nat) (h r1 : record) (rest : list record),
  length (arrange oi h) = n ->
  row_ok is_number stod n kinds true (arrange oi r1) ->
  Forall (fun r => row_ok is_number stod n kinds false (arrange oi r)) rest ->
  (forall k, oi = Some k -> Forall (fun r => (k < length r)%nat) (h :: r1 :: rest)) ->
  exists df,
    ingest is_number stod stoi fixed_v oi true (h :: r1 :: rest) O empty_df = Ok df /\
    dataset df = fst (spec_rows stod n kinds [] (map (arrange oi) (r1 :: rest))) /\
    classes df = snd (spec_rows stod n kinds [] (map (arrange oi) (r1 :: rest))) /\
    length (columns df) = n /\
    (forall j c, nth_error (columns df) j = Some c ->
       c_domain c = dom_of j (kinds j) /\ c_name c = trim (nth j (arrange oi h) [])).
Proof. exact header_names. Qed.
Print Assumptions C09_header_names.

(* From the TEXT: reading the RFC-4180 rendering of a typed table with explicit settings
   is [finish_csv] of exactly that frame (finish_csv = the final is_valid()/non-empty test
   of read_csv: Ok df, or insufficient_data e.g. for a single class label). *)
Theorem C09_read_csv_rendered_table_header :
  forall is_number stod stoi n, (1 <= n)%nat -> forall kinds dl oi h r1 rest,
  explicit_dialect dl true ->
  Forall (renderable (delimiter dl)) (h :: r1 :: rest) ->
  length (arrange oi (map (field_out dl) h)) = n ->
  row_ok is_number stod n kinds true (arrange oi (map (field_out dl) r1)) ->
  Forall (fun r => row_ok is_number stod n kinds false (arrange oi r)) (parsed dl rest) ->
  (forall k, oi = Some k -> Forall (fun r => (k < length r)%nat) (h :: r1 :: rest)) ->
  exists df,
    read_csv is_number stod stoi fixed_v (render_table (delimiter dl) (h :: r1 :: rest))
             {| p_dialect := dl; p_filter := no_filter; p_output_index := oi |} = finish_csv df
    /\ dataset df = fst (spec_rows stod n kinds [] (map (arrange oi) (parsed dl (r1 :: rest))))
    /\ classes df = snd (spec_rows stod n kinds [] (map (arrange oi) (parsed dl (r1 :: rest))))
    /\ length (columns df) = n
    /\ (forall j c, nth_error (columns df) j = Some c ->
          c_domain c = dom_of j (kinds j) /\ c_name c = trim (nth j (arrange oi (map (field_out dl) h)) [])).
Proof. exact read_csv_rendered_table_header_lemma. Qed.
Print Assumptions C09_read_csv_rendered_table_header.

Theorem C09_read_csv_rendered_table :
  forall is_number stod stoi n, (1 <= n)%nat -> forall kinds dl oi r1 rest,
  explicit_dialect dl false ->
  Forall (renderable (delimiter dl)) (r1 :: rest) ->
  row_ok is_number stod n kinds true (arrange oi (map (field_out dl) r1)) ->
  Forall (fun r => row_ok is_number stod n kinds false (arrange oi r)) (parsed dl rest) ->
  (forall k, oi = Some k -> Forall (fun r => (k < length r)%nat) (r1 :: rest)) ->
  exists df,
    read_csv is_number stod stoi fixed_v (render_table (delimiter dl) (r1 :: rest))
             {| p_dialect := dl; p_filter := no_filter; p_output_index := oi |} = finish_csv df
    /\ dataset df = fst (spec_rows stod n kinds [] (map (arrange oi) (parsed dl (r1 :: rest))))
    /\ classes df = snd (spec_rows stod n kinds [] (map (arrange oi) (parsed dl (r1 :: rest))))
    /\ length (columns df) = n
    /\ (forall j c, nth_error (columns df) j = Some c -> c_domain c = dom_of j (kinds j) /\ c_name c = []).
Proof. exact read_csv_rendered_table_lemma. Qed.
Print Assumptions C09_read_csv_rendered_table.

(* END TO END, from the bytes of the table to the examples: for every typed rectangular
   table (any size, any usual delimiter, any output index or none, numeric / text / void
   columns, any quoting-free or RFC-4180 rendering, header or not) with -- for
   classification -- at least two distinct labels ([two_classes]), the WHOLE read_csv
   (record parsing, the loop, the final is_valid()/non-empty test) returns Ok with exactly
   one example per data row, in order, inputs = the cells of the non-output non-void columns
   in original order, output = the designated column.  The preconditions are satisfiable:
   EndToEndCsv.EndToEndSanity instantiates the header theorem on the bytes
   "a,b,y\n12,foo,cat\n7,bar,dog\n5,baz,cat\n"; with a single label the read is rejected
   (Example one_class_rejected). *)
Theorem C09_read_csv_end_to_end_header :
  forall is_number stod stoi n, (1 <= n)%nat -> forall kinds dl oi h r1 rest,
  explicit_dialect dl true ->
  Forall (renderable (delimiter dl)) (h :: r1 :: rest) ->
  length (arrange oi (map (field_out dl) h)) = n ->
  row_ok is_number stod n kinds true (arrange oi (map (field_out dl) r1)) ->
  Forall (fun r => row_ok is_number stod n kinds false (arrange oi r)) (parsed dl rest) ->
  (forall k, oi = Some k -> Forall (fun r => (k < length r)%nat) (h :: r1 :: rest)) ->
  two_classes kinds dl oi (r1 :: rest) ->
  exists df,
    read_csv is_number stod stoi fixed_v (render_table (delimiter dl) (h :: r1 :: rest))
             {| p_dialect := dl; p_filter := no_filter; p_output_index := oi |} = Ok df
    /\ dataset df = fst (spec_rows stod n kinds [] (map (arrange oi) (parsed dl (r1 :: rest))))
    /\ classes df = snd (spec_rows stod n kinds [] (map (arrange oi) (parsed dl (r1 :: rest))))
    /\ length (dataset df) = length (r1 :: rest)
    /\ length (columns df) = n
    /\ (forall j c, nth_error (columns df) j = Some c ->
          c_domain c = dom_of j (kinds j) /\ c_name c = trim (nth j (arrange oi (map (field_out dl) h)) [])).
Proof. exact read_csv_end_to_end_header_lemma. Qed.
Print Assumptions C09_read_csv_end_to_end_header.

Theorem C09_read_csv_end_to_end :
  forall is_number stod stoi n, (1 <= n)%nat -> forall kinds dl oi r1 rest,
  explicit_dialect dl false ->
  Forall (renderable (delimiter dl)) (r1 :: rest) ->
  row_ok is_number stod n kinds true (arrange oi (map (field_out dl) r1)) ->
  Forall (fun r => row_ok is_number stod n kinds false (arrange oi r)) (parsed dl rest) ->
  (forall k, oi = Some k -> Forall (fun r => (k < length r)%nat) (r1 :: rest)) ->
  two_classes kinds dl oi (r1 :: rest) ->
  exists df,
    read_csv is_number stod stoi fixed_v (render_table (delimiter dl) (r1 :: rest))
             {| p_dialect := dl; p_filter := no_filter; p_output_index := oi |} = Ok df
    /\ dataset df = fst (spec_rows stod n kinds [] (map (arrange oi) (parsed dl (r1 :: rest))))
    /\ classes df = snd (spec_rows stod n kinds [] (map (arrange oi) (parsed dl (r1 :: rest))))
    /\ length (dataset df) = length (r1 :: rest)
    /\ length (columns df) = n
    /\ (forall j c, nth_error (columns df) j = Some c -> c_domain c = dom_of j (kinds j) /\ c_name c = []).
Proof. exact read_csv_end_to_end_lemma. Qed.
Print Assumptions C09_read_csv_end_to_end.

(* invariant of the loop for ALL inputs (no typing): a column without a domain never
   collects states, so columns_info::is_valid() holds of every frame the loop returns *)
Theorem C09_void_columns_have_no_states :
  forall is_number stod stoi v oi hh recs df,
  ingest is_number stod stoi v oi hh recs O empty_df = Ok df -> void_states_inv (columns df).
Proof. exact ingest_void_states_lemma. Qed.
Print Assumptions C09_void_columns_have_no_states.

(* ------------------------------------------------------------------ variables *)
(* The variable generated for column i reads, from ANY example built by to_example with
   the same columns, the converted cell i of the record -- for ANY columns (void columns
   included), ANY record of the right width, weak or strong typing.
   NO hypothesis on the column NAMES: setup_terminals (HEAD) inserts one variable per column
   with a domain whatever its name -- repeated names, a name equal to the default name X<i> of
   another column, names of primitives, empty names -- so the theorem identifies the variable
   of column i by its POSITION [rank cols i] among the variables (symbol_set::decode(name)
   would return the first of two homonyms, but nothing in the reader looks variables up by
   name).  Example C09_duplicate_names_nonvacuous below; the check's oracle is positional too. *)
Theorem C09_variable_i_reads_column_i :
  forall is_number stod stoi df strong vars v add ex df',
  setup_terminals fixed_v (columns df) strong = Ok vars ->
  length v = length (columns df) ->
  to_example is_number stod stoi df v add = Ok (ex, df') ->
  length vars = length (e_input ex) /\
  forall i, (1 <= i < length v)%nat -> live (columns df) i = true ->
    exists c vi x, nth_error (columns df) i = Some c /\
      nth_error vars (rank (columns df) i) = Some vi /\
      v_name vi = (if is_nil (c_name c) then 88 :: to_string i else c_name c) /\
      convert stod stoi (trim (nth i v [])) (c_domain c) = Ok x /\
      run_variable vi ex = Ok x.
Proof. exact variable_i_reads_column_i_lemma. Qed.
Print Assumptions C09_variable_i_reads_column_i.

(* ------------------------------------------------------------------ sniffer *)
(* every scanned line has the same count k >= 1 of d and no other candidate has a
   constant positive count => the sniffer answers d *)
Theorem C09_guess_delimiter_unambiguous : forall text lines d k,
  In d candidates_sorted -> (1 <= k)%nat ->
  scanned_lines text lines <> [] ->
  (forall l, In l (scanned_lines text lines) -> count_char d l = k) ->
  (forall c, In c candidates_sorted -> c <> d ->
     ~ (exists k', (1 <= k')%nat /\ forall l, In l (scanned_lines text lines) -> count_char c l = k')) ->
  guess_delimiter text lines = d.
Proof. exact guess_delimiter_unambiguous_lemma. Qed.
Print Assumptions C09_guess_delimiter_unambiguous.

(* PARTIAL: header detection is a voting heuristic; agreement with the explicit setting
   is proved only for the unambiguous families below.  The full statement "sniffed
   has_header = the truth for every table with a header of names over typed data" is
   false (Props/Refuted_C09.v).
   Family (a): non-numeric names over numeric, letter-free data => HAS_HEADER. *)
Theorem C09_has_header_named_numeric_partial :
  forall is_number text lines delim header first rows,
    (exists tlk, records {| delimiter := delim; trim_ws := false; has_header := HAS_HEADER; quoting := KEEP_QUOTES |}
                         no_filter text = header :: tlk) ->
    records {| delimiter := delim; trim_ws := false; has_header := HAS_HEADER; quoting := REMOVE_QUOTES |}
            no_filter text = first :: rows ->
    header <> [] ->
    Forall (fun h => is_number h = false /\ h <> []) header ->
    rows <> [] ->
    Forall (fun row => length row = length header /\
                       Forall (fun cell => blank cell = false /\ is_number (trim cell) = true /\ plain_num cell) row) rows ->
    sniff_has_header is_number text lines delim = Ok HAS_HEADER.
Proof. exact has_header_family_named_numeric_lemma. Qed.
Print Assumptions C09_has_header_named_numeric_partial.

(* Family (a'): names that are neither capitalized nor upper-case over any numeric data *)
Theorem C09_has_header_lowername_numeric_partial :
  forall is_number text lines delim header first rows,
    (exists tlk, records {| delimiter := delim; trim_ws := false; has_header := HAS_HEADER; quoting := KEEP_QUOTES |}
                         no_filter text = header :: tlk) ->
    records {| delimiter := delim; trim_ws := false; has_header := HAS_HEADER; quoting := REMOVE_QUOTES |}
            no_filter text = first :: rows ->
    header <> [] ->
    Forall (fun h => is_number h = false /\ capitalized h = false /\ upper_case h = false) header ->
    rows <> [] ->
    Forall (fun row => length row = length header /\
                       Forall (fun cell => blank cell = false /\ is_number (trim cell) = true) row) rows ->
    sniff_has_header is_number text lines delim = Ok HAS_HEADER.
Proof. exact has_header_family_lowername_numeric_lemma. Qed.
Print Assumptions C09_has_header_lowername_numeric_partial.

(* Family (b): an all-numeric, letter-free first row over numeric data => NO_HEADER *)
Theorem C09_has_header_all_numeric_partial :
  forall is_number text lines delim header first rows,
    (exists tlk, records {| delimiter := delim; trim_ws := false; has_header := HAS_HEADER; quoting := KEEP_QUOTES |}
                         no_filter text = header :: tlk) ->
    records {| delimiter := delim; trim_ws := false; has_header := HAS_HEADER; quoting := REMOVE_QUOTES |}
            no_filter text = first :: rows ->
    header <> [] ->
    Forall (fun h => is_number h = true /\ plain_num h) header ->
    rows <> [] ->
    Forall (fun row => length row = length header /\
                       Forall (fun cell => blank cell = false /\ is_number (trim cell) = true /\ plain_num cell) row) rows ->
    sniff_has_header is_number text lines delim = Ok NO_HEADER.
Proof. exact has_header_family_all_numeric_lemma. Qed.
Print Assumptions C09_has_header_all_numeric_partial.

(* ------------------------------------------------------------------ XRFF (the DOM is an oracle) *)
(* read_xrff's use of ANY DOM: the output column is the attribute with class="yes", or
   the LAST attribute when none has it; it becomes the first column (nominal/string
   output -> numeric), the other attributes keep their order; two class="yes" attributes
   are a data_format error.  Every instance that the filter keeps and that is wide
   enough goes through the same rotation + read_record as a CSV record (to_example is
   shared, see C09_variable_i_reads_column_i / TableProofs.to_example_spec). *)
Theorem C09_read_xrff_output_column_last :
  forall is_number stod stoi attrs insts flt (d : xattr),
  attrs <> [] -> Forall (fun a => xa_class_yes a = false) attrs ->
  read_xrff is_number stod stoi fixed_v {| x_attributes := Some attrs; x_instances := Some insts |} flt =
  bind (xrff_instances is_number stod stoi fixed_v flt (length attrs - 1)%nat insts
          {| columns := attr_column false (last attrs d) :: map (attr_column false) (removelast attrs);
             classes := []; dataset := [] |})
       (fun df => bind (is_valid df) (fun ok => Ok (df, if ok then length (dataset df) else 0%nat))).
Proof. exact read_xrff_output_column_no_class_lemma. Qed.
Print Assumptions C09_read_xrff_output_column_last.

Theorem C09_read_xrff_output_column_class_yes :
  forall is_number stod stoi pre a post insts flt,
  Forall (fun a => xa_class_yes a = false) (pre ++ post) -> xa_class_yes a = true ->
  read_xrff is_number stod stoi fixed_v {| x_attributes := Some (pre ++ a :: post); x_instances := Some insts |} flt =
  bind (xrff_instances is_number stod stoi fixed_v flt (length pre) insts
          {| columns := attr_column true a :: map (attr_column false) (pre ++ post); classes := []; dataset := [] |})
       (fun df => bind (is_valid df) (fun ok => Ok (df, if ok then length (dataset df) else 0%nat))).
Proof. exact read_xrff_output_column_one_class_lemma. Qed.
Print Assumptions C09_read_xrff_output_column_class_yes.

Theorem C09_read_xrff_instance_step :
  forall is_number stod stoi flt k rcd0 rcd rest df, flt rcd0 = Some rcd -> (k < length rcd)%nat ->
  xrff_instances is_number stod stoi fixed_v flt k (rcd0 :: rest) df =
  bind (read_record is_number stod stoi df (arrange (Some k) rcd) false)
       (fun df' => xrff_instances is_number stod stoi fixed_v flt k rest df').
Proof. exact xrff_instance_step_lemma. Qed.
Print Assumptions C09_read_xrff_instance_step.

Theorem C09_read_xrff_two_classes :
  forall l1 a l2 b l3, xa_class_yes a = true -> xa_class_yes b = true ->
  Forall (fun x => xa_class_yes x = false) l1 -> Forall (fun x => xa_class_yes x = false) l2 ->
  xrff_attrs (l1 ++ a :: l2 ++ b :: l3) 0%nat 0%nat 0%nat [] = Exn E_data_format.
Proof. exact xrff_attrs_two_classes_lemma. Qed.
Print Assumptions C09_read_xrff_two_classes.

(* END TO END for XRFF, from ANY DOM to the examples: attributes without class="yes" (the
   last one is the output) or with exactly one; every instance the filter keeps has one
   value per attribute and its cells convert ([inst_ok]: stod/stoi succeed where the
   attribute is numeric/integer; nominal/string cells are arbitrary); the output cells are
   all numbers, or all labels with two distinct ones ([out_kind_ok]).  Then read_xrff
   returns the frame [xrff_frame] = one example per kept instance, in order, inputs = the
   converted cells of the non-output attributes with a domain in original order, output =
   the converted output cell or the class id, and the count = number of kept instances.
   ([xrff_frame], [example_of] are defined by structural recursion over columns and rows,
   not through the model's loops; EndToEndXrff.Sanity.xrff_sanity meets every hypothesis;
   with one label the count is 0, with a number among labels bad_variant_access.) *)
Theorem C09_read_xrff_end_to_end_class_yes :
  forall is_number stod stoi pre a post insts flt,
  Forall (fun x => xa_class_yes x = false) (pre ++ post) -> xa_class_yes a = true ->
  let cols := attr_column true a :: map (attr_column false) (pre ++ post) in
  let k := length pre in
  let rows := filter_map flt insts in
  Forall (inst_ok is_number stod stoi cols k) rows ->
  out_kind_ok is_number cols (map (arrange (Some k)) rows) ->
  read_xrff is_number stod stoi fixed_v {| x_attributes := Some (pre ++ a :: post); x_instances := Some insts |} flt =
  Ok (xrff_frame is_number stod stoi cols (map (arrange (Some k)) rows), length rows).
Proof. exact read_xrff_end_to_end_one_class_lemma. Qed.
Print Assumptions C09_read_xrff_end_to_end_class_yes.

Theorem C09_read_xrff_end_to_end_last :
  forall is_number stod stoi attrs (d : xattr) insts flt,
  attrs <> [] -> Forall (fun x => xa_class_yes x = false) attrs ->
  let cols := attr_column false (last attrs d) :: map (attr_column false) (removelast attrs) in
  let k := (length attrs - 1)%nat in
  let rows := filter_map flt insts in
  Forall (inst_ok is_number stod stoi cols k) rows ->
  out_kind_ok is_number cols (map (arrange (Some k)) rows) ->
  read_xrff is_number stod stoi fixed_v {| x_attributes := Some attrs; x_instances := Some insts |} flt =
  Ok (xrff_frame is_number stod stoi cols (map (arrange (Some k)) rows), length rows).
Proof. exact read_xrff_end_to_end_no_class_lemma. Qed.
Print Assumptions C09_read_xrff_end_to_end_last.

(* ------------------------------------------------------------------ has_header, characterised *)
(* FULL characterisation of the voting heuristic, for EVERY text: the answer is HAS_HEADER
   iff the sum of the per-column votes is positive, where a column's tag is the fold of the
   C++ tag update over its cells in the looked-at rows (the first lines+2 rows of the
   header's width) and its vote is the C++ switch on (tag, header cell). *)
Theorem C09_has_header_is_column_vote :
  forall is_number text lines delim header rows,
  sniff_input delim text header rows ->
  sniff_has_header is_number text lines delim =
  Ok (if 0 <? total_vote is_number header (looked (length header) lines rows) then HAS_HEADER else NO_HEADER).
Proof. exact sniff_has_header_columns. Qed.
Print Assumptions C09_has_header_is_column_vote.

(* Agreement sniffed = explicit, as wide as the rule allows (PARTIAL by nature: outside
   these classes the heuristic provably answers wrongly, see Refuted_C09.v).  Column
   classes (HeaderProofs; blank cells = missing values are ignored in every class):
   votes_plus  = numeric letter-free data under a non-numeric name | numeric data under a
                 name that is neither capitalized nor upper-case | fixed-width text under a
                 name of another length | capitalized name over lower-case cells | blank
                 column under a non-empty name;
   votes_minus = letter-free numbers under a letter-free number | fixed-width text whose
                 first row has that width | blank column under an empty first cell;
   cls_variable_text (no vote) may be mixed in freely. *)
Theorem C09_has_header_agrees_with_header_partial :
  forall is_number text lines delim header rows,
  sniff_input delim text header rows ->
  columns_all (fun h cells => votes_plus is_number h cells \/ cls_variable_text is_number h cells)
              header (looked (length header) lines rows) ->
  columns_some (votes_plus is_number) header (looked (length header) lines rows) ->
  sniff_has_header is_number text lines delim = Ok HAS_HEADER.
Proof. exact has_header_agrees_with_header. Qed.
Print Assumptions C09_has_header_agrees_with_header_partial.

Theorem C09_has_header_agrees_without_header_partial :
  forall is_number text lines delim header rows,
  sniff_input delim text header rows ->
  columns_all (fun h cells => votes_minus is_number h cells \/ cls_variable_text is_number h cells)
              header (looked (length header) lines rows) ->
  sniff_has_header is_number text lines delim = Ok NO_HEADER.
Proof. exact has_header_agrees_without_header. Qed.
Print Assumptions C09_has_header_agrees_without_header_partial.

(* ------------------------------------------------------------------ sniffed read = the table *)
(* "Explicit and sniffed settings agree on unambiguous tables", END TO END: for every typed
   rectangular table rendered with a usual delimiter whose scanned lines have a constant
   positive count of that delimiter and no other candidate with a constant positive count
   (C09_guess_delimiter_unambiguous), whose first row needs no quoting and whose columns are
   in the agreement classes of C09_has_header_agrees_* -- read_csv with the DEFAULT
   parameters (delimiter and header both sniffed) returns Ok with the SAME frame as the
   explicit read, which is the specification: one example per data row, in order.
   ([explicit_dl d hdr] has trim_ws = false, so [parsed (explicit_dl d hdr) rows = rows] and
   [map (field_out (explicit_dl d hdr)) r = r]: SniffedRead.parsed_explicit_dl / field_out_explicit_dl.
   Non-vacuity: SniffedSanity.sniffed_header_by_theorem on "id;code\n1;ab\n2;cd\n3;ef\n".) *)
Theorem C09_sniffed_read_is_the_table_header :
  forall is_number stod stoi n, (1 <= n)%nat -> forall kinds d oi h r1 rest,
  usual_delimiter d ->
  Forall (renderable d) (h :: r1 :: rest) ->
  length (arrange oi (map (field_out (explicit_dl d true)) h)) = n ->
  row_ok is_number stod n kinds true (arrange oi (map (field_out (explicit_dl d true)) r1)) ->
  Forall (fun r => row_ok is_number stod n kinds false (arrange oi r)) (parsed (explicit_dl d true) rest) ->
  (forall k, oi = Some k -> Forall (fun r => (k < length r)%nat) (h :: r1 :: rest)) ->
  two_classes kinds (explicit_dl d true) oi (r1 :: rest) ->
  (exists k, (1 <= k)%nat /\ forall l, In l (firstn 20 (map (render_line d) (h :: r1 :: rest))) -> count_char d l = k) ->
  (forall c, In c candidates_sorted -> c <> d ->
     ~ exists k', (1 <= k')%nat /\ forall l, In l (firstn 20 (map (render_line d) (h :: r1 :: rest))) -> count_char c l = k') ->
  unquoted d h ->
  columns_all (fun h cells => votes_plus is_number h cells \/ cls_variable_text is_number h cells)
              h (looked (length h) 20 (r1 :: rest)) ->
  columns_some (votes_plus is_number) h (looked (length h) 20 (r1 :: rest)) ->
  exists df,
    read_csv is_number stod stoi fixed_v (render_table d (h :: r1 :: rest)) (sniffed_params oi) = Ok df
    /\ read_csv is_number stod stoi fixed_v (render_table d (h :: r1 :: rest)) (explicit_params d true oi) = Ok df
    /\ dataset df = fst (spec_rows stod n kinds [] (map (arrange oi) (parsed (explicit_dl d true) (r1 :: rest))))
    /\ classes df = snd (spec_rows stod n kinds [] (map (arrange oi) (parsed (explicit_dl d true) (r1 :: rest))))
    /\ length (dataset df) = length (r1 :: rest)
    /\ length (columns df) = n
    /\ (forall j c, nth_error (columns df) j = Some c ->
          c_domain c = dom_of j (kinds j) /\
          c_name c = trim (nth j (arrange oi (map (field_out (explicit_dl d true)) h)) [])).
Proof. exact read_csv_sniffed_end_to_end_header_lemma. Qed.
Print Assumptions C09_sniffed_read_is_the_table_header.

Theorem C09_sniffed_read_is_the_table :
  forall is_number stod stoi n, (1 <= n)%nat -> forall kinds d oi r1 rest,
  usual_delimiter d ->
  Forall (renderable d) (r1 :: rest) ->
  row_ok is_number stod n kinds true (arrange oi (map (field_out (explicit_dl d false)) r1)) ->
  Forall (fun r => row_ok is_number stod n kinds false (arrange oi r)) (parsed (explicit_dl d false) rest) ->
  (forall k, oi = Some k -> Forall (fun r => (k < length r)%nat) (r1 :: rest)) ->
  two_classes kinds (explicit_dl d false) oi (r1 :: rest) ->
  (exists k, (1 <= k)%nat /\ forall l, In l (firstn 20 (map (render_line d) (r1 :: rest))) -> count_char d l = k) ->
  (forall c, In c candidates_sorted -> c <> d ->
     ~ exists k', (1 <= k')%nat /\ forall l, In l (firstn 20 (map (render_line d) (r1 :: rest))) -> count_char c l = k') ->
  unquoted d r1 ->
  columns_all (fun h cells => votes_minus is_number h cells \/ cls_variable_text is_number h cells)
              r1 (looked (length r1) 20 rest) ->
  exists df,
    read_csv is_number stod stoi fixed_v (render_table d (r1 :: rest)) (sniffed_params oi) = Ok df
    /\ read_csv is_number stod stoi fixed_v (render_table d (r1 :: rest)) (explicit_params d false oi) = Ok df
    /\ dataset df = fst (spec_rows stod n kinds [] (map (arrange oi) (parsed (explicit_dl d false) (r1 :: rest))))
    /\ classes df = snd (spec_rows stod n kinds [] (map (arrange oi) (parsed (explicit_dl d false) (r1 :: rest))))
    /\ length (dataset df) = length (r1 :: rest)
    /\ length (columns df) = n
    /\ (forall j c, nth_error (columns df) j = Some c -> c_domain c = dom_of j (kinds j) /\ c_name c = []).
Proof. exact read_csv_sniffed_end_to_end_lemma. Qed.
Print Assumptions C09_sniffed_read_is_the_table.

(* ------------------------------------------------------------------ tie: regenerated constants *)
(* coq/Gen/CsvConsts.v is regenerated from utility/pocket_csv.h and dataframe.cc on every
   run; the model's literals are those of the source (this stops compiling when the
   delimiter list or its order, the number of sniffed lines, the 3:2 consistency test, the
   "no delimiter" result, the quote character, the column tags, the number of records seen
   by columns_info::build or the weka type table change in the source). *)
Theorem C09_constants_match_source :
  preferred = gen_preferred /\ candidates_sorted = z_sort gen_preferred /\
  (forall text lines, guess_delimiter text lines = guess_delimiter_gen text lines) /\
  (forall is_number text,
     sniffer is_number text =
     (let d := guess_delimiter_gen text gen_sniff_lines in
      bind (sniff_has_header is_number text gen_sniff_lines d)
           (fun h => Ok {| delimiter := d; trim_ws := false; has_header := h; quoting := REMOVE_QUOTES |}))) /\
  (none_tag = gen_none_tag /\ skip_tag = gen_skip_tag /\ number_tag = gen_number_tag /\ string_tag = gen_string_tag) /\
  (gen_quote = 34 /\ gen_build_records = 10%nat) /\
  (forall n, from_weka n = weka_lookup gen_weka gen_weka_default n).
Proof. exact constants_match_source_lemma. Qed.
Print Assumptions C09_constants_match_source.

(* ------------------------------------------------------------------ non-vacuity *)
(* a record with an embedded delimiter, doubled quotes and leading/trailing blanks *)
Example C09_parse_render_nonvacuous :
  let dl := {| delimiter := 44; trim_ws := false; has_header := NO_HEADER; quoting := REMOVE_QUOTES |} in
  let fields := [[97; 44; 98]; [34; 104; 105; 34]; [32; 120; 32]; []; [49; 46; 53]] in
  render_line 44 fields =
    [34; 97; 44; 98; 34; 44; 34; 34; 34; 104; 105; 34; 34; 34; 44; 34; 32; 120; 32; 34; 44; 44; 49; 46; 53]
  /\ parse_line dl (render_line 44 fields) = fields.
Proof. vm_compute. split; reflexivity. Qed.

(* a concrete typed table with header, output index 2, class labels, a numeric, a text
   and a void column meets every hypothesis of C09_header_names (TableProofs.Sanity) *)
Example C09_table_nonvacuous := Sanity.table_sanity.

(* the hypotheses of C09_variable_i_reads_column_i are met whenever there are >= 2 columns *)
Example C09_terminals_nonvacuous : forall cols strong, (2 <= length cols)%nat ->
  exists vars, setup_terminals fixed_v cols strong = Ok vars.
Proof. exact setup_terminals_total. Qed.

(* guess_delimiter: "a;b\n1;2\n" has one ';' per line and no other candidate *)
Example C09_guess_delimiter_nonvacuous : guess_delimiter [97; 59; 98; 10; 49; 59; 50; 10] 20 = 59.
Proof. vm_compute. reflexivity. Qed.

(* the end-to-end theorems' hypotheses are satisfiable (concrete bytes / DOM) *)
Example C09_end_to_end_nonvacuous := EndToEndSanity.end_to_end_sanity.
Example C09_xrff_end_to_end_nonvacuous := EndToEndXrff.Sanity.xrff_sanity.
(* mixed tables with and without header through the agreement theorems *)
Example C09_has_header_with_nonvacuous := HeaderProofs.ex_mixed_with_header_by_theorem.
Example C09_has_header_without_nonvacuous := HeaderProofs.ex_mixed_without_header_by_theorem.
Example C09_sniffed_read_nonvacuous :=
  (SniffedSanity.sniffed_header_by_theorem, SniffedSanity.sniffed_no_header_by_theorem).

(* columns named y, a, a, b (a repeated name followed by another input column): three
   variables a, a, b with ids 0, 1, 2; and y, "", X1, c: the unnamed column 1 gets the default
   name X1, the column explicitly named X1 keeps it, ids 0, 1, 2 *)
Example C09_duplicate_names_nonvacuous :
  let col n := {| c_name := n; c_domain := DDouble; c_states := [] |} in
  (exists vars, setup_terminals fixed_v [col [121]; col [97]; col [97]; col [98]] false = Ok vars /\
                map v_name vars = [[97]; [97]; [98]] /\ map v_id vars = [0; 1; 2]%nat)
  /\ (exists vars, setup_terminals fixed_v [col [121]; col []; col [88; 49]; col [99]] false = Ok vars /\
                   map v_name vars = [[88; 49]; [88; 49]; [99]] /\ map v_id vars = [0; 1; 2]%nat).
Proof. vm_compute. split; eexists; repeat split; reflexivity. Qed.
