(* C03 -- statements that are FALSE of the faithful model (findings). *)
From Coq Require Import ZArith NArith List Bool.
From VV Require Import Base.F64 Mep.Genome Mep.OpsDefs.
From VV Require Import Sig.Bits64 Sig.Murmur Sig.SigDefs Sig.SigProofs Sig.CseDefs.
Import ListNotations.
Local Open Scope N_scope.

Definition de_one : N := 0x3ff0000000000000.
Definition de_two : N := 0x4000000000000000.

(* the pinned i_de::operator=(const std::vector<double>&) (no signature_.clear()):
   signature(); x = v; leaves the signature of the old genome.  Repaired by the
   fix: commit (ide_step true), about which C03_cache_never_stale_ide is proved. *)
Theorem C03_ide_assign_vector_keeps_cache_refuted :
  exists x y, cache_ok hash_de x /\ ide_step false x (DAssignVector [de_two]) = Some y /\
              ~ cache_ok hash_de y.
Proof.
  destruct (signature hash_de (clear [de_one])) as [[h x]|] eqn:E; [|discriminate].
  exists x. vm_compute in E. inversion E. subst. eexists. split; [right; vm_compute; reflexivity|].
  split; [reflexivity|]. intros [H|H]; vm_compute in H; discriminate.
Qed.
Print Assumptions C03_ide_assign_vector_keeps_cache_refuted.

(* writing through the non-const begin()/end() after signature() (known
   finding: the iterators are the API) *)
Theorem C03_ide_iterator_write_refuted :
  exists x y, cache_ok hash_de x /\ ide_step true x (DIterWrite 0 de_two) = Some y /\ ~ cache_ok hash_de y.
Proof.
  destruct (signature hash_de (clear [de_one])) as [[h x]|] eqn:E; [|discriminate].
  exists x. vm_compute in E. inversion E. subst. eexists. split; [right; vm_compute; reflexivity|].
  split; [reflexivity|]. intros [H|H]; vm_compute in H; discriminate.
Qed.
Print Assumptions C03_ide_iterator_write_refuted.

Theorem C03_iga_iterator_write_refuted :
  exists x y, cache_ok hash_ga x /\ iga_step x (GIterWrite 0 2%Z) = Some y /\ ~ cache_ok hash_ga y.
Proof.
  destruct (signature hash_ga (clear [1%Z])) as [[h x]|] eqn:E; [|discriminate].
  exists x. vm_compute in E. inversion E. subst. eexists. split; [right; vm_compute; reflexivity|].
  split; [reflexivity|]. intros [H|H]; vm_compute in H; discriminate.
Qed.
Print Assumptions C03_iga_iterator_write_refuted.

(* i_mep: *it = gene through the non-const begin() after signature() *)
Definition rX := mk_sym 0 0 [] false.
Definition rY := mk_sym 1 0 [] false.
Definition r_g : genome :=
  {| rows := 1; cats := 1; best := mk_locus 0 0;
     cell := fun r c => match r, c with 0%nat, 0%nat => Some (mk_gene rX F64.zero []) | _, _ => None end |}.
Theorem C03_mep_iterator_write_refuted :
  exists x y, cache_ok hash_mep x /\
              mep_step (fun _ _ => false) x (MIterWrite (mk_locus 0 0) (mk_gene rY F64.zero [])) = Some y /\
              ~ cache_ok hash_mep y.
Proof.
  destruct (signature hash_mep (clear r_g)) as [[h x]|] eqn:E; [|vm_compute in E; discriminate].
  exists x. vm_compute in E. inversion E. subst. eexists. split; [right; vm_compute; reflexivity|].
  split; [reflexivity|]. intros [H|H]; vm_compute in H; discriminate.
Qed.
Print Assumptions C03_mep_iterator_write_refuted.

(* i_mep::cse() with the comparator a.par < b.par (the tree before
   "fix: i_mep::cse() merges the constants +0.0 and -0.0"): +0.0 and -0.0 are
   equivalent keys, F(+0.0, -0.0) becomes F(-0.0, -0.0): the packed stream, hence
   the signature, changes while cse() keeps the cached one.  Replayed on the real
   code: MEP 1 3 | 0 0 0,0=4:-:1,2 1,0=2:0000000000000000:- 2,0=2:8000000000000000:- | .. | S C S *)
Definition rC := mk_sym 2 0 [] true.
Definition rF := mk_sym 4 0 [0%nat; 0%nat] false.
Definition r_zeros : genome :=
  {| rows := 3; cats := 1; best := mk_locus 0 0;
     cell := fun r c => match r, c with
                        | 0, 0 => Some (mk_gene rF F64.zero [1; 2]) | 1, 0 => Some (mk_gene rC F64.zero [])
                        | 2, 0 => Some (mk_gene rC (F64.neg F64.zero) []) | _, _ => None end%nat |}.
Theorem C03_cse_ltb_merges_signed_zeros_refuted :
  exists g', cse_ltb r_zeros = Some g' /\ mep_pack g' <> mep_pack r_zeros /\ hash_mep g' <> hash_mep r_zeros /\
             exists x y, cache_ok hash_mep x /\ content x = r_zeros /\ y = keep x g' /\ ~ cache_ok hash_mep y.
Proof.
  destruct (cse_ltb r_zeros) as [g'|] eqn:E; [|vm_compute in E; discriminate]. exists g'. split; [reflexivity|].
  vm_compute in E. inversion E. subst g'. split; [vm_compute; discriminate|]. split; [vm_compute; discriminate|].
  destruct (signature hash_mep (clear r_zeros)) as [[h x]|] eqn:Es; [|vm_compute in Es; discriminate].
  exists x. eexists. vm_compute in Es. inversion Es. subst. split; [right; vm_compute; reflexivity|].
  split; [reflexivity|]. split; [reflexivity|]. intros [H|H]; vm_compute in H; discriminate.
Qed.
Print Assumptions C03_cse_ltb_merges_signed_zeros_refuted.
