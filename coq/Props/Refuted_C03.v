(* C03 -- statements that are FALSE of the faithful model (findings). *)
From Coq Require Import ZArith NArith List Bool.
From VV Require Import Base.F64 Mep.Genome Sig.Bits64 Sig.Murmur Sig.SigDefs Sig.SigProofs.
Import ListNotations.
Local Open Scope N_scope.

Definition de_one : N := 0x3ff0000000000000.
Definition de_two : N := 0x4000000000000000.

(* the pinned i_de::operator=(const std::vector<double>&) (no signature_.clear()):
   signature(); x = v; leaves the signature of the old genome.  Repaired by the
   fix: commit (ide_step true), about which C03_cache_never_stale_ide is proved. *)
Theorem C03_ide_assign_vector_keeps_cache_refuted :
  exists x y, cache_ok hash_de x /\ ide_step false x (DAssignVector [de_two]) = Some y /\
              ~ cache_ok hash_de y.
Proof.
  destruct (signature hash_de (clear [de_one])) as [[h x]|] eqn:E; [|discriminate].
  exists x. vm_compute in E. inversion E. subst. eexists. split; [right; vm_compute; reflexivity|].
  split; [reflexivity|]. intros [H|H]; vm_compute in H; discriminate.
Qed.
Print Assumptions C03_ide_assign_vector_keeps_cache_refuted.

(* writing through the non-const begin()/end() after signature() (known
   finding: the iterators are the API) *)
Theorem C03_ide_iterator_write_refuted :
  exists x y, cache_ok hash_de x /\ ide_step true x (DIterWrite 0 de_two) = Some y /\ ~ cache_ok hash_de y.
Proof.
  destruct (signature hash_de (clear [de_one])) as [[h x]|] eqn:E; [|discriminate].
  exists x. vm_compute in E. inversion E. subst. eexists. split; [right; vm_compute; reflexivity|].
  split; [reflexivity|]. intros [H|H]; vm_compute in H; discriminate.
Qed.
Print Assumptions C03_ide_iterator_write_refuted.

Theorem C03_iga_iterator_write_refuted :
  exists x y, cache_ok hash_ga x /\ iga_step x (GIterWrite 0 2%Z) = Some y /\ ~ cache_ok hash_ga y.
Proof.
  destruct (signature hash_ga (clear [1%Z])) as [[h x]|] eqn:E; [|discriminate].
  exists x. vm_compute in E. inversion E. subst. eexists. split; [right; vm_compute; reflexivity|].
  split; [reflexivity|]. intros [H|H]; vm_compute in H; discriminate.
Qed.
Print Assumptions C03_iga_iterator_write_refuted.

(* i_mep: *it = gene through the non-const begin() after signature() *)
Definition rX := mk_sym 0 0 [] false.
Definition rY := mk_sym 1 0 [] false.
Definition r_g : genome :=
  {| rows := 1; cats := 1; best := mk_locus 0 0;
     cell := fun r c => match r, c with 0%nat, 0%nat => Some (mk_gene rX F64.zero []) | _, _ => None end |}.
Theorem C03_mep_iterator_write_refuted :
  exists x y, cache_ok hash_mep x /\
              mep_step (fun _ _ => false) x (MIterWrite (mk_locus 0 0) (mk_gene rY F64.zero [])) = Some y /\
              ~ cache_ok hash_mep y.
Proof.
  destruct (signature hash_mep (clear r_g)) as [[h x]|] eqn:E; [|vm_compute in E; discriminate].
  exists x. vm_compute in E. inversion E. subst. eexists. split; [right; vm_compute; reflexivity|].
  split; [reflexivity|]. intros [H|H]; vm_compute in H; discriminate.
Qed.
Print Assumptions C03_mep_iterator_write_refuted.
