(* C08 -- why detail/lambda_f.h needs its user-written copy constructor and
   assignment: with memberwise (compiler-generated) copies the interpreter of
   the copy keeps designating the ORIGINAL's individual, and target_is_self is
   false as soon as the original is destroyed.  (Not a defect of the pinned
   tree: the tree re-seats.  The check replays this history on the real code
   under ASan; the mutation "delete the copy constructor" must fire there.) *)
From Coq Require Import List.
From VV Require Import Lambda.LambdaDefs.
Import ListNotations.

Theorem C08_memberwise_copy_dangles_refuted :
  exists (ops : list (op nat)) vs st m,
    vrun nat vinit ops = Some vs /\ run_ops nat Memberwise init ops = Some st /\
    v_get nat vs m = Some 7 /\ model_program nat st m = None.
Proof.
  exists [MNew 7; MCopy 0; MDestroy 0]. eexists. eexists. exists 1.
  split; [reflexivity|]. split; [reflexivity|]. split; reflexivity.
Qed.
Print Assumptions C08_memberwise_copy_dangles_refuted.
