(* C07 -- findings on the pinned tree (DESIGN section 7, #1).

   src/utility/xoshiro256ss.cc, operator>>:
     return i >> e.state[0] >> e.state[1] >> e.state[2] >> e.state[31];
   on std::array<std::uint64_t,4>.  [load_state_literal] is the literal model
   of that line (a store outside the array is undefined behaviour);
   [load_state_benign] is what is observed when the stray store hits unused
   memory: state[3] keeps its previous value.  Both refute load_save_state.
   The tree is repaired by `fix: xoshiro256ss operator>> ... state[3]`; the
   positive theorems of Properties_C07.v are about the repaired line. *)
From Coq Require Import NArith List Bool.
From VV Require Import Rng.RngDefs Rng.RngProofs.
Import ListNotations.
Local Open Scope N_scope.

(* literal source: every well-formed input ends in the out-of-bounds store *)
Theorem C07_load_state_refuted :
  exists old st rest, wf st /\ head_not_digit rest /\
    load_state_literal (state_list old) (save_state st ++ rest) = LitUB /\
    load_state_literal (state_list old) (save_state st ++ rest) <> LitOk (state_list st) rest.
Proof.
  exists (new_engine 1), (new_engine 2), [10].
  split; [apply seed_engine_wf|]. split; [reflexivity|].
  split; [vm_compute; reflexivity|vm_compute; discriminate].
Qed.
Print Assumptions C07_load_state_refuted.

(* and it never succeeds on any input *)
Theorem C07_literal_load_never_succeeds : forall old l a rest,
  load_state_literal (state_list old) l <> LitOk a rest.
Proof. intros old l a rest. apply literal_never_loads. reflexivity. Qed.
Print Assumptions C07_literal_load_never_succeeds.

(* observed behaviour when the stray store is harmless: state[3] is not
   restored and the reloaded generator continues with a DIFFERENT sequence *)
Theorem C07_same_sequence_after_reload_refuted :
  exists old st st', reachable st /\
    load_state_benign old (save_state st) = LoadOk st' [] /\
    st' <> st /\ outputs 4 st' <> outputs 4 st.
Proof.
  exists (new_engine 1), (new_engine 2).
  eexists. split; [apply reach_seed|].
  split; [vm_compute; reflexivity|]. split; vm_compute; discriminate.
Qed.
Print Assumptions C07_same_sequence_after_reload_refuted.
