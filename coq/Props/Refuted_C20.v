(* C20 -- findings: the methods as they were on the pinned tree
   ([step_pinned], SmallVec/SmallVecDefs.v, Section Pinned) do NOT refine
   std::vector.  One witness per defect; each has been replayed on the real
   code (harness/h_smallvec.cc) and repaired by a "fix:" commit. *)
From Coq Require Import ZArith List Bool Arith.
From VV Require Import SmallVec.SmallVecDefs.
Import ListNotations.
Local Open Scope Z_scope.

Definition Pint (S : nat) : params := mkParams S true 0 (fun x => x) Z.eqb Z.ltb.
Definition Pstr (S : nat) : params := mkParams S false 0 (fun _ => 0) Z.eqb Z.ltb.
Definition Ptrk (S : nat) : params := mkParams S false 0 (fun _ => -1) Z.eqb Z.ltb.
Definition a := false.
Definition b := true.

(* 1. resize(n) within capacity / small_vector(n) do not value-initialise
      trivially constructible elements: std::vector gives [1;0;0] *)
Theorem C20_resize_value_initialises_refuted :
  exists st', run_pinned (Pint 3) [CtorList a [1; 2; 3]; Resize a 1%nat; Resize a 3%nat] (init (Pint 3))
              = Ok (st', None) /\ abs (sa st') = Some [1; 2; 3].
Proof. eexists. split; vm_compute; reflexivity. Qed.

Theorem C20_size_ctor_value_initialises_refuted :
  exists st', run_pinned (Pint 3) [CtorN a 2%nat] (init (Pint 3)) = Ok (st', None) /\
              contents (sa st') = Err ReadIndet.
Proof. eexists. split; vm_compute; reflexivity. Qed.

(* 2. copy assignment into heap storage with size() < n <= capacity():
      destroy_range(begin() + n, end()) with begin() + n > end() *)
Theorem C20_copy_assign_no_lifetime_error_refuted :
  run_pinned (Pstr 2) [CtorList a [1; 2; 3]; Reserve a 6%nat; Resize a 1%nat; CtorList b [4; 5; 6]; CopyAssign a]
             (init (Pstr 2)) = Err DestroyRaw.
Proof. vm_compute. reflexivity. Qed.

(* 3. insert of an empty range in the middle: the tail is self-move-assigned;
      std::vector keeps [1;2;3] *)
Theorem C20_insert_empty_range_refuted :
  exists st', run_pinned (Pstr 4) [CtorList a [1; 2; 3]; Insert a 1%nat []] (init (Pstr 4))
              = Ok (st', Some 1%nat) /\ abs (sa st') = Some [1; 0; 0].
Proof. eexists. split; vm_compute; reflexivity. Qed.

(* 4. insert of more elements than the tail, local storage: placement-new over
      live objects *)
Theorem C20_insert_no_double_construction_refuted :
  run_pinned (Ptrk 4) [CtorList a [1; 2]; Insert a 1%nat [7; 8]] (init (Ptrk 4)) = Err DoubleConstruct.
Proof. vm_compute. reflexivity. Qed.

(* 5. insert at end() returns the new end(); std::vector returns index 2 *)
Theorem C20_insert_at_end_returns_first_inserted_refuted :
  exists st', run_pinned (Pint 4) [CtorList a [1; 2]; Insert a 2%nat [7; 8]] (init (Pint 4))
              = Ok (st', Some 4%nat).
Proof. eexists. vm_compute. reflexivity. Qed.

(* 6. push_back(v[i]) at full capacity: the argument is read after grow() *)
Theorem C20_push_back_self_heap_refuted :
  run_pinned (Ptrk 3) [CtorList a [1; 2; 3; 4]; PushBackSelf a 0%nat] (init (Ptrk 3)) = Err ReadRaw.
Proof. vm_compute. reflexivity. Qed.

Theorem C20_push_back_self_local_refuted :
  exists st', run_pinned (Pstr 1) [CtorList a [1]; PushBackSelf a 0%nat] (init (Pstr 1)) = Ok (st', None) /\
              abs (sa st') = Some [1; 0].
Proof. eexists. split; vm_compute; reflexivity. Qed.
