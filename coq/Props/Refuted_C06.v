(* C06 -- statements that are FALSE of the faithful model (findings), each with
   a concrete witness checked by computation. *)
From Coq Require Import ZArith List Bool.
From VV Require Import Evo.EvoDefs Evo.TuneDefs.
Import ListNotations.
Local Open Scope Z_scope.

Definition blank_with (ind tour layers mini : Z) : tenv :=
  mkTenv 0 0 None (-1000) (-1000) 0 layers ind mini tour 0 0 None None None 20 750 3.

(* pinned tree: src_search::tune_parameters compares typeid(this->vs_.get()),
   the type of a POINTER, with typeid(holdout_validation): never equal, so the
   validation percentage the user left open stays undefined (same for dss) *)
Theorem C06_tune_fills_every_open_parameter_refuted : forall ln cube, exists k terms e,
  user_wf e = true /\ is_valid false e = true /\ filled k (tune ln cube typeid_pinned k terms e) = false.
Proof.
  intros ln cube. exists (KSrc TStd VHoldout 120), 3, (blank_with 50 0 0 0). repeat split; reflexivity.
Qed.
Print Assumptions C06_tune_fills_every_open_parameter_refuted.

Theorem C06_tune_fills_dss_refuted : forall ln cube, exists k terms e,
  user_wf e = true /\ is_valid false e = true /\ filled k (tune ln cube typeid_pinned k terms e) = false.
Proof.
  intros ln cube. exists (KSrc TStd VDss 120), 3, (blank_with 50 0 0 0). repeat split; reflexivity.
Qed.
Print Assumptions C06_tune_fills_dss_refuted.

(* "the result passes the library's consistency check" is false for admissible
   user settings that conflict with the default of a parameter left open:
   population 4, tournament size open -> tournament 5 > 4 *)
Theorem C06_tune_valid_refuted : forall ln cube tid, exists k terms e,
  user_wf e = true /\ is_valid false e = true /\ is_valid true (tune ln cube tid k terms e) = false.
Proof.
  intros ln cube tid. exists (KSearch TStd), 3, (blank_with 4 0 0 0). repeat split; reflexivity.
Qed.
Print Assumptions C06_tune_valid_refuted.

(* ga_search / de_search impose min_individuals >= 10 even on a population of 8 *)
Theorem C06_tune_valid_ga_minimum_refuted : forall ln cube tid, exists k terms e,
  user_wf e = true /\ is_valid false e = true /\ is_valid true (tune ln cube tid k terms e) = false.
Proof.
  intros ln cube tid. exists (KGa TStd), 3, (blank_with 8 0 0 0). repeat split; reflexivity.
Qed.
Print Assumptions C06_tune_valid_ga_minimum_refuted.

(* pinned tree: with tournament_size = 1 (documented as legal) the selection
   hands ONE coordinate to the recombination, which indexes parent[1] *)
Theorem C06_second_parent_exists_refuted : exists (e : env) (p : population Z) sd cs,
  select Z.ltb e p sd = Some cs /\ nth_error cs 1 = None.
Proof.
  exists (mkEnv Std 4 2 1 1 20 true 3 Pmid Pmid false),
         [mkLayer [mkInd 1 0 5; mkInd 2 0 7; mkInd 3 0 7; mkInd 4 0 1] 4],
         (SelTournament (0%nat, 1%nat) [2]), [(0%nat, 2%nat)].
  split; vm_compute; reflexivity.
Qed.
Print Assumptions C06_second_parent_exists_refuted.

(* with unsigned wrap-around the ring window is lost (n close to 2^32); the
   result is still in range *)
Theorem C06_ring_window_wrap_refuted : exists base width n v,
  0 <= base < n /\ 0 < width < n /\ 0 <= v < width /\
  ring base width n v <> (base - width / 2 + v) mod n.
Proof.
  exists 4294967000, 10, 4294967290, 3. repeat split; vm_compute; congruence.
Qed.
Print Assumptions C06_ring_window_wrap_refuted.

(* why C06_tune_valid excludes a population of exactly 1: min_individuals can
   then only be 1 (rejected) or exceed the population *)
Theorem C06_tune_valid_population_one_refuted : forall ln cube tid, exists k terms e,
  user_wf e = true /\ is_valid false e = true /\ is_valid true (tune_rec ln cube tid k terms e) = false.
Proof.
  intros ln cube tid. exists (KSearch TStd), 3, (blank_with 1 0 0 0). repeat split; reflexivity.
Qed.
Print Assumptions C06_tune_valid_population_one_refuted.
