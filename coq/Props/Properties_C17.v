(* C17 -- Integer and real vector individuals follow their operator definitions.

   Model: coq/Ga/GaDefs.v mirrors src/kernel/ga/i_ga.cc (constructor,
   mutation, crossover), i_de.cc (constructor, crossover), primitive.h
   (number::init = random::in(range)), symbol_set::roulette_terminal and
   individual::set_older_age.  Randomness is an oracle stream of draws: a model
   function returns [Some] exactly on the streams that (a) have the kinds and
   bounds the code requests, in the order it requests them, and (b) honour the
   contract of vita::random (H_draws: between<int> in [lo,hi), between<double>
   in [lo,hi], boolean(0)=false, boolean(1)=true).  Every theorem is
   "for all streams, if the call is [Some] then ...": all seeds, all PRNGs.
   Doubles are Flocq binary64 (Base/F64.v): the DE formula is bit-exact.
   Nothing else lives in this file. *)
From Coq Require Import ZArith List Bool.
From VV Require Import Base.F64 Ga.GaDefs Ga.GaProofs.
Import ListNotations.
Local Open Scope Z_scope.

(* ---- i_ga: every gene stays in the half-open interval of its position *)
Theorem C17_ga_in_range_creation : forall ranges ds x ds',
  ga_create ranges ds = Some (x, ds') ->
  in_range ranges (ga_genome x) /\ length (ga_genome x) = length ranges /\ ga_age x = 0.
Proof. exact ga_create_range. Qed.
Print Assumptions C17_ga_in_range_creation.

Theorem C17_ga_in_range_mutation : forall pgm ranges x ds y n ds',
  in_range ranges (ga_genome x) -> ga_mutation pgm ranges x ds = Some (y, n, ds') ->
  in_range ranges (ga_genome y) /\ length (ga_genome y) = length (ga_genome x) /\ ga_age y = ga_age x /\
  0 <= n <= Z.of_nat (length (ga_genome x)).
Proof. exact ga_mutation_range. Qed.
Print Assumptions C17_ga_in_range_mutation.

Theorem C17_ga_in_range_crossover : forall ranges l r ds child ds',
  in_range ranges (ga_genome l) -> in_range ranges (ga_genome r) ->
  ga_crossover l r ds = Some (child, ds') -> in_range ranges (ga_genome child).
Proof.
  intros ranges l r ds child ds' Hl Hr H. apply ga_crossover_spec in H.
  destruct H as (_ & _ & c1 & c2 & _ & _ & _ & -> & _). apply splice_from_range; assumption.
Qed.
Print Assumptions C17_ga_in_range_crossover.

(* all histories: whatever sequence of creations, mutations and crossovers (any probabilities,
   any accepted draws) produced an individual, its genes are in their intervals and it has the
   problem's length *)
Theorem C17_ga_in_range_all_histories : forall ranges x, ga_reachable ranges x ->
  in_range ranges (ga_genome x) /\ length (ga_genome x) = length ranges /\ 0 <= ga_age x.
Proof. exact ga_reachable_in_range. Qed.
Print Assumptions C17_ga_in_range_all_histories.

(* a child takes ONE contiguous NON-EMPTY segment [c1,c2) from lhs and everything else from rhs;
   c1 and c2 are the two draws, 0 <= c1 < n-1, c1 < c2 < n (as the code draws them: cut2 comes from the
   half-open [cut1+1, n), so the last position always comes from rhs) *)
Theorem C17_ga_crossover_segment : forall l r ds child ds',
  ga_crossover l r ds = Some (child, ds') ->
  let n := Z.of_nat (length (ga_genome l)) in
  exists c1 c2, ga_cuts l ds = Some (c1, c2) /\ 0 <= c1 < n - 1 /\ c1 < c2 < n /\
    forall k, nth_error (ga_genome child) k =
              if (c1 <=? Z.of_nat k) && (Z.of_nat k <? c2) then nth_error (ga_genome l) k
              else nth_error (ga_genome r) k.
Proof.
  intros l r ds child ds' H n. apply ga_crossover_spec in H.
  destruct H as (Hlen & _ & c1 & c2 & Hc & H1 & H2 & Hg & _).
  exists c1, c2. split; [exact Hc|]. split; [exact H1|]. split; [exact H2|].
  intro k. rewrite Hg. rewrite (splice_from_nth _ _ 0 c1 c2 k Hlen). reflexivity.
Qed.
Print Assumptions C17_ga_crossover_segment.

Theorem C17_ga_crossover_len : forall l r ds child ds',
  ga_crossover l r ds = Some (child, ds') ->
  length (ga_genome child) = length (ga_genome l) /\ length (ga_genome child) = length (ga_genome r) /\
  (2 <= length (ga_genome l))%nat.
Proof.
  intros l r ds child ds' H. apply ga_crossover_spec in H.
  destruct H as (Hlen & Hn & c1 & c2 & _ & _ & _ & -> & _).
  rewrite (splice_from_length _ _ 0 c1 c2 Hlen). split; [reflexivity|]. split; [exact Hlen|].
  apply Nat2Z.inj_le. exact Hn.
Qed.
Print Assumptions C17_ga_crossover_len.

(* the child inherits the older parent's age *)
Theorem C17_ga_crossover_age : forall l r ds child ds',
  ga_crossover l r ds = Some (child, ds') -> ga_age child = Z.max (ga_age l) (ga_age r).
Proof.
  intros l r ds child ds' H. apply ga_crossover_spec in H.
  destruct H as (_ & _ & c1 & c2 & _ & _ & _ & _ & Ha). exact Ha.
Qed.
Print Assumptions C17_ga_crossover_age.

(* ---- i_de *)
(* every position of a trial vector is the target's value or c + F*(a - b), for ONE F per
   trial drawn from the weight interval; lengths agree *)
Theorem C17_de_trial_formula : forall p flo fhi t a b c ds trial ds',
  de_crossover p flo fhi t a b c ds = Some (trial, ds') ->
  exists F, de_factor flo fhi ds = Some F /\ F64.leb flo F = true /\ F64.leb F fhi = true /\
    length (de_genome trial) = length (de_genome t) /\
    forall i tv av bv cv,
      nth_error (de_genome t) i = Some tv -> nth_error (de_genome a) i = Some av ->
      nth_error (de_genome b) i = Some bv -> nth_error (de_genome c) i = Some cv ->
      exists x, nth_error (de_genome trial) i = Some x /\
                (x = tv \/ x = F64.add cv (F64.mul F (F64.sub av bv))).
Proof.
  intros p flo fhi t a b c ds trial ds' H. apply de_crossover_spec in H.
  destruct H as (F & HF & H1 & H2 & Hrel & _). exists F.
  split; [exact HF|]. split; [exact H1|]. split; [exact H2|].
  split; [apply (trial_rel_length _ _ _ _ _ _ Hrel)|]. exact (trial_rel_nth _ _ _ _ _ _ Hrel).
Qed.
Print Assumptions C17_de_trial_formula.

(* the last position is always the mutant value *)
Theorem C17_de_last_is_mutant : forall p flo fhi t a b c ds trial ds',
  de_crossover p flo fhi t a b c ds = Some (trial, ds') ->
  exists F g0 a0 b0 c0 av bv cv, de_factor flo fhi ds = Some F /\
    de_genome trial = g0 ++ [F64.add cv (F64.mul F (F64.sub av bv))] /\
    de_genome a = a0 ++ [av] /\ de_genome b = b0 ++ [bv] /\ de_genome c = c0 ++ [cv] /\
    length g0 = length a0 /\ length g0 = length b0 /\ length g0 = length c0.
Proof.
  intros p flo fhi t a b c ds trial ds' H. apply de_crossover_spec in H.
  destruct H as (F & HF & _ & _ & Hrel & _). apply trial_rel_last in Hrel.
  destruct Hrel as (g0 & a0 & b0 & c0 & av & bv & cv & Hg & Ha & Hb & Hc & L).
  exists F, g0, a0, b0, c0, av, bv, cv. split; [exact HF|]. unfold mutant in Hg. tauto.
Qed.
Print Assumptions C17_de_last_is_mutant.

Theorem C17_de_age : forall p flo fhi t a b c ds trial ds',
  de_crossover p flo fhi t a b c ds = Some (trial, ds') ->
  de_age trial = Z.max (Z.max (de_age t) (de_age c)) (Z.max (de_age a) (de_age b)).
Proof.
  intros p flo fhi t a b c ds trial ds' H. apply de_crossover_spec in H.
  destruct H as (F & _ & _ & _ & _ & Ha). exact Ha.
Qed.
Print Assumptions C17_de_age.

(* randomly created real vectors lie inside the declared box (closed at the top: the
   draws contract records that uniform_real_distribution may round up to the bound) *)
Theorem C17_de_creation_in_box : forall ranges ds x ds',
  de_create ranges ds = Some (x, ds') ->
  in_box ranges (de_genome x) /\ length (de_genome x) = length ranges /\ de_age x = 0.
Proof. exact de_create_box. Qed.
Print Assumptions C17_de_creation_in_box.

(* extremes of the probabilities (the boolean contract is used) *)
Theorem C17_ga_mutation_p0_identity : forall pgm ranges x ds y n ds',
  F64.eqb pgm F64.zero = true -> ga_mutation pgm ranges x ds = Some (y, n, ds') -> y = x /\ n = 0.
Proof.
  intros pgm ranges [g age] ds y n ds' Hp H. unfold ga_mutation in H. cbn [ga_genome ga_age] in H.
  destruct (ga_mut_genome pgm ranges g ds) as [[[g' n'] ds2]|] eqn:E; [|discriminate].
  injection H as <- <- <-. destruct (ga_mut_genome_p0 _ _ _ _ _ _ _ Hp E) as [-> ->]. split; reflexivity.
Qed.
Print Assumptions C17_ga_mutation_p0_identity.

Theorem C17_de_p0_only_last_changes : forall p flo fhi t a b c ds trial ds',
  F64.eqb p F64.zero = true -> de_crossover p flo fhi t a b c ds = Some (trial, ds') ->
  exists t0 tl g1, de_genome t = t0 ++ [tl] /\ de_genome trial = t0 ++ [g1].
Proof.
  intros p flo fhi t a b c ds trial ds' Hp H. unfold de_crossover in H.
  destruct (next_real flo fhi ds) as [[rf ds1]|]; [|discriminate].
  destruct (de_cross_genome p rf (de_genome t) (de_genome a) (de_genome b) (de_genome c) ds1) as [[g ds2]|] eqn:E;
    [|discriminate].
  injection H as <- <-. cbn [de_genome]. eapply de_cross_genome_p0; eassumption.
Qed.
Print Assumptions C17_de_p0_only_last_changes.

(* ---- the other public members (operator[] read / write, size, ==, inc_age, i_de::operator=(vector)).
   A write stores what the caller passes; staying inside the interval is the caller's duty: *)
Theorem C17_ga_write_spec : forall x i v y, ga_set x i v = Some y ->
  length (ga_genome y) = length (ga_genome x) /\ ga_get y i = Some v /\
  (forall k, k <> i -> ga_get y k = ga_get x k) /\ ga_age y = ga_age x /\ (i < length (ga_genome x))%nat.
Proof. exact ga_set_spec. Qed.
Print Assumptions C17_ga_write_spec.

Theorem C17_ga_write_in_range_if_value_in_range : forall ranges x i v y lo hi,
  in_range ranges (ga_genome x) -> ga_set x i v = Some y ->
  nth_error ranges i = Some (lo, hi) -> lo <= v < hi -> in_range ranges (ga_genome y).
Proof. exact ga_set_in_range. Qed.
Print Assumptions C17_ga_write_in_range_if_value_in_range.

Theorem C17_de_assign_spec : forall x v y, de_assign x v = Some y ->
  de_genome y = v /\ de_age y = de_age x /\ length v = length (de_genome x).
Proof. exact de_assign_spec. Qed.
Print Assumptions C17_de_assign_spec.

(* ---- non-vacuity: accepted streams exist for non-trivial inputs *)
Example C17_ga_create_met : forall rest,
  ga_create [(-5, 3); (0, 1); (2147483646, 2147483647)] (ga_stream [(-5, 3); (0, 1); (2147483646, 2147483647)] [2; 0; 2147483646] ++ rest)
  = Some (mk_iga [2; 0; 2147483646] 0, rest).
Proof. intro. reflexivity. Qed.
Example C17_ga_create_accepts_all : forall ranges vs rest, in_range ranges vs ->
  ga_create_genome ranges (ga_stream ranges vs ++ rest) = Some (vs, rest).
Proof. exact ga_create_genome_accepts. Qed.
Example C17_ga_crossover_met :
  ga_crossover (mk_iga [1; 2; 3; 4] 7) (mk_iga [10; 20; 30; 40] 9) [DInt 0 3 1; DInt 2 4 3]
  = Some (mk_iga [10; 2; 3; 40] 9, []).
Proof. reflexivity. Qed.
Example C17_ga_reachable_met :
  ga_reachable [(0, 10); (0, 10); (-3, 3)] (mk_iga [5; 2; 0] 0).
Proof.
  eapply gr_cross with (l := mk_iga [1; 2; -3] 0) (r := mk_iga [5; 6; 0] 0) (ds := [DInt 0 2 1; DInt 2 3 2]).
  - eapply gr_create with (ds := ga_stream [(0, 10); (0, 10); (-3, 3)] [1; 2; -3]). reflexivity.
  - eapply gr_create with (ds := ga_stream [(0, 10); (0, 10); (-3, 3)] [5; 6; 0]). reflexivity.
  - reflexivity.
Qed.
(* an explicit write can leave the interval: nothing in operator[] checks it (the caller's duty) *)
Example C17_ga_set_can_leave_range :
  ga_set (mk_iga [3; 4] 0) 1 99 = Some (mk_iga [3; 99] 0) /\ in_range_b [(0, 10); (0, 10)] [3; 99] = false /\
  ga_set (mk_iga [3; 4] 0) 2 1 = None.
Proof. repeat split. Qed.
(* the upper end is open: the value hi itself is not an accepted draw *)
Example C17_ga_open_end : ga_create [(0, 1)] [DInt 0 100 5; DInt 0 1 1] = None.
Proof. reflexivity. Qed.
(* chromosomes shorter than 2 cannot be crossed (the first request would be empty) *)
Example C17_ga_crossover_needs_two : forall ds, ga_crossover (mk_iga [1] 0) (mk_iga [2] 0) ds = None.
Proof. reflexivity. Qed.
Example C17_ga_mutation_met :
  ga_mutation (F64.of_bits 4602678819172646912) [(0, 10); (0, 10)] (mk_iga [3; 4] 2)
    [DBool (F64.of_bits 4602678819172646912) true; DInt 0 100 99; DInt 0 10 9; DBool (F64.of_bits 4602678819172646912) false]
  = Some (mk_iga [9; 4] 2, 1, []).
Proof. vm_compute. reflexivity. Qed.
(* doubles are shown by their bit patterns: 0.5 = 0x3FE0..., 1 = 0x3FF0..., 2 = 0x4000..., 1.5 = 0x3FF8... ;
   target (1,1) age 1, a (2,2) age 5, b (1,1) age 0, c (2,1) age 3, F = 0.5, the bit says "keep the target" *)
Example C17_de_crossover_met :
  let one := F64.of_Z 1 in let two := F64.of_Z 2 in let half := F64.of_bits 4602678819172646912 in
  option_map (fun r => (map F64.to_bits (de_genome (fst r)), de_age (fst r), length (snd r)))
    (de_crossover half half one (mk_ide [one; one] 1) (mk_ide [two; two] 5) (mk_ide [one; one] 0) (mk_ide [two; one] 3)
       [DReal half one half; DBool half false])
  = Some ([4607182418800017408; 4609434218613702656], 5, 0%nat).
Proof. vm_compute. reflexivity. Qed.
(* the operands need not be distinct (recombination::de draws a and b independently): with a = b the difference
   vector is zero and the last position is the base's value, F and the per-position booleans are still drawn.
   target (1,1), a = b = (2,2), c = (2,1), F = 0.5, bit true: trial = (2 + 0.5*0, 1 + 0.5*0) = (2,1) *)
Example C17_de_crossover_aliased_met :
  let one := F64.of_Z 1 in let two := F64.of_Z 2 in let half := F64.of_bits 4602678819172646912 in
  option_map (fun r => (map F64.to_bits (de_genome (fst r)), de_age (fst r), length (snd r)))
    (de_crossover half half one (mk_ide [one; one] 1) (mk_ide [two; two] 5) (mk_ide [two; two] 5) (mk_ide [two; one] 3)
       [DReal half one half; DBool half true])
  = Some ([4611686018427387904; 4607182418800017408], 5, 0%nat).
Proof. vm_compute. reflexivity. Qed.
Example C17_de_create_met :
  let one := F64.of_Z 1 in let two := F64.of_Z 2 in
  option_map (fun r => (map F64.to_bits (de_genome (fst r)), de_age (fst r)))
    (de_create [(one, two)] [DInt 0 100 42; DReal one two two])
  = Some ([4611686018427387904], 0).
Proof. vm_compute. reflexivity. Qed.
