(* C09 -- findings and limits, as theorems.

   1. On the PINNED tree (variant [pinned_v]) the binding between generated variables
      and columns fails as soon as a column has no domain (a CSV column that is empty in
      the first records): to_example adds no input for it, setup_terminals still numbers
      the variables by column.  Replayed on the real code by checks/c09.py (ASan crash in
      src_interpreter::fetch_var on the pinned tree; fixed by
      "fix: setup_terminals numbers variables by input position ...").
   2. Header sniffing is a heuristic: the unrestricted form of family (a) of
      Properties_C09 is false already for the one-column file "Abc\n1e5\n1E5\n". *)
From Coq Require Import ZArith List Bool.
From VV Require Import Csv.CsvDefs Csv.TextProofs Csv.SniffProofs Csv.HeaderProofs.
Import ListNotations.
Local Open Scope Z_scope.

(* columns [double; void; double], record ["1"; ""; "2"]: the example has ONE input,
   the pinned setup_terminals gives the last column variable id 1 -> out of bounds;
   the repaired one gives id 0 and the variable reads the cell. *)
Theorem C09_variable_i_reads_column_i_pinned_refuted :
  live w_cols 2 = true /\ rank w_cols 2 = 0%nat /\
  exists ex df', to_example (fun _ => true) w_stod w_stod w_df w_row false = Ok (ex, df') /\
    e_input ex = [VDouble 50] /\
    (exists v1 v2, setup_terminals pinned_v w_cols false = Ok [v1; v2] /\ v_id v2 = 1%nat /\
                   run_variable v2 ex = OOB S_fetch_var) /\
    (exists v2, setup_terminals fixed_v w_cols false = Ok [v2] /\ run_variable v2 ex = Ok (VDouble 50)).
Proof. exact pinned_variable_reads_past_inputs. Qed.
Print Assumptions C09_variable_i_reads_column_i_pinned_refuted.

Theorem C09_has_header_named_numeric_refuted :
  ~ (forall is_number text lines delim header first rows,
       (exists tlk, records {| delimiter := delim; trim_ws := false; has_header := HAS_HEADER; quoting := KEEP_QUOTES |}
                            no_filter text = header :: tlk) ->
       records {| delimiter := delim; trim_ws := false; has_header := HAS_HEADER; quoting := REMOVE_QUOTES |}
               no_filter text = first :: rows ->
       header <> [] ->
       Forall (fun h => is_number h = false /\ h <> []) header ->
       rows <> [] ->
       Forall (fun row => length row = length header /\
                          Forall (fun cell => blank cell = false /\ is_number (trim cell) = true) row) rows ->
       sniff_has_header is_number text lines delim = Ok HAS_HEADER).
Proof. exact has_header_family_named_numeric_original_false. Qed.
Print Assumptions C09_has_header_named_numeric_refuted.

(* 3. Where header sniffing MUST fail -- universally quantified families (HeaderProofs),
      the exact complement of the agreement theorems of Properties_C09:
      (i)   a real header over columns that are all variable-width text: no column votes,
            the answer is NO_HEADER;
      (ii)  a real header whose names happen to have the width of their fixed-width text
            columns: every column votes against, NO_HEADER;
      (iii) NO header, but the first row is capitalized text over lower-case cells: every
            column votes for, HAS_HEADER (the first data row is lost);
      (iv)  the same as soon as the capitalized columns outnumber the columns that could
            vote against. *)
Theorem C09_has_header_variable_text_refuted :
  forall is_number text lines delim header rows,
  sniff_input delim text header rows ->
  columns_all (cls_variable_text is_number) header (looked (length header) lines rows) ->
  sniff_has_header is_number text lines delim = Ok NO_HEADER.
Proof. exact has_header_must_fail_variable_text. Qed.
Print Assumptions C09_has_header_variable_text_refuted.

Theorem C09_has_header_same_width_names_refuted :
  forall is_number text lines delim header rows,
  sniff_input delim text header rows ->
  columns_all (fun h cells => cls_fixed_text is_number (length h) h cells) header (looked (length header) lines rows) ->
  sniff_has_header is_number text lines delim = Ok NO_HEADER.
Proof. exact has_header_must_fail_same_width_names. Qed.
Print Assumptions C09_has_header_same_width_names_refuted.

Theorem C09_has_header_capitalized_first_row_refuted :
  forall is_number text lines delim header rows,
  sniff_input delim text header rows -> header <> [] ->
  columns_all cls_cap_lower header (looked (length header) lines rows) ->
  sniff_has_header is_number text lines delim = Ok HAS_HEADER.
Proof. exact has_header_must_fail_capitalized_first_row. Qed.
Print Assumptions C09_has_header_capitalized_first_row_refuted.

Theorem C09_has_header_capitalized_outvote_refuted :
  forall is_number text lines delim header rows (cap any : nat -> bool),
  sniff_input delim text header rows ->
  (forall j, (j < length header)%nat -> cap j = true ->
     cls_cap_lower (nth j header []) (data_cells j (looked (length header) lines rows))) ->
  (forall j, (j < length header)%nat -> cap j = false -> any j = false ->
     cls_variable_text is_number (nth j header []) (data_cells j (looked (length header) lines rows))) ->
  (length (filter any (seq 0 (length header))) < length (filter cap (seq 0 (length header))))%nat ->
  sniff_has_header is_number text lines delim = Ok HAS_HEADER.
Proof. exact has_header_must_fail_capitalized_outvote. Qed.
Print Assumptions C09_has_header_capitalized_outvote_refuted.

(* concrete members of (i) and (iii): "name,city\nalice,rome\nbob,paris\n" is sniffed
   NO_HEADER, "Rome,Lazio\nmilan,lombardy\nturin,piedmont\n" HAS_HEADER *)
Example C09_has_header_refuted_witnesses := (ex_text_header_missed, ex_cap_first_row_invented).
