(* C09 -- findings and limits, as theorems.

   1. On the PINNED tree (variant [pinned_v]) the binding between generated variables
      and columns fails as soon as a column has no domain (a CSV column that is empty in
      the first records): to_example adds no input for it, setup_terminals still numbers
      the variables by column.  Replayed on the real code by checks/c09.py (ASan crash in
      src_interpreter::fetch_var on the pinned tree; fixed by
      "fix: setup_terminals numbers variables by input position ...").
   2. Header sniffing is a heuristic: the unrestricted form of family (a) of
      Properties_C09 is false already for the one-column file "Abc\n1e5\n1E5\n". *)
From Coq Require Import ZArith List Bool.
From VV Require Import Csv.CsvDefs Csv.TextProofs Csv.SniffProofs.
Import ListNotations.
Local Open Scope Z_scope.

(* columns [double; void; double], record ["1"; ""; "2"]: the example has ONE input,
   the pinned setup_terminals gives the last column variable id 1 -> out of bounds;
   the repaired one gives id 0 and the variable reads the cell. *)
Theorem C09_variable_i_reads_column_i_pinned_refuted :
  live w_cols 2 = true /\ rank w_cols 2 = 0%nat /\
  exists ex df', to_example (fun _ => true) w_stod w_stod w_df w_row false = Ok (ex, df') /\
    e_input ex = [VDouble 50] /\
    (exists v1 v2, setup_terminals pinned_v w_cols false = Ok [v1; v2] /\ v_id v2 = 1%nat /\
                   run_variable v2 ex = OOB S_fetch_var) /\
    (exists v2, setup_terminals fixed_v w_cols false = Ok [v2] /\ run_variable v2 ex = Ok (VDouble 50)).
Proof. exact pinned_variable_reads_past_inputs. Qed.
Print Assumptions C09_variable_i_reads_column_i_pinned_refuted.

Theorem C09_has_header_named_numeric_refuted :
  ~ (forall is_number text lines delim header first rows,
       (exists tlk, records {| delimiter := delim; trim_ws := false; has_header := HAS_HEADER; quoting := KEEP_QUOTES |}
                            no_filter text = header :: tlk) ->
       records {| delimiter := delim; trim_ws := false; has_header := HAS_HEADER; quoting := REMOVE_QUOTES |}
               no_filter text = first :: rows ->
       header <> [] ->
       Forall (fun h => is_number h = false /\ h <> []) header ->
       rows <> [] ->
       Forall (fun row => length row = length header /\
                          Forall (fun cell => blank cell = false /\ is_number (trim cell) = true) row) rows ->
       sniff_has_header is_number text lines delim = Ok HAS_HEADER).
Proof. exact has_header_family_named_numeric_original_false. Qed.
Print Assumptions C09_has_header_named_numeric_refuted.
