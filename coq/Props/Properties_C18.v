(* C18 -- Fitness comparison is a coherent order; dominance is a strict partial
   order.

   The model (Fitness/FitnessDefs.v) mirrors src/kernel/fitness.tcc function by
   function: [lt_lex] = operator< (std::lexicographical_compare with < on
   double), [eq_vec] = operator== (std::equal, four iterators), [gt ge le ne] as
   the code derives them, [dominating], the element-wise arithmetic, [combine_fit],
   [distance], [vabs], [vsqrt], [round_to], and [mm_ge] =
   model_measurements::operator>=.  Components are binary64 values (Flocq);
   [nonan_vec a] says that no component of [a] is a NaN ([vis_nan a = false], the
   model of vita::isnan(f)).  Vectors have ANY length unless a hypothesis says
   otherwise; the infinities, both zeros and the denormals are included.
   Nothing but statements lives in this file. *)
From Coq Require Import ZArith List Bool Permutation.
From VV Require Import Base.F64 Fitness.F64Order Fitness.FitnessDefs Fitness.FitnessProofs.
Import ListNotations.

(* ---- the comparison of doubles is the comparison of integer keys *)
Theorem C18_double_order_embeds_in_Z : forall x y, nonan x -> nonan y ->
  F64.cmp x y = Some (key x ?= key y)%Z.
Proof. exact cmp_key. Qed.
Print Assumptions C18_double_order_embeds_in_Z.

Theorem C18_nonan_is_not_isnan : forall a, nonan_vec a <-> vis_nan a = false.
Proof. exact nonan_vec_iff. Qed.
Print Assumptions C18_nonan_is_not_isnan.

(* ---- operator< is the lexicographic order *)
Theorem C18_lt_is_lexicographic : forall a b, nonan_vec a -> nonan_vec b ->
  (lt_lex a b = true <-> lex_less a b).
Proof. exact lt_lex_spec. Qed.
Print Assumptions C18_lt_is_lexicographic.

Theorem C18_prefix_is_less : forall a b, nonan_vec a -> nonan_vec b -> b <> [] ->
  lt_lex a (a ++ b) = true.
Proof. exact prefix_is_less. Qed.
Print Assumptions C18_prefix_is_less.

(* ---- exactly one of a<b, a==b, a>b *)
Theorem C18_trichotomy : forall a b, nonan_vec a -> nonan_vec b ->
  (lt_lex a b = true /\ eq_vec a b = false /\ gt a b = false) \/
  (lt_lex a b = false /\ eq_vec a b = true /\ gt a b = false) \/
  (lt_lex a b = false /\ eq_vec a b = false /\ gt a b = true).
Proof. exact trichotomy. Qed.
Print Assumptions C18_trichotomy.

(* ---- the six operators are mutually consistent *)
Theorem C18_ge_is_not_lt : forall a b, ge a b = negb (lt_lex a b).
Proof. exact ge_is_not_lt. Qed.
Print Assumptions C18_ge_is_not_lt.

Theorem C18_le_is_not_gt : forall a b, le a b = negb (gt a b).
Proof. exact le_is_not_gt. Qed.
Print Assumptions C18_le_is_not_gt.

Theorem C18_gt_is_flip_lt : forall a b, gt a b = lt_lex b a.
Proof. exact gt_is_flip_lt. Qed.
Print Assumptions C18_gt_is_flip_lt.

Theorem C18_ne_is_not_eq : forall a b, ne a b = negb (eq_vec a b).
Proof. exact ne_is_not_eq. Qed.
Print Assumptions C18_ne_is_not_eq.

Theorem C18_ge_is_gt_or_eq : forall a b, nonan_vec a -> nonan_vec b ->
  ge a b = gt a b || eq_vec a b.
Proof. exact ge_iff_gt_or_eq. Qed.
Print Assumptions C18_ge_is_gt_or_eq.

Theorem C18_le_is_lt_or_eq : forall a b, nonan_vec a -> nonan_vec b ->
  le a b = lt_lex a b || eq_vec a b.
Proof. exact le_iff_lt_or_eq. Qed.
Print Assumptions C18_le_is_lt_or_eq.

(* ---- strict order; == is an equivalence compatible with it *)
Theorem C18_lt_irrefl : forall a, nonan_vec a -> lt_lex a a = false.
Proof. exact lt_irrefl. Qed.
Print Assumptions C18_lt_irrefl.

Theorem C18_lt_trans : forall a b c, nonan_vec a -> nonan_vec b -> nonan_vec c ->
  lt_lex a b = true -> lt_lex b c = true -> lt_lex a c = true.
Proof. exact lt_trans. Qed.
Print Assumptions C18_lt_trans.

Theorem C18_eq_equivalence : forall a b c, nonan_vec a -> nonan_vec b -> nonan_vec c ->
  eq_vec a a = true /\ eq_vec a b = eq_vec b a /\
  (eq_vec a b = true -> eq_vec b c = true -> eq_vec a c = true).
Proof.
  intros a b c Ha Hb Hc.
  exact (conj (eq_refl_vec a Ha) (conj (eq_sym_vec a b Ha Hb) (eq_trans_vec a b c Ha Hb Hc))).
Qed.
Print Assumptions C18_eq_equivalence.

Theorem C18_lt_respects_eq : forall a a' b b',
  nonan_vec a -> nonan_vec a' -> nonan_vec b -> nonan_vec b' ->
  eq_vec a a' = true -> eq_vec b b' = true -> lt_lex a b = lt_lex a' b'.
Proof. exact lt_compat_eq. Qed.
Print Assumptions C18_lt_respects_eq.

(* ---- better-than is transitive, so is better-or-equal *)
Theorem C18_better_transitive : forall a b c, nonan_vec a -> nonan_vec b -> nonan_vec c ->
  gt a b = true -> gt b c = true -> gt a c = true.
Proof. exact better_transitive. Qed.
Print Assumptions C18_better_transitive.

Theorem C18_ge_transitive : forall a b c, nonan_vec a -> nonan_vec b -> nonan_vec c ->
  ge a b = true -> ge b c = true -> ge a c = true.
Proof. exact ge_transitive. Qed.
Print Assumptions C18_ge_transitive.

(* ---- the winner of a selection does not depend on the order of comparison:
   "keep the better" folded over any two arrangements of the same fitness
   values yields ==-equal winners, and the winner is >= every candidate *)
Theorem C18_max_independent_of_order : forall l l', Forall nonan_vec l -> Permutation l l' ->
  match best_of l, best_of l' with
  | Some m, Some m' => eq_vec m m' = true
  | None, None => True
  | _, _ => False
  end.
Proof. exact max_independent_of_order. Qed.
Print Assumptions C18_max_independent_of_order.

Theorem C18_winner_is_maximum : forall l m, Forall nonan_vec l -> best_of l = Some m ->
  nonan_vec m /\ In m l /\ forall y, In y l -> ge m y = true.
Proof. exact best_of_is_max. Qed.
Print Assumptions C18_winner_is_maximum.

(* ---- Pareto dominance.  [in_family n a]: a is the empty fitness or has n components *)
Theorem C18_dom_is_pareto : forall a b, nonan_vec a -> nonan_vec b -> length a = length b ->
  dominating a b = forallb (fun p => F64.geb (fst p) (snd p)) (combine a b) &&
                   existsb (fun p => F64.gtb (fst p) (snd p)) (combine a b).
Proof. exact dom_spec. Qed.
Print Assumptions C18_dom_is_pareto.

Theorem C18_dom_irrefl : forall a, nonan_vec a -> dominating a a = false.
Proof. exact dom_irrefl. Qed.
Print Assumptions C18_dom_irrefl.

(* any two lengths *)
Theorem C18_dom_asym : forall a b, nonan_vec a -> nonan_vec b ->
  dominating a b = true -> dominating b a = false.
Proof. exact dom_asym. Qed.
Print Assumptions C18_dom_asym.

Theorem C18_dom_trans : forall n a b c, in_family n a -> in_family n b -> in_family n c ->
  nonan_vec a -> nonan_vec b -> nonan_vec c ->
  dominating a b = true -> dominating b c = true -> dominating a c = true.
Proof. exact dom_trans. Qed.
Print Assumptions C18_dom_trans.

Theorem C18_nonempty_dominates_empty : forall a, a <> [] ->
  dominating a [] = true /\ dominating [] a = false.
Proof. intros a H. exact (conj (nonempty_dominates_empty a H) (empty_dominates_nothing a)). Qed.
Print Assumptions C18_nonempty_dominates_empty.

(* any two lengths *)
Theorem C18_dom_implies_gt : forall a b, nonan_vec a -> nonan_vec b ->
  dominating a b = true -> gt a b = true.
Proof. exact dom_implies_gt. Qed.
Print Assumptions C18_dom_implies_gt.
