(* C18 -- Fitness comparison is a coherent order; dominance is a strict partial
   order.

   The model (Fitness/FitnessDefs.v) mirrors src/kernel/fitness.tcc function by
   function: [lt_lex] = operator< (std::lexicographical_compare with < on
   double), [eq_vec] = operator== (std::equal, four iterators), [gt ge le ne] as
   the code derives them, [dominating], the element-wise arithmetic, [combine_fit],
   [distance], [vabs], [vsqrt], [round_to], and [mm_ge] =
   model_measurements::operator>=.  Components are binary64 values (Flocq);
   [nonan_vec a] says that no component of [a] is a NaN ([vis_nan a = false], the
   model of vita::isnan(f)).  Vectors have ANY length unless a hypothesis says
   otherwise; the infinities, both zeros and the denormals are included.
   Nothing but statements lives in this file. *)
From Coq Require Import ZArith List Bool Permutation.
From VV Require Import Base.F64 Fitness.F64Order Fitness.FitnessDefs Fitness.FitnessProofs.
From VV Require Import Fitness.FitnessSrc Gen.FitnessOps Fitness.FitnessSrcProofs Fitness.UtilityProofs.
Import ListNotations.

(* ---- TIE BY REGENERATION.  Gen/FitnessOps.v is rewritten from fitness.tcc and
   model_measurements.h on every run: [op_defs] says how the source derives each
   relational operator (std algorithm + comparator, or another operator with
   which argument order under which negation), [dominating_def] the flag, bound
   and per-component statement of dominating(), [mm_ge_def] the conjunction in
   model_measurements::operator>=.  [src_rel], [src_dominating], [src_mm_ge]
   evaluate these descriptions (Fitness/FitnessSrc.v).  They coincide with the
   model functions on ALL arguments, so every theorem below is about the
   operators as the source defines them now. *)
Theorem C18_source_definitions_are_the_model : forall a b l r,
  src_rel OpLt a b = Some (lt_lex a b) /\ src_rel OpEq a b = Some (eq_vec a b) /\
  src_rel OpGt a b = Some (gt a b) /\ src_rel OpGe a b = Some (ge a b) /\
  src_rel OpLe a b = Some (le a b) /\ src_rel OpNe a b = Some (ne a b) /\
  src_dominating a b = Some (dominating a b) /\ src_mm_ge l r = Some (mm_ge l r).
Proof. exact source_definitions_are_the_model. Qed.
Print Assumptions C18_source_definitions_are_the_model.

(* the same for the arithmetic: [plus_def] ... [round_to_scalar_def] say which
   loop (index loop with both subscripts under Expects, range-for, inner_product,
   insertions at the end) applies which per-element expression over
   {element of lhs, element of rhs, scalar, constants, + - * /, abs sqrt round
   round_to}; regenerated from fitness.tcc and utility.h on every run *)
Theorem C18_source_arithmetic_is_the_model : forall a b f v e x,
  src_plus a b = plus a b /\ src_minus a b = minus a b /\ src_times a b = times a b /\
  src_div_scalar f v = Some (div_scalar f v) /\ src_mul_scalar f v = Some (mul_scalar f v) /\
  src_abs f = Some (vabs f) /\ src_sqrt f = Some (vsqrt f) /\ src_round_to f = Some (round_to f) /\
  src_round_to_scalar x = round_to_scalar x /\
  src_distance a b = distance a b /\ src_combine a b = Some (combine_fit a b) /\
  src_isfinite f = vis_finite f /\ src_isnan f = vis_nan f /\
  src_issmall f = vissmall f /\ src_isnonnegative f = visnonnegative f /\
  src_almost_equal a b e = valmost_equal a b e.
Proof. exact source_arithmetic_is_the_model. Qed.
Print Assumptions C18_source_arithmetic_is_the_model.

Theorem C18_source_trichotomy : forall a b, nonan_vec a -> nonan_vec b ->
  exists l e g, src_rel OpLt a b = Some l /\ src_rel OpEq a b = Some e /\ src_rel OpGt a b = Some g /\
    ((l = true /\ e = false /\ g = false) \/ (l = false /\ e = true /\ g = false) \/
     (l = false /\ e = false /\ g = true)).
Proof. exact source_trichotomy. Qed.
Print Assumptions C18_source_trichotomy.

(* ---- the comparison of doubles is the comparison of integer keys *)
Theorem C18_double_order_embeds_in_Z : forall x y, nonan x -> nonan y ->
  F64.cmp x y = Some (key x ?= key y)%Z.
Proof. exact cmp_key. Qed.
Print Assumptions C18_double_order_embeds_in_Z.

Theorem C18_nonan_is_not_isnan : forall a, nonan_vec a <-> vis_nan a = false.
Proof. exact nonan_vec_iff. Qed.
Print Assumptions C18_nonan_is_not_isnan.

(* ---- operator< is the lexicographic order *)
Theorem C18_lt_is_lexicographic : forall a b, nonan_vec a -> nonan_vec b ->
  (lt_lex a b = true <-> lex_less a b).
Proof. exact lt_lex_spec. Qed.
Print Assumptions C18_lt_is_lexicographic.

Theorem C18_prefix_is_less : forall a b, nonan_vec a -> nonan_vec b -> b <> [] ->
  lt_lex a (a ++ b) = true.
Proof. exact prefix_is_less. Qed.
Print Assumptions C18_prefix_is_less.

(* ---- exactly one of a<b, a==b, a>b *)
Theorem C18_trichotomy : forall a b, nonan_vec a -> nonan_vec b ->
  (lt_lex a b = true /\ eq_vec a b = false /\ gt a b = false) \/
  (lt_lex a b = false /\ eq_vec a b = true /\ gt a b = false) \/
  (lt_lex a b = false /\ eq_vec a b = false /\ gt a b = true).
Proof. exact trichotomy. Qed.
Print Assumptions C18_trichotomy.

(* ---- the six operators are mutually consistent *)
Theorem C18_ge_is_not_lt : forall a b, ge a b = negb (lt_lex a b).
Proof. exact ge_is_not_lt. Qed.
Print Assumptions C18_ge_is_not_lt.

Theorem C18_le_is_not_gt : forall a b, le a b = negb (gt a b).
Proof. exact le_is_not_gt. Qed.
Print Assumptions C18_le_is_not_gt.

Theorem C18_gt_is_flip_lt : forall a b, gt a b = lt_lex b a.
Proof. exact gt_is_flip_lt. Qed.
Print Assumptions C18_gt_is_flip_lt.

Theorem C18_ne_is_not_eq : forall a b, ne a b = negb (eq_vec a b).
Proof. exact ne_is_not_eq. Qed.
Print Assumptions C18_ne_is_not_eq.

Theorem C18_ge_is_gt_or_eq : forall a b, nonan_vec a -> nonan_vec b ->
  ge a b = gt a b || eq_vec a b.
Proof. exact ge_iff_gt_or_eq. Qed.
Print Assumptions C18_ge_is_gt_or_eq.

Theorem C18_le_is_lt_or_eq : forall a b, nonan_vec a -> nonan_vec b ->
  le a b = lt_lex a b || eq_vec a b.
Proof. exact le_iff_lt_or_eq. Qed.
Print Assumptions C18_le_is_lt_or_eq.

(* ---- strict order; == is an equivalence compatible with it *)
Theorem C18_lt_irrefl : forall a, nonan_vec a -> lt_lex a a = false.
Proof. exact lt_irrefl. Qed.
Print Assumptions C18_lt_irrefl.

Theorem C18_lt_trans : forall a b c, nonan_vec a -> nonan_vec b -> nonan_vec c ->
  lt_lex a b = true -> lt_lex b c = true -> lt_lex a c = true.
Proof. exact lt_trans. Qed.
Print Assumptions C18_lt_trans.

Theorem C18_eq_equivalence : forall a b c, nonan_vec a -> nonan_vec b -> nonan_vec c ->
  eq_vec a a = true /\ eq_vec a b = eq_vec b a /\
  (eq_vec a b = true -> eq_vec b c = true -> eq_vec a c = true).
Proof.
  intros a b c Ha Hb Hc.
  exact (conj (eq_refl_vec a Ha) (conj (eq_sym_vec a b Ha Hb) (eq_trans_vec a b c Ha Hb Hc))).
Qed.
Print Assumptions C18_eq_equivalence.

Theorem C18_lt_respects_eq : forall a a' b b',
  nonan_vec a -> nonan_vec a' -> nonan_vec b -> nonan_vec b' ->
  eq_vec a a' = true -> eq_vec b b' = true -> lt_lex a b = lt_lex a' b'.
Proof. exact lt_compat_eq. Qed.
Print Assumptions C18_lt_respects_eq.

(* ---- better-than is transitive, so is better-or-equal *)
Theorem C18_better_transitive : forall a b c, nonan_vec a -> nonan_vec b -> nonan_vec c ->
  gt a b = true -> gt b c = true -> gt a c = true.
Proof. exact better_transitive. Qed.
Print Assumptions C18_better_transitive.

Theorem C18_ge_transitive : forall a b c, nonan_vec a -> nonan_vec b -> nonan_vec c ->
  ge a b = true -> ge b c = true -> ge a c = true.
Proof. exact ge_transitive. Qed.
Print Assumptions C18_ge_transitive.

(* ---- the winner of a selection does not depend on the order of comparison:
   "keep the better" folded over any two arrangements of the same fitness
   values yields ==-equal winners, and the winner is >= every candidate *)
Theorem C18_max_independent_of_order : forall l l', Forall nonan_vec l -> Permutation l l' ->
  match best_of l, best_of l' with
  | Some m, Some m' => eq_vec m m' = true
  | None, None => True
  | _, _ => False
  end.
Proof. exact max_independent_of_order. Qed.
Print Assumptions C18_max_independent_of_order.

Theorem C18_winner_is_maximum : forall l m, Forall nonan_vec l -> best_of l = Some m ->
  nonan_vec m /\ In m l /\ forall y, In y l -> ge m y = true.
Proof. exact best_of_is_max. Qed.
Print Assumptions C18_winner_is_maximum.

(* ---- Pareto dominance.  [in_family n a]: a is the empty fitness or has n components *)
Theorem C18_dom_is_pareto : forall a b, nonan_vec a -> nonan_vec b -> length a = length b ->
  dominating a b = forallb (fun p => F64.geb (fst p) (snd p)) (combine a b) &&
                   existsb (fun p => F64.gtb (fst p) (snd p)) (combine a b).
Proof. exact dom_spec. Qed.
Print Assumptions C18_dom_is_pareto.

Theorem C18_dom_irrefl : forall a, nonan_vec a -> dominating a a = false.
Proof. exact dom_irrefl. Qed.
Print Assumptions C18_dom_irrefl.

(* any two lengths *)
Theorem C18_dom_asym : forall a b, nonan_vec a -> nonan_vec b ->
  dominating a b = true -> dominating b a = false.
Proof. exact dom_asym. Qed.
Print Assumptions C18_dom_asym.

Theorem C18_dom_trans : forall n a b c, in_family n a -> in_family n b -> in_family n c ->
  nonan_vec a -> nonan_vec b -> nonan_vec c ->
  dominating a b = true -> dominating b c = true -> dominating a c = true.
Proof. exact dom_trans. Qed.
Print Assumptions C18_dom_trans.

Theorem C18_nonempty_dominates_empty : forall a, a <> [] ->
  dominating a [] = true /\ dominating [] a = false.
Proof. intros a H. exact (conj (nonempty_dominates_empty a H) (empty_dominates_nothing a)). Qed.
Print Assumptions C18_nonempty_dominates_empty.

(* any two lengths *)
Theorem C18_dom_implies_gt : forall a b, nonan_vec a -> nonan_vec b ->
  dominating a b = true -> gt a b = true.
Proof. exact dom_implies_gt. Qed.
Print Assumptions C18_dom_implies_gt.

(* ---- model_measurements::operator>= (dominating && accuracy >=): despite its
   name it is a STRICT partial order on each family (irreflexive) *)
Theorem C18_mm_ge_strict_partial_order : forall n a b c,
  in_family n (m_fitness a) -> in_family n (m_fitness b) -> in_family n (m_fitness c) ->
  nonan_vec (m_fitness a) -> nonan_vec (m_fitness b) -> nonan_vec (m_fitness c) ->
  nonan (m_accuracy a) -> nonan (m_accuracy b) -> nonan (m_accuracy c) ->
  mm_ge a a = false /\
  (mm_ge a b = true -> mm_ge b a = false) /\
  (mm_ge a b = true -> mm_ge b c = true -> mm_ge a c = true).
Proof.
  intros n a b c Fa Fb Fc Ha Hb Hc Na Nb Nc.
  exact (conj (mm_ge_irrefl a Ha) (conj (mm_ge_asym a b Ha Hb)
        (mm_ge_trans n a b c Fa Fb Fc Ha Hb Hc Na Nb Nc))).
Qed.
Print Assumptions C18_mm_ge_strict_partial_order.

(* ---- element-wise arithmetic, joining, distance, rounding agree with their
   scalar definitions.  [zip_with op a b] is [op a_i b_i] for each index of the
   shorter vector.  operator+=, -=, *= run over the indices of the left operand and
   read f[i] behind Expects(i < size()): defined iff the right operand is at
   least as long. *)
Theorem C18_elementwise_plus : forall a b,
  (length a <= length b -> plus a b = Some (zip_with F64.add a b))%nat /\
  (length b < length a -> plus a b = None)%nat.
Proof. intros a b. exact (conj (compound_elementwise F64.add a b) (compound_contract F64.add a b)). Qed.
Print Assumptions C18_elementwise_plus.

Theorem C18_elementwise_minus : forall a b,
  (length a <= length b -> minus a b = Some (zip_with F64.sub a b))%nat /\
  (length b < length a -> minus a b = None)%nat.
Proof. intros a b. exact (conj (compound_elementwise F64.sub a b) (compound_contract F64.sub a b)). Qed.
Print Assumptions C18_elementwise_minus.

Theorem C18_elementwise_times : forall a b,
  (length a <= length b -> times a b = Some (zip_with F64.mul a b))%nat /\
  (length b < length a -> times a b = None)%nat.
Proof. intros a b. exact (conj (compound_elementwise F64.mul a b) (compound_contract F64.mul a b)). Qed.
Print Assumptions C18_elementwise_times.

Theorem C18_zip_with_pointwise : forall op a b,
  (length a <= length b -> length (zip_with op a b) = length a)%nat /\
  (forall i x y, nth_error a i = Some x -> nth_error b i = Some y ->
                 nth_error (zip_with op a b) i = Some (op x y)).
Proof. intros op a b. exact (conj (zip_with_length op a b) (zip_with_nth op a b)). Qed.
Print Assumptions C18_zip_with_pointwise.

Theorem C18_elementwise_unary : forall f v i,
  nth_error (div_scalar f v) i = option_map (fun x => F64.div x v) (nth_error f i) /\
  nth_error (mul_scalar f v) i = option_map (fun x => F64.mul x v) (nth_error f i) /\
  nth_error (vabs f) i = option_map F64.abs (nth_error f i) /\
  nth_error (vsqrt f) i = option_map F64.sqrt (nth_error f i).
Proof.
  intros f v i.
  exact (conj (map_nth_pointwise _ f i) (conj (map_nth_pointwise _ f i)
        (conj (map_nth_pointwise _ f i) (map_nth_pointwise _ f i)))).
Qed.
Print Assumptions C18_elementwise_unary.

Theorem C18_round_to_pointwise : forall f i,
  nth_error (round_to f) i =
  option_map (fun x => F64.mul (F64.round_half_away (F64.div x float_epsilon)) float_epsilon) (nth_error f i).
Proof. intros f i. exact (map_nth_pointwise _ f i). Qed.
Print Assumptions C18_round_to_pointwise.

Theorem C18_combine_app : forall a b, combine_fit a b = a ++ b.
Proof. exact combine_app. Qed.
Print Assumptions C18_combine_app.

(* the order of joined fitnesses is decided by the first parts unless they are equal *)
Theorem C18_combine_lexicographic : forall a b c d,
  nonan_vec a -> nonan_vec b -> nonan_vec c -> nonan_vec d -> length a = length b ->
  lt_lex (combine_fit a c) (combine_fit b d) =
  if lt_lex a b then true else if lt_lex b a then false else lt_lex c d.
Proof. exact combine_lex. Qed.
Print Assumptions C18_combine_lexicographic.

Theorem C18_distance_is_sum_abs : forall a b,
  (length a = length b ->
   distance a b = Some (fold_left F64.add (zip_with (fun x y => F64.abs (F64.sub x y)) a b) F64.zero)) /\
  (length a <> length b -> distance a b = None).
Proof. intros a b. exact (conj (distance_is_sum_abs a b) (distance_contract a b)). Qed.
Print Assumptions C18_distance_is_sum_abs.

(* ---- what survives WITH NaN components (no hypothesis at all): the strict
   parts.  What is lost is in Props/Refuted_C18.v. *)
Theorem C18_lt_irrefl_asym_any : forall a b,
  lt_lex a a = false /\ (lt_lex a b = true -> lt_lex b a = false).
Proof. intros a b. exact (conj (lt_irrefl_any a) (lt_asym_any a b)). Qed.
Print Assumptions C18_lt_irrefl_asym_any.

Theorem C18_dom_irrefl_asym_any : forall a b,
  dominating a a = false /\ (dominating a b = true -> dominating b a = false) /\
  (dominating a b = true -> gt a b = true).
Proof. intros a b. exact (conj (dom_irrefl_any a) (conj (dom_asym_any a b) (dom_implies_gt_any a b))). Qed.
Print Assumptions C18_dom_irrefl_asym_any.

(* ---- utility.h: issmall, isnonnegative, almost_equal and their lifts *)
Theorem C18_almost_equal_reflexive_on_finite : forall x e,
  F64.is_finite x = true -> almost_equal x x e = true.
Proof. exact almost_equal_refl_finite. Qed.
Print Assumptions C18_almost_equal_reflexive_on_finite.

(* all doubles, NaN included *)
Theorem C18_almost_equal_symmetric : forall x y e, almost_equal x y e = almost_equal y x e.
Proof. exact almost_equal_sym. Qed.
Print Assumptions C18_almost_equal_symmetric.

Theorem C18_almost_equal_elementwise : forall a b e,
  (length a = length b ->
   valmost_equal a b e = Some (forallb (fun p => almost_equal (fst p) (snd p) e) (combine a b))) /\
  (length a <> length b -> valmost_equal a b e = None).
Proof. exact valmost_equal_spec. Qed.
Print Assumptions C18_almost_equal_elementwise.

Theorem C18_almost_equal_fitness_laws : forall a b e,
  (vis_finite a = true -> valmost_equal a a e = Some true) /\
  valmost_equal a b e = valmost_equal b a e.
Proof. intros a b e. exact (conj (valmost_equal_refl_finite a e) (valmost_equal_sym a b e)). Qed.
Print Assumptions C18_almost_equal_fitness_laws.

Theorem C18_isnonnegative_is_sign_test : forall x, nonan x -> isnonnegative x = (0 <=? key x)%Z.
Proof. exact isnonnegative_key. Qed.
Print Assumptions C18_isnonnegative_is_sign_test.

(* ================================================================== *)
(* Non-vacuity: the hypotheses are met by non-trivial values, the model does
   compute, and the side conditions are needed. *)
Definition d (bits : Z) : f64 := F64.of_bits bits.
Definition p0 := d 0.                         (* +0 *)
Definition n0 := d 9223372036854775808.       (* -0 *)
Definition pinf := d 9218868437227405312.     (* +inf *)
Definition ninf := d 18442240474082181120.    (* -inf *)
Definition one := d 4607182418800017408.
Definition two := d 4611686018427387904.
Definition three := d 4613937818241073152.
Definition dmin := d 1.                       (* smallest denormal *)

Definition bits_of_result (r : option vec) : option (list Z) := option_map (map F64.to_bits) r.

Example nonan_witness : nonan_vec [p0; n0; pinf; ninf; one; dmin].
Proof. apply nonan_vec_iff. vm_compute. reflexivity. Qed.

(* +0 and -0 are different bit patterns, equal fitness values, neither smaller *)
Example zeros_equal : eq_vec [p0; one] [n0; one] = true /\ lt_lex [p0; one] [n0; one] = false /\
                      gt [p0; one] [n0; one] = false /\ F64.to_bits p0 <> F64.to_bits n0.
Proof. vm_compute. repeat split; discriminate. Qed.

(* different lengths: a proper prefix is smaller; the empty fitness is the least *)
Example prefix_smaller : lt_lex [one] [one; ninf] = true /\ lt_lex [] [ninf] = true /\
                         eq_vec [one] [one; ninf] = false.
Proof. vm_compute. repeat split. Qed.

Example order_extremes : lt_lex [ninf] [d 18442240474082181119] = true /\   (* -inf < -max *)
                         lt_lex [n0] [dmin] = true /\ lt_lex [dmin] [d 2] = true /\
                         lt_lex [d 9218868437227405311] [pinf] = true.      (* max < +inf *)
Proof. vm_compute. repeat split. Qed.

(* the hypothesis "no NaN" is needed: with a NaN none of <, ==, > holds *)
Example trichotomy_needs_nonan :
  lt_lex [F64.nan] [one] = false /\ eq_vec [F64.nan] [one] = false /\ gt [F64.nan] [one] = false /\
  ge [F64.nan] [one] = true /\ le [F64.nan] [one] = true.
Proof. vm_compute. repeat split. Qed.

(* dominance: a non-trivial instance of the hypotheses of C18_dom_trans ... *)
Example dom_chain : dominating [two; two] [two; one] = true /\ dominating [two; one] [one; one] = true /\
                    dominating [two; two] [one; one] = true /\ dominating [two; one] [] = true /\
                    in_family 2 [two; one] /\ in_family 2 [].
Proof. vm_compute. repeat split; auto. Qed.

(* ... incomparable vectors exist (dominance is partial) ... *)
Example dom_partial : dominating [two; one] [one; two] = false /\ dominating [one; two] [two; one] = false /\
                      eq_vec [two; one] [one; two] = false.
Proof. vm_compute. repeat split. Qed.

(* ... and the restriction to one family is needed: with mixed lengths
   dominating() is not transitive *)
Example dom_trans_needs_one_family :
  dominating [two; p0] [one] = true /\ dominating [one] [p0; three] = true /\
  dominating [two; p0] [p0; three] = false.
Proof. vm_compute. repeat split. Qed.

(* selection: three arrangements, one winner *)
Example best_of_example :
  bits_of_result (best_of [[one; two]; [one; three]; [one]]) = Some [4607182418800017408; 4613937818241073152]%Z /\
  bits_of_result (best_of [[one]; [one; three]; [one; two]]) = Some [4607182418800017408; 4613937818241073152]%Z /\
  best_of [] = None.
Proof. vm_compute. repeat split. Qed.

(* arithmetic: computed values (as bit patterns), the contract, rounding of a half step *)
Example arithmetic_examples :
  bits_of_result (plus [one; two] [two; two; pinf]) = Some [4613937818241073152; 4616189618054758400]%Z /\  (* (3, 4) *)
  bits_of_result (plus [one; two] [two]) = None /\
  bits_of_result (minus [pinf] [pinf]) = Some [9221120237041090560]%Z /\                        (* NaN *)
  option_map F64.to_bits (distance [one; two] [two; p0]) = Some 4613937818241073152%Z /\          (* 3 *)
  option_map F64.to_bits (distance [one] [one; two]) = None /\
  map F64.to_bits (combine_fit [one] [two; three]) = map F64.to_bits [one; two; three] /\
  map F64.to_bits (round_to [d 4544755322205258541; n0; pinf]) =                 (* 0.00005 -> 0.0001 *)
    [4547007122018943789; 9223372036854775808; 9218868437227405312]%Z /\
  map F64.to_bits (vsqrt [d 4616189618054758400; n0]) = [4611686018427387904; 9223372036854775808]%Z.
Proof. vm_compute. repeat split. Qed.

Example mm_ge_example :
  mm_ge {| m_fitness := [two]; m_accuracy := one; m_is_solution := false |}
        {| m_fitness := [one]; m_accuracy := p0; m_is_solution := false |} = true /\
  mm_ge {| m_fitness := [two]; m_accuracy := one; m_is_solution := false |}
        {| m_fitness := [two]; m_accuracy := one; m_is_solution := false |} = false.
Proof. vm_compute. repeat split. Qed.

Example utility_examples :
  issmall (d 4372995238176751616) = true /\ issmall (d 4377498837804122112) = false /\   (* 2^-52, 2^-51 *)
  isnonnegative n0 = true /\ isnonnegative (d 9223372036854775809) = false /\            (* -0, -denormal *)
  almost_equal one (d 4607182463836013682) default_ae_epsilon = true /\                  (* 1 ~ 1.00001 *)
  almost_equal one (d 4607182508872009955) default_ae_epsilon = false /\                 (* 1 !~ 1.00002 *)
  valmost_equal [one] [one; two] default_ae_epsilon = None.
Proof. vm_compute. repeat split. Qed.
