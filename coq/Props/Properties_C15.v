(* C15 -- The fitness cache can be shared by threads.

   Model: Conc/ConcDefs.v.  Threads execute atomic actions; std::shared_mutex
   is the reader-set / writer-flag transition system (H_mutex: trusted); the
   action sequence of every cache:: method is [program gen_protos], whose
   locks and the place of the value copy come from Gen/CacheProto.v,
   REGENERATED from cache.cc on every run.  Every theorem is for ANY number
   of threads (any list [opss] of per-thread operation lists), ANY operations
   and ANY schedule (any list of thread ids; a blocked thread's turn is a
   no-op), by induction on the schedule.

   PARTIAL BY NATURE (see the manifest): the model is sequentially consistent
   and has no allocator; hardware reordering, allocator races and bugs of
   shared_mutex itself are outside it and are the ThreadSanitizer harness's
   business.  Only theorem statements live here. *)
From Coq Require Import NArith List Bool Arith.
From VV Require Import Cache.CacheDefs Cache.CacheGenDefs2 Conc.ProtoTypes Conc.ConcDefs Conc.ConcProofs Gen.CacheProto
  Conc.ConcGenDefs Conc.ConcLin Conc.ConcGen.
Import ListNotations.

(* what the action skeleton assumes of the source holds of the regenerated
   protocol: nothing shared touched before the lock, writers take the
   exclusive lock, find copies its value out under the lock (by value), no
   field outside the skeleton *)
Theorem C15_generated_protocol_ok : proto_ok gen_protos = true.
Proof. exact gen_ok. Qed.
Print Assumptions C15_generated_protocol_ok.

Theorem C15_mutex_invariant : forall bits opss sched,
  let s := run sched (init (gen_progs bits opss)) in
  (forall w, writer s = Some w -> readers s = []) /\
  NoDup (readers s) /\
  (forall t th, nth_error (ths s) t = Some th ->
     (holds th = Some true <-> writer s = Some t) /\ (holds th = Some false <-> In t (readers s))).
Proof. exact gen_mutex_invariant. Qed.
Print Assumptions C15_mutex_invariant.

(* in no reachable state do two different threads have conflicting next
   accesses (same slot, or seal_, or the whole table; at least one a write) *)
Theorem C15_no_data_race : forall bits opss sched t1 t2,
  race (run sched (init (gen_progs bits opss))) t1 t2 = false.
Proof. exact gen_no_data_race. Qed.
Print Assumptions C15_no_data_race.

(* every completed find k returns nothing or exactly the word list some
   thread's program stores under k -- by insert k v, or as a record of a load
   ([ins_op]): never a torn, truncated or foreign value, although a slot is
   assigned member by member (hash, then fitness, then seal) *)
Theorem C15_find_returns_whole_value : forall bits opss sched t th k r,
  nth_error (ths (run sched (init (gen_progs bits opss)))) t = Some th ->
  In (k, r) (results th) -> k <> key0 ->
  r = [] \/ exists ops o, In ops opss /\ In o ops /\ In (k, r) (ins_op o).
Proof. exact gen_find_whole. Qed.
Print Assumptions C15_find_returns_whole_value.

(* no thread that holds a lock ever sees a half-assigned slot: except for the
   slot the exclusive holder is in the middle of assigning (its next action
   is the fitness write), every slot holds the empty key or a stored pair *)
Theorem C15_slot_consistent_under_lock : forall bits opss sched t th j,
  let s := run sched (init (gen_progs bits opss)) in
  nth_error (ths s) t = Some th -> holds th <> None ->
  (forall v r, acts th <> AWrFit j v :: r) ->
  skey (mem s j) = key0 \/ In (skey (mem s j), sfit (mem s j)) (flat_map ins_of (gen_progs bits opss)).
Proof. exact gen_slot_consistent. Qed.
Print Assumptions C15_slot_consistent_under_lock.

(* LINEARISATION: the concurrent cache behaves like the SEQUENTIAL cache of
   C04 executing the same operations one at a time in the order of their lock
   acquisitions.  [irun] replays the schedule with a ghost log of successful
   lock acquisitions (thread, operation), newest first.  For every number of
   threads, all operations (find, insert, clear, clear(key), save, load) and
   every schedule: the logged operations are, per thread, a prefix of its
   program; whenever nobody holds the exclusive lock the shared memory IS
   [seq_table] -- the logged operations applied in order to a fresh table with
   insert / clear / clear_one of Cache/CacheDefs.v --; and every thread's
   completed finds returned exactly what the sequential [find] returns at that
   point of the order ([seq_results]); a finished thread has all of them. *)
Theorem C15_linearisation : forall bits opss sched,
  let s := fst (irun opss sched (init (gen_progs bits opss), [])) in
  let l := snd (irun opss sched (init (gen_progs bits opss), [])) in
  s = run sched (init (gen_progs bits opss)) /\
  (forall t, ops_of l t = firstn (count l t) (nth t opss [])) /\
  (writer s = None -> agree (gseal s) (mem s) (seq_table bits l)) /\
  (forall t th, nth_error (ths s) t = Some th ->
     results th = seq_results bits l t \/ exists kr, seq_results bits l t = kr :: results th) /\
  (forall t th, nth_error (ths s) t = Some th -> acts th = [] -> results th = seq_results bits l t).
Proof. exact gen_linearisation. Qed.
Print Assumptions C15_linearisation.

(* the sequential cache of the linearisation is the regenerated table model
   of C04 (now_insert / now_clear / now_clear_one / now_find), about which
   C04 proves soundness of find and transparency of the proxy *)
Theorem C15_sequential_cache_is_C04 : forall tb k v,
  seq_apply tb (OInsert k v) = now_insert tb k v /\ seq_apply tb OClear = now_clear tb /\
  seq_apply tb (OClearOne k) = now_clear_one tb k /\ find tb k = now_find tb k /\
  seq_table 0 [] = now_fresh 0.
Proof. exact seq_is_now. Qed.
Print Assumptions C15_sequential_cache_is_C04.

(* the same absence of races for ANY programs that pass the static lock
   discipline check, not only sequences of cache methods *)
Theorem C15_no_data_race_any_well_locked_program : forall progs sched t1 t2,
  Forall (fun p => wlb None false p = true /\ pairs_ok p = true) progs ->
  race (run sched (init progs)) t1 t2 = false.
Proof. exact any_no_data_race. Qed.
Print Assumptions C15_no_data_race_any_well_locked_program.

(* ---- non-vacuity: three threads, colliding keys, a schedule in which the
   reader really hits, blocks a writer, and everything terminates ---- *)
Local Open Scope N_scope.
Example C15_nonvacuous :
  let opss := [[OFind (1, 5); OFind (5, 5)];
               [OInsert (1, 5) [10; 11]; OInsert (5, 5) [20; 21; 22; 23]];
               [OClear; OClearOne (1, 5); OSave; OLoad 7 [((9, 9), [1])]]] in
  let sched := map N.to_nat
    [1;1;1;1;1;1; 0;0;0; 1;1 (* blocked *); 0;0;0;0;0; 1;1;1;1;1;1; 0;0;0;0;0;0;0;0;0;0;
     2;2;2;2;2;2;2; 2;2;2;2;2;2;2; 2;2;2;2;2;2] in
  let s := run sched (init (gen_progs 2 opss)) in
  finished s = true /\
  all_results s = [[((5, 5), [20; 21; 22; 23]); ((1, 5), [10; 11])]; []; []] /\
  (* the writer really was blocked while the reader held the shared lock *)
  writer (run (firstn 11 sched) (init (gen_progs 2 opss))) = None /\
  readers (run (firstn 11 sched) (init (gen_progs 2 opss))) = [0%nat] /\
  (* the ghost log: acquisitions in order (oldest first), and the sequential results of thread 0 *)
  rev (snd (irun opss sched (init (gen_progs 2 opss), []))) =
    [(1%nat, OInsert (1, 5) [10; 11]); (0%nat, OFind (1, 5)); (1%nat, OInsert (5, 5) [20; 21; 22; 23]);
     (0%nat, OFind (5, 5)); (2%nat, OClear); (2%nat, OClearOne (1, 5)); (2%nat, OSave);
     (2%nat, OLoad 7 [((9, 9), [1])])] /\
  seq_results 2 (snd (irun opss sched (init (gen_progs 2 opss), []))) 0%nat =
    [((5, 5), [20; 21; 22; 23]); ((1, 5), [10; 11])] /\
  (* in the middle of the second insert slot 1 holds the NEW key with the OLD value *)
  (let m := mem (run (firstn 19 sched) (init (gen_progs 2 opss))) 1 in (skey m, sfit m)) = ((5, 5), [10; 11]).
Proof. vm_compute. repeat split. Qed.
