(* C18 -- what does NOT hold, with witnesses (all by computation).

   The property quantifies over fitness values without NaN and, for the
   dominance laws, over one family (equal lengths plus the empty fitness).
   These theorems show that both restrictions are necessary for the operators
   as they are, and that almost_equal (utility.h) is not transitive.  None of
   them contradicts the property; they document the edge of it.  The check
   replays every witness on the implementation. *)
From Coq Require Import ZArith List Bool Permutation.
From VV Require Import Base.F64 Fitness.FitnessDefs.
Import ListNotations.

Definition d (bits : Z) : f64 := F64.of_bits bits.
Definition nan := F64.nan.
Definition p0 := d 0.
Definition one := d 4607182418800017408.
Definition two := d 4611686018427387904.
Definition three := d 4613937818241073152.
Definition five := d 4617315517961601024.
Definition mone := d 13830554455654793216.
Definition pinf := d 9218868437227405312.

(* with a NaN none of a<b, a==b, a>b holds *)
Theorem C18_trichotomy_with_nan_refuted :
  exists a b, lt_lex a b = false /\ eq_vec a b = false /\ gt a b = false.
Proof. exists [nan], [one]. vm_compute. repeat split. Qed.
Print Assumptions C18_trichotomy_with_nan_refuted.

(* == is not reflexive *)
Theorem C18_eq_reflexive_with_nan_refuted : exists a, eq_vec a a = false /\ ne a a = true.
Proof. exists [one; nan]. vm_compute. repeat split. Qed.
Print Assumptions C18_eq_reflexive_with_nan_refuted.

(* >= still IS the negation of < (by definition), but it no longer means
   "greater or equal": a >= b and a <= b hold although a > b, a == b, a < b all fail *)
Theorem C18_ge_is_gt_or_eq_with_nan_refuted :
  exists a b, ge a b = true /\ le a b = true /\ gt a b = false /\ eq_vec a b = false /\ lt_lex a b = false.
Proof. exists [nan], [one]. vm_compute. repeat split. Qed.
Print Assumptions C18_ge_is_gt_or_eq_with_nan_refuted.

(* < is not transitive *)
Theorem C18_lt_trans_with_nan_refuted :
  exists a b c, lt_lex a b = true /\ lt_lex b c = true /\ lt_lex a c = false.
Proof. exists [one; p0], [nan; one], [p0; two]. vm_compute. repeat split. Qed.
Print Assumptions C18_lt_trans_with_nan_refuted.

(* the selected maximum depends on the order of comparison *)
Theorem C18_max_independent_of_order_with_nan_refuted :
  exists l l' m m', Permutation l l' /\ best_of l = Some m /\ best_of l' = Some m' /\ eq_vec m m' = false.
Proof.
  exists [[nan]; [one]], [[one]; [nan]], [nan], [one].
  split; [apply perm_swap|]. vm_compute. repeat split.
Qed.
Print Assumptions C18_max_independent_of_order_with_nan_refuted.

(* dominance is not transitive with a NaN component ... *)
Theorem C18_dom_trans_with_nan_refuted :
  exists a b c, length a = length b /\ length b = length c /\
    dominating a b = true /\ dominating b c = true /\ dominating a c = false.
Proof. exists [one; one], [nan; p0], [five; mone]. vm_compute. repeat split. Qed.
Print Assumptions C18_dom_trans_with_nan_refuted.

(* ... nor across different non-zero lengths (no NaN involved) *)
Theorem C18_dom_trans_mixed_lengths_refuted :
  exists a b c, vis_nan a = false /\ vis_nan b = false /\ vis_nan c = false /\
    dominating a b = true /\ dominating b c = true /\ dominating a c = false.
Proof. exists [two; p0], [one], [p0; three]. vm_compute. repeat split. Qed.
Print Assumptions C18_dom_trans_mixed_lengths_refuted.

(* almost_equal (relative tolerance 1e-5) is not transitive: 1, 1.00001, 1.00002 *)
Theorem C18_almost_equal_trans_refuted :
  exists x y z, almost_equal x y default_ae_epsilon = true /\ almost_equal y z default_ae_epsilon = true /\
                almost_equal x z default_ae_epsilon = false.
Proof. exists one, (d 4607182463836013682), (d 4607182508872009955). vm_compute. repeat split. Qed.
Print Assumptions C18_almost_equal_trans_refuted.

(* ... and not reflexive on the infinities (inf - inf is a NaN) *)
Theorem C18_almost_equal_refl_infinity_refuted :
  almost_equal pinf pinf default_ae_epsilon = false.
Proof. vm_compute. reflexivity. Qed.
Print Assumptions C18_almost_equal_refl_infinity_refuted.
