(* C15 -- finding: the protocol of the pinned tree, in which cache::find
   returns `const fitness_t &` into the table and the caller copies the value
   AFTER the shared lock is released, has a data race and returns torn
   values.  [pinned_protos] is what translate/cache_proto.py extracts from the
   pinned cache.cc (find ... ByRef). *)
From Coq Require Import NArith List Bool Arith.
From VV Require Import Cache.CacheDefs Conc.ProtoTypes Conc.ConcDefs Conc.ConcProofs.
Import ListNotations.
Local Open Scope N_scope.

Definition pinned_protos : protos :=
  mkprotos
    (mkproto Shared false [FSeal; FSlotFitness; FSlotHash; FSlotSeal] [] ByRef)
    (mkproto Exclusive false [FSeal] [FSlotFitness; FSlotHash; FSlotSeal] NoResult)
    (mkproto Exclusive false [] [FSeal] NoResult)
    (mkproto Exclusive false [] [FSlotHash] NoResult)
    (mkproto Exclusive false [FSeal] [FSeal; FSlotFitness; FSlotHash; FSlotSeal] NoResult)
    (mkproto Shared false [FSeal; FSlotFitness; FSlotHash; FSlotSeal] [] NoResult).

Definition r_opss : list (list op) :=
  [[OFind (1, 5)]; [OInsert (1, 5) [10; 11]; OInsert (1, 5) [20; 21]]].

(* writer stores; reader locks, finds its slot, UNLOCKS, copies one word;
   writer locks, writes the key and is about to overwrite the value: race; it overwrites;
   reader copies the rest *)
Definition r_sched : list tid :=
  map N.to_nat [1;1;1;1;1;1; 0;0;0;0; 0; 1;1;1; 1;1;1; 0;0;0].

Theorem C15_find_race_refuted :
  (* the static check rejects the pinned protocol ... *)
  proto_ok pinned_protos = false /\
  (* ... a reachable state has two threads with conflicting next accesses ... *)
  race (run (firstn 14 r_sched) (init (map (program pinned_protos 2) r_opss))) 0%nat 1%nat = true /\
  (* ... and the find completes with a value nobody stored *)
  all_results (run r_sched (init (map (program pinned_protos 2) r_opss))) = [[((1, 5), [10; 21])]; []] /\
  ~ In ((1, 5), [10; 21]) (flat_map ins_of (map (program pinned_protos 2) r_opss)).
Proof.
  split; [reflexivity|split; [vm_compute; reflexivity|split; [vm_compute; reflexivity|]]].
  vm_compute. intros [H|[H|[]]]; discriminate.
Qed.
Print Assumptions C15_find_race_refuted.
