(* C08 -- link to property C13 (imported read-only): the precondition "a
   program output is never NaN" of C08_binary_sureness_nonneg and of slot()
   (the conversion of NaN to size_t is undefined) holds for every well-typed
   program over the SHIPPED primitives run on good inputs: it returns an
   undefined value or a finite double.  Kept in its own file so that a change
   in the regenerated primitive layer shows up here, not in Properties_C08. *)
From Coq Require Import ZArith List Bool.
From Flocq Require Import IEEE754.BinarySingleNaN.
From VV Require Import Base.F64 Base.Values Interp.Strategy Mep.Genome Prims.RealDefs Prims.RealProofs.
From VV Require Import Lambda.LambdaDefs Lambda.LambdaLink.

Theorem C08_shipped_program_output_finite_or_undefined : forall lm, sincos_finite lm -> exp_unit lm ->
  forall kc vars t, wt lm kc vars t -> kc (root_cat t) = KReal ->
  exists v, run_tree vars t = Val v /\ out_ok (out_of_value v).
Proof. exact shipped_program_output_ok. Qed.
Print Assumptions C08_shipped_program_output_finite_or_undefined.

Theorem C08_binary_sureness_nonneg_on_shipped_programs : forall lm, sincos_finite lm -> exp_unit lm ->
  forall kc vars t, wt lm kc vars t -> kc (root_cat t) = KReal ->
  exists v, run_tree vars t = Val v /\
            F64.leb F64.zero (snd (binary_tag (out_of_value v))) = true.
Proof. exact binary_sureness_nonneg_shipped. Qed.
Print Assumptions C08_binary_sureness_nonneg_on_shipped_programs.
