(* C17 (round 2) -- the operators run from a SEED.

   [sga_*] / [sde_*] (Ga/GaSeededDefs.v) take the engine state (coq/Rng: xoshiro256** seeded
   through splitmix64, libstdc++ uniform_int / generate_canonical / uniform_real / bernoulli)
   instead of a logged draw stream.  Each is a run of the stream-driven model on the trace of
   draws it produces, hence every theorem of Properties_C17.v holds of seeded runs: for every
   seed, every previous engine content.  Integer draws need no contract any more (their range
   is a theorem, Dist_C07.v), nor boolean draws (C17_seeded_boolean_never_refused); real draws are proved
   inside [lo, hi] for every finite lo < hi (C17_seeded_real_never_refused): nothing of H_draws is assumed any more.  Nothing else lives in this file. *)
From Coq Require Import ZArith List Bool.
From VV Require Import Base.F64 Rng.RngDefs Rng.RngProofs Rng.DistDefs Ga.GaDefs Ga.GaProofs Ga.GaSeededDefs Ga.GaSeededProofs.
Import ListNotations.
Local Open Scope Z_scope.

Theorem C17_seeded_ga_create_refines : forall fuel ranges st x st' tr rest, wf st ->
  sga_create fuel ranges st = Some (x, st', tr) -> ga_create ranges (tr ++ rest) = Some (x, rest) /\ wf st'.
Proof. exact sga_create_ref. Qed.
Print Assumptions C17_seeded_ga_create_refines.

Theorem C17_seeded_ga_mutation_refines : forall fuel pgm ranges x st y n st' tr rest, wf st ->
  sga_mutation fuel pgm ranges x st = Some ((y, n), st', tr) ->
  ga_mutation pgm ranges x (tr ++ rest) = Some (y, n, rest) /\ wf st'.
Proof. exact sga_mutation_ref. Qed.
Print Assumptions C17_seeded_ga_mutation_refines.

Theorem C17_seeded_ga_crossover_refines : forall fuel l r st child st' tr rest, wf st ->
  sga_crossover fuel l r st = Some (child, st', tr) -> ga_crossover l r (tr ++ rest) = Some (child, rest) /\ wf st'.
Proof. exact sga_crossover_ref. Qed.
Print Assumptions C17_seeded_ga_crossover_refines.

Theorem C17_seeded_de_create_refines : forall fuel ranges st x st' tr rest, wf st ->
  sde_create fuel ranges st = Some (x, st', tr) -> de_create ranges (tr ++ rest) = Some (x, rest) /\ wf st'.
Proof. exact sde_create_ref. Qed.
Print Assumptions C17_seeded_de_create_refines.

Theorem C17_seeded_de_crossover_refines : forall p flo fhi t a b c st trial st' tr rest, wf st ->
  sde_crossover p flo fhi t a b c st = Some (trial, st', tr) ->
  de_crossover p flo fhi t a b c (tr ++ rest) = Some (trial, rest) /\ wf st'.
Proof. exact sde_crossover_ref. Qed.
Print Assumptions C17_seeded_de_crossover_refines.

(* in seeded runs the boolean draws need no contract check: boolean(0)=false / boolean(1)=true is a theorem
   about std::bernoulli_distribution over the engine (Dist_C07.v), so the check never refuses *)
Theorem C17_seeded_boolean_never_refused : forall p st, wf st -> exists b st' tr, e_bool p st = Some (b, st', tr).
Proof. exact e_bool_never_refuses. Qed.
Print Assumptions C17_seeded_boolean_never_refused.

(* nor the real draws, for every finite lo < hi (C07_between_real_in_interval, both branches of between<double>):
   in seeded runs the whole H_draws contract is a theorem *)
Theorem C17_seeded_real_never_refused : forall lo hi st, wf st ->
  F64.is_finite lo = true -> F64.is_finite hi = true -> F64.ltb lo hi = true ->
  exists v st' tr, e_real lo hi st = Some (v, st', tr) /\ F64.leb lo v = true /\ F64.leb v hi = true /\ F64.is_finite v = true.
Proof. exact e_real_never_refuses. Qed.
Print Assumptions C17_seeded_real_never_refused.

(* consequences, straight from a seed: vita::random::seed(s); i_ga x(problem) *)
Theorem C17_seeded_ga_creation_in_range : forall fuel ranges old s x st' tr,
  sga_create fuel ranges (random_seed old s) = Some (x, st', tr) ->
  in_range ranges (ga_genome x) /\ length (ga_genome x) = length ranges /\ ga_age x = 0.
Proof.
  intros fuel ranges old s x st' tr H.
  destruct (sga_create_ref fuel ranges _ x st' tr [] (seed_engine_wf old _) H) as [R _].
  exact (ga_create_range _ _ _ _ R).
Qed.
Print Assumptions C17_seeded_ga_creation_in_range.

(* vita::random::seed(s); crossover(lhs, rhs): one contiguous non-empty segment, whatever the seed *)
Theorem C17_seeded_ga_crossover_segment : forall fuel l r old s child st' tr,
  sga_crossover fuel l r (random_seed old s) = Some (child, st', tr) ->
  let n := Z.of_nat (length (ga_genome l)) in
  exists c1 c2, 0 <= c1 < n - 1 /\ c1 < c2 < n /\
    ga_genome child = splice_from 0 c1 c2 (ga_genome l) (ga_genome r) /\
    ga_age child = Z.max (ga_age l) (ga_age r).
Proof.
  intros fuel l r old s child st' tr H n.
  destruct (sga_crossover_ref fuel l r _ child st' tr [] (seed_engine_wf old _) H) as [R _].
  apply ga_crossover_spec in R. destruct R as (_ & _ & c1 & c2 & _ & H1 & H2 & H3 & H4).
  exists c1, c2. tauto.
Qed.
Print Assumptions C17_seeded_ga_crossover_segment.

(* non-vacuity: a seeded creation and a seeded crossover do return *)
Example C17_seeded_met :
  (exists x st' tr, sga_create 10 [(-5, 3); (0, 1); (7, 1000)] (random_seed zero_state 1) = Some (x, st', tr)) /\
  (exists x st' tr, sga_crossover 10 (mk_iga [1; 2; 3; 4] 0) (mk_iga [5; 6; 7; 8] 2) (random_seed zero_state 3) = Some (x, st', tr)).
Proof. split; eexists; eexists; eexists; vm_compute; reflexivity. Qed.
