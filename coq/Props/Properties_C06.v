(* C06 -- Invariants of an evolutionary run.

   The model (Evo/EvoDefs.v) re-executes selection, recombination, replacement
   and after_generation of the standard, ALPS and DE strategies from the random
   draws of each step; [reachable flt e s] = s is reached from an initial
   population by ANY list of accepted events (any length, any draws, any
   offspring).  [strict_weak_order flt] are the order laws of
   fitness_t::operator< (proved for the real type by C18).  Only statements
   here; proofs in Evo/EvoProofs.v, Evo/EvoMain.v. *)
From Coq Require Import ZArith List Bool Arith.
From VV Require Import Evo.EvoDefs Evo.EvoProofs Evo.EvoMain Evo.EvoProgress Evo.TuneDefs Evo.TuneProofs Evo.Tune2Proofs.
Import ListNotations.
Local Open Scope Z_scope.

Theorem C06_layer_bound : forall F (flt : F -> F -> bool) (ops : stat_ops),
  forall e (s : state F), env_ok e -> @reachable F flt ops e s ->
  forall l ly, nth_error (pop s) l = Some ly -> (1 <= length (members ly) <= allowed ly)%nat.
Proof. exact main_layer_bound. Qed.
Print Assumptions C06_layer_bound.

Theorem C06_std_de_size_constant : forall F (flt : F -> F -> bool) (ops : stat_ops),
  forall e (s : state F), env_ok e -> is_alps e = false -> @reachable F flt ops e s ->
  length (pop s) = 1%nat /\ pop_size (pop s) = e_individuals e.
Proof. exact main_std_de_size_constant. Qed.
Print Assumptions C06_std_de_size_constant.

Theorem C06_last_imp_le_gen : forall F (flt : F -> F -> bool) (ops : stat_ops),
  forall e (s : state F), env_ok e -> @reachable F flt ops e s -> last_imp (sm s) <= gen (sm s).
Proof. exact main_last_imp_le_gen. Qed.
Print Assumptions C06_last_imp_le_gen.

Theorem C06_best_is_score_of_best : forall F (flt : F -> F -> bool) (ops : stat_ops),
  forall e (s : state F), env_ok e -> @reachable F flt ops e s -> best_fit (sm s) = fit (best_sol (sm s)).
Proof. exact main_best_is_score_of_best. Qed.
Print Assumptions C06_best_is_score_of_best.

Theorem C06_best_monotone : forall F (flt : F -> F -> bool) (ops : stat_ops), strict_weak_order flt ->
  forall e evs (s s' : state F), @no_shake F evs = true -> run flt ops e s evs = Some s' ->
  flt (best_fit (sm s')) (best_fit (sm s)) = false.
Proof. exact main_best_monotone. Qed.
Print Assumptions C06_best_monotone.

Theorem C06_invariants_boolean_form : forall F (flt : F -> F -> bool) (ops : stat_ops), strict_weak_order flt ->
  forall e (s : state F), env_ok e -> @reachable F flt ops e s -> inv_b flt e s = true.
Proof. exact main_inv_b. Qed.
Print Assumptions C06_invariants_boolean_form.

(* ---- selection ---- *)
(* ring_in_range: whatever the unsigned wrap-around does, random::ring stays in [0, n) *)
Theorem C06_ring_in_range : forall base width n v,
  0 < n -> ring_draw_ok width n v = true -> 0 <= ring base width n v < n.
Proof. exact ring_in_range. Qed.
Print Assumptions C06_ring_in_range.

(* ring_window: without wrap-around (base + n + width < 2^32) the result is
   base - width/2 + v modulo n, i.e. inside the mating zone around base *)
Theorem C06_ring_window : forall base width n v,
  0 <= base < n -> 0 < width < n -> base + n + width < two32 -> 0 <= v < width ->
  ring base width n v = (base - width / 2 + v) mod n /\
  (ring base width n v - base + width / 2) mod n = v.
Proof. exact ring_window. Qed.
Print Assumptions C06_ring_window.

(* all tournament picks exist, lie in the mating zone of ONE target, there are
   tournament_size of them, in non-increasing fitness order *)
Theorem C06_tournament_parents_in_zone_sorted : forall F (flt : F -> F -> bool), strict_weak_order flt ->
  forall e (p : population F) tgt rs cs ly,
  nth_error p (fst tgt) = Some ly -> 3 * Z.of_nat (length (members ly)) < two32 ->
  tournament_select flt e p tgt rs = Some cs -> tournament_parents_b flt e p tgt cs = true.
Proof. exact main_tournament_parents. Qed.
Print Assumptions C06_tournament_parents_in_zone_sorted.

Theorem C06_alps_parents_layer_or_below : forall F (flt : F -> F -> bool),
  forall e (p : population F) layer pk0 pk1 pks cs,
  alps_select flt e p layer pk0 pk1 pks = Some cs -> alps_parents_b p layer cs = true.
Proof. exact main_alps_parents. Qed.
Print Assumptions C06_alps_parents_layer_or_below.

Theorem C06_members_exist : forall F (flt : F -> F -> bool),
  forall e (p : population F) sd cs,
  select flt e p sd = Some cs -> parents_exist_b p cs = true.
Proof. exact main_members_exist. Qed.
Print Assumptions C06_members_exist.

(* with elitism the std and DE strategies never lower the highest fitness
   present: every member is matched, any number of events later, by a member
   that is not worse *)
Theorem C06_elitism_keeps_max : forall F (flt : F -> F -> bool) (ops : stat_ops), strict_weak_order flt ->
  forall e evs (s s' : state F), is_alps e = false -> e_elitism e = true ->
  @no_shake F evs = true -> run flt ops e s evs = Some s' ->
  forall x, In x (all_members (pop s)) -> exists y, In y (all_members (pop s')) /\ flt (fit y) (fit x) = false.
Proof. exact main_elitism_keeps_max. Qed.
Print Assumptions C06_elitism_keeps_max.

(* ---- progress: on valid inputs the operators never get stuck ---- *)
(* every draw stream within the contracts of random::sup / random::ring makes
   the tournament selection succeed (every pick exists) *)
Theorem C06_progress_tournament_select : forall F (flt : F -> F -> bool) e (p : population F) tgt rs ly,
  nth_error p (fst tgt) = Some ly -> (snd tgt < length (members ly))%nat ->
  length rs = e_tournament e ->
  forallb (ring_draw_ok (e_mate_zone e) (Z.of_nat (length (members ly)))) rs = true ->
  exists cs, tournament_select flt e p tgt rs = Some cs.
Proof. exact tournament_select_total. Qed.
Print Assumptions C06_progress_tournament_select.

Theorem C06_progress_alps_select : forall F (flt : F -> F -> bool) e (p : population F) layer pk0 pk1 pks,
  (layer < length p)%nat -> length pks = e_tournament e ->
  pick_draw_ok F p layer P1 pk0 -> pick_draw_ok F p layer P1 pk1 ->
  (forall pk, In pk pks -> pick_draw_ok F p layer (e_p_same e) pk) ->
  exists cs, alps_select flt e p layer pk0 pk1 pks = Some cs.
Proof. exact alps_select_total. Qed.
Print Assumptions C06_progress_alps_select.

(* a whole iteration of the inner loop under std_es, from ANY state satisfying
   the invariant, for ALL valid draws and every offspring that honours the
   contract of recombination::base::run *)
Theorem C06_progress_step_std : forall F (flt : F -> F -> bool) (ops : stat_ops) e (s : state F) ti rs k o,
  e_strat e = Std -> (1 <= e_tournament e)%nat -> Inv F e s ->
  (ti < e_individuals e)%nat -> length rs = e_tournament e ->
  forallb (ring_draw_ok (e_mate_zone e) (Z.of_nat (e_individuals e))) rs = true ->
  (forall r1 x1 x2 parents, tournament_select flt e (pop s) (O, ti) rs = Some parents ->
     hd_error parents = Some r1 -> get (pop s) r1 = Some x1 -> get (pop s) (second parents r1) = Some x2 ->
     base_offspring_ok F e x1 x2 k o) ->
  exists s', step_ok flt ops e s (EStep (SelTournament (O, ti) rs) (RecBase k) o []) = Some s'.
Proof. exact step_progress_std. Qed.
Print Assumptions C06_progress_step_std.

Theorem C06_progress_step_de : forall F (flt : F -> F -> bool) (ops : stat_ops) e (s : state F) (cs : list coord) va vb,
  e_strat e = De -> (1 <= e_tournament e)%nat -> Inv F e s ->
  length cs = e_tournament e -> (forall c, In c cs -> fst c = O /\ (snd c < e_individuals e)%nat) ->
  ring_draw_ok (e_mate_zone e) (Z.of_nat (e_individuals e)) va = true ->
  ring_draw_ok (e_mate_zone e) (Z.of_nat (e_individuals e)) vb = true ->
  exists a_age, forall o : ind F, age o = a_age ->
    exists s', step_ok flt ops e s (EStep (SelRandom cs) (RecDe va vb) o []) = Some s'.
Proof. exact step_progress_de. Qed.
Print Assumptions C06_progress_step_de.

Theorem C06_progress_aftergen_std_de : forall F (flt : F -> F -> bool) (ops : stat_ops) e (s : state F) a, is_alps e = false ->
  exists s', step_ok flt ops e s (EAfterGen a) = Some s'.
Proof. exact aftergen_progress_std_de. Qed.
Print Assumptions C06_progress_aftergen_std_de.

(* ALPS.  [sigma i n] is the value an arbitrary random source returns to the
   i-th call random::sup(n); the only assumption is its contract sigma i n < n.
   [gen_try_add] lists sigma's answers in the order try_add_to_layer makes its
   calls (each draw is only required to be below the size of the layer that call
   samples).  From any population satisfying the invariant, try_add_to_layer then
   succeeds, consumes exactly those draws, terminates within layers - layer
   recursive calls and keeps the invariant. *)
Theorem C06_progress_try_add : forall F (flt : F -> F -> bool) (sigma : nat -> nat -> nat),
  (forall i n, (0 < n)%nat -> (sigma i n < n)%nat) ->
  forall fuel e (p : population F) layer inc i,
  PL F p -> (layer < length p)%nat -> (length p - layer <= fuel)%nat ->
  exists p' b, (forall rest, try_add flt fuel e p layer inc (gen_try_add F flt sigma fuel e p layer inc i ++ rest)
                             = Some (p', b, rest)) /\ PL F p' /\ length p' = length p.
Proof. exact try_add_oracle. Qed.
Print Assumptions C06_progress_try_add.

(* a whole ALPS step: valid selection draws + an offspring honouring the
   contract of recombination::base::run + any random source for the replacement
   (the draws [ds] are its answers in call order) => accepted *)
Theorem C06_progress_step_alps : forall F (flt : F -> F -> bool) (ops : stat_ops) (sigma : nat -> nat -> nat),
  (forall i n, (0 < n)%nat -> (sigma i n < n)%nat) ->
  forall e (s : state F) layer pk0 pk1 pks k o, nat ->
  e_strat e = Alps -> PL F (pop s) -> (layer < length (pop s))%nat -> length pks = e_tournament e ->
  pick_draw_ok F (pop s) layer P1 pk0 -> pick_draw_ok F (pop s) layer P1 pk1 ->
  (forall pk, In pk pks -> pick_draw_ok F (pop s) layer (e_p_same e) pk) ->
  (forall r1 x1 x2 parents, alps_select flt e (pop s) layer pk0 pk1 pks = Some parents ->
     hd_error parents = Some r1 -> get (pop s) r1 = Some x1 -> get (pop s) (second parents r1) = Some x2 ->
     base_offspring_ok F e x1 x2 k o) ->
  exists ds s', step_ok flt ops e s (EStep (SelAlps layer pk0 pk1 pks) (RecBase k) o ds) = Some s'.
Proof. exact step_progress_alps. Qed.
Print Assumptions C06_progress_step_alps.

(* the same for both ALPS strategies (alps_es, de_alps_es) with the
   recombination left abstract: whatever offspring the recombination model
   accepts for the selected parents (its own totality: recombine_base_total /
   recombine_de_total) *)
Theorem C06_progress_step_alps_any_recombination : forall F (flt : F -> F -> bool) (ops : stat_ops) (sigma : nat -> nat -> nat),
  (forall i n, (0 < n)%nat -> (sigma i n < n)%nat) ->
  forall e (s : state F) layer pk0 pk1 pks rd o, nat ->
  is_alps e = true -> PL F (pop s) -> (layer < length (pop s))%nat -> length pks = e_tournament e ->
  pick_draw_ok F (pop s) layer P1 pk0 -> pick_draw_ok F (pop s) layer P1 pk1 ->
  (forall pk, In pk pks -> pick_draw_ok F (pop s) layer (e_p_same e) pk) ->
  (forall parents, alps_select flt e (pop s) layer pk0 pk1 pks = Some parents -> recombine e (pop s) parents rd o = Some o) ->
  exists ds s', step_ok flt ops e s (EStep (SelAlps layer pk0 pk1 pks) rd o ds) = Some s'.
Proof. exact step_progress_alps_gen. Qed.
Print Assumptions C06_progress_step_alps_any_recombination.

(* the end of a generation under ALPS: for ANY analyzer statistics (one entry
   per layer), any floating-point predicates [ops], any random source: there is
   a number n of individuals to create (what add_layer / init_layer creates) such
   that every list of n fresh individuals is accepted *)
Theorem C06_progress_aftergen_alps : forall F (flt : F -> F -> bool) (ops : stat_ops) (sigma : nat -> nat -> nat),
  (forall i n, (0 < n)%nat -> (sigma i n < n)%nat) ->
  forall e (s : state F) (st : stats), nat ->
  is_alps e = true -> env_ok e -> 0 < e_age_gap e -> PL F (pop s) ->
  (length (pop s) <= length (fit_mean st))%nat -> (length (pop s) <= length (fit_sd st))%nat ->
  (length (pop s) <= length (age_mean st))%nat ->
  exists n, forall news : list (ind F), length news = n -> fresh news = true ->
    exists ds s', step_ok flt ops e s (EAfterGen (mkAg st ds news)) = Some s'.
Proof. exact aftergen_progress_alps. Qed.
Print Assumptions C06_progress_aftergen_alps.

(* ---- parameter tuning (model of the repaired src_search: typeid of the object) ---- *)
Theorem C06_tune_fills_every_open_parameter : forall (ln_floor cube_log2 : Z -> Z),
  (forall r, 8 < r -> 1 <= ln_floor r) ->
  forall k terms e, 0 <= terms -> user_wf e = true ->
  filled k (tune ln_floor cube_log2 typeid_repaired k terms e) = true.
Proof. exact tune_fills_every_open_parameter. Qed.
Print Assumptions C06_tune_fills_every_open_parameter.

Theorem C06_tune_keeps_user_settings : forall (ln_floor cube_log2 : Z -> Z) tid k terms e,
  kept k e (tune ln_floor cube_log2 tid k terms e) = true.
Proof. exact tune_keeps_user_settings. Qed.
Print Assumptions C06_tune_keeps_user_settings.

(* FULL statement wanted:  is_valid false e = true -> is_valid true (tune k e) = true.
   It is false (Refuted_C06.v: population 4 with the tournament size left open).
   Proved: every definedness and range check of is_valid(true) passes; the only
   checks that can fail after tuning are the four relations between two size
   parameters (patch < code length, min_individuals <= individuals,
   tournament <= individuals, tournament <= mate_zone). *)
Theorem C06_tune_valid_partial : forall (ln_floor cube_log2 : Z -> Z),
  (forall r, 8 < r -> 1 <= ln_floor r) ->
  forall k terms e, 0 <= terms -> user_wf e = true -> is_valid false e = true ->
  sizes_ok (tune ln_floor cube_log2 typeid_repaired k terms e) = true ->
  is_valid true (tune ln_floor cube_log2 typeid_repaired k terms e) = true.
Proof. exact tune_valid_partial. Qed.
Print Assumptions C06_tune_valid_partial.

(* full strength when the size parameters are all left open (search, ga_search, de_search) *)
Theorem C06_tune_valid_defaults : forall ln cube tid k terms e,
  (forall s v r, k <> KSrc s v r) -> 0 <= terms < 198 -> user_wf e = true -> is_valid false e = true ->
  code_length e = 0 -> patch_length e = 0 -> individuals e = 0 -> min_individuals e = 0 ->
  tournament e = 0 -> mate_zone e = 0 ->
  is_valid true (tune ln cube tid k terms e) = true.
Proof. exact tune_valid_defaults. Qed.
Print Assumptions C06_tune_valid_defaults.

(* ---- tuning with environment::reconcile (repair of tune_valid_size_conflict, now in the tree): [tune_rec];
   [tune] above is the model of the code before that repair ----
   FULL: every admissible user environment (passes is_valid(false), population
   not 1 -- the property quantifies over populations of 4 and more) is tuned into
   an environment that passes is_valid(true); for search, ga_search, de_search
   and src_search, whatever the libm-dependent population formula returns. *)
Theorem C06_tune_valid : forall (ln_floor cube_log2 : Z -> Z), (forall r, 8 < r -> 1 <= ln_floor r) ->
  forall tid k terms e, 0 <= terms -> user_wf e = true -> is_valid false e = true -> individuals e <> 1 ->
  is_valid true (tune_rec ln_floor cube_log2 tid k terms e) = true.
Proof. exact tune_rec_valid. Qed.
Print Assumptions C06_tune_valid.

Theorem C06_tune_rec_fills_every_open_parameter : forall (ln_floor cube_log2 : Z -> Z),
  (forall r, 8 < r -> 1 <= ln_floor r) ->
  forall k terms e, 0 <= terms -> user_wf e = true -> is_valid false e = true -> individuals e <> 1 ->
  filled k (tune_rec ln_floor cube_log2 typeid_repaired k terms e) = true.
Proof. exact tune_rec_fills_repaired. Qed.
Print Assumptions C06_tune_rec_fills_every_open_parameter.

Theorem C06_tune_rec_keeps_user_settings : forall (ln_floor cube_log2 : Z -> Z) tid k terms e,
  kept k e (tune_rec ln_floor cube_log2 tid k terms e) = true.
Proof. exact tune_rec_keeps_user_settings. Qed.
Print Assumptions C06_tune_rec_keeps_user_settings.

(* ---------------------------------------------------------------- non-vacuity *)
Module NonVacuity.
Definition lt (a b : Z) : bool := a <? b.
Lemma lt_swo : strict_weak_order lt.
Proof. split; unfold lt; intros; apply Z.ltb_ge || apply Z.ltb_nlt; rewrite ?Z.ltb_lt, ?Z.ltb_ge in *; auto with zarith. Qed.

Definition e_std := mkEnv Std 4 2 1 3 3 true 3 Pmid Pmid false.
Definition e_alps := mkEnv Alps 4 2 3 2 20 true 1 Pmid Pmid false.
Definition xs := [mkInd 1 0 5; mkInd 2 0 7; mkInd 3 0 7; mkInd 4 0 1].

Example env_ok_std : env_ok e_std. Proof. split; simpl; auto with arith. Qed.

(* a reachable state after a step that replaces a member and improves the best,
   and a generation end *)
Definition ev1 : event Z := EStep (SelTournament (0%nat, 3%nat) [0; 1; 2]) (RecBase Cross) (mkInd 9 0 8) [].
(* statistics as integers in one-element lists *)
Definition ops0 : stat_ops :=
  mkOps (fun a b => match a, b with [x], [y] => x =? y | _, _ => false end)
        (fun a => match a with [x] => x =? 0 | _ => false end)
        (fun a z => match a with [x] => z <? x | _ => false end).
Definition no_stats : stats := mkStats [] [] [] [].
Definition ev2 : event Z := EAfterGen (mkAg no_stats [] []).
Example std_trace_accepted : exists s0 s, init_state e_std xs = Some s0 /\ run lt ops0 e_std s0 [ev1; ev2] = Some s /\
  best_fit (sm s) = 8 /\ gen (sm s) = 1 /\ map (@uid Z) (all_members (pop s)) = [1; 2; 3; 9].
Proof. eexists. eexists. split; [reflexivity|]. vm_compute. repeat split. Qed.

(* the tournament above really selects three sorted parents inside the zone of target 3 *)
Example tournament_nonvacuous :
  tournament_select lt e_std [mkLayer xs 4] (0%nat, 3%nat) [0; 1; 2] = Some [(0, 2); (0, 0); (0, 3)]%nat.
Proof. vm_compute. reflexivity. Qed.

(* ALPS: two generations, the second adds a layer (gen = 1, age_gap = 1) *)
Definition a_ev1 : event Z := EAfterGen (mkAg no_stats [] []).
Definition a_ev2 : event Z := EAfterGen (mkAg no_stats [] [mkInd 11 0 2; mkInd 12 0 3; mkInd 13 0 4; mkInd 14 0 5]).
Definition a_ev3 : event Z :=
  EStep (SelAlps 1 (true, 0%nat) (true, 1%nat) [(false, 2%nat); (true, 3%nat)]) (RecBase Cross) (mkInd 20 2 9) [0; 1; 2]%nat.
Example alps_trace_accepted : exists s0 s, init_state e_alps xs = Some s0 /\ run lt ops0 e_alps s0 [a_ev1; a_ev2; a_ev3] = Some s /\
  length (pop s) = 2%nat /\ best_fit (sm s) = 9 /\ inv_b lt e_alps s = true.
Proof. eexists. eexists. split; [reflexivity|]. vm_compute. repeat split. Qed.

(* statistics drive the end of the generation: equal layer means remove layer 1,
   then (generation 2, age gap 1, 1 < 3 layers) a fresh layer is added; a small
   standard deviation halves the allowed size of layer 1 in the next one *)
Definition a_ev4 : event Z :=
  EAfterGen (mkAg (mkStats [[5]; [5]] [[3]; [3]] [[1]; [1]] [0]) [] [mkInd 21 0 2; mkInd 22 0 3; mkInd 23 0 4; mkInd 24 0 5]).
Definition a_ev5 : event Z :=
  EAfterGen (mkAg (mkStats [[5]; [9]] [[3]; [0]] [[1]; [1]] [0]) [] [mkInd 31 0 2; mkInd 32 0 3; mkInd 33 0 4; mkInd 34 0 5]).
Example alps_statistics_decide : exists s0 s, init_state e_alps xs = Some s0 /\
  run lt ops0 e_alps s0 [a_ev1; a_ev2; a_ev3; a_ev4; a_ev5] = Some s /\
  map (fun ly => (length (members ly), allowed ly)) (pop s) = [(4, 4); (4, 4); (2, 2)]%nat.
Proof. eexists. eexists. split; [reflexivity|]. vm_compute. repeat split. Qed.

(* the model does reject: an offspring of the wrong age, a draw outside the ring width *)
Example rejects_wrong_age : forall s0, init_state e_std xs = Some s0 ->
  step_ok lt ops0 e_std s0 (EStep (SelTournament (0%nat, 3%nat) [0; 1; 2]) (RecBase Cross) (mkInd 9 5 8) []) = None.
Proof. intros s0 H. inversion H; subst. vm_compute. reflexivity. Qed.
Example rejects_bad_draw : forall s0, init_state e_std xs = Some s0 ->
  step_ok lt ops0 e_std s0 (EStep (SelTournament (0%nat, 3%nat) [0; 1; 3]) (RecBase Cross) (mkInd 9 0 8) []) = None.
Proof. intros s0 H. inversion H; subst. vm_compute. reflexivity. Qed.

(* layers of unequal sizes (a converged layer halved by set_allowed): an index
   drawn for the size of the reference layer 1 (4) is not accepted for an
   individual taken from the smaller layer 0 (2); indices below 2 are *)
Definition uneq : population Z :=
  [mkLayer [mkInd 1 0 5; mkInd 2 0 7] 2; mkLayer [mkInd 3 3 7; mkInd 4 3 1; mkInd 5 3 2; mkInd 6 3 9] 4].
Example pickup_bound_is_the_sampled_layer :
  alps_pickup uneq 1 Pmid (false, 3%nat) = None /\ alps_pickup uneq 1 Pmid (false, 1%nat) = Some (0, 1)%nat /\
  alps_pickup uneq 1 Pmid (true, 3%nat) = Some (1, 3)%nat.
Proof. repeat split; reflexivity. Qed.

(* tuning: the blank environment is an admissible user input *)
Example blank_admissible : user_wf env_blank = true /\ is_valid false env_blank = true.
Proof. split; reflexivity. Qed.
End NonVacuity.
