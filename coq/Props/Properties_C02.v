(* C02 -- Genetic operators only produce well-formed, well-typed individuals.

   Model: Mep/OpsDefs.v (i_mep / team<i_mep> operators over the shared genome
   of Mep/Genome.v), randomness as an oracle stream (Mep/Draws.v): the draw
   primitives give no result on a stream that breaks the contract of
   random::between / boolean, so "forall ds, op ds = Some r -> ..." covers
   every stream a real generator can produce.  [ind_ok_b ss patch g] is the
   well-formedness of the property: every cell populated with a symbol of the
   symbol set whose category is its column, as many arguments as the arity,
   every argument index strictly later and inside, argument categories
   inside, the patch section made of terminals, the entry point inside.
   Statements only; proofs in Mep/OpsProofs.v, CseProofs.v, ClosureProofs.v. *)
From Coq Require Import ZArith List Bool.
Local Ltac c02_scan0 := idtac. (* separates the Require lines for the dependency scanner of lib/vv.py *)
From VV Require Import Base.F64 Base.Values Interp.Strategy Mep.Genome Mep.Draws Mep.OpsDefs
  Mep.OpsProofs Mep.CseProofs Mep.ClosureProofs Mep.FuelProofs Mep.ResizeProofs.
Local Ltac c02_scan1 := idtac.
Import ListNotations.

(* symbol_set::roulette(c) / roulette_terminal(c) only return symbols of category c *)
Theorem C02_roulette_returns_category : forall ss, wf_sset_b ss = true -> forall c ds s ds',
  (c < ss_cats ss)%nat -> roulette ss c ds = Some (s, ds') ->
  sym_in_b ss s = true /\ s_cat s = c /\ forallb (fun ac => Nat.ltb ac (ss_cats ss)) (s_argcats s) = true.
Proof. exact roulette_ok. Qed.
Print Assumptions C02_roulette_returns_category.

Theorem C02_roulette_terminal_returns_terminal : forall ss, wf_sset_b ss = true -> forall c ds s ds',
  (c < ss_cats ss)%nat -> roulette_terminal ss c ds = Some (s, ds') ->
  sym_good ss c s /\ is_terminal s = true.
Proof. exact roulette_terminal_ok. Qed.
Print Assumptions C02_roulette_terminal_returns_terminal.

(* the wheel never reads past its elements when the slot is below the sum *)
Theorem C02_wheel_pick_defined : forall w slot, Forall (fun e => (0 <= snd e)%Z) w ->
  (0 <= slot < wheel_sum w)%Z -> exists s, wheel_pick w slot = Some s.
Proof. exact wheel_pick_some. Qed.
Print Assumptions C02_wheel_pick_defined.

(* ---- each operator preserves well-formedness *)
Theorem C02_random_ind_wf : forall ss, wf_sset_b ss = true -> forall R patch ds i ds',
  random_ind ss R patch ds = Some (i, ds') ->
  ind_ok_b ss patch (i_gen i) = true /\ rows (i_gen i) = R /\ i_age i = 0%N.
Proof. exact random_ind_wf. Qed.
Print Assumptions C02_random_ind_wf.

Theorem C02_mutation_wf : forall ss, wf_sset_b ss = true -> forall patch pgm i ds i' n ds',
  ind_ok_b ss patch (i_gen i) = true -> mutation ss patch pgm i ds = Some (i', n, ds') ->
  ind_ok_b ss patch (i_gen i') = true /\ rows (i_gen i') = rows (i_gen i) /\ cats (i_gen i') = cats (i_gen i) /\
  best (i_gen i') = best (i_gen i) /\ i_age i' = i_age i /\ i_xt i' = i_xt i.
Proof. exact mutation_wf. Qed.
Print Assumptions C02_mutation_wf.

(* mutation(pgm, prb) through a problem the individual was NOT created with
   (one problem object reused with another code / patch length): the patch
   boundary is taken from the individual's own size, the result keeps its size
   and is well-formed for the smaller of the two patch lengths *)
Theorem C02_mutation_wf_under_another_problem : forall ss, wf_sset_b ss = true ->
  forall p1 p2 pgm i ds i' n ds',
  ind_ok_b ss p1 (i_gen i) = true -> (1 <= p2)%nat ->
  mutation ss p2 pgm i ds = Some (i', n, ds') ->
  ind_ok_b ss (Nat.min p1 p2) (i_gen i') = true /\ rows (i_gen i') = rows (i_gen i) /\
  cats (i_gen i') = cats (i_gen i) /\ best (i_gen i') = best (i_gen i).
Proof. exact mutation_wf_other_problem. Qed.
Print Assumptions C02_mutation_wf_under_another_problem.

Theorem C02_wf_monotone_in_patch_length : forall ss p q g, (1 <= q <= p)%nat ->
  ind_ok_b ss p g = true -> ind_ok_b ss q g = true.
Proof. exact ind_ok_patch_mono. Qed.
Print Assumptions C02_wf_monotone_in_patch_length.

Theorem C02_mutation_zero_is_identity : forall ss patch i ds i' n ds',
  mutation ss patch zero_bits i ds = Some (i', n, ds') -> i' = i /\ n = 0%nat.
Proof. exact mutation_zero_is_identity. Qed.
Print Assumptions C02_mutation_zero_is_identity.

(* all four flavours: each gene of the offspring is the gene one of its
   parents has at the same position, same size, age of the older parent *)
Theorem C02_crossover_gene_provenance_size_age : forall lhs rhs ds c ds',
  crossover lhs rhs ds = Some (c, ds') ->
  rows (i_gen c) = rows (i_gen lhs) /\ cats (i_gen c) = cats (i_gen lhs) /\
  rows (i_gen lhs) = rows (i_gen rhs) /\ cats (i_gen lhs) = cats (i_gen rhs) /\
  (forall r k, cell (i_gen c) r k = cell (i_gen lhs) r k \/ cell (i_gen c) r k = cell (i_gen rhs) r k) /\
  (best (i_gen c) = best (i_gen lhs) \/ best (i_gen c) = best (i_gen rhs)) /\
  i_age c = N.max (i_age lhs) (i_age rhs) /\
  (i_xt c = i_xt lhs \/ i_xt c = i_xt rhs).
Proof. exact crossover_spec. Qed.
Print Assumptions C02_crossover_gene_provenance_size_age.

Theorem C02_crossover_wf : forall ss patch lhs rhs ds c ds',
  ind_ok_b ss patch (i_gen lhs) = true -> ind_ok_b ss patch (i_gen rhs) = true ->
  crossover lhs rhs ds = Some (c, ds') -> ind_ok_b ss patch (i_gen c) = true.
Proof. exact crossover_wf. Qed.
Print Assumptions C02_crossover_wf.

Theorem C02_get_block_wf : forall ss patch i l,
  ind_ok_b ss patch (i_gen i) = true -> inside_b (i_gen i) l = true ->
  ind_ok_b ss patch (i_gen (get_block i l)) = true.
Proof. exact get_block_wf. Qed.
Print Assumptions C02_get_block_wf.

(* replacement of a gene by a compatible one *)
Theorem C02_replace_wf : forall ss patch i l ge,
  ind_ok_b ss patch (i_gen i) = true -> inside_b (i_gen i) l = true ->
  gene_ok_b ss (rows (i_gen i)) (cats (i_gen i)) patch (l_index l) (l_cat l) ge = true ->
  ind_ok_b ss patch (i_gen (replace i l ge)) = true.
Proof. exact replace_wf. Qed.
Print Assumptions C02_replace_wf.

Theorem C02_destroy_block_wf : forall ss, wf_sset_b ss = true -> forall patch i index ds i' ds',
  ind_ok_b ss patch (i_gen i) = true -> destroy_block ss i index ds = Some (i', ds') ->
  ind_ok_b ss patch (i_gen i') = true /\ rows (i_gen i') = rows (i_gen i) /\ cats (i_gen i') = cats (i_gen i).
Proof. exact destroy_block_wf. Qed.
Print Assumptions C02_destroy_block_wf.

(* cse() with the current comparator (opcode, then the object representation of
   the parameter -- std::memcmp -- or the arguments lexicographically), for
   every well-formed individual, whatever its constants *)
Theorem C02_cse_wf : forall ss, wf_sset_b ss = true -> forall patch i i',
  ind_ok_b ss patch (i_gen i) = true -> cse i = Some i' ->
  ind_ok_b ss patch (i_gen i') = true /\ i_age i' = i_age i /\ i_xt i' = i_xt i.
Proof. exact cse_wf. Qed.
Print Assumptions C02_cse_wf.

(* ... and it always returns a result (no stuck lookup, no missing cell) *)
Theorem C02_cse_total : forall ss, wf_sset_b ss = true -> forall patch i,
  ind_ok_b ss patch (i_gen i) = true -> exists i', cse i = Some i'.
Proof. exact cse_total. Qed.
Print Assumptions C02_cse_total.

(* the current gene_cmp is a strict weak ordering on genes whose symbols belong
   to the symbol set, for every parameter (NaN included): irreflexive, and
   "neither is less" is transitive -- what std::map requires *)
Theorem C02_gene_cmp_repaired_strict_weak_order : forall ss, wf_sset_b ss = true ->
  (forall k, K (K0m ss) k -> gene_cmp_mem k k = false) /\
  (forall a b c, K (K0m ss) a -> K (K0m ss) b -> K (K0m ss) c ->
     gene_equiv gene_cmp_mem a b = true -> gene_equiv gene_cmp_mem b c = true -> gene_equiv gene_cmp_mem a c = true).
Proof. exact gene_cmp_swo. Qed.
Print Assumptions C02_gene_cmp_repaired_strict_weak_order.

(* ---- closure: every individual reachable from randomly created ones by
   any finite sequence of operators, for every draw stream, is well-formed *)
Theorem C02_reachable_wf : forall ss R patch, wf_sset_b ss = true -> forall i,
  reachable ss R patch i ->
  ind_ok_b ss patch (i_gen i) = true /\ rows (i_gen i) = R /\ cats (i_gen i) = ss_cats ss.
Proof. exact reachable_wf. Qed.
Print Assumptions C02_reachable_wf.

(* ---- so executing it never leaves the genome *)
Theorem C02_wf_exec_safe : forall ss patch g, ind_ok_b ss patch g = true -> active_tree g <> None.
Proof. exact wf_exec_safe. Qed.
Print Assumptions C02_wf_exec_safe.

Theorem C02_reachable_exec_safe : forall ss R patch, wf_sset_b ss = true -> forall i,
  reachable ss R patch i -> active_tree (i_gen i) <> None.
Proof. exact reachable_exec_safe. Qed.
Print Assumptions C02_reachable_exec_safe.

(* ---- the begin()/end() walk, active_symbols() and blocks() of a well-formed
   individual are defined within the fuel and never leave the genome *)
Theorem C02_iterator_walk_stays_inside : forall ss, wf_sset_b ss = true -> forall patch g,
  ind_ok_b ss patch g = true -> exists w, active_loci g = Some w /\ Forall (inside g) w.
Proof. exact active_loci_total. Qed.
Print Assumptions C02_iterator_walk_stays_inside.

Theorem C02_blocks_are_active_functions : forall ss, wf_sset_b ss = true -> forall patch g,
  ind_ok_b ss patch g = true ->
  exists b, blocks g = Some b /\ Forall (inside g) b /\
            Forall (fun l => exists ge, gene_at g l = Some ge /\ is_terminal (g_sym ge) = false) b.
Proof. exact blocks_total. Qed.
Print Assumptions C02_blocks_are_active_functions.

(* ---- fuel: the loops of the model never run out of it on well-formed input,
   so an operator returns no result only when the draw stream does not fit *)
Theorem C02_mutation_fuel_irrelevant : forall ss, wf_sset_b ss = true -> forall patch pgm i ds fuel,
  ind_ok_b ss patch (i_gen i) = true -> (S (rows (i_gen i) * cats (i_gen i)) <= fuel)%nat ->
  mut_loop fuel ss patch pgm (i_gen i) [best (i_gen i)] 0 ds =
  mut_loop (S (rows (i_gen i) * cats (i_gen i))) ss patch pgm (i_gen i) [best (i_gen i)] 0 ds.
Proof. exact mutation_fuel_irrelevant. Qed.
Print Assumptions C02_mutation_fuel_irrelevant.

Theorem C02_tree_crossover_copy_total : forall ss, wf_sset_b ss = true -> forall patch from,
  ind_ok_b ss patch from = true -> forall fuel to l,
  inside from l -> (rows from - l_index l <= fuel)%nat -> exists t, copy_tree fuel from to l = Some t.
Proof. exact copy_tree_total. Qed.
Print Assumptions C02_tree_crossover_copy_total.

Theorem C02_random_locus_exons_total : forall ss, wf_sset_b ss = true -> forall patch g,
  ind_ok_b ss patch g = true ->
  exists ex, exons_loop (S (rows g * cats g)) g [best g] (best g) = Some ex /\ ex <> [] /\ Forall (inside g) ex.
Proof. exact random_locus_exons. Qed.
Print Assumptions C02_random_locus_exons_total.

(* the property's well-formedness implies the shared one of Mep/Genome.v *)
Theorem C02_ind_ok_implies_wf_genome : forall ss patch g, ind_ok_b ss patch g = true -> wf_genome_b g = true.
Proof. exact ind_ok_wf_genome. Qed.
Print Assumptions C02_ind_ok_implies_wf_genome.

(* ---- teams: liftings member by member *)
Theorem C02_random_team_wf : forall ss, wf_sset_b ss = true -> forall patch R n ds t ds',
  random_team ss R patch n ds = Some (t, ds') -> team_ok ss patch R t /\ length t = n.
Proof. exact random_team_wf. Qed.
Print Assumptions C02_random_team_wf.

Theorem C02_team_mutation_wf : forall ss, wf_sset_b ss = true -> forall patch R pgm t ds t' n ds',
  team_ok ss patch R t -> team_mutation ss patch pgm t ds = Some (t', n, ds') ->
  team_ok ss patch R t' /\ length t' = length t.
Proof. exact team_mutation_wf. Qed.
Print Assumptions C02_team_mutation_wf.

Theorem C02_team_mutation_zero_is_identity : forall ss patch t ds t' n ds',
  team_mutation ss patch zero_bits t ds = Some (t', n, ds') -> t' = t /\ n = 0%nat.
Proof. exact team_mutation_zero. Qed.
Print Assumptions C02_team_mutation_zero_is_identity.

Theorem C02_team_crossover_wf : forall ss patch R l r ds t ds',
  team_ok ss patch R l -> team_ok ss patch R r ->
  team_crossover l r ds = Some (t, ds') -> team_ok ss patch R t /\ length t = length l.
Proof. exact team_crossover_wf. Qed.
Print Assumptions C02_team_crossover_wf.

(* ------------------------------------------------------------ non-vacuity *)
(* a two-category strongly typed symbol set with a parametric terminal, three
   rows, patch 1; a contract-abiding draw stream on which the constructor,
   every crossover precondition, mutation, destroy_block and cse all return a
   result *)
Definition ex_f0 : sym := {| s_opcode := 0; s_cat := 0; s_argcats := [0; 1]; s_parametric := false; s_strat := Ret Stuck |}.
Definition ex_t0 : sym := {| s_opcode := 1; s_cat := 0; s_argcats := []; s_parametric := false; s_strat := Ret Stuck |}.
Definition ex_p1 : sym := {| s_opcode := 2; s_cat := 1; s_argcats := []; s_parametric := true; s_strat := Ret Stuck |}.
Definition ex_ss : sset :=
  {| ss_cats := 2; ss_funs := [[(ex_f0, 100%Z)]; []]; ss_terms := [[(ex_t0, 100%Z)]; [(ex_p1, 100%Z)]] |}.
Definition ex_draws : list draw :=
  [DInt 0 4 0;
   DBool half_bits true; DInt 0 100 5; DInt 1 3 1; DInt 1 3 2;        (* [0,0] f0 1 2 *)
   DBool half_bits false; DInt 0 100 0; DInt (-100) 100 7;            (* [0,1] p1(7) *)
   DBool half_bits false; DInt 0 100 3;                               (* [1,0] t0 *)
   DBool half_bits true; DInt 0 100 1; DInt (-100) 100 9;             (* [1,1] p1(9): no function of category 1 *)
   DInt 0 100 0;                                                      (* [2,0] t0 *)
   DInt 0 100 0; DReal 0x4000000000000000]%Z.                         (* [2,1] p1(2.0) *)
Definition ex_ind : option ind :=
  match random_ind ex_ss 3 1 ex_draws with Some (i, []) => Some i | _ => None end.

Example C02_ex_sset_wf : wf_sset_b ex_ss = true.
Proof. vm_compute. reflexivity. Qed.
Example C02_ex_random_ind :
  match ex_ind with
  | Some i => ind_ok_b ex_ss 1 (i_gen i) && Nat.eqb (rows (i_gen i)) 3
  | None => false
  end = true.
Proof. vm_compute. reflexivity. Qed.
Definition is_some {A} (o : option A) : bool := match o with Some _ => true | None => false end.
Lemma is_some_exists {A} (o : option A) : is_some o = true -> exists x, o = Some x.
Proof. destruct o as [x|]; [eauto|discriminate]. Qed.
Example C02_ex_reachable : exists i, reachable ex_ss 3 1 i.
Proof.
  assert (H : is_some (random_ind ex_ss 3 1 ex_draws) = true) by (vm_compute; reflexivity).
  apply is_some_exists in H. destruct H as [[i ds'] E]. exists i. eapply R_random. exact E.
Qed.
Example C02_ex_operators_defined :
  match ex_ind with
  | Some i =>
      is_some (crossover (force_xover i OnePoint) i [DBool half_bits true; DInt 1 2 1]%Z) &&
      is_some (crossover (force_xover i TwoPoints) i [DBool half_bits false; DInt 0 2 0; DInt 1 3 2]%Z) &&
      is_some (crossover (force_xover i TreeX) i [DBool half_bits false; DInt 0 3 1]%Z) &&
      is_some (crossover (force_xover i UniformX) i
                 (DBool half_bits false :: repeat (DBool half_bits true) 6)) &&
      match mutation ex_ss 1 one_bits i
              [DBool one_bits true; DBool half_bits true; DInt 0 100 0; DInt 1 3 2; DInt 1 3 2;
               DBool one_bits true; DInt 0 100 0;
               DBool one_bits true; DInt 0 100 0; DInt (-100) 100 3]%Z with
      | Some (_, n, []) => Nat.eqb n 2
      | _ => false
      end &&
      is_some (destroy_block ex_ss i 0 [DInt 0 100 0; DInt 0 100 0; DInt (-100) 100 1]%Z) &&
      is_some (cse i) &&
      match active_loci (i_gen i), blocks (i_gen i) with
      | Some w, Some b => Nat.eqb (length w) 3 && Nat.eqb (length b) 1
      | _, _ => false
      end
  | None => false
  end = true.
Proof. vm_compute. reflexivity. Qed.

(* the boundary between gene::operator== and the order cse() needs: three
   ephemeral constants 1, 1.000008, 1.000016 -- neighbours are almost_equal
   (1e-5 relative tolerance), the outer pair is not, so a comparator built on
   almost_equal is not a strict weak ordering; an exact order (operator<, or the
   bytes compared by the current gene_cmp) distinguishes all three.  +0.0 and
   -0.0 are one key for operator< and two keys for the byte order. *)
Definition ex_na : f64 := F64.of_bits 0x3FF0000000000000.
Definition ex_nb : f64 := F64.of_bits 0x3FF00008637BD05B.
Definition ex_nc : f64 := F64.of_bits 0x3FF00010C6F7A0B6.
Example C02_ex_tolerance_boundary :
  almost_equal ex_na ex_nb = true /\ almost_equal ex_nb ex_nc = true /\ almost_equal ex_na ex_nc = false /\
  par_incomp ex_na ex_nb = false /\ par_incomp ex_nb ex_nc = false /\ par_incomp ex_na ex_nc = false /\
  par_incomp ex_nb ex_nb = true /\
  gene_equiv gene_cmp_mem pz nz = false /\ gene_equiv gene_cmp pz nz = true.
Proof. vm_compute. repeat split; reflexivity. Qed.

(* one-point crossover on 2 rows: the empty range between(1,1); every size_t
   the generator may hand back is accepted and copies rows cut..R-1 *)
Example C02_ex_one_point_two_rows :
  between_or_any 1 1 [DInt 1 1 (2 ^ 64 - 1)]%Z = Some ((2 ^ 64 - 1)%Z, []) /\
  rows_from (2 ^ 64 - 1) 2 = [] /\ rows_from 0 2 = [0; 1] /\ rows_from 1 2 = [1] /\
  between_or_any 1 2 [DInt 1 2 5]%Z = None.
Proof. vm_compute. repeat split; reflexivity. Qed.
