(* C02 -- Genetic operators only produce well-formed, well-typed individuals.
   Statements only; proofs in Mep/OpsProofs.v. *)
From Coq Require Import ZArith List Bool.
From VV Require Import Base.F64 Mep.Genome Mep.Draws Mep.OpsDefs Mep.OpsProofs.
Import ListNotations.
Local Open Scope Z_scope.

(* mutation with probability zero changes nothing, whatever the draw stream *)
Theorem C02_mutation_zero_is_identity : forall ss patch i ds i' n ds',
  mutation ss patch zero_bits i ds = Some (i', n, ds') -> i' = i /\ n = 0%nat.
Proof. exact mutation_zero_is_identity. Qed.
Print Assumptions C02_mutation_zero_is_identity.
