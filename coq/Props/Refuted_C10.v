(* C10 -- findings: on the PINNED tree (model variant [pinned_v], i.e. without
   the three width guards added by the fix: commits) the readers perform an
   out-of-bounds access on 2-line inputs.  Each witness is replayed on the
   real code by checks/c10.py (ASan report on the pinned tree, quiet on the
   repaired one).  The oracles are instantiated by constant functions; any
   other choice works as well. *)
From Coq Require Import ZArith List Bool.
From VV Require Import Csv.CsvDefs Csv.StateDefs Csv.StateProofs.
Import ListNotations.
Local Open Scope Z_scope.

Definition o_num : bytes -> bool := fun _ => true.
Definition o_conv : bytes -> conv := fun _ => CvOk 0.
Definition comma_no_header : dialect :=
  {| delimiter := 44; trim_ws := false; has_header := NO_HEADER; quoting := REMOVE_QUOTES |}.

(* "1,2\n3,4,5\n": columns_info::build indexes cols_ (2 columns) with field 2 of the wider second row *)
Theorem C10_read_csv_safe_pinned_build_refuted :
  exists text p, read_csv o_num o_conv o_conv pinned_v text p = OOB S_build_cols.
Proof.
  exists [49; 44; 50; 10; 51; 44; 52; 44; 53; 10],
         {| p_dialect := comma_no_header; p_filter := no_filter; p_output_index := Some O |}.
  vm_compute. reflexivity.
Qed.
Print Assumptions C10_read_csv_safe_pinned_build_refuted.

(* "1,2,3\n4\n" with output column 2: std::rotate past the end of the short second row *)
Theorem C10_read_csv_safe_pinned_rotate_refuted :
  exists text p, read_csv o_num o_conv o_conv pinned_v text p = OOB S_rotate_csv.
Proof.
  exists [49; 44; 50; 44; 51; 10; 52; 10],
         {| p_dialect := comma_no_header; p_filter := no_filter; p_output_index := Some 2%nat |}.
  vm_compute. reflexivity.
Qed.
Print Assumptions C10_read_csv_safe_pinned_rotate_refuted.

(* two attributes (output = the last one), an instance with a single value *)
Theorem C10_read_xrff_safe_pinned_rotate_refuted :
  exists dom, read_xrff o_num o_conv o_conv pinned_v dom no_filter = OOB S_rotate_xrff.
Proof.
  exists {| x_attributes := Some [ {| xa_name := [97]; xa_class_yes := false; xa_type := s_numeric; xa_labels := [] |};
                                   {| xa_name := [98]; xa_class_yes := false; xa_type := s_numeric; xa_labels := [] |} ];
            x_instances := Some [ [[49]] ] |}.
  vm_compute. reflexivity.
Qed.
Print Assumptions C10_read_xrff_safe_pinned_rotate_refuted.

(* the same inputs are handled by the repaired variant *)
Example C10_witnesses_fixed :
  read_csv o_num o_conv o_conv fixed_v [49; 44; 50; 10; 51; 44; 52; 44; 53; 10]
           {| p_dialect := comma_no_header; p_filter := no_filter; p_output_index := Some O |}
    = Ok {| columns := [ {| c_name := []; c_domain := DDouble; c_states := [] |};
                         {| c_name := []; c_domain := DDouble; c_states := [] |} ];
            classes := []; dataset := [ {| e_input := [VDouble 0]; e_output := VDouble 0 |} ] |}
  /\ read_csv o_num o_conv o_conv fixed_v [49; 44; 50; 44; 51; 10; 52; 10]
           {| p_dialect := comma_no_header; p_filter := no_filter; p_output_index := Some 2%nat |}
    = Ok {| columns := [ {| c_name := []; c_domain := DDouble; c_states := [] |};
                         {| c_name := []; c_domain := DDouble; c_states := [] |};
                         {| c_name := []; c_domain := DDouble; c_states := [] |} ];
            classes := []; dataset := [ {| e_input := [VDouble 0; VDouble 0]; e_output := VDouble 0 |} ] |}.
Proof. vm_compute. split; reflexivity. Qed.

(* Where "symbol set matches the frame" stops (state after reads on an existing src_problem;
   behaviour of the code, not repaired: the caller must call setup_symbols() after a
   SUCCESSFUL read).  All by vm_compute on "1,2,\n3,4,\n" followed by further reads:
   - after a read that FAILS (a bad cell / a column that appears late) the frame keeps
     examples whose width differs from the number of variables;
   - setup_symbols() on such a failed frame returns normally but a generated variable is out
     of range on a stored example (the check's harness does not run it);
   - even a read that returns normally leaves the OLD symbol set inconsistent when it turns
     a void column into a live one -- hence the setup_symbols premise of
     C10_src_problem_symbols_match_frame. *)
Example C10_symbols_after_failed_read_refuted :=
  (sx_failed_read_cell_refuted, sx_failed_read_late_refuted, sx_setup_symbols_after_failure_refuted,
   sx_successful_read_without_setup_refuted, sx_reread_then_setup_restores).
