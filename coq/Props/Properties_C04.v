(* C04 -- The fitness cache is transparent.

   Model: Cache/CacheDefs.v (cache.cc / cache_hash.h / evaluator_proxy.tcc,
   function by function, after the three fix: commits).  A signature is a pair
   of N, a fitness a list of 64-bit patterns, [] being the empty fitness that
   cache::find returns for "not found".  [Inv] is the invariant every table
   built by the constructor and changed only through the public interface
   satisfies (C04_inv_fresh, C04_inv_step).  Only theorem statements live
   here. *)
From Coq Require Import NArith List Bool.
From VV Require Import Cache.CacheDefs Cache.CacheProofs Cache.TableTypes Cache.CacheGenDefs Gen.CacheTable
  Cache.CacheGenDefs2 Cache.CacheGen.
Import ListNotations.
Local Open Scope N_scope.

(* the invariant holds initially and is kept by every operation, the wrap of
   the 32-bit seal included (no bound on the number of clears) *)
Theorem C04_inv_fresh : forall bits, Inv (fresh bits).
Proof. exact fresh_inv. Qed.
Print Assumptions C04_inv_fresh.

Theorem C04_inv_step : forall t o, Inv t -> Inv (step t o).
Proof. exact step_inv. Qed.
Print Assumptions C04_inv_step.

(* table level: EXACT refinement of the live map, one operation ...        *)
Theorem C04_step_refines : forall t o k', Inv t -> k' <> key0 ->
  find (step t o) k' = spec_step (tbits t) (find t) o k'.
Proof. exact step_refines. Qed.
Print Assumptions C04_step_refines.

(* ... and any history of store / clear-all / clear-one / save+load-into-a-
   fresh-table, any table size, any keys *)
Theorem C04_run_refines : forall ops t k, Inv t -> k <> key0 ->
  find (run ops t) k = spec_run (tbits t) ops (find t) k.
Proof. exact run_refines. Qed.
Print Assumptions C04_run_refines.

(* a lookup returns nothing, or the value of the LATEST store under exactly
   that signature, and then nothing after that store touched the slot: no
   clear, no clear-one and no store on the slot -- never a value stored under
   another signature or before a clear *)
Theorem C04_find_sound : forall bits ops k v, k <> key0 ->
  find (run ops (fresh bits)) k = v -> v <> [] ->
  exists pre post, ops = pre ++ Insert k v :: post /\ forallb (untouched bits k) post = true.
Proof. exact find_sound. Qed.
Print Assumptions C04_find_sound.

(* conversely the stored value IS returned as long as the slot is left alone *)
Theorem C04_find_complete : forall t pre post k v, Inv t -> k <> key0 ->
  forallb (untouched (tbits t) k) post = true ->
  find (run (pre ++ Insert k v :: post) t) k = v.
Proof. exact find_complete. Qed.
Print Assumptions C04_find_complete.

(* a lookup that immediately follows a store of the same signature returns the
   stored value: any table, any key *)
Theorem C04_find_after_insert : forall t k v, find (insert t k v) k = v.
Proof. exact find_after_insert. Qed.
Print Assumptions C04_find_after_insert.

(* after clear(key) EVERY non-zero signature of that slot finds nothing -- the
   small ones included, e.g. (slot index, 0), which differ from the zeroed
   stored key only in bits the slot index already fixes (no invariant needed) *)
Theorem C04_find_after_clear_one : forall t k k', k' <> key0 ->
  same_slot (tbits t) k' k = true -> find (clear_one t k) k' = [].
Proof. intros t k k' Hk Hs. rewrite clear_one_refines by exact Hk. rewrite Hs. reflexivity. Qed.
Print Assumptions C04_find_after_clear_one.

(* save, then load into a fresh table: succeeds and preserves every lookup *)
Theorem C04_save_load_fresh : forall t, Inv t ->
  exists t', load (save t) (fresh (tbits t)) = (true, t') /\ Inv t' /\ tbits t' = tbits t /\
             forall k, k <> key0 -> find t' k = find t k.
Proof. exact save_load_fresh. Qed.
Print Assumptions C04_save_load_fresh.

(* n clear() calls short of the wrap only advance the seal (justifies the
   harness writing seal_ directly in the quick tier) *)
Theorem C04_clears_closed_form : forall n t, seal t + n < M32 -> 0 < seal t -> 0 < n ->
  clears n t = mktable (tbits t) (slots t) (seal t + n).
Proof. exact clears_closed. Qed.
Print Assumptions C04_clears_closed_form.

(* n real clear() calls, any n, evaluated through the closed form with one
   real [clear] at each wrap (what the model driver does for the 2^32-clear
   script of the thorough tier) *)
Theorem C04_clears_fast_is_iterated_clear : forall fuel n t, Inv t ->
  (seal t - 1) + n < N.of_nat fuel * (M32 - 1) -> clears_fast fuel n t = clears n t.
Proof. exact clears_fast_ok. Qed.
Print Assumptions C04_clears_fast_is_iterated_clear.

(* proxy level: for every history of evaluations, clears and data changes in
   which a data change is followed by a clear before the next evaluation, the
   proxy returns at every step what the wrapped evaluator returns when called
   directly at that moment.  Hypothesis (explicit argument): A_hash on the
   evaluated individuals P.  (The proxy never calls clear(key), so the empty
   signature needs no exclusion here.) *)
Theorem C04_proxy_transparent :
  forall (ind data : Type) (sig : ind -> key) (eva : data -> ind -> fitness) (P : ind -> Prop),
  (forall x y, P x -> P y -> sig x = sig y -> forall d, eva d x = eva d y) ->
  forall bits d evs, wf_hist ind data P false evs ->
  prun ind data sig eva (mkp data (fresh bits) d) evs = direct ind data eva d evs.
Proof. exact proxy_transparent. Qed.
Print Assumptions C04_proxy_transparent.

(* the proxy with its serialisation: histories that also contain "save, then a
   NEW proxy loads" (evaluator_proxy::save/load, i.e. search::close and the
   next session's search::init) stay transparent and every load succeeds.
   Extra hypotheses, explicit: evaluated individuals have a non-empty
   signature; the wrapped evaluator reads back what it wrote. *)
Theorem C04_proxy_sessions_transparent :
  forall (ind data : Type) (sig : ind -> key) (eva evaf : data -> ind -> fitness) (P : ind -> Prop)
         (eva_toks : list tok) (eva_load : list tok -> option (list tok)),
  (forall x y, P x -> P y -> sig x = sig y -> forall d, eva d x = eva d y) ->
  (forall x, P x -> sig x <> key0) ->
  (forall r, eva_load (eva_toks ++ r) = Some r) ->
  forall bits d evs, qwf ind data P false evs ->
  qrun ind data sig eva evaf eva_toks eva_load (mkp data (fresh bits) d) evs = (qdirect ind data eva evaf d evs, true).
Proof. exact proxy_sessions_transparent. Qed.
Print Assumptions C04_proxy_sessions_transparent.

(* evaluator_proxy::fast hands out the wrapped evaluator's approximate value
   and leaves the proxy -- hence every later operator() answer -- unchanged;
   the histories of C04_proxy_sessions_transparent may contain QFast anywhere *)
Theorem C04_fast_leaves_cache :
  forall (ind data : Type) (sig : ind -> key) (eva evaf : data -> ind -> fitness)
         (eva_toks : list tok) (eva_load : list tok -> option (list tok)) (s : pstate data) (x : ind),
  fst (fst (qstep ind data sig eva evaf eva_toks eva_load s (QFast ind data x))) = s /\
  snd (fst (qstep ind data sig eva evaf eva_toks eva_load s (QFast ind data x))) = Some (evaf (pdata data s) x).
Proof. exact fast_leaves_cache. Qed.
Print Assumptions C04_fast_leaves_cache.

(* the histories evolution::run produces -- first evaluation, then per
   generation: if the validation strategy shakes (data change + clear of the
   cached evaluators) the best individual is RE-EVALUATED, then the offspring
   are evaluated; closed by save/load -- are of that kind: along a whole run
   the proxy answers like the wrapped evaluator, the refreshed fitness of the
   best individual included *)
Theorem C04_evolution_run_transparent :
  forall (ind data : Type) (sig : ind -> key) (eva evaf : data -> ind -> fitness) (P : ind -> Prop)
         (eva_toks : list tok) (eva_load : list tok -> option (list tok)),
  (forall x y, P x -> P y -> sig x = sig y -> forall d, eva d x = eva d y) ->
  (forall x, P x -> sig x <> key0) ->
  (forall r, eva_load (eva_toks ++ r) = Some r) ->
  forall bits d first gens,
  P first -> Forall (fun g => P (snd (fst g)) /\ Forall P (snd g)) gens ->
  qrun ind data sig eva evaf eva_toks eva_load (mkp data (fresh bits) d) (evolution_run ind data first gens) =
    (qdirect ind data eva evaf d (evolution_run ind data first gens), true).
Proof. exact evolution_run_transparent. Qed.
Print Assumptions C04_evolution_run_transparent.

(* a whole search session, the FIRST init included: optionally a cache
   restored from a previous session (search::load), individuals evaluated
   before the first run, then for every run -- run 0 as well --
   validation_strategy::init (data change + clear of the cached evaluators),
   the evolution, close (data change + clear), the final measurements; closed
   by search::save.  Every such history satisfies the premise of the proxy
   theorem, so the proxy is transparent along it.  (That the real dss::init
   clears for run 0 too is what the D scripts of the check exercise.) *)
Theorem C04_search_session_transparent :
  forall (ind data : Type) (sig : ind -> key) (eva evaf : data -> ind -> fitness) (P : ind -> Prop)
         (eva_toks : list tok) (eva_load : list tok -> option (list tok)),
  (forall x y, P x -> P y -> sig x = sig y -> forall d, eva d x = eva d y) ->
  (forall x, P x -> sig x <> key0) ->
  (forall r, eva_load (eva_toks ++ r) = Some r) ->
  forall bits d restored pre runs,
  Forall P pre -> Forall (run_inds ind data P) runs ->
  qrun ind data sig eva evaf eva_toks eva_load (mkp data (fresh bits) d) (search_session ind data restored pre runs) =
    (qdirect ind data eva evaf d (search_session ind data restored pre runs), true).
Proof. exact search_session_transparent. Qed.
Print Assumptions C04_search_session_transparent.

(* an empty fitness is never a hit: the wrapped evaluator is called again *)
Theorem C04_proxy_empty_recomputed : forall t sg now,
  snd (fst (proxy_eval (insert t sg []) sg now)) = true /\
  fst (fst (proxy_eval (insert t sg []) sg now)) = now.
Proof.
  intros. split; [exact (proxy_after_empty t sg now)|].
  unfold proxy_eval. rewrite find_after_insert. reflexivity.
Qed.
Print Assumptions C04_proxy_empty_recomputed.

(* ------------------------------------------------------------------------
   The same statements about the model of the code AS IT IS NOW: [now_find],
   [now_run], ... interpret Gen/CacheTable.v, the table-level facts
   REGENERATED from cache.cc / cache_hash.h on every run (hit condition of
   find, fields stamped by insert, what clear()/clear(key) write, the slot
   tests of save, the stamping of load, index(), operator==, empty()).  A
   source change that alters one of these facts changes the definition the
   theorems below are about, and they stop checking. *)
Theorem C04_generated_table_facts : gen_facts = std_facts.
Proof. exact gen_is_std. Qed.
Print Assumptions C04_generated_table_facts.

Theorem C04_now_inv_fresh : forall bits, Inv (now_fresh bits).
Proof. exact now_inv_fresh. Qed.
Print Assumptions C04_now_inv_fresh.

Theorem C04_now_inv_step : forall t o, Inv t -> Inv (now_step t o).
Proof. exact now_inv_step. Qed.
Print Assumptions C04_now_inv_step.

Theorem C04_now_run_refines : forall ops t k, Inv t -> k <> key0 ->
  now_find (now_run ops t) k = spec_run (tbits t) ops (now_find t) k.
Proof. exact now_run_refines. Qed.
Print Assumptions C04_now_run_refines.

Theorem C04_now_find_sound : forall bits ops k v, k <> key0 ->
  now_find (now_run ops (now_fresh bits)) k = v -> v <> [] ->
  exists pre post, ops = pre ++ Insert k v :: post /\ forallb (untouched bits k) post = true.
Proof. exact now_find_sound. Qed.
Print Assumptions C04_now_find_sound.

Theorem C04_now_find_complete : forall t pre post k v, Inv t -> k <> key0 ->
  forallb (untouched (tbits t) k) post = true ->
  now_find (now_run (pre ++ Insert k v :: post) t) k = v.
Proof. exact now_find_complete. Qed.
Print Assumptions C04_now_find_complete.

Theorem C04_now_find_after_insert : forall t k v, now_find (now_insert t k v) k = v.
Proof. exact now_find_after_insert. Qed.
Print Assumptions C04_now_find_after_insert.

Theorem C04_now_find_after_clear_one : forall t k k', k' <> key0 ->
  same_slot (tbits t) k' k = true -> now_find (now_clear_one t k) k' = [].
Proof. exact now_find_after_clear_one. Qed.
Print Assumptions C04_now_find_after_clear_one.

Theorem C04_now_save_load_fresh : forall t, Inv t ->
  exists t', now_load (now_save t) (now_fresh (tbits t)) = (true, t') /\ Inv t' /\ tbits t' = tbits t /\
             forall k, k <> key0 -> now_find t' k = now_find t k.
Proof. exact now_save_load_fresh. Qed.
Print Assumptions C04_now_save_load_fresh.

(* ---- non-vacuity ---- *)
(* a reachable state with a collision, a wrap of the seal, a clear-one and a
   save/load satisfies Inv and still answers *)
Example C04_nonvacuous_history :
  let ops := [Insert (1, 5) [7]; Insert (9, 5) [8; 9]; Clear; Insert (3, 1) [4]; ClearOne (11, 0);
              Insert (2, 2) []; Insert (6, 6) [1; 2; 3]; SaveLoad; Insert (1, 5) [10]] in
  find (run ops (fresh 3)) (6, 6) = [1; 2; 3] /\ find (run ops (fresh 3)) (1, 5) = [10] /\
  find (run ops (fresh 3)) (9, 5) = [] /\ find (run ops (fresh 3)) (3, 1) = [].
Proof. vm_compute. repeat split. Qed.

(* the wrap really happens inside Inv: one clear from seal 2^32-1 *)
Example C04_nonvacuous_wrap :
  let t := insert (warp (fresh 2) 1) (1, 5) [7] in
  seal t = M32 - 1 /\ find t (1, 5) = [7] /\ seal (clear t) = 1 /\ find (clear (clear t)) (1, 5) = [].
Proof. vm_compute. repeat split. Qed.

(* a two-generation run with a shake in the second one, then a new session *)
Example C04_nonvacuous_evolution :
  let sig := fun x : N => (x + 1, 7) in
  let eva := fun (d : N) (x : N) => [d * 10 + x] in
  let evs := evolution_run N N 3 [(None, 3, [4; 5; 4]); (Some 2, 4, [5; 6])] ++ [QEval N N 5; QEval N N 3] in
  qrun N N sig eva (fun d x => [d * 10 + x + 1000]) [TNum 4242; TNL] (fun s => match read_num s with Some (4242, r) => Some r | _ => None end)
       (mkp N (fresh 7) 1) evs =
  ([Some [13]; Some [14]; Some [15]; Some [14]; None; None; Some [24]; Some [25]; Some [26]; None;
    Some [25]; Some [23]], true).
Proof. vm_compute. reflexivity. Qed.

(* individuals evaluated on the full data BEFORE the first init, then run 0
   (init changes the data: the same individuals are recomputed), then run 1 *)
Example C04_nonvacuous_search_session :
  let sig := fun x : N => (x + 1, 7) in
  let eva := fun (d : N) (x : N) => [d * 10 + x] in
  let evs := search_session N N true [3; 4]
               [(2, 3, [(None, 3, [4]); (Some 5, 4, [3])], 6, [3]); (7, 4, [], 8, [])] in
  fst (qrun N N sig eva (fun d x => [d * 10 + x + 1000]) [TNum 4242; TNL] (fun s => match read_num s with Some (4242, r) => Some r | _ => None end)
            (mkp N (fresh 7) 1) evs) =
  [None; Some [13]; Some [14]; None; None; Some [23]; Some [24]; None; None; Some [54]; Some [53];
   None; None; Some [63]; None; None; Some [74]; None; None; None].
Proof. vm_compute. reflexivity. Qed.

(* fast() before, between and after operator() on the same individual: the
   approximate value never leaks into an exact answer, nor the reverse *)
Example C04_nonvacuous_fast :
  let sig := fun x : N => (x + 1, 7) in
  let evs := [QFast N N 3; QEval N N 3; QFast N N 3; QEval N N 3; QClear N N; QFast N N 3; QEval N N 3] in
  fst (qrun N N sig (fun d x => [d * 10 + x]) (fun d x => [d * 10 + x + 1000]) [TNum 4242; TNL]
            (fun s => match read_num s with Some (4242, r) => Some r | _ => None end) (mkp N (fresh 7) 1) evs) =
  [Some [1013]; Some [13]; Some [1013]; Some [13]; None; Some [1013]; Some [13]].
Proof. vm_compute. reflexivity. Qed.

(* the boundary of `k' <> key0`: clear(key) leaves a zeroed key, a live seal
   and the old fitness; the signature (slot index, 0) still finds nothing,
   whereas the excluded empty signature on slot 0 would see the stale value *)
Example C04_nonvacuous_clear_one_small_key :
  find (clear_one (insert (fresh 3) (11, 7) [9]) (11, 7)) (3, 0) = [] /\
  same_slot 3 (3, 0) (11, 7) = true /\
  find (clear_one (insert (fresh 3) (8, 7) [9]) (8, 7)) key0 = [9].
Proof. vm_compute. repeat split. Qed.

(* the proxy hypotheses are satisfiable with two individuals sharing a
   signature and data that changes the fitness; the proxy does hit *)
Example C04_nonvacuous_proxy :
  let sig := fun x : N => (x mod 2 + 1, 7) in
  let eva := fun (d : N) (x : N) => [d + x mod 2] in
  let evs := [PEval N N 4; PEval N N 6; PData N N 5; PClear N N; PEval N N 4] in
  prun N N sig eva (mkp N (fresh 7) 1) evs = [Some [1]; Some [1]; None; None; Some [5]] /\
  snd (fst (proxy_eval (insert (fresh 7) (1, 7) [1]) (1, 7) [9])) = false.
Proof. vm_compute. split; reflexivity. Qed.
