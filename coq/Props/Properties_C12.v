(* C12 -- A failed load leaves the target untouched.

   Model: coq/Serial/SerialDefs.v: every loader is
        X_load : stream -> X -> bool * X * stream
   written as the C++ is (temporaries, one commit point).  Each theorem holds
   for EVERY input stream (any bytes, not only prefixes or single-token damage
   of valid serialisations), EVERY target, and EVERY behaviour of the
   floating-point text oracle [read_f]; for the containers also for EVERY
   loader of the contained individual.  [fail_untouched ld] unfolds to
        forall s t, ret (ld s t) = false -> target (ld s t) = t.
   Nothing but statements lives in this file. *)
From Coq Require Import ZArith List Bool.
From VV Require Import Serial.SerialDefs Serial.SerialFailProofs Serial.SerialExtraProofs.
Import ListNotations.
Local Open Scope Z_scope.

Theorem C12_hash_load_fail_untouched : forall s t,
  ret (hash_load s t) = false -> target (hash_load s t) = t.
Proof. exact hash_fu. Qed.
Print Assumptions C12_hash_load_fail_untouched.

Theorem C12_fitness_load_fail_untouched : forall read_f s t,
  ret (fit_load read_f s t) = false -> target (fit_load read_f s t) = t.
Proof. exact fit_fu. Qed.
Print Assumptions C12_fitness_load_fail_untouched.

Theorem C12_i_mep_load_fail_untouched : forall read_f ss s t,
  ret (mep_load read_f ss s t) = false -> target (mep_load read_f ss s t) = t.
Proof. exact mep_fu. Qed.
Print Assumptions C12_i_mep_load_fail_untouched.

Theorem C12_i_ga_load_fail_untouched : forall s t,
  ret (ga_load s t) = false -> target (ga_load s t) = t.
Proof. exact ga_fu. Qed.
Print Assumptions C12_i_ga_load_fail_untouched.

Theorem C12_i_de_load_fail_untouched : forall read_f s t,
  ret (de_load read_f s t) = false -> target (de_load read_f s t) = t.
Proof. exact de_fu. Qed.
Print Assumptions C12_i_de_load_fail_untouched.

Theorem C12_team_load_fail_untouched : forall (I : Type) iload (idflt : I) s t,
  ret (team_load I iload idflt s t) = false -> target (team_load I iload idflt s t) = t.
Proof. exact team_fu. Qed.
Print Assumptions C12_team_load_fail_untouched.

Theorem C12_population_load_fail_untouched : forall (I : Type) iload (idflt : I) s t,
  ret (pop_load I iload idflt s t) = false -> target (pop_load I iload idflt s t) = t.
Proof. exact pop_fu. Qed.
Print Assumptions C12_population_load_fail_untouched.

Theorem C12_summary_load_fail_untouched : forall read_f (I : Type) iload (idflt : I) eread s t,
  ret (summary_load read_f I iload idflt eread s t) = false -> target (summary_load read_f I iload idflt eread s t) = t.
Proof. intros read_f I iload idflt eread. exact (summary_fu read_f I iload idflt eread). Qed.
Print Assumptions C12_summary_load_fail_untouched.

Theorem C12_distribution_load_fail_untouched : forall read_f s t,
  ret (dist_load read_f s t) = false -> target (dist_load read_f s t) = t.
Proof. exact dist_fu. Qed.
Print Assumptions C12_distribution_load_fail_untouched.

Theorem C12_matrix_load_fail_untouched : forall s t,
  ret (matrix_load s t) = false -> target (matrix_load s t) = t.
Proof. exact matrix_fu. Qed.
Print Assumptions C12_matrix_load_fail_untouched.

(* load_no_oob.  The loaders of the model use iteration and push_back only,
   except population::load: the repaired function, written in the checked
   vocabulary (indexing = nth_error; out of range = POob) with its final
   capacity loop over pop[l] / allowed[l], never indexes out of range, for
   EVERY stream, and computes exactly what pop_load computes. *)
Theorem C12_population_load_no_oob : forall (I : Type) iload (idflt : I) s,
  pop_load_chk I iload idflt s <> POob.
Proof. exact pop_load_chk_no_oob. Qed.
Print Assumptions C12_population_load_no_oob.

Theorem C12_population_load_checked_form_agrees : forall (I : Type) iload (idflt : I) s t,
  pop_load_chk I iload idflt s =
  match pop_load I iload idflt s t with (true, p, s') => POk p s' | (false, _, _) => PFail end.
Proof. exact pop_load_chk_agrees. Qed.
Print Assumptions C12_population_load_checked_form_agrees.

(* non-vacuity: failing loads exist, on targets with content (a truncated and
   a damaged stream), and a successful load does change the target *)
Example C12_failing_load_exists :
  ret (hash_load [49; 50; 32; 120] (7, 9)) = false /\
  ret (ga_load [51; 10; 50; 10; 53; 10] {| v_age := 1; v_genome := [4]; v_sig := (1, 2) |}) = false /\
  ga_load [51; 10; 49; 10; 53; 10] {| v_age := 1; v_genome := [4]; v_sig := (1, 2) |}
    = (true, {| v_age := 3; v_genome := [5]; v_sig := (0, 0) |}, [10]).
Proof. vm_compute. repeat split. Qed.
