(* C11 -- statements that are FALSE of the faithful model of the pinned tree
   (each replayed on the real code by ./check C11; fixed in the worktree unless
   noted). *)
From Coq Require Import ZArith List Bool.
From VV Require Import Serial.SerialDefs Serial.SerialFailProofs Serial.SerialExtraProofs.
Import ListNotations.
Local Open Scope Z_scope.

(* #4: i_mep::save_impl of the pinned tree printed the parameter with 6
   significant digits ([show6]).  As soon as two different constants print
   alike, two different individuals are saved to the same bytes and NO loader
   whatsoever reproduces both.  (fixed: save_float_to_stream) *)
Theorem C11_i_mep_pinned_save_roundtrip_refuted : forall show6 ss y a b,
  decode ss (sy_opcode y) = Some y -> is_param y = true -> a <> b -> show6 a = show6 b ->
  forall load : stream -> option mep, ~ (forall m, load (mep_save_pinned show6 ss m) = Some m).
Proof. exact mep_pinned_no_loader. Qed.
Print Assumptions C11_i_mep_pinned_save_roundtrip_refuted.

(* An empty fitness_t is saved as a blank line, which fitness_t::load skips
   together with all other white space: whatever follows is read instead
   (round trip of the EMPTY fitness inside a larger stream fails; the fitness
   round-trip theorem therefore asks for a non-empty vector).  Recorded with
   the cache (C04 #15), not fixed here. *)
Theorem C11_empty_fitness_roundtrip_refuted : forall s17 read_f rest t,
  fit_load read_f (fit_save s17 [] ++ rest) t = fit_load read_f rest t.
Proof. exact empty_fitness_invisible. Qed.
Print Assumptions C11_empty_fitness_roundtrip_refuted.

(* summary<T>::load of the pinned tree reads elapsed.count() (a 64-bit count of
   milliseconds, saved in full) into an `int`: the summary of a run longer than
   2^31 ms saves but does not load; with the reader of the full width it does.
   (fix: wt2-c11) *)
Theorem C11_summary_elapsed_int_roundtrip_refuted :
  exists x : summary vec_ind,
  ret (summary_load read_u64 vec_ind ga_load vec_default read_i32
         (summary_save show_u vec_ind ga_save vec_empty x) x) = false /\
  summary_load read_u64 vec_ind ga_load vec_default read_i64
         (summary_save show_u vec_ind ga_save vec_empty x) x = (true, x, [10]).
Proof. eexists. exact summary_elapsed_int_witness. Qed.
Print Assumptions C11_summary_elapsed_int_roundtrip_refuted.
