(* C17 -- finding on the pinned tree.

   "Randomly created real vectors lie inside the declared box" is false of the
   pinned random::between<double> for a box wider than the largest finite
   double: std::uniform_real_distribution computes u * (hi - lo) + lo, and
   hi - lo overflows.  Witness: [-1e308, 1e308], u = 0.5  ->  +inf.
   Replayed on the implementation: de_problem(2, {-1e308, 1e308}), i_de(problem)
   = (inf, inf).  Repaired by `fix: random::between<floating point> ...`; the
   positive theorem C17_de_creation_in_box is stated over the contract of
   random::between (lo <= v <= hi), which the repaired function honours on
   every logged draw of the correspondence runs. *)
From Coq Require Import ZArith List Bool.
From VV Require Import Base.F64 Ga.GaDefs.
Local Open Scope Z_scope.

(* 0xFFE1CCF385EBC8A0 = -1e308, 0x7FE1CCF385EBC8A0 = 1e308, 0x3FE0000000000000 = 0.5 *)
Theorem C17_de_creation_in_box_refuted :
  exists lo hi u, F64.ltb lo hi = true /\ F64.is_finite lo = true /\ F64.is_finite hi = true /\
    F64.leb F64.zero u = true /\ F64.ltb u f64_one = true /\
    F64.leb (between_real_pinned lo hi u) hi = false /\
    F64.is_finite (between_real_pinned lo hi u) = false.
Proof.
  exists (F64.of_bits 18438243695727462560), (F64.of_bits 9214871658872686752), (F64.of_bits 4602678819172646912).
  vm_compute. repeat split.
Qed.
Print Assumptions C17_de_creation_in_box_refuted.
