(* C11 -- the fitness cache (also after clears).

   Imported corollary: the cache model and its proofs belong to C04
   (coq/Cache/CacheDefs.v, coq/Cache/CacheProofs.v, tied to cache.cc by C04's
   own correspondence check).  For EVERY table reachable through the public
   interface ([Inv]: the constructor's invariant, kept by insert / clear() /
   clear(key), the wrap of the seal included), saving and loading into a fresh
   table of the same size succeeds and every key looks up alike -- in
   particular the entries invalidated by clear() stay invalid.  ./check C11
   replays that statement on the real cache: op scripts, then every key ever
   used is looked up in the original and in the reloaded cache. *)
From Coq Require Import NArith List Bool.
From VV Require Import Cache.CacheDefs Cache.CacheProofs.
Import ListNotations.
Local Open Scope N_scope.

Theorem C11_cache_save_load_identical_lookups : forall t, Inv t ->
  exists t', load (save t) (fresh (tbits t)) = (true, t') /\ Inv t' /\ tbits t' = tbits t /\
             forall k, k <> key0 -> find t' k = find t k.
Proof. exact save_load_fresh. Qed.
Print Assumptions C11_cache_save_load_identical_lookups.

(* non-vacuity: the invariant is met by the fresh table and kept by every operation *)
Example C11_cache_inv_met : forall bits o, Inv (fresh bits) /\ Inv (step (fresh bits) o).
Proof. intros. split; [exact (fresh_inv bits)|exact (step_inv _ o (fresh_inv bits))]. Qed.
