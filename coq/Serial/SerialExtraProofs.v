(* C11/C12, second part: idempotence of save, signatures, satisfiability of the
   floating-point hypotheses, the defects of the pinned tree as theorems, and
   the index safety of the repaired population::load. *)
From Coq Require Import ZArith List Bool Lia ZifyBool.
From VV Require Import Serial.SerialDefs Serial.CodecProofs Serial.SerialProofs Serial.SerialFailProofs Serial.LoopProofs.
Import ListNotations.
Local Open Scope Z_scope.

(* ---------------------------------------------- save (reloaded) = save x *)
Lemma mep_save_norm : forall s17 ss m, mep_save s17 ss (mep_norm m) = mep_save s17 ss m.
Proof. reflexivity. Qed.
Lemma ga_save_norm : forall v, ga_save (vec_norm v) = ga_save v.
Proof. reflexivity. Qed.
Lemma de_save_norm : forall s17 v, de_save s17 (vec_norm v) = de_save s17 v.
Proof. reflexivity. Qed.

Lemma flat_map_map : forall A (f : A -> stream) (g : A -> A) l,
  (forall x, f (g x) = f x) -> flat_map f (map g l) = flat_map f l.
Proof. induction l as [|x l IH]; intro H; [reflexivity|]. cbn [map flat_map]. now rewrite H, IH. Qed.

Lemma team_save_norm : forall I (isave : I -> stream) inorm t,
  (forall x, isave (inorm x) = isave x) ->
  team_save I isave (team_norm I inorm t) = team_save I isave t.
Proof.
  intros I isave inorm t H. unfold team_save, team_norm. cbn [t_inds].
  unfold zlen. rewrite map_length. now rewrite flat_map_map.
Qed.

Lemma pop_save_norm : forall I (isave : I -> stream) inorm p,
  (forall x, isave (inorm x) = isave x) ->
  pop_save I isave (map (layer_norm I inorm) p) = pop_save I isave p.
Proof.
  intros I isave inorm p H. unfold pop_save. unfold zlen at 1. rewrite map_length. fold (zlen p).
  f_equal. f_equal. apply flat_map_map. intros [al l]. unfold layer_save, layer_norm. cbn [fst snd].
  unfold zlen. rewrite map_length. now rewrite flat_map_map.
Qed.

(* ------------------------------------------------------------ signatures *)
(* signature(): the cached value when there is one, else the hash of the
   content; is_valid(): the cache is empty or equals that hash *)
Definition mep_signature (h : mep -> hash) (m : mep) : hash :=
  if (fst (m_sig m) =? 0) && (snd (m_sig m) =? 0) then h (mep_norm m) else m_sig m.
Definition mep_sig_valid (h : mep -> hash) (m : mep) : Prop :=
  m_sig m = hash_empty \/ m_sig m = h (mep_norm m).

Lemma mep_signature_norm : forall h m, mep_sig_valid h m ->
  mep_signature h (mep_norm m) = mep_signature h m.
Proof.
  intros h m [H|H]; unfold mep_signature; cbn [mep_norm m_sig hash_empty fst snd Z.eqb andb].
  - rewrite H. reflexivity.
  - destruct ((fst (m_sig m) =? 0) && (snd (m_sig m) =? 0)) eqn:E; [reflexivity|]. now rewrite H.
Qed.

(* ------------------------- the floating-point hypotheses are satisfiable *)
Lemma skip_ws_all : forall pre, all_ws pre -> skip_ws pre = [].
Proof. intros pre H. rewrite <- (app_nil_r pre). now rewrite skip_ws_app. Qed.

Lemma read_int_blank : forall u lo hi pre, all_ws pre -> read_int u lo hi pre = None.
Proof. intros u lo hi pre H. unfold read_int. rewrite (skip_ws_all pre H). reflexivity. Qed.

Lemma digits_no_ws : forall l, all_digits l -> no_ws l.
Proof.
  induction l as [|c l IH]; intro H; [reflexivity|]. inversion H; subst.
  unfold no_ws. cbn [forallb]. rewrite (digit_not_ws c) by assumption. cbn. now apply IH.
Qed.

(* a toy instance: the "text" of a double is the decimal of its pattern *)
Lemma toy_float_text_ok : float_text_ok show_u read_u64.
Proof.
  intros x Hx. unfold finite_b in Hx.
  assert (Hr : is_u64 x) by (unfold is_u64, u64_max; lia).
  split; [|split].
  - destruct (show_u_nonempty x) as (c & l & E & _). rewrite E. discriminate.
  - apply digits_no_ws, show_u_digits.
  - intros pre rest Hp Hs. apply read_u64_show; [assumption|assumption|now apply sep_start_nds].
Qed.
Lemma toy_blank_fails : blank_fails read_u64.
Proof. intros pre H. now apply read_int_blank. Qed.

(* ------------------------------------- the pinned i_mep::save_impl (#4) *)
(* With 6 significant digits two different constants print alike; then two
   different individuals are saved to the same bytes, and NO load function can
   reproduce both. *)
Lemma mep_pinned_not_injective : forall show6 ss y a b,
  decode ss (sy_opcode y) = Some y -> is_param y = true -> a <> b -> show6 a = show6 b ->
  exists m1 m2, m1 <> m2 /\ mep_save_pinned show6 ss m1 = mep_save_pinned show6 ss m2.
Proof.
  intros show6 ss y a b Hd Hp Hab Hs.
  exists {| m_age := 0; m_cols := 1; m_genes := [{| g_op := sy_opcode y; g_par := a; g_args := [] |}];
            m_best := (0, 0); m_sig := hash_empty |},
         {| m_age := 0; m_cols := 1; m_genes := [{| g_op := sy_opcode y; g_par := b; g_args := [] |}];
            m_best := (0, 0); m_sig := hash_empty |}.
  split; [intro E; inversion E; contradiction|].
  unfold mep_save_pinned, mep_rows, gene_save_pinned.
  cbn [m_age m_cols m_genes m_best g_op g_par g_args flat_map zlen length]. rewrite Hd, Hp, Hs. reflexivity.
Qed.

Lemma mep_pinned_no_loader : forall show6 ss y a b,
  decode ss (sy_opcode y) = Some y -> is_param y = true -> a <> b -> show6 a = show6 b ->
  forall load : stream -> option mep,
  ~ (forall m, load (mep_save_pinned show6 ss m) = Some m).
Proof.
  intros show6 ss y a b Hd Hp Hab Hs load H.
  destruct (mep_pinned_not_injective show6 ss y a b Hd Hp Hab Hs) as (m1 & m2 & Hne & He).
  pose proof (H m1) as H1. rewrite He, (H m2) in H1. inversion H1. congruence.
Qed.

(* ----------------------- an empty fitness is invisible to fitness_t::load *)
Lemma empty_fitness_invisible : forall s17 read_f rest t,
  fit_load read_f (fit_save s17 [] ++ rest) t = fit_load read_f rest t.
Proof. reflexivity. Qed.

(* ------------------- index safety of the repaired population::load ------ *)
Section Chk.
Variable I : Type.
Variable iload : stream -> I -> lres I.
Variable idflt : I.

Lemma layers_chk_inv : forall fuel n s pop al,
  length pop = length al ->
  match layers_chk I iload idflt fuel n s pop al with
  | POk (pop', al') _ => length pop' = length al'
  | PFail => True
  | POob => False
  end.
Proof.
  induction fuel as [|f IH]; intros n s pop al H; cbn [layers_chk].
  - destruct (n <=? 0); [exact H|exact Logic.I].
  - destruct (n <=? 0); [exact H|].
    destruct (read_u32 s) as [[a s1]|]; [|exact Logic.I].
    destruct (read_u32 s1) as [[ne s2]|]; [|exact Logic.I].
    destruct (rep _ _ _ _) as [[v s3]|]; [|exact Logic.I].
    apply IH. repeat rewrite app_length. cbn. lia.
Qed.

Lemma reserve_loop_ok : forall k l (pop : list (list I)) (al : list Z),
  length pop = length al -> (l + k <= length pop)%nat -> reserve_loop I k l pop al = true.
Proof.
  induction k as [|k IH]; intros l pop al H Hk; [reflexivity|].
  cbn [reserve_loop].
  destruct (nth_error pop l) eqn:E1; [|apply nth_error_None in E1; lia].
  destruct (nth_error al l) eqn:E2; [|apply nth_error_None in E2; lia].
  apply IH; [assumption|lia].
Qed.

Lemma pop_load_chk_no_oob : forall s, pop_load_chk I iload idflt s <> POob.
Proof.
  intro s. unfold pop_load_chk.
  destruct (read_u32 s) as [[n s1]|]; [|discriminate].
  destruct (n =? 0); [discriminate|].
  pose proof (layers_chk_inv (length s1) n s1 [] [] eq_refl) as H.
  destruct (layers_chk I iload idflt (length s1) n s1 [] []) as [[pop al] s2| |]; [|discriminate|contradiction].
  rewrite reserve_loop_ok; [discriminate|assumption|lia].
Qed.

(* the checked form computes what pop_load computes *)
Lemma layers_chk_rep : forall fuel n s pop al,
  layers_chk I iload idflt fuel n s pop al =
  match rep (layer_parse I iload idflt) fuel n s with
  | Some (ls, s') => POk (pop ++ map snd ls, al ++ map fst ls) s'
  | None => PFail
  end.
Proof.
  induction fuel as [|f IH]; intros n s pop al; cbn [layers_chk rep].
  - destruct (n <=? 0); [|reflexivity]. cbn [map]. now repeat rewrite app_nil_r.
  - destruct (n <=? 0); [cbn [map]; now repeat rewrite app_nil_r|].
    unfold layer_parse at 1.
    destruct (read_u32 s) as [[a s1]|]; [|reflexivity].
    destruct (read_u32 s1) as [[ne s2]|]; [|reflexivity].
    destruct (rep (ind_parse I iload idflt) (length s2) ne s2) as [[v s3]|]; [|reflexivity].
    rewrite IH.
    destruct (rep (layer_parse I iload idflt) f (n - 1) s3) as [[ls s']|]; [|reflexivity].
    cbn [map fst snd]. now repeat rewrite <- app_assoc.
Qed.

Lemma combine_fst_snd : forall (ls : list (layer I)), combine (map fst ls) (map snd ls) = ls.
Proof. induction ls as [|[a b] ls IH]; [reflexivity|]. cbn [map combine fst snd]. now rewrite IH. Qed.

Lemma pop_load_chk_agrees : forall s t,
  pop_load_chk I iload idflt s =
  match pop_load I iload idflt s t with
  | (true, p, s') => POk p s'
  | (false, _, _) => PFail
  end.
Proof.
  intros s t. unfold pop_load_chk, pop_load.
  destruct (read_u32 s) as [[n s1]|]; [|reflexivity].
  destruct (n =? 0); [reflexivity|].
  rewrite layers_chk_rep.
  destruct (rep (layer_parse I iload idflt) (length s1) n s1) as [[ls s']|]; [|reflexivity].
  cbn [app]. rewrite reserve_loop_ok; [|now repeat rewrite map_length|rewrite map_length; lia].
  now rewrite combine_fst_snd.
Qed.
End Chk.

(* ---- the pinned population::load indexes out of bounds as soon as the
   stream announces two layers and the first one parses *)
Lemma pinned_pop_oob_witness :
  pop_load_pinned vec_ind ga_load [(1, [vec_default])] [50; 10; 49; 32; 48; 10; 49; 32; 48; 10] [] = POob.
Proof. vm_compute. reflexivity. Qed.
(* ... and past layer 0 when the stream announces more individuals than env.individuals *)
Lemma pinned_pop_oob_witness2 :
  pop_load_pinned vec_ind ga_load [(1, [vec_default])]
    [49; 10; 50; 32; 50; 10; 48; 10; 48; 10; 48; 10; 48; 10] [] = POob.
Proof. vm_compute. reflexivity. Qed.

(* ---- a concrete tower: populations of teams of MEP individuals ---- *)
Lemma mep_save_len : forall s17 ss m, (0 < length (mep_save s17 ss m))%nat.
Proof. intros. unfold mep_save. repeat rewrite app_length. cbn [length]. lia. Qed.
Lemma team_save_len : forall I isave t, (0 < length (team_save I isave t))%nat.
Proof. intros. unfold team_save. repeat rewrite app_length. cbn [length]. lia. Qed.

Lemma pop_of_teams_rt : forall show17 read_f, float_text_ok show17 read_f ->
  forall ss p, wf_pop (team mep) (wf_team mep (wf_mep ss)) p ->
  rt_spec (pop_save (team mep) (team_save mep (mep_save show17 ss)))
          (pop_load (team mep) (team_load mep (mep_load read_f ss) mep_default) team_default)
          (map (layer_norm (team mep) (team_norm mep mep_norm))) p.
Proof.
  intros show17 read_f H ss p Hp.
  apply (pop_rt (team mep) _ _ team_default (team_norm mep mep_norm) (wf_team mep (wf_mep ss))).
  - intros t Ht. apply (team_rt mep _ _ mep_default mep_norm (wf_mep ss)).
    + intros m Hm. now apply mep_rt.
    + intros. apply mep_save_len.
    + exact Ht.
  - intros. apply team_save_len.
  - exact Hp.
Qed.

(* ---- distribution::save accepts what the round-trip theorem covers ---- *)
Lemma dist_save_ok_wf : forall d, wf_dist d -> dist_save_ok d = true.
Proof.
  intros d (_ & Hm & Hmn & Hmx & Hm2 & _ & Hkv & _). unfold dist_save_ok.
  rewrite Hm, Hmn, Hmx, Hm2. cbn [andb].
  apply forallb_forall. intros kv Hin. rewrite Forall_forall in Hkv. now destruct (Hkv kv Hin).
Qed.

(* ---- progress of every element parser used by a loop ---- *)
Lemma element_parsers_prog : forall read_f ss,
  prog read_i32 /\ prog (rdf read_f) /\ prog (gene_parse read_f ss) /\ prog (kv_parse read_f) /\
  prog (ind_parse mep (mep_load read_f ss) mep_default) /\
  prog (ind_parse vec_ind ga_load vec_default) /\ prog (ind_parse vec_ind (de_load read_f) vec_default) /\
  (forall (I : Type) iload (idflt : I), lprog iload ->
     prog (ind_parse I iload idflt) /\ lprog (team_load I iload idflt) /\ prog (layer_parse I iload idflt)).
Proof.
  intros read_f ss.
  split; [apply read_int_prog|]. split; [apply rdf_prog|]. split; [apply gene_parse_prog|].
  split; [apply kv_parse_prog|].
  split; [apply ind_parse_prog, mep_load_lprog|].
  split; [apply ind_parse_prog, ga_load_lprog|].
  split; [apply ind_parse_prog, de_load_lprog|].
  intros I iload idflt Hi.
  split; [now apply ind_parse_prog|]. split; [now apply team_load_lprog|now apply layer_parse_prog].
Qed.

(* ---- summary<T>::load of the pinned tree reads the elapsed time into an int:
   a summary saved after 2^31 ms (24.8 days) cannot be loaded ---- *)
Lemma summary_elapsed_int_witness :
  let x := {| su_sol := vec_default; su_fit := []; su_acc := minus_one; su_elapsed := 2147483648;
              su_mutations := 0; su_crossovers := 0; su_gen := 0; su_last_imp := 0 |} in
  ret (summary_load read_u64 vec_ind ga_load vec_default read_i32
         (summary_save show_u vec_ind ga_save vec_empty x) x) = false /\
  summary_load read_u64 vec_ind ga_load vec_default read_i64
         (summary_save show_u vec_ind ga_save vec_empty x) x = (true, x, [10]).
Proof. vm_compute. split; reflexivity. Qed.

Lemma loops_fuel_free : forall A (p : parser A), prog p ->
  forall n s fuel, (length s <= fuel)%nat ->
  Reps p n s (rep p fuel n s) /\ rep p fuel n s = rep p (length s) n s.
Proof.
  intros A p Hp n s fuel Hf. split; [now apply rep_computes|].
  apply rep_fuel_indep; [assumption|assumption|apply Nat.le_refl].
Qed.
Lemma loop_det : forall A (p : parser A) n s r1 r2, Reps p n s r1 -> Reps p n s r2 -> r1 = r2.
Proof. intros. eapply Reps_det; eassumption. Qed.
Lemma args_loop_fuel_free : forall (p : parser Z) arity s,
  Reps p (Z.of_nat arity) s (rep p arity (Z.of_nat arity) s).
Proof. intros. apply rep_computes_count. apply Z.le_refl. Qed.
Lemma elapsed_readers : forall n pre r, all_ws pre -> nds r ->
  (is_i32 n -> read_i32 (pre ++ show_i n ++ r) = Some (n, r)) /\
  (i64_min <= n <= i64_max -> read_i64 (pre ++ show_i n ++ r) = Some (n, r)).
Proof. intros n pre r Hp Hr. split; intro Hn; [now apply read_i32_show|now apply read_int_show_i]. Qed.
