(* Decimal codec: what operator>> reads back from what operator<< printed. *)
From Coq Require Import ZArith List Bool Lia ZifyBool.
From VV Require Import Serial.SerialDefs.
Import ListNotations.
Local Open Scope Z_scope.

Definition all_ws (p : stream) : Prop := forallb is_ws p = true.
(* the rest of the stream does not continue a number *)
Definition nds (r : stream) : Prop := match r with c :: _ => is_digit c = false | [] => True end.
Definition all_digits (l : stream) : Prop := Forall (fun c => is_digit c = true) l.

Lemma all_ws_nil : all_ws []. Proof. reflexivity. Qed.
Lemma all_ws_nl : all_ws [10]. Proof. reflexivity. Qed.
Lemma all_ws_sp : all_ws [32]. Proof. reflexivity. Qed.
Lemma nds_nl : forall r, nds (10 :: r). Proof. reflexivity. Qed.
Lemma nds_sp : forall r, nds (32 :: r). Proof. reflexivity. Qed.
Lemma all_ws_app : forall a b, all_ws a -> all_ws b -> all_ws (a ++ b).
Proof. unfold all_ws. intros. rewrite forallb_app. now rewrite H, H0. Qed.

Lemma skip_ws_app : forall pre s, all_ws pre -> skip_ws (pre ++ s) = skip_ws s.
Proof.
  induction pre as [|c pre IH]; intros s H; [reflexivity|].
  unfold all_ws in H. cbn [forallb] in H. apply andb_prop in H as [Hc Hp].
  cbn [app skip_ws]. rewrite Hc. now apply IH.
Qed.

Lemma digit_not_ws : forall c, is_digit c = true -> is_ws c = false.
Proof. unfold is_digit, is_ws. intros. lia. Qed.

(* ---- digits ---- *)
Definition dstep (a c : Z) : Z := 10 * a + (c - 48).

Lemma read_digits_app : forall ds r acc k, all_digits ds -> nds r ->
  read_digits (ds ++ r) acc k = (fold_left dstep ds acc, (k + length ds)%nat, r).
Proof.
  induction ds as [|d ds IH]; intros r acc k Hd Hr.
  - cbn [app fold_left length]. rewrite Nat.add_0_r.
    destruct r as [|c r]; [reflexivity|]. cbn [read_digits]. cbn in Hr. now rewrite Hr.
  - inversion Hd as [|? ? Hd1 Hd2]; subst.
    cbn [app read_digits fold_left length]. rewrite Hd1. rewrite IH by assumption.
    f_equal. f_equal. lia.
Qed.

Lemma digs_digits : forall f n, all_digits (digs f n).
Proof.
  induction f as [|f IH]; intro n; cbn [digs]; [constructor|].
  destruct (n <=? 0) eqn:E; [constructor|]. constructor; [|apply IH].
  unfold is_digit. pose proof (Z.mod_pos_bound n 10). lia.
Qed.

Lemma digs_value : forall f n, 0 <= n < 2 ^ Z.of_nat f ->
  fold_right (fun c a => dstep a c) 0 (digs f n) = n.
Proof.
  induction f as [|f IH]; intros n Hn.
  - cbn in Hn. cbn. lia.
  - cbn [digs]. destruct (n <=? 0) eqn:E; [cbn; lia|].
    cbn [fold_right]. rewrite IH.
    + unfold dstep. pose proof (Z.div_mod n 10). lia.
    + rewrite Nat2Z.inj_succ, Z.pow_succ_r in Hn by lia.
      split; [apply Z.div_pos; lia|].
      apply Z.div_lt_upper_bound; lia.
Qed.

Lemma fold_left_rev : forall (l : stream) a,
  fold_left dstep (rev l) a = fold_right (fun c a => dstep a c) a l.
Proof.
  induction l as [|x l IH]; intro a; [reflexivity|].
  cbn [rev fold_right]. rewrite fold_left_app. cbn [fold_left]. now rewrite IH.
Qed.

Lemma show_u_digits : forall n, all_digits (show_u n).
Proof.
  intro n. unfold show_u. destruct (n <=? 0).
  - constructor; [reflexivity|constructor].
  - unfold all_digits. apply Forall_rev. apply digs_digits.
Qed.

Lemma show_u_value : forall n, 0 <= n -> fold_left dstep (show_u n) 0 = n.
Proof.
  intros n Hn. unfold show_u. destruct (n <=? 0) eqn:E.
  - cbn. lia.
  - rewrite fold_left_rev. apply digs_value.
    split; [lia|]. rewrite Nat2Z.inj_succ, Z2Nat.id by apply Z.log2_nonneg.
    apply Z.log2_spec. lia.
Qed.

Lemma show_u_nonempty : forall n, exists c l, show_u n = c :: l /\ is_digit c = true.
Proof.
  intro n. pose proof (show_u_digits n) as Hd.
  destruct (show_u n) as [|c l] eqn:E.
  - exfalso. unfold show_u in E. destruct (n <=? 0) eqn:E0; [discriminate|].
    cbn [digs] in E. rewrite E0 in E. cbn [rev] in E.
    destruct (rev (digs (Z.to_nat (Z.log2 n)) (n / 10))); discriminate.
  - exists c, l. split; [reflexivity|]. now inversion Hd.
Qed.

Lemma length_show_u_pos : forall n, (0 < length (show_u n))%nat.
Proof. intro n. destruct (show_u_nonempty n) as (c & l & E & _). rewrite E. cbn. lia. Qed.

(* operator>> reads back what operator<< printed (unsigned) *)
Lemma read_int_show_u : forall hi n pre r, 0 <= n <= hi -> all_ws pre -> nds r ->
  read_int true 0 hi (pre ++ show_u n ++ r) = Some (n, r).
Proof.
  intros hi n pre r Hn Hpre Hr. unfold read_int.
  rewrite skip_ws_app by assumption.
  destruct (show_u_nonempty n) as (c & l & E & Hc).
  pose proof (show_u_digits n) as Hd. pose proof (show_u_value n (proj1 Hn)) as Hv.
  pose proof (read_digits_app (show_u n) r 0 0 Hd Hr) as Hrd.
  rewrite E in *. cbn [app skip_ws]. rewrite (digit_not_ws c Hc).
  assert (H45 : (c =? 45) = false) by (unfold is_digit in Hc; lia).
  assert (H43 : (c =? 43) = false) by (unfold is_digit in Hc; lia).
  rewrite H45, H43.
  cbn [app] in Hrd. rewrite Hrd. cbn [length Nat.add].
  rewrite Hv. destruct (n <=? hi) eqn:E1; [reflexivity|lia].
Qed.

Lemma read_int_show_i : forall lo hi n pre r, lo <= n <= hi -> all_ws pre -> nds r ->
  read_int false lo hi (pre ++ show_i n ++ r) = Some (n, r).
Proof.
  intros lo hi n pre r Hn Hpre Hr. unfold read_int, show_i.
  rewrite skip_ws_app by assumption.
  destruct (n <? 0) eqn:En.
  - pose proof (show_u_digits (- n)) as Hd.
    assert (H0 : 0 <= - n) by lia. pose proof (show_u_value (- n) H0) as Hv.
    pose proof (read_digits_app (show_u (- n)) r 0 0 Hd Hr) as Hrd.
    pose proof (length_show_u_pos (- n)) as Hl.
    cbn [app skip_ws]. replace (is_ws 45) with false by reflexivity.
    replace (45 =? 45) with true by reflexivity.
    rewrite Hrd. cbn [Nat.add]. destruct (length (show_u (- n))); [lia|].
    rewrite Hv. replace (- - n) with n by lia.
    destruct ((lo <=? n) && (n <=? hi)) eqn:E1; [reflexivity|lia].
  - destruct (show_u_nonempty n) as (c & l & E & Hc).
    assert (H0 : 0 <= n) by lia.
    pose proof (show_u_digits n) as Hd. pose proof (show_u_value n H0) as Hv.
    pose proof (read_digits_app (show_u n) r 0 0 Hd Hr) as Hrd.
    rewrite E in *. cbn [app skip_ws]. rewrite (digit_not_ws c Hc).
    assert (H45 : (c =? 45) = false) by (unfold is_digit in Hc; lia).
    assert (H43 : (c =? 43) = false) by (unfold is_digit in Hc; lia).
    rewrite H45, H43.
    cbn [app] in Hrd. rewrite Hrd. cbn [length Nat.add].
    rewrite Hv. destruct ((lo <=? n) && (n <=? hi)) eqn:E1; [reflexivity|lia].
Qed.

(* every successful extraction consumes at least one byte *)
Lemma read_digits_len : forall s acc k v n r, read_digits s acc k = (v, n, r) ->
  (length r + n = length s + k)%nat.
Proof.
  induction s as [|c s IH]; intros acc k v n r H; cbn [read_digits] in H.
  - inversion H; subst. reflexivity.
  - destruct (is_digit c).
    + apply IH in H. cbn [length]. lia.
    + inversion H; subst. reflexivity.
Qed.

Lemma skip_ws_len : forall s, (length (skip_ws s) <= length s)%nat.
Proof.
  induction s as [|c s IH]; cbn [skip_ws length]; [lia|].
  destruct (is_ws c); cbn [length]; lia.
Qed.

Lemma read_int_progress : forall u lo hi s v r, read_int u lo hi s = Some (v, r) ->
  (length r < length s)%nat.
Proof.
  intros u lo hi s v r H. unfold read_int in H.
  pose proof (skip_ws_len s) as Hs.
  remember (skip_ws s) as s1.
  destruct (match s1 with
            | c :: r0 => if c =? 45 then (true, r0) else if c =? 43 then (false, r0) else (false, s1)
            | [] => (false, s1) end) as [neg s2] eqn:E2.
  assert (Hl2 : (length s2 <= length s1)%nat).
  { destruct s1 as [|c s1']; [inversion E2; subst; cbn; lia|].
    destruct (c =? 45); [inversion E2; subst; cbn [length]; lia|].
    destruct (c =? 43); inversion E2; subst; cbn [length]; lia. }
  destruct (read_digits s2 0 0) as [[v0 n] s3] eqn:E3.
  apply read_digits_len in E3.
  destruct n as [|n]; [discriminate|].
  assert (length s3 < length s)%nat by lia.
  destruct u.
  - destruct (v0 <=? hi); [|discriminate]. inversion H; subst. assumption.
  - destruct ((lo <=? (if neg then - v0 else v0)) && ((if neg then - v0 else v0) <=? hi)); [|discriminate].
    inversion H; subst. assumption.
Qed.
