(* C12: a load that reports failure leaves the target exactly as it was, for
   EVERY input stream (and every behaviour of the floating-point oracles). *)
From Coq Require Import ZArith List Bool Lia.
From VV Require Import Serial.SerialDefs.
Import ListNotations.
Local Open Scope Z_scope.

Definition ret {T} (r : lres T) : bool := fst (fst r).
Definition target {T} (r : lres T) : T := snd (fst r).

(* the statement, for a loader *)
Definition fail_untouched {T} (ld : stream -> T -> lres T) : Prop :=
  forall s t, ret (ld s t) = false -> target (ld s t) = t.

Ltac split_matches :=
  repeat match goal with
         | |- context [match ?x with _ => _ end] => destruct x eqn:?; cbn [fst snd ret target] in *
         | H : context [match ?x with _ => _ end] |- _ => destruct x eqn:?; cbn [fst snd ret target] in *
         end.
Ltac fu := unfold ret, target in *; cbn [fst snd] in *; split_matches; cbn [fst snd] in *;
           try discriminate; try reflexivity.

Section Fail.
Variable show17 : Z -> stream.
Variable read_f : parser Z.

Lemma hash_fu : fail_untouched hash_load.
Proof. intros s t. unfold hash_load. fu. Qed.

Lemma fit_fu : fail_untouched (fit_load read_f).
Proof. intros s t. unfold fit_load. fu. Qed.

Lemma mep_impl_fu : forall ss, fail_untouched (mep_load_impl read_f ss).
Proof. intros ss s t. unfold mep_load_impl. fu. Qed.

Lemma mep_fu : forall ss, fail_untouched (mep_load read_f ss).
Proof.
  intros ss s t. unfold mep_load.
  destruct (read_u32 s) as [[age s1]|]; [|intros; reflexivity].
  pose proof (mep_impl_fu ss s1 t) as Hi. unfold ret, target in *.
  destruct (mep_load_impl read_f ss s1 t) as [[ok t1] s2]. cbn [fst snd] in *.
  destruct ok; cbn [fst snd]; [discriminate|]. intros _. now apply Hi.
Qed.

Lemma vec_impl_fu : forall elem, fail_untouched (vec_load_impl elem).
Proof. intros elem s t. unfold vec_load_impl. fu. Qed.

Lemma vec_fu : forall elem, fail_untouched (vec_load elem).
Proof.
  intros elem s t. unfold vec_load.
  destruct (read_u32 s) as [[age s1]|]; [|intros; reflexivity].
  pose proof (vec_impl_fu elem s1 t) as Hi. unfold ret, target in *.
  destruct (vec_load_impl elem s1 t) as [[ok t1] s2]. cbn [fst snd] in *.
  destruct ok; cbn [fst snd]; [discriminate|]. intros _. now apply Hi.
Qed.

Lemma ga_fu : fail_untouched ga_load.
Proof. apply vec_fu. Qed.
Lemma de_fu : fail_untouched (de_load read_f).
Proof. apply vec_fu. Qed.

(* the containers, over ANY individual loader (no hypothesis on it: the
   individuals are loaded into temporaries) *)
Section Cont.
Variable I : Type.
Variable iload : stream -> I -> lres I.
Variable idflt : I.

Lemma team_fu : fail_untouched (team_load I iload idflt).
Proof. intros s t. unfold team_load. fu. Qed.

Lemma pop_fu : fail_untouched (pop_load I iload idflt).
Proof. intros s t. unfold pop_load. fu. Qed.

Lemma summary_fu : forall eread, fail_untouched (summary_load read_f I iload idflt eread).
Proof. intros eread s t. unfold summary_load. fu. Qed.
End Cont.

Lemma dist_fu : fail_untouched (dist_load read_f).
Proof. intros s t. unfold dist_load. fu. Qed.

Lemma matrix_fu : fail_untouched matrix_load.
Proof. intros s t. unfold matrix_load. fu. Qed.

End Fail.
