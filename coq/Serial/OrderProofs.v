(* The field orders read off the C++ source on this run (Gen/SerialOrder.v) are,
   class by class, the same for save() and load(), and are the orders in which
   the hand-written model functions stream their fields.  A reordering of the
   `out << x` / `in >> x` operands in one function of a pair (or in both, away
   from the model) makes one of these equalities false: the proof breaks. *)
From Coq Require Import List.
From VV Require Import Serial.SerialTags Gen.SerialOrder Serial.SerialDefs.
Import ListNotations.

Definition orders_agree : Prop :=
  (hash_save_order = hash_load_order /\ hash_save_order = hash_order_model) /\
  (individual_save_order = individual_load_order /\ individual_save_order = individual_order_model) /\
  (mep_save_order = mep_load_order /\ mep_save_order = mep_order_model) /\
  (vec_save_order = vec_load_order /\ vec_save_order = vec_order_model) /\
  (team_save_order = team_load_order /\ team_save_order = team_order_model) /\
  (population_save_order = population_load_order /\ population_save_order = population_order_model) /\
  (summary_save_order = summary_load_order /\ summary_save_order = summary_order_model) /\
  (distribution_save_order = distribution_load_order /\ distribution_save_order = distribution_order_model) /\
  (matrix_save_order = matrix_load_order /\ matrix_save_order = matrix_order_model).

Lemma orders_agree_holds : orders_agree.
Proof. unfold orders_agree. repeat split; reflexivity. Qed.
