(* The "repeat n times" loops of the loaders are modelled by [rep] with a fuel
   (the length of the stream).  This file shows that the fuel is immaterial:
   [rep p (length s) n s] computes exactly the fuel-free big-step semantics
   [Reps] of  for (i = 0; i < n; ++i) parse one element  -- running out of
   fuel never passes for a result -- because every element parser used at a
   call site consumes at least one byte when it succeeds. *)
From Coq Require Import ZArith List Bool Lia ZifyBool.
From VV Require Import Serial.SerialDefs Serial.CodecProofs.
Import ListNotations.
Local Open Scope Z_scope.

Definition prog {A} (p : parser A) : Prop :=
  forall s a s', p s = Some (a, s') -> (length s' < length s)%nat.
Definition lprog {T} (ld : stream -> T -> lres T) : Prop :=
  forall s t t' s', ld s t = (true, t', s') -> (length s' < length s)%nat.

(* the loop, without fuel *)
Inductive Reps {A} (p : parser A) : Z -> stream -> option (list A * stream) -> Prop :=
| R_done : forall n s, n <= 0 -> Reps p n s (Some ([], s))
| R_fail : forall n s, 0 < n -> p s = None -> Reps p n s None
| R_step_fail : forall n s a s', 0 < n -> p s = Some (a, s') -> Reps p (n - 1) s' None -> Reps p n s None
| R_step : forall n s a s' l s'', 0 < n -> p s = Some (a, s') ->
    Reps p (n - 1) s' (Some (l, s'')) -> Reps p n s (Some (a :: l, s'')).

Lemma Reps_det : forall A (p : parser A) n s r1, Reps p n s r1 -> forall r2, Reps p n s r2 -> r1 = r2.
Proof.
  induction 1 as [n s Hn|n s Hn Hp|n s a s' Hn Hp H IH|n s a s' l s'' Hn Hp H IH]; intros r2 H2;
    inversion H2; subst; try lia; try congruence.
  - rewrite Hp in *. match goal with E : Some _ = Some _ |- _ => inversion E; subst end.
    match goal with R : Reps p (n - 1) _ _ |- _ => apply IH in R; congruence end.
  - rewrite Hp in *. match goal with E : Some _ = Some _ |- _ => inversion E; subst end.
    match goal with R : Reps p (n - 1) _ _ |- _ => apply IH in R; congruence end.
  - rewrite Hp in *. match goal with E : Some _ = Some _ |- _ => inversion E; subst end.
    match goal with R : Reps p (n - 1) _ _ |- _ => apply IH in R; inversion R; subst; reflexivity end.
Qed.

Lemma rep_computes : forall A (p : parser A), prog p ->
  forall fuel n s, (length s <= fuel)%nat -> Reps p n s (rep p fuel n s).
Proof.
  intros A p Hp. induction fuel as [|f IH]; intros n s Hl; cbn [rep].
  - destruct (n <=? 0) eqn:E; [apply R_done; lia|].
    destruct s; [|cbn in Hl; lia].
    apply R_fail; [lia|]. destruct (p []) as [[a s']|] eqn:E1; [|reflexivity].
    apply Hp in E1. cbn in E1. lia.
  - destruct (n <=? 0) eqn:E; [apply R_done; lia|].
    destruct (p s) as [[a s']|] eqn:E1; [|apply R_fail; [lia|assumption]].
    pose proof (Hp _ _ _ E1) as Hlt.
    assert (Hl' : (length s' <= f)%nat) by lia.
    specialize (IH (n - 1) s' Hl').
    destruct (rep p f (n - 1) s') as [[l s'']|].
    + eapply R_step; [lia|eassumption|assumption].
    + eapply R_step_fail; [lia|eassumption|assumption].
Qed.

(* a loop whose count is bounded by the fuel (the arguments of a gene) *)
Lemma rep_computes_count : forall A (p : parser A) fuel n s, n <= Z.of_nat fuel -> Reps p n s (rep p fuel n s).
Proof.
  induction fuel as [|f IH]; intros n s Hn; cbn [rep].
  - destruct (n <=? 0) eqn:E; [apply R_done; lia|lia].
  - destruct (n <=? 0) eqn:E; [apply R_done; lia|].
    destruct (p s) as [[a s']|] eqn:E1; [|apply R_fail; [lia|assumption]].
    assert (Hn' : n - 1 <= Z.of_nat f) by lia.
    specialize (IH (n - 1) s' Hn').
    destruct (rep p f (n - 1) s') as [[l s'']|].
    + eapply R_step; [lia|eassumption|assumption].
    + eapply R_step_fail; [lia|eassumption|assumption].
Qed.

Lemma rep_fuel_indep : forall A (p : parser A), prog p -> forall f1 f2 n s,
  (length s <= f1)%nat -> (length s <= f2)%nat -> rep p f1 n s = rep p f2 n s.
Proof.
  intros A p Hp f1 f2 n s H1 H2.
  eapply Reps_det; apply rep_computes; assumption.
Qed.

Lemma rep_noninc : forall A (p : parser A), prog p -> forall fuel n s l s',
  rep p fuel n s = Some (l, s') -> (length s' <= length s)%nat.
Proof.
  intros A p Hp. induction fuel as [|f IH]; intros n s l s' H; cbn [rep] in H.
  - destruct (n <=? 0); [inversion H; subst; lia|discriminate].
  - destruct (n <=? 0); [inversion H; subst; lia|].
    destruct (p s) as [[a s1]|] eqn:E1; [|discriminate].
    destruct (rep p f (n - 1) s1) as [[l1 s2]|] eqn:E2; [|discriminate].
    inversion H; subst. apply Hp in E1. apply IH in E2. lia.
Qed.

(* ---- every element parser used by a loop consumes at least one byte ---- *)
Lemma read_int_prog : forall u lo hi, prog (read_int u lo hi).
Proof. intros u lo hi s a s' H. eapply read_int_progress; eassumption. Qed.

Ltac ints := unfold read_u16, read_u32, read_u64, read_i32, read_i64 in *.
Ltac facts :=
  repeat match goal with
         | H : read_int _ _ _ _ = Some _ |- _ => apply read_int_progress in H
         end.
Ltac split_hyp H :=
  repeat match type of H with
         | context [match ?x with _ => _ end] => destruct x eqn:?
         end.

Section Progress.
Variable read_f : parser Z.

Lemma rdf_prog : prog (rdf read_f).
Proof.
  intros s a s' H. unfold rdf in H. destruct (read_f s) as [[x s1]|]; [|discriminate].
  destruct (length s1 <? length s)%nat eqn:E; [|discriminate]. inversion H; subst. now apply Nat.ltb_lt.
Qed.

Lemma gene_parse_prog : forall ss, prog (gene_parse read_f ss).
Proof.
  intros ss s a s' H. unfold gene_parse in H. ints.
  destruct (read_int true 0 u32_max s) as [[op s1]|] eqn:E1; [|discriminate].
  destruct (decode ss op) as [y|]; [|discriminate].
  destruct (if is_param y then rdf read_f s1 else Some (0, s1)) as [[par s2]|] eqn:E2; [|discriminate].
  destruct (rep (read_int true 0 u16_max) (sy_arity y) (Z.of_nat (sy_arity y)) s2) as [[args s3]|] eqn:E3; [|discriminate].
  inversion H; subst. apply read_int_progress in E1.
  apply (rep_noninc _ _ (read_int_prog _ _ _)) in E3.
  assert (length s2 <= length s1)%nat.
  { destruct (is_param y); [apply rdf_prog in E2; lia|inversion E2; subst; lia]. }
  lia.
Qed.

Lemma kv_parse_prog : prog (kv_parse read_f).
Proof.
  intros s a s' H. unfold kv_parse in H. ints.
  destruct (rdf read_f s) as [[k s1]|] eqn:E1; [|discriminate].
  destruct (read_int true 0 u64_max s1) as [[v s2]|] eqn:E2; [|discriminate].
  inversion H; subst. apply rdf_prog in E1. apply read_int_progress in E2. lia.
Qed.

Lemma mep_load_lprog : forall ss, lprog (mep_load read_f ss).
Proof.
  intros ss s t t' s' H. unfold mep_load, mep_load_impl in H. ints.
  destruct (read_int true 0 u32_max s) as [[age s1]|] eqn:E0; [|discriminate].
  destruct (read_int true 0 u32_max s1) as [[rows s2]|] eqn:E1; [|discriminate].
  destruct (read_int true 0 u32_max s2) as [[cols s3]|] eqn:E2; [|discriminate].
  destruct (rep (gene_parse read_f ss) (length s3) (rows * cols) s3) as [[genes s4]|] eqn:E3; [|discriminate].
  apply (rep_noninc _ _ (gene_parse_prog ss)) in E3.
  facts.
  destruct (rows =? 0).
  - inversion H; subst. lia.
  - destruct (read_int true 0 u64_max s4) as [[bi s5]|] eqn:E4; [|discriminate].
    destruct (read_int true 0 u64_max s5) as [[bc s6]|] eqn:E5; [|discriminate].
    facts. inversion H; subst. lia.
Qed.

Lemma vec_load_lprog : forall elem, prog elem -> lprog (vec_load elem).
Proof.
  intros elem He s t t' s' H. unfold vec_load, vec_load_impl in H. ints.
  destruct (read_int true 0 u32_max s) as [[age s1]|] eqn:E0; [|discriminate].
  destruct (read_int true 0 u64_max s1) as [[sz s2]|] eqn:E1; [|discriminate].
  destruct (rep elem (length s2) sz s2) as [[v s3]|] eqn:E2; [|discriminate].
  apply (rep_noninc _ _ He) in E2. facts. inversion H; subst. lia.
Qed.

Lemma ga_load_lprog : lprog ga_load.
Proof. apply vec_load_lprog. apply read_int_prog. Qed.
Lemma de_load_lprog : lprog (de_load read_f).
Proof. apply vec_load_lprog. apply rdf_prog. Qed.

Section Cont.
Variable I : Type.
Variable iload : stream -> I -> lres I.
Variable idflt : I.
Hypothesis Hi : lprog iload.

Lemma ind_parse_prog : prog (ind_parse I iload idflt).
Proof.
  intros s a s' H. unfold ind_parse, parser_of in H.
  destruct (iload s idflt) as [[ok t] s1] eqn:E. destruct ok; [|discriminate].
  inversion H; subst. eapply Hi; eassumption.
Qed.

Lemma team_load_lprog : lprog (team_load I iload idflt).
Proof.
  intros s t t' s' H. unfold team_load in H. ints.
  destruct (read_int true 0 u32_max s) as [[n s1]|] eqn:E0; [|discriminate].
  destruct (n =? 0); [discriminate|].
  destruct (rep (ind_parse I iload idflt) (length s1) n s1) as [[v s2]|] eqn:E1; [|discriminate].
  apply (rep_noninc _ _ ind_parse_prog) in E1. facts. inversion H; subst. lia.
Qed.

Lemma layer_parse_prog : prog (layer_parse I iload idflt).
Proof.
  intros s a s' H. unfold layer_parse in H. ints.
  destruct (read_int true 0 u32_max s) as [[al s1]|] eqn:E0; [|discriminate].
  destruct (read_int true 0 u32_max s1) as [[n s2]|] eqn:E1; [|discriminate].
  destruct (rep (ind_parse I iload idflt) (length s2) n s2) as [[v s3]|] eqn:E2; [|discriminate].
  apply (rep_noninc _ _ ind_parse_prog) in E2. facts. inversion H; subst. lia.
Qed.
End Cont.
End Progress.
