(* C11: load (save x) reproduces x, for every persistable type of the model. *)
From Coq Require Import ZArith List Bool Lia ZifyBool.
From VV Require Import Serial.SerialDefs Serial.CodecProofs.
Import ListNotations.
Local Open Scope Z_scope.

Definition is_u64 (n : Z) : Prop := 0 <= n <= u64_max.
Definition is_u32 (n : Z) : Prop := 0 <= n <= u32_max.
Definition is_u16 (n : Z) : Prop := 0 <= n <= u16_max.
Definition is_i32 (n : Z) : Prop := i32_min <= n <= i32_max.

Lemma read_u64_show : forall n pre r, is_u64 n -> all_ws pre -> nds r ->
  read_u64 (pre ++ show_u n ++ r) = Some (n, r).
Proof. intros. now apply read_int_show_u. Qed.
Lemma read_u32_show : forall n pre r, is_u32 n -> all_ws pre -> nds r ->
  read_u32 (pre ++ show_u n ++ r) = Some (n, r).
Proof. intros. now apply read_int_show_u. Qed.
Lemma read_u16_show : forall n pre r, is_u16 n -> all_ws pre -> nds r ->
  read_u16 (pre ++ show_u n ++ r) = Some (n, r).
Proof. intros. now apply read_int_show_u. Qed.
Lemma read_i32_show : forall n pre r, is_i32 n -> all_ws pre -> nds r ->
  read_i32 (pre ++ show_i n ++ r) = Some (n, r).
Proof. intros. now apply read_int_show_i. Qed.

(* ---------------------------------------------------------------- hash_t *)
Definition wf_hash (h : hash) : Prop := is_u64 (fst h) /\ is_u64 (snd h).

Lemma hash_rt : forall h pre rest t, wf_hash h -> all_ws pre ->
  hash_load (pre ++ hash_save h ++ rest) t = (true, h, 10 :: rest).
Proof.
  intros [a b] pre rest t [Ha Hb] Hpre. unfold hash_load, hash_save. cbn [fst snd] in *.
  repeat rewrite <- app_assoc.
  rewrite read_u64_show by (auto; reflexivity).
  rewrite (read_u64_show b [32] ([10] ++ rest)) by (auto; reflexivity).
  reflexivity.
Qed.
