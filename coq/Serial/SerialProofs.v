(* C11: load (save x) reproduces x, for every persistable type of the model. *)
From Coq Require Import ZArith List Bool Lia ZifyBool Sorted.
From VV Require Import Serial.SerialTags Gen.SerialOrder Serial.SerialDefs Serial.CodecProofs.
Import ListNotations.
Local Open Scope Z_scope.

Definition is_u64 (n : Z) : Prop := 0 <= n <= u64_max.
Definition is_u32 (n : Z) : Prop := 0 <= n <= u32_max.
Definition is_u16 (n : Z) : Prop := 0 <= n <= u16_max.
Definition is_i32 (n : Z) : Prop := i32_min <= n <= i32_max.

Lemma read_u64_show : forall n pre r, is_u64 n -> all_ws pre -> nds r ->
  read_u64 (pre ++ show_u n ++ r) = Some (n, r).
Proof. intros. now apply read_int_show_u. Qed.
Lemma read_u32_show : forall n pre r, is_u32 n -> all_ws pre -> nds r ->
  read_u32 (pre ++ show_u n ++ r) = Some (n, r).
Proof. intros. now apply read_int_show_u. Qed.
Lemma read_u16_show : forall n pre r, is_u16 n -> all_ws pre -> nds r ->
  read_u16 (pre ++ show_u n ++ r) = Some (n, r).
Proof. intros. now apply read_int_show_u. Qed.
Lemma read_i32_show : forall n pre r, is_i32 n -> all_ws pre -> nds r ->
  read_i32 (pre ++ show_i n ++ r) = Some (n, r).
Proof. intros. now apply read_int_show_i. Qed.

(* ---------------------------------------------------------------- hash_t *)
Definition wf_hash (h : hash) : Prop := is_u64 (fst h) /\ is_u64 (snd h).

Lemma hash_rt : forall h pre rest t, wf_hash h -> all_ws pre ->
  hash_load (pre ++ hash_save h ++ rest) t = (true, h, 10 :: rest).
Proof.
  intros [a b] pre rest t [Ha Hb] Hpre. unfold hash_load, hash_save. cbn [fst snd] in *.
  repeat rewrite <- app_assoc.
  rewrite read_u64_show by (auto; reflexivity).
  rewrite (read_u64_show b [32] ([10] ++ rest)) by (auto; reflexivity).
  reflexivity.
Qed.

(* ------------------------------------------------------------------------ *)
(* generic machinery                                                        *)
(* ------------------------------------------------------------------------ *)
Definition sep_start (r : stream) : Prop := match r with [] => True | c :: _ => is_ws c = true end.
Lemma sep_start_nds : forall r, sep_start r -> nds r.
Proof. intros [|c r]; cbn; [trivial|]. unfold is_ws, is_digit. lia. Qed.

(* a parser reads back one printed element and stops before its final newline *)
Definition prt_spec {A} (sv : A -> stream) (p : parser A) (norm : A -> A) (x : A) : Prop :=
  forall pre rest, all_ws pre -> p (pre ++ sv x ++ rest) = Some (norm x, 10 :: rest).
(* the same for a loader: whatever the target *)
Definition rt_spec {T} (sv : T -> stream) (ld : stream -> T -> lres T) (norm : T -> T) (x : T) : Prop :=
  forall pre rest t, all_ws pre -> ld (pre ++ sv x ++ rest) t = (true, norm x, 10 :: rest).

Lemma parser_of_spec : forall T sv (ld : stream -> T -> lres T) norm dflt x,
  rt_spec sv ld norm x -> prt_spec sv (parser_of ld dflt) norm x.
Proof. intros T sv ld norm dflt x H pre rest Hp. unfold parser_of. now rewrite H. Qed.

Lemma flat_map_len : forall A (sv : A -> stream) xs,
  (forall x, In x xs -> (0 < length (sv x))%nat) -> (length xs <= length (flat_map sv xs))%nat.
Proof.
  induction xs as [|x xs IH]; intro H; [cbn; lia|].
  cbn [flat_map length]. rewrite app_length.
  pose proof (H x (or_introl eq_refl)). specialize (IH (fun y Hy => H y (or_intror Hy))). lia.
Qed.

Lemma zlen_cons : forall A (x : A) xs, zlen (x :: xs) = 1 + zlen xs.
Proof. intros. unfold zlen. cbn [length]. lia. Qed.
Lemma zlen_nonneg : forall A (xs : list A), 0 <= zlen xs.
Proof. intros. unfold zlen. lia. Qed.

Lemma rep_rt : forall A (sv : A -> stream) (p : parser A) norm xs rest fuel,
  (forall x, In x xs -> prt_spec sv p norm x) -> (length xs <= fuel)%nat ->
  rep p fuel (zlen xs) (10 :: flat_map sv xs ++ rest) = Some (map norm xs, 10 :: rest).
Proof.
  induction xs as [|x xs IH]; intros rest fuel Hs Hf.
  - destruct fuel; reflexivity.
  - destruct fuel as [|f]; [cbn in Hf; lia|].
    cbn [rep]. rewrite zlen_cons.
    pose proof (zlen_nonneg A xs) as Hz.
    destruct (1 + zlen xs <=? 0) eqn:E; [lia|].
    cbn [flat_map]. rewrite <- app_assoc.
    change (10 :: sv x ++ flat_map sv xs ++ rest) with ([10] ++ sv x ++ (flat_map sv xs ++ rest)).
    rewrite (Hs x (or_introl eq_refl) [10] (flat_map sv xs ++ rest) all_ws_nl).
    replace (1 + zlen xs - 1) with (zlen xs) by lia.
    rewrite IH; [reflexivity| |cbn in Hf; lia].
    intros y Hy. apply Hs. now right.
Qed.

(* the fuel handed to rep at the call sites (length of the stream) suffices *)
Lemma rep_rt_len : forall A (sv : A -> stream) (p : parser A) norm xs rest,
  (forall x, In x xs -> prt_spec sv p norm x) ->
  (forall x, In x xs -> (0 < length (sv x))%nat) ->
  rep p (length (10 :: flat_map sv xs ++ rest)) (zlen xs) (10 :: flat_map sv xs ++ rest)
  = Some (map norm xs, 10 :: rest).
Proof.
  intros. apply rep_rt; [assumption|].
  cbn [length]. rewrite app_length. pose proof (flat_map_len A sv xs H0). lia.
Qed.

Lemma map_id_ext : forall A (f : A -> A) xs, (forall x, In x xs -> f x = x) -> map f xs = xs.
Proof.
  induction xs as [|x xs IH]; intro H; [reflexivity|].
  cbn [map]. rewrite (H x (or_introl eq_refl)), IH; [reflexivity|]. intros y Hy. apply H. now right.
Qed.

(* ------------------------------------------------------------ matrix<int> *)
Definition wf_matrix (m : matrix) : Prop :=
  is_u64 (mx_cols m) /\ is_u64 (mx_rows m) /\ zlen (mx_data m) = mx_cols m * mx_rows m /\
  is_u64 (zlen (mx_data m)) /\ Forall is_i32 (mx_data m).

Lemma i32_elem_spec : forall e, is_i32 e -> prt_spec (fun e => show_i e ++ [10]) read_i32 (fun e => e) e.
Proof.
  intros e He pre rest Hp. rewrite <- app_assoc.
  apply read_i32_show; [assumption|assumption|reflexivity].
Qed.

Lemma show_i_len : forall e, (0 < length (show_i e ++ [10%Z]))%nat.
Proof. intro. rewrite app_length. cbn. lia. Qed.

Lemma matrix_rt : forall m, wf_matrix m -> rt_spec matrix_save matrix_load (fun m => m) m.
Proof.
  intros [cs data] (Hc & Hr & Hlen & Hsz & Hd) pre rest t Hp. cbn [mx_cols mx_data] in *.
  unfold matrix_load, matrix_save. cbn [mx_cols mx_data].
  repeat rewrite <- app_assoc.
  rewrite read_u64_show by (auto; reflexivity).
  rewrite (read_u64_show _ [32]) by (auto; reflexivity).
  set (r := mx_rows {| mx_cols := cs; mx_data := data |}) in *.
  assert (Hm : (cs * r) mod (u64_max + 1) = zlen data).
  { rewrite <- Hlen. apply Z.mod_small. unfold is_u64 in Hsz. lia. }
  rewrite Hm.
  change ([10] ++ flat_map (fun e => show_i e ++ [10]) data ++ rest)
    with (10 :: flat_map (fun e => show_i e ++ [10]) data ++ rest).
  rewrite (rep_rt_len Z (fun e => show_i e ++ [10]) read_i32 (fun e => e)).
  - rewrite map_id. reflexivity.
  - intros e He. apply i32_elem_spec. rewrite Forall_forall in Hd. now apply Hd.
  - intros. apply show_i_len.
Qed.

(* --------------------------------------------------------------- i_ga *)
Definition vec_norm (v : vec_ind) : vec_ind :=
  {| v_age := v_age v; v_genome := v_genome v; v_sig := hash_empty |}.
Definition wf_ga (v : vec_ind) : Prop :=
  is_u32 (v_age v) /\ is_u64 (zlen (v_genome v)) /\ Forall is_i32 (v_genome v).

Lemma vec_rt_gen : forall (elem : parser Z) (sve : Z -> stream) v,
  is_u32 (v_age v) -> is_u64 (zlen (v_genome v)) ->
  (forall g, In g (v_genome v) -> prt_spec (fun g => sve g ++ [10]) elem (fun g => g) g) ->
  rt_spec (fun v => show_u (v_age v) ++ [10] ++ show_u (zlen (v_genome v)) ++ [10]
                    ++ flat_map (fun g => sve g ++ [10]) (v_genome v))
          (vec_load elem) vec_norm v.
Proof.
  intros elem sve [age g sg] Ha Hn He pre rest t Hp. cbn [v_age v_genome] in *.
  unfold vec_load, vec_load_impl. repeat rewrite <- app_assoc.
  rewrite read_u32_show by (auto; reflexivity).
  rewrite (read_u64_show _ [10]) by (auto; reflexivity).
  change ([10] ++ flat_map (fun g0 => sve g0 ++ [10]) g ++ rest)
    with (10 :: flat_map (fun g0 => sve g0 ++ [10]) g ++ rest).
  rewrite (rep_rt_len Z (fun g0 => sve g0 ++ [10]) elem (fun g0 => g0)).
  - rewrite map_id. reflexivity.
  - assumption.
  - intros. rewrite app_length. cbn. lia.
Qed.

Lemma ga_rt : forall v, wf_ga v -> rt_spec ga_save ga_load vec_norm v.
Proof.
  intros v (Ha & Hn & Hg). apply (vec_rt_gen read_i32 show_i); try assumption.
  intros g Hin. apply i32_elem_spec. rewrite Forall_forall in Hg. now apply Hg.
Qed.

(* ------------------------------------------------------------------------ *)
(* types with floating-point text                                           *)
(* ------------------------------------------------------------------------ *)
Definition no_ws (l : stream) : Prop := forallb (fun c => negb (is_ws c)) l = true.

(* The 17-significant-digit round trip of a correctly rounding C library, in
   stream form: the text of a finite double is not empty, has no white space
   in it, and operator>> (after any white space) reads it back bit for bit
   when what follows is the end of the stream or white space. *)
Definition float_text_ok (show17 : Z -> stream) (read_f : parser Z) : Prop :=
  forall x, finite_b x = true ->
  show17 x <> [] /\ no_ws (show17 x) /\
  forall pre rest, all_ws pre -> sep_start rest -> read_f (pre ++ show17 x ++ rest) = Some (x, rest).
(* operator>> fails at the end of the stream, also after skipping blanks *)
Definition blank_fails (read_f : parser Z) : Prop := forall pre, all_ws pre -> read_f pre = None.

Section Floats.
Variable show17 : Z -> stream.
Variable read_f : parser Z.
Hypothesis H_17digits : float_text_ok show17 read_f.

Lemma read_f_show : forall x pre rest, finite_b x = true -> all_ws pre -> sep_start rest ->
  rdf read_f (pre ++ show17 x ++ rest) = Some (x, rest).
Proof.
  intros x pre rest Hx Hp Hs. destruct (H_17digits x Hx) as (Hne & _ & H).
  unfold rdf. rewrite (H pre rest Hp Hs).
  assert (Hl : Nat.ltb (length rest) (length (pre ++ show17 x ++ rest)) = true).
  { apply Nat.ltb_lt. repeat rewrite app_length. destruct (show17 x); [contradiction|]. cbn [length]. lia. }
  now rewrite Hl.
Qed.

Lemma f_elem_spec : forall x, finite_b x = true ->
  prt_spec (fun x => show17 x ++ [10]) (rdf read_f) (fun x => x) x.
Proof.
  intros x Hx pre rest Hp. rewrite <- app_assoc. apply read_f_show; [assumption|assumption|reflexivity].
Qed.

(* --------------------------------------------------------------- i_de *)
Definition wf_de (v : vec_ind) : Prop :=
  is_u32 (v_age v) /\ is_u64 (zlen (v_genome v)) /\ Forall (fun x => finite_b x = true) (v_genome v).

Lemma de_rt : forall v, wf_de v -> rt_spec (de_save show17) (de_load read_f) vec_norm v.
Proof.
  intros v (Ha & Hn & Hg). apply (vec_rt_gen (rdf read_f) show17); try assumption.
  intros g Hin. apply f_elem_spec. rewrite Forall_forall in Hg. now apply Hg.
Qed.

(* ---------------------------------------------------------- fitness_t *)
Definition wf_fit (f : list Z) : Prop := f <> [] /\ Forall (fun x => finite_b x = true) f.

(* the text of a fitness line *)
Fixpoint fit_line (f : list Z) : stream :=
  match f with [] => [] | x :: r => show17 x ++ [32] ++ fit_line r end.
Lemma fit_save_line : forall f, fit_save show17 f = fit_line f ++ [10].
Proof. induction f as [|x f IH]; [reflexivity|]. cbn [fit_save fit_line]. rewrite IH. now repeat rewrite <- app_assoc. Qed.

Lemma no_ws_no_nl : forall l, no_ws l -> forallb (fun c => negb (c =? 10)) l = true.
Proof.
  induction l as [|c l IH]; intro H; [reflexivity|].
  unfold no_ws in H. cbn [forallb] in *. apply andb_prop in H as [H1 H2].
  rewrite (IH H2). unfold is_ws in H1. destruct (c =? 10) eqn:E; [lia|reflexivity].
Qed.

Lemma take_line_app : forall l r, forallb (fun c => negb (c =? 10)) l = true ->
  take_line (l ++ 10 :: r) = (l, r).
Proof.
  induction l as [|c l IH]; intros r H.
  - reflexivity.
  - cbn [forallb] in H. apply andb_prop in H as [H1 H2].
    cbn [app take_line]. destruct (c =? 10); [discriminate|]. now rewrite IH.
Qed.

Lemma fit_line_no_nl : forall f, Forall (fun x => finite_b x = true) f ->
  forallb (fun c => negb (c =? 10)) (fit_line f) = true.
Proof.
  induction f as [|x f IH]; intro H; [reflexivity|].
  inversion H as [|? ? Hx Hf]; subst. cbn [fit_line].
  rewrite forallb_app. destruct (H_17digits x Hx) as (_ & Hn & _).
  rewrite (no_ws_no_nl _ Hn). cbn [app forallb]. now rewrite IH.
Qed.

Hypothesis H_read_blank : blank_fails read_f.

Lemma rdf_blank : forall pre, all_ws pre -> rdf read_f pre = None.
Proof. intros pre Hp. unfold rdf. now rewrite (H_read_blank pre Hp). Qed.

Lemma read_floats_line : forall f fuel pre, Forall (fun x => finite_b x = true) f ->
  all_ws pre -> (length f < fuel)%nat -> read_floats read_f fuel (pre ++ fit_line f) = f.
Proof.
  induction f as [|x f IH]; intros fuel pre H Hp Hf.
  - destruct fuel as [|fuel]; [reflexivity|]. cbn [read_floats fit_line]. rewrite app_nil_r.
    now rewrite (rdf_blank pre Hp).
  - inversion H as [|? ? Hx Hr]; subst.
    destruct fuel as [|fuel]; [cbn in Hf; lia|].
    cbn [read_floats fit_line].
    rewrite (read_f_show x pre ([32] ++ fit_line f) Hx Hp eq_refl).
    f_equal. apply IH; [assumption|reflexivity|cbn in Hf; lia].
Qed.

Lemma fit_line_len : forall f, (length f <= length (fit_line f))%nat.
Proof.
  induction f as [|x f IH]; [cbn; lia|]. cbn [fit_line length]. repeat rewrite app_length. cbn [length]. lia.
Qed.

Lemma fit_line_head : forall x f, finite_b x = true ->
  exists c l, fit_line (x :: f) = c :: l /\ is_ws c = false.
Proof.
  intros x f Hx. destruct (H_17digits x Hx) as (Hne & Hn & _).
  cbn [fit_line]. destruct (show17 x) as [|c l]; [contradiction|].
  exists c, (l ++ [32] ++ fit_line f). split; [reflexivity|].
  unfold no_ws in Hn. cbn [forallb] in Hn. apply andb_prop in Hn as [H1 _].
  now destruct (is_ws c).
Qed.

(* fitness_t::load consumes its whole line, newline included *)
Lemma fit_rt : forall f pre rest t, wf_fit f -> all_ws pre ->
  fit_load read_f (pre ++ fit_save show17 f ++ rest) t = (true, f, rest).
Proof.
  intros f pre rest t [Hne Hf] Hp. unfold fit_load.
  rewrite skip_ws_app by assumption. rewrite fit_save_line.
  destruct f as [|x f]; [contradiction|].
  inversion Hf as [|? ? Hx Hr]; subst.
  destruct (fit_line_head x f Hx) as (c & l & E & Hc).
  rewrite <- app_assoc. cbn [app]. rewrite E. cbn [app skip_ws]. rewrite Hc.
  change (c :: l ++ 10 :: rest) with ((c :: l) ++ 10 :: rest). rewrite <- E.
  rewrite take_line_app by (now apply fit_line_no_nl).
  f_equal. f_equal.
  apply (read_floats_line (x :: f) _ []); [assumption|reflexivity|].
  pose proof (fit_line_len (x :: f)). lia.
Qed.

(* ----------------------------------------------- distribution<double> *)
Definition key_lt (a b : Z * Z) : Prop := dkey (fst a) < dkey (fst b).
Definition wf_dist (d : distribution) : Prop :=
  is_u64 (d_count d) /\ finite_b (d_mean d) = true /\ finite_b (d_min d) = true /\
  finite_b (d_max d) = true /\ finite_b (d_m2 d) = true /\ is_u64 (zlen (d_seen d)) /\
  Forall (fun kv => finite_b (fst kv) = true /\ is_u64 (snd kv)) (d_seen d) /\
  StronglySorted key_lt (d_seen d).

Definition ins (acc : list (Z * Z)) (kv : Z * Z) := map_set acc (fst kv) (snd kv).

Lemma map_set_snoc : forall acc k v, Forall (fun a => dkey (fst a) < dkey k) acc ->
  map_set acc k v = acc ++ [(k, v)].
Proof.
  induction acc as [|[k' v'] acc IH]; intros k v H; [reflexivity|].
  inversion H as [|? ? H1 H2]; subst. cbn [fst] in H1.
  cbn [map_set app]. destruct (dkey k <? dkey k') eqn:E1; [lia|].
  destruct (dkey k' <? dkey k) eqn:E2; [|lia]. now rewrite IH.
Qed.

Lemma fold_ins_sorted : forall kvs acc, StronglySorted key_lt kvs ->
  Forall (fun a => Forall (fun b => key_lt a b) kvs) acc ->
  fold_left ins kvs acc = acc ++ kvs.
Proof.
  induction kvs as [|[k v] kvs IH]; intros acc Hs Ha; [now rewrite app_nil_r|].
  inversion Hs as [|? ? Hs' Hk]; subst.
  cbn [fold_left]. unfold ins at 2. cbn [fst snd].
  rewrite map_set_snoc.
  - rewrite IH; [now rewrite <- app_assoc| assumption |].
    apply Forall_app. split.
    + eapply Forall_impl; [|exact Ha]. intros a Hall. now inversion Hall.
    + constructor; [exact Hk|constructor].
  - eapply Forall_impl; [|exact Ha]. intros a Hall. inversion Hall as [|? ? H1 _]; subst. exact H1.
Qed.

Lemma kv_spec : forall kv, finite_b (fst kv) = true -> is_u64 (snd kv) ->
  prt_spec (fun kv => show17 (fst kv) ++ [32] ++ show_u (snd kv) ++ [10]) (kv_parse read_f) (fun kv => kv) kv.
Proof.
  intros [k v] Hk Hv pre rest Hp. cbn [fst snd] in *. unfold kv_parse.
  repeat rewrite <- app_assoc.
  rewrite read_f_show by (auto; reflexivity).
  rewrite (read_u64_show v [32]) by (auto; reflexivity). reflexivity.
Qed.

Lemma dist_rt : forall d, wf_dist d -> rt_spec (dist_save show17) (dist_load read_f) (fun d => d) d.
Proof.
  intros [c m mn mx m2 seen] (Hc & Hm & Hmn & Hmx & Hm2 & Hn & Hkv & Hs) pre rest t Hp.
  cbn [d_count d_mean d_min d_max d_m2 d_seen] in *.
  unfold dist_load, dist_save. cbn [d_count d_mean d_min d_max d_m2 d_seen].
  repeat rewrite <- app_assoc.
  rewrite read_u64_show by (auto; reflexivity).
  rewrite (read_f_show m [10]) by (auto; reflexivity).
  rewrite (read_f_show mn [10]) by (auto; reflexivity).
  rewrite (read_f_show mx [10]) by (auto; reflexivity).
  rewrite (read_f_show m2 [10]) by (auto; reflexivity).
  rewrite (read_u64_show _ [10]) by (auto; reflexivity).
  set (sv := fun kv : Z * Z => show17 (fst kv) ++ [32] ++ show_u (snd kv) ++ [10]).
  change ([10] ++ flat_map sv seen ++ rest) with (10 :: flat_map sv seen ++ rest).
  rewrite (rep_rt_len (Z * Z) sv (kv_parse read_f) (fun kv => kv)).
  - rewrite map_id.
    change (fun (acc : list (Z * Z)) (kv : Z * Z) => map_set acc (fst kv) (snd kv)) with ins.
    rewrite (fold_ins_sorted seen [] Hs (Forall_nil _)). reflexivity.
  - intros kv Hin. rewrite Forall_forall in Hkv. destruct (Hkv kv Hin). now apply kv_spec.
  - intros kv _. unfold sv. repeat rewrite app_length. cbn [length]. lia.
Qed.

(* ------------------------------------------------------------- i_mep *)
Definition wf_gene (ss : symset) (g : gene) : Prop :=
  is_u32 (g_op g) /\
  exists y, decode ss (g_op g) = Some y /\ length (g_args g) = sy_arity y /\
            Forall is_u16 (g_args g) /\
            (if is_param y then finite_b (g_par g) = true else g_par g = 0).

Definition wf_mep (ss : symset) (m : mep) : Prop :=
  is_u32 (m_age m) /\ is_u32 (m_cols m) /\ is_u32 (mep_rows m) /\
  zlen (m_genes m) = mep_rows m * m_cols m /\
  Forall (wf_gene ss) (m_genes m) /\
  (if mep_rows m =? 0 then m_best m = npos else is_u64 (fst (m_best m)) /\ is_u64 (snd (m_best m))).

Definition mep_norm (m : mep) : mep :=
  {| m_age := m_age m; m_cols := m_cols m; m_genes := m_genes m; m_best := m_best m; m_sig := hash_empty |}.

Definition args_text (args : list Z) : stream := flat_map (fun a => [32] ++ show_u a) args.

Lemma args_text_nds : forall args r, nds r -> nds (args_text args ++ r).
Proof. intros [|a args] r H; [exact H|reflexivity]. Qed.

Lemma args_rt : forall args r fuel, Forall is_u16 args -> nds r -> (length args <= fuel)%nat ->
  rep read_u16 fuel (zlen args) (args_text args ++ r) = Some (args, r).
Proof.
  induction args as [|a args IH]; intros r fuel H Hr Hf.
  - destruct fuel; reflexivity.
  - inversion H as [|? ? Ha Hrest]; subst.
    destruct fuel as [|f]; [cbn in Hf; lia|].
    cbn [rep]. rewrite zlen_cons. pose proof (zlen_nonneg Z args).
    destruct (1 + zlen args <=? 0) eqn:E; [lia|].
    unfold args_text. cbn [flat_map]. repeat rewrite <- app_assoc.
    rewrite (read_u16_show a [32]); [|assumption|reflexivity|now apply args_text_nds].
    replace (1 + zlen args - 1) with (zlen args) by lia.
    fold (args_text args). rewrite IH; [reflexivity|assumption|assumption|cbn in Hf; lia].
Qed.

Lemma gene_spec : forall ss g, wf_gene ss g -> prt_spec (gene_save show17 ss) (gene_parse read_f ss) (fun g => g) g.
Proof.
  intros ss [op par args] (Hop & y & Hd & Hlen & Hargs & Hpar) pre rest Hp.
  cbn [g_op g_par g_args] in *. unfold gene_parse, gene_save. cbn [g_op g_par g_args]. rewrite Hd.
  fold (args_text args). repeat rewrite <- app_assoc.
  destruct (is_param y) eqn:Ep.
  - (* parametric terminal: no arguments *)
    assert (Har : sy_arity y = O) by (unfold is_param in Ep; destruct (sy_arity y); [reflexivity|discriminate]).
    rewrite Har in *. destruct args; [|discriminate]. cbn [args_text flat_map app].
    rewrite read_u32_show by (auto; reflexivity).
    rewrite Hd, Ep.
    change (32 :: show17 par ++ 10 :: rest) with ([32] ++ show17 par ++ (10 :: rest)).
    rewrite read_f_show by (auto; reflexivity). rewrite Har. reflexivity.
  - rewrite read_u32_show; [|assumption|assumption|].
    2:{ cbn [app]. apply args_text_nds. reflexivity. }
    rewrite Hd, Ep. cbn [app].
    rewrite <- Hlen. change (Z.of_nat (length args)) with (zlen args).
    rewrite args_rt; [|assumption|reflexivity|lia].
    rewrite Hpar. reflexivity.
Qed.

Lemma gene_save_len : forall ss g, (0 < length (gene_save show17 ss g))%nat.
Proof. intros. unfold gene_save. repeat rewrite app_length. cbn [length]. lia. Qed.

Lemma mep_rt : forall ss m, wf_mep ss m -> rt_spec (mep_save show17 ss) (mep_load read_f ss) mep_norm m.
Proof.
  intros ss m (Ha & Hc & Hr & Hlen & Hg & Hb) pre rest t Hp.
  unfold mep_load, mep_save, mep_save_impl, mep_load_impl, mep_norm.
  repeat rewrite <- app_assoc.
  rewrite read_u32_show by (auto; reflexivity).
  rewrite (read_u32_show _ [10]) by (auto; reflexivity).
  rewrite (read_u32_show _ [32]) by (auto; reflexivity).
  rewrite <- Hlen.
  set (tail := (if mep_rows m mod (u32_max + 1) =? 0 then []
                else show_u (fst (m_best m)) ++ [32] ++ show_u (snd (m_best m)) ++ [10]) ++ rest).
  change ([10] ++ flat_map (gene_save show17 ss) (m_genes m) ++ tail)
    with (10 :: flat_map (gene_save show17 ss) (m_genes m) ++ tail).
  rewrite (rep_rt_len gene (gene_save show17 ss) (gene_parse read_f ss) (fun g => g)).
  2:{ intros g Hin. apply gene_spec. rewrite Forall_forall in Hg. now apply Hg. }
  2:{ intros. apply gene_save_len. }
  rewrite map_id. subst tail.
  assert (Hmod : mep_rows m mod (u32_max + 1) = mep_rows m)
    by (apply Z.mod_small; unfold is_u32 in Hr; lia).
  rewrite Hmod.
  destruct (mep_rows m =? 0) eqn:E0.
  - cbn [app fst snd]. rewrite Hb. reflexivity.
  - destruct Hb as [Hb1 Hb2]. repeat rewrite <- app_assoc.
    change (10 :: show_u (fst (m_best m)) ++ [32] ++ show_u (snd (m_best m)) ++ [10] ++ rest)
      with ([10] ++ show_u (fst (m_best m)) ++ [32] ++ show_u (snd (m_best m)) ++ [10] ++ rest).
    rewrite (read_u64_show _ [10]) by (auto; reflexivity).
    rewrite (read_u64_show _ [32]) by (auto; reflexivity).
    cbn [fst snd]. destruct (m_best m). reflexivity.
Qed.

(* ------------------------------------------- containers of individuals *)
Section ContainersRT.
Variable I : Type.
Variable isave : I -> stream.
Variable iload : stream -> I -> lres I.
Variable idflt : I.
Variable inorm : I -> I.
(* what is known of the contained individuals: they round-trip (wfI x) *)
Variable wfI : I -> Prop.
Hypothesis H_ind : forall x, wfI x -> rt_spec isave iload inorm x.
Hypothesis H_ind_len : forall x, (0 < length (isave x))%nat.

Lemma ind_parse_spec : forall x, wfI x -> prt_spec isave (ind_parse I iload idflt) inorm x.
Proof. intros x Hx. apply parser_of_spec. now apply H_ind. Qed.

Definition team_norm (t : team I) : team I := {| t_inds := map inorm (t_inds t); t_sig := hash_empty |}.
Definition wf_team (t : team I) : Prop :=
  t_inds t <> [] /\ is_u32 (zlen (t_inds t)) /\ Forall wfI (t_inds t).

Lemma team_rt : forall tm, wf_team tm ->
  rt_spec (team_save I isave) (team_load I iload idflt) team_norm tm.
Proof.
  intros [inds sg] (Hne & Hn & Hi) pre rest t Hp. cbn [t_inds] in *.
  unfold team_load, team_save, team_norm. cbn [t_inds]. repeat rewrite <- app_assoc.
  rewrite read_u32_show by (auto; reflexivity).
  destruct (zlen inds =? 0) eqn:E.
  { destruct inds; [contradiction|]. rewrite zlen_cons in E. pose proof (zlen_nonneg I inds). lia. }
  change ([10] ++ flat_map isave inds ++ rest) with (10 :: flat_map isave inds ++ rest).
  rewrite (rep_rt_len I isave (ind_parse I iload idflt) inorm).
  - reflexivity.
  - intros x Hin. apply ind_parse_spec. rewrite Forall_forall in Hi. now apply Hi.
  - intros. apply H_ind_len.
Qed.

Definition layer_norm (l : layer I) : layer I := (fst l, map inorm (snd l)).
Definition wf_layer (l : layer I) : Prop :=
  is_u32 (fst l) /\ is_u32 (zlen (snd l)) /\ Forall wfI (snd l).
Definition wf_pop (p : population I) : Prop :=
  p <> [] /\ is_u32 (zlen p) /\ Forall wf_layer p.

Lemma layer_spec : forall l, wf_layer l ->
  prt_spec (layer_save I isave) (layer_parse I iload idflt) layer_norm l.
Proof.
  intros [al inds] (Ha & Hn & Hi) pre rest Hp. cbn [fst snd] in *.
  unfold layer_parse, layer_save, layer_norm. cbn [fst snd]. repeat rewrite <- app_assoc.
  rewrite read_u32_show by (auto; reflexivity).
  rewrite (read_u32_show _ [32]) by (auto; reflexivity).
  change ([10] ++ flat_map isave inds ++ rest) with (10 :: flat_map isave inds ++ rest).
  rewrite (rep_rt_len I isave (ind_parse I iload idflt) inorm).
  - reflexivity.
  - intros x Hin. apply ind_parse_spec. rewrite Forall_forall in Hi. now apply Hi.
  - intros. apply H_ind_len.
Qed.

Lemma pop_rt : forall p, wf_pop p ->
  rt_spec (pop_save I isave) (pop_load I iload idflt) (map layer_norm) p.
Proof.
  intros p (Hne & Hn & Hl) pre rest t Hp.
  unfold pop_load, pop_save. repeat rewrite <- app_assoc.
  rewrite read_u32_show by (auto; reflexivity).
  destruct (zlen p =? 0) eqn:E.
  { destruct p; [contradiction|]. rewrite zlen_cons in E. pose proof (zlen_nonneg _ p). lia. }
  change ([10] ++ flat_map (layer_save I isave) p ++ rest) with (10 :: flat_map (layer_save I isave) p ++ rest).
  rewrite (rep_rt_len (layer I) (layer_save I isave) (layer_parse I iload idflt) layer_norm).
  - reflexivity.
  - intros l Hin. apply layer_spec. rewrite Forall_forall in Hl. now apply Hl.
  - intros l _. unfold layer_save. repeat rewrite app_length. cbn [length]. lia.
Qed.

(* summary: "no best known" is the default best *)
Variable isempty : I -> bool.
(* the reader of the elapsed time (int in the pinned tree) and its range *)
Variable eread : parser Z.
Variable ewf : Z -> Prop.
Hypothesis H_eread : forall n pre r, ewf n -> all_ws pre -> nds r -> eread (pre ++ show_i n ++ r) = Some (n, r).
Definition sum_norm (x : summary I) : summary I :=
  {| su_sol := if isempty (su_sol x) then su_sol x else inorm (su_sol x);
     su_fit := su_fit x; su_acc := su_acc x; su_elapsed := su_elapsed x;
     su_mutations := su_mutations x; su_crossovers := su_crossovers x;
     su_gen := su_gen x; su_last_imp := su_last_imp x |}.
Definition wf_summary (x : summary I) : Prop :=
  (if isempty (su_sol x)
   then su_sol x = idflt /\ su_fit x = [] /\ su_acc x = minus_one
   else wfI (su_sol x) /\ wf_fit (su_fit x) /\ finite_b (su_acc x) = true) /\
  ewf (su_elapsed x) /\ is_u64 (su_mutations x) /\ is_u64 (su_crossovers x) /\
  is_u32 (su_gen x) /\ is_u32 (su_last_imp x).

Lemma tail_rt : forall (x : summary I) rest,
  ewf (su_elapsed x) -> is_u64 (su_mutations x) -> is_u64 (su_crossovers x) ->
  is_u32 (su_gen x) -> is_u32 (su_last_imp x) ->
  match tail_load eread summary_load_order ([10] ++ tail_save I summary_save_order x ++ rest) (fun _ => 0) with
  | Some (env, s') =>
      s' = 10 :: rest /\ env T_elapsed = su_elapsed x /\ env T_mutations = su_mutations x /\
      env T_crossovers = su_crossovers x /\ env T_gen = su_gen x /\
      env T_last_imp = su_last_imp x
  | None => False
  end.
Proof.
  intros [sol fit acc el mu cr ge li] rest He Hm Hc Hg Hl.
  cbn [su_elapsed su_mutations su_crossovers su_gen su_last_imp] in *.
  unfold summary_load_order, summary_save_order.
  cbn [tail_load tail_save tail_show tail_get tail_reader
       su_elapsed su_mutations su_crossovers su_gen su_last_imp].
  repeat rewrite <- app_assoc.
  rewrite (H_eread el [10]) by (auto; reflexivity).
  rewrite (read_u64_show mu [32]) by (auto; reflexivity).
  rewrite (read_u64_show cr [32]) by (auto; reflexivity).
  rewrite (read_u32_show ge [32]) by (auto; reflexivity).
  rewrite (read_u32_show li [32]) by (auto; reflexivity).
  repeat split.
Qed.

Lemma summary_rt : forall x, wf_summary x ->
  rt_spec (summary_save show17 I isave isempty) (summary_load read_f I iload idflt eread) sum_norm x.
Proof.
  intros x (Hb & He & Hm & Hc & Hg & Hl) pre rest t Hp.
  pose proof (tail_rt x rest He Hm Hc Hg Hl) as Ht.
  destruct x as [sol fit acc el mu cr ge li].
  cbn [su_sol su_fit su_acc su_elapsed su_mutations su_crossovers su_gen su_last_imp] in *.
  unfold summary_load, summary_save, sum_norm.
  cbn [su_sol su_fit su_acc su_elapsed su_mutations su_crossovers su_gen su_last_imp].
  set (tl := tail_save I summary_save_order
               {| su_sol := sol; su_fit := fit; su_acc := acc; su_elapsed := el; su_mutations := mu;
                  su_crossovers := cr; su_gen := ge; su_last_imp := li |}) in *.
  destruct (isempty sol) eqn:Ee.
  - destruct Hb as (Hs & Hf & Ha). subst.
    repeat rewrite <- app_assoc.
    change ([48; 10] ++ tl ++ rest) with (show_u 0 ++ [10] ++ tl ++ rest).
    rewrite read_u32_show; [|unfold is_u32, u32_max; lia|assumption|reflexivity].
    cbn [Z.eqb].
    destruct (tail_load eread summary_load_order ([10] ++ tl ++ rest) (fun _ => 0)) as [[env s']|]; [|contradiction].
    destruct Ht as (-> & -> & -> & -> & -> & ->). reflexivity.
  - destruct Hb as (Hs & Hf & Ha).
    repeat rewrite <- app_assoc.
    change ([49; 10] ++ isave sol ++ fit_save show17 fit ++ show17 acc ++ [10] ++ tl ++ rest)
      with (show_u 1 ++ [10] ++ isave sol ++ fit_save show17 fit ++ show17 acc ++ [10] ++ tl ++ rest).
    rewrite read_u32_show; [|unfold is_u32, u32_max; lia|assumption|reflexivity].
    cbn [Z.eqb].
    rewrite (ind_parse_spec sol Hs [10]) by reflexivity.
    change (10 :: fit_save show17 fit ++ show17 acc ++ [10] ++ tl ++ rest)
      with ([10] ++ fit_save show17 fit ++ (show17 acc ++ [10] ++ tl ++ rest)).
    rewrite (fit_rt fit [10]) by (auto; reflexivity).
    match goal with |- context [rdf read_f (show17 acc ++ ?r)] =>
      change (show17 acc ++ r) with ([] ++ show17 acc ++ r) end.
    rewrite (read_f_show acc []) by (auto; reflexivity).
    destruct (tail_load eread summary_load_order ([10] ++ tl ++ rest) (fun _ => 0)) as [[env s']|]; [|contradiction].
    destruct Ht as (-> & -> & -> & -> & -> & ->). reflexivity.
Qed.

End ContainersRT.

End Floats.
