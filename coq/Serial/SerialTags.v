(* Names of the fields streamed by the save()/load() pairs (vocabulary of the
   regenerated Gen/SerialOrder.v).  Definitions only. *)
Inductive ftag :=
| T_d0 | T_d1 | T_age | T_rows | T_cols | T_opcode | T_arg | T_best_index | T_best_category
| T_size | T_elem | T_layers | T_allowed | T_count
| T_elapsed | T_mutations | T_crossovers | T_gen | T_last_imp
| T_mean | T_min | T_max | T_m2 | T_nseen | T_key | T_val.
