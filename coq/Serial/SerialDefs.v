(* Serialisation model (C11, C12): byte-level printers and parsers mirroring
   the save()/load() member functions of morinim/vita, function by function.

   A stream is the list of the bytes still to be read (std::istream whose
   state is good; a failed extraction makes the calling load() return false at
   once, so the state after a failure is never observed).

   Integers are printed/read by the decimal codec defined here (operator<< and
   operator>> of libstdc++ for integral types).  Floating-point text is NOT
   modelled digit by digit: [show17] (save_float_to_stream: "%.16e") and
   [read_f] (load_float_from_stream / operator>>(double&): skip white space,
   accumulate the longest floating-point prefix, strtod) are Section
   variables.  Doubles are their 64-bit patterns (Z), so "equal" is bitwise.

   Every loader has the shape
        X_load : stream -> X -> bool * X * stream
   (stream, target) |-> (return value, target afterwards, rest of the stream)
   and is written as the C++ is: temporaries first, one commit point.

   Definitions only (no proofs): this file must extract even if a proof breaks. *)
From Coq Require Import ZArith List Bool.
From VV Require Import Serial.SerialTags Gen.SerialOrder.
Import ListNotations.
Local Open Scope Z_scope.

Definition stream := list Z.

(* ------------------------------------------------------------------------ *)
(* Decimal codec                                                            *)
(* ------------------------------------------------------------------------ *)
Definition is_digit (c : Z) : bool := (48 <=? c) && (c <=? 57).
(* std::isspace in the "C" locale: ' ', \t \n \v \f \r *)
Definition is_ws (c : Z) : bool := (c =? 32) || ((9 <=? c) && (c <=? 13)).

(* digits of n > 0, least significant first; [] for n <= 0 *)
Fixpoint digs (fuel : nat) (n : Z) : list Z :=
  match fuel with
  | O => []
  | S f => if n <=? 0 then [] else (48 + n mod 10) :: digs f (n / 10)
  end.

(* operator<<(unsigned integral) *)
Definition show_u (n : Z) : stream :=
  if n <=? 0 then [48] else rev (digs (S (Z.to_nat (Z.log2 n))) n).
(* operator<<(signed integral) *)
Definition show_i (n : Z) : stream :=
  if n <? 0 then 45 :: show_u (- n) else show_u n.

Fixpoint skip_ws (s : stream) : stream :=
  match s with
  | c :: r => if is_ws c then skip_ws r else s
  | [] => []
  end.

(* all the leading digits are consumed, also after the value has left the
   range of the type (libstdc++ num_get::_M_extract_int) *)
Fixpoint read_digits (s : stream) (acc : Z) (n : nat) : Z * nat * stream :=
  match s with
  | c :: r => if is_digit c then read_digits r (10 * acc + (c - 48)) (S n) else (acc, n, s)
  | [] => (acc, n, [])
  end.

(* operator>>(integral): skip white space, optional sign, digits; no digit or
   out of range => failure.  Unsigned types accept '-' and negate modulo
   2^width (the magnitude is checked against the maximum first). *)
Definition read_int (unsigned : bool) (lo hi : Z) (s : stream) : option (Z * stream) :=
  let s1 := skip_ws s in
  let '(neg, s2) := match s1 with
                    | c :: r => if c =? 45 then (true, r)          (* '-' *)
                                else if c =? 43 then (false, r)    (* '+' *)
                                else (false, s1)
                    | [] => (false, s1)
                    end in
  let '(v, n, s3) := read_digits s2 0 0 in
  match n with
  | O => None
  | S _ =>
      if unsigned
      then (if v <=? hi then Some ((if neg then (- v) mod (hi + 1) else v), s3) else None)
      else (let v' := if neg then - v else v in
            if (lo <=? v') && (v' <=? hi) then Some (v', s3) else None)
  end.

Definition u16_max := 65535.
Definition u32_max := 4294967295.
Definition u64_max := 18446744073709551615.
Definition i32_min := -2147483648.
Definition i32_max := 2147483647.

Definition read_u16 := read_int true 0 u16_max.
Definition read_u32 := read_int true 0 u32_max.
Definition read_u64 := read_int true 0 u64_max.
Definition read_i32 := read_int false i32_min i32_max.
Definition i64_min := -9223372036854775808.
Definition i64_max := 9223372036854775807.
Definition read_i64 := read_int false i64_min i64_max.

(* bind for parsers *)
Definition parser (A : Type) := stream -> option (A * stream).

(* "repeat n times" loops (for (i = 0; i < n; ++i) parse one element).  n is a
   Z (it comes from the stream and may be 2^64-1); the fuel is the length of
   the stream: every successful extraction consumes at least one byte, so
   running out of fuel with n > 0 means the stream is exhausted: failure. *)
Fixpoint rep {A : Type} (p : parser A) (fuel : nat) (n : Z) (s : stream) : option (list A * stream) :=
  if n <=? 0 then Some ([], s) else
  match fuel with
  | O => None
  | S f =>
      match p s with
      | None => None
      | Some (a, s') =>
          match rep p f (n - 1) s' with
          | None => None
          | Some (l, s'') => Some (a :: l, s'')
          end
      end
  end.

Definition zlen {A} (l : list A) : Z := Z.of_nat (length l).

(* std::getline(in, line): up to and excluding '\n', which is consumed *)
Fixpoint take_line (s : stream) : stream * stream :=
  match s with
  | [] => ([], [])
  | c :: r => if c =? 10 then ([], r) else let '(l, r') := take_line r in (c :: l, r')
  end.

(* IEEE-754 binary64 patterns *)
Definition finite_b (x : Z) : bool :=
  (0 <=? x) && (x <=? 18446744073709551615) && negb ((x / 4503599627370496) mod 2048 =? 2047).
(* order of the finite/infinite doubles on patterns (std::less<double>, used by
   the std::map of distribution): sign-magnitude -> Z; -0 and +0 coincide *)
Definition dkey (x : Z) : Z :=
  let m := x mod 9223372036854775808 in
  if x <? 9223372036854775808 then m else - m.

(* ------------------------------------------------------------------------ *)
(* The persistable types                                                    *)
(* ------------------------------------------------------------------------ *)

(* hash_t: two 64-bit words; {0,0} is the empty signature *)
Definition hash := (Z * Z)%type.
Definition hash_empty : hash := (0, 0).

(* symbol_set as seen by i_mep::load_impl: opcode, arity, and for terminals
   whether they are parametric *)
Record symrec := { sy_opcode : Z; sy_arity : nat; sy_param : bool }.
Definition symset := list symrec.
(* symbol_set::decode(opcode): first symbol with that opcode *)
Fixpoint decode (ss : symset) (op : Z) : option symrec :=
  match ss with
  | [] => None
  | y :: r => if sy_opcode y =? op then Some y else decode r op
  end.
Definition is_param (y : symrec) : bool :=
  match sy_arity y with O => sy_param y | S _ => false end.

(* gene: the symbol (by opcode), the parameter (pattern; 0 when the symbol is
   not a parametric terminal: the field is never read then), the arguments *)
Record gene := { g_op : Z; g_par : Z; g_args : list Z }.

(* i_mep: age, matrix<gene> genome_ (cols_, data_), best_ (index, category),
   cached signature *)
Record mep := { m_age : Z; m_cols : Z; m_genes : list gene; m_best : Z * Z; m_sig : hash }.
Definition npos : Z * Z := (u64_max, u64_max).
Definition mep_default : mep :=
  {| m_age := 0; m_cols := 0; m_genes := []; m_best := npos; m_sig := hash_empty |}.
(* matrix::rows() *)
Definition mep_rows (m : mep) : Z := if m_cols m =? 0 then 0 else zlen (m_genes m) / m_cols m.

(* i_ga / i_de: age, genome vector, cached signature *)
Record vec_ind := { v_age : Z; v_genome : list Z; v_sig : hash }.
Definition vec_default : vec_ind := {| v_age := 0; v_genome := []; v_sig := hash_empty |}.

(* team<T> *)
Record team (I : Type) := { t_inds : list I; t_sig : hash }.
Arguments t_inds {I}. Arguments t_sig {I}.
Definition team_default {I} : team I := {| t_inds := []; t_sig := hash_empty |}.

(* population<T>: layers = (allowed_[l], pop_[l]) *)
Definition layer (I : Type) := (Z * list I)%type.
Definition population (I : Type) := list (layer I).

(* summary<T>: best.solution, best.score.fitness, best.score.accuracy (always
   present: "no best known" is an empty solution), elapsed ms, mutations,
   crossovers, gen, last_imp *)
Record summary (I : Type) := {
  su_sol : I; su_fit : list Z; su_acc : Z;
  su_elapsed : Z; su_mutations : Z; su_crossovers : Z; su_gen : Z; su_last_imp : Z }.
Arguments su_sol {I}. Arguments su_fit {I}. Arguments su_acc {I}.
Arguments su_elapsed {I}. Arguments su_mutations {I}.
Arguments su_crossovers {I}. Arguments su_gen {I}. Arguments su_last_imp {I}.
(* model_measurements(): accuracy = -1.0 *)
Definition minus_one : Z := 13830554455654793216.

(* distribution<double> *)
Record distribution := {
  d_count : Z; d_mean : Z; d_min : Z; d_max : Z; d_m2 : Z; d_seen : list (Z * Z) }.

(* matrix<int> *)
Record matrix := { mx_cols : Z; mx_data : list Z }.
Definition mx_rows (m : matrix) : Z := if mx_cols m =? 0 then 0 else zlen (mx_data m) / mx_cols m.

(* The order in which the hand-written printers/parsers below stream their
   fields (one list per class; save and load use the same one).  Proved equal to
   the orders regenerated from the source in Serial/OrderProofs.v. *)
Definition hash_order_model : list ftag := [T_d0; T_d1].
Definition individual_order_model : list ftag := [T_age].
Definition mep_order_model : list ftag := [T_rows; T_cols; T_opcode; T_arg; T_best_index; T_best_category].
Definition vec_order_model : list ftag := [T_size; T_elem].
Definition team_order_model : list ftag := [T_size].
Definition population_order_model : list ftag := [T_layers; T_allowed; T_count].
Definition summary_order_model : list ftag := [T_elapsed; T_mutations; T_crossovers; T_gen; T_last_imp].
Definition distribution_order_model : list ftag :=
  [T_count; T_mean; T_min; T_max; T_m2; T_nseen; T_key; T_val].
Definition matrix_order_model : list ftag := [T_cols; T_rows; T_elem].

Definition lres (T : Type) := (bool * T * stream)%type.
Definition parser_of {T} (ld : stream -> T -> lres T) (dflt : T) : parser T :=
  fun s => let '(ok, t, s') := ld s dflt in if ok then Some (t, s') else None.

Section Oracles.
Variable show17 : Z -> stream.
Variable read_f : parser Z.

(* operator>>(double&) as used by the loaders: the oracle, with the one fact
   every extraction satisfies built in -- a successful extraction consumes at
   least one byte (an answer of the oracle that does not is a failure) *)
Definition rdf : parser Z :=
  fun s => match read_f s with
           | Some (x, s') => if (length s' <? length s)%nat then Some (x, s') else None
           | None => None
           end.

(* -------------------------------------------------------------- hash_t --- *)
Definition hash_save (h : hash) : stream :=
  show_u (fst h) ++ [32] ++ show_u (snd h) ++ [10].

Definition hash_load (s : stream) (t : hash) : lres hash :=
  match read_u64 s with
  | None => (false, t, s)
  | Some (a, s1) =>
      match read_u64 s1 with
      | None => (false, t, s1)
      | Some (b, s2) => (true, (a, b), s2)      (* *this = tmp *)
      end
  end.

(* ----------------------------------------------------------- fitness_t --- *)
Fixpoint fit_save (f : list Z) : stream :=
  match f with
  | [] => [10]
  | x :: r => show17 x ++ [32] ++ fit_save r
  end.

(* while (load_float_from_stream(line_in, &elem)) tmp.push_back(elem); *)
Fixpoint read_floats (fuel : nat) (s : stream) : list Z :=
  match fuel with
  | O => []
  | S f =>
      match rdf s with
      | Some (x, s') => x :: read_floats f s'
      | None => []
      end
  end.

Definition fit_load (s : stream) (t : list Z) : lres (list Z) :=
  match skip_ws s with
  | [] => (false, t, [])                       (* getline fails at end of stream *)
  | s1 =>
      let '(line, rest) := take_line s1 in
      (true, read_floats (S (length line)) line, rest)
  end.

(* --------------------------------------------------------------- i_mep --- *)
Definition gene_save (ss : symset) (g : gene) : stream :=
  show_u (g_op g)
  ++ (match decode ss (g_op g) with
      | Some y => if is_param y then [32] ++ show17 (g_par g) else []
      | None => []
      end)
  ++ flat_map (fun a => [32] ++ show_u a) (g_args g)
  ++ [10].

(* the version of the pinned tree printed the parameter with the stream's
   default precision (6 significant digits): oracle [show6] *)
Definition gene_save_pinned (show6 : Z -> stream) (ss : symset) (g : gene) : stream :=
  show_u (g_op g)
  ++ (match decode ss (g_op g) with
      | Some y => if is_param y then [32] ++ show6 (g_par g) else []
      | None => []
      end)
  ++ flat_map (fun a => [32] ++ show_u a) (g_args g)
  ++ [10].

Definition mep_save_impl (ss : symset) (m : mep) : stream :=
  show_u (mep_rows m) ++ [32] ++ show_u (m_cols m) ++ [10]
  ++ flat_map (gene_save ss) (m_genes m)
  ++ (if mep_rows m mod (u32_max + 1) =? 0 then []       (* empty(): size() == 0 *)
      else show_u (fst (m_best m)) ++ [32] ++ show_u (snd (m_best m)) ++ [10]).

Definition mep_save_pinned (show6 : Z -> stream) (ss : symset) (m : mep) : stream :=
  show_u (m_age m) ++ [10]
  ++ show_u (mep_rows m) ++ [32] ++ show_u (m_cols m) ++ [10]
  ++ flat_map (gene_save_pinned show6 ss) (m_genes m)
  ++ (if mep_rows m mod (u32_max + 1) =? 0 then []
      else show_u (fst (m_best m)) ++ [32] ++ show_u (snd (m_best m)) ++ [10]).

(* one iteration of  for (auto &g : genome)  *)
Definition gene_parse (ss : symset) : parser gene :=
  fun s =>
  match read_u32 s with
  | None => None
  | Some (op, s1) =>
      match decode ss op with
      | None => None
      | Some y =>
          match (if is_param y then rdf s1 else Some (0, s1)) with
          | None => None
          | Some (par, s2) =>
              match rep read_u16 (sy_arity y) (Z.of_nat (sy_arity y)) s2 with
              | None => None
              | Some (args, s3) => Some ({| g_op := op; g_par := par; g_args := args |}, s3)
              end
          end
      end
  end.

Definition mep_load_impl (ss : symset) (s : stream) (t : mep) : lres mep :=
  match read_u32 s with
  | None => (false, t, s)
  | Some (rows, s1) =>
      match read_u32 s1 with
      | None => (false, t, s1)
      | Some (cols, s2) =>
          match rep (gene_parse ss) (length s2) (rows * cols) s2 with
          | None => (false, t, s2)
          | Some (genes, s3) =>
              match (if rows =? 0 then Some (npos, s3)
                     else match read_u64 s3 with
                          | None => None
                          | Some (bi, s4) =>
                              match read_u64 s4 with
                              | None => None
                              | Some (bc, s5) => Some ((bi, bc), s5)
                              end
                          end) with
              | None => (false, t, s3)
              | Some (best, s6) =>
                  (* best_ = best; genome_ = genome; *)
                  (true, {| m_age := m_age t; m_cols := cols; m_genes := genes;
                            m_best := best; m_sig := m_sig t |}, s6)
              end
          end
      end
  end.

(* individual<Derived>::load / save *)
Definition mep_save (ss : symset) (m : mep) : stream :=
  show_u (m_age m) ++ [10] ++ mep_save_impl ss m.

Definition mep_load (ss : symset) (s : stream) (t : mep) : lres mep :=
  match read_u32 s with
  | None => (false, t, s)
  | Some (age, s1) =>
      let '(ok, t1, s2) := mep_load_impl ss s1 t in
      if ok
      then (true, {| m_age := age; m_cols := m_cols t1; m_genes := m_genes t1;
                     m_best := m_best t1; m_sig := hash_empty |}, s2)
      else (false, t1, s2)
  end.

(* --------------------------------------------------------- i_ga, i_de ---- *)
Definition ga_save_impl (v : vec_ind) : stream :=
  show_u (zlen (v_genome v)) ++ [10] ++ flat_map (fun g => show_i g ++ [10]) (v_genome v).
Definition de_save_impl (v : vec_ind) : stream :=
  show_u (zlen (v_genome v)) ++ [10] ++ flat_map (fun g => show17 g ++ [10]) (v_genome v).

Definition vec_load_impl (elem : parser Z) (s : stream) (t : vec_ind) : lres vec_ind :=
  match read_u64 s with
  | None => (false, t, s)
  | Some (sz, s1) =>
      match rep elem (length s1) sz s1 with
      | None => (false, t, s1)
      | Some (v, s2) => (true, {| v_age := v_age t; v_genome := v; v_sig := v_sig t |}, s2)
      end
  end.

Definition vec_load (elem : parser Z) (s : stream) (t : vec_ind) : lres vec_ind :=
  match read_u32 s with
  | None => (false, t, s)
  | Some (age, s1) =>
      let '(ok, t1, s2) := vec_load_impl elem s1 t in
      if ok then (true, {| v_age := age; v_genome := v_genome t1; v_sig := hash_empty |}, s2)
      else (false, t1, s2)
  end.

Definition ga_save (v : vec_ind) : stream := show_u (v_age v) ++ [10] ++ ga_save_impl v.
Definition de_save (v : vec_ind) : stream := show_u (v_age v) ++ [10] ++ de_save_impl v.
Definition ga_load := vec_load read_i32.
(* empty(): i_mep: size() == 0;  i_ga / i_de: no parameters *)
Definition mep_empty (m : mep) : bool := mep_rows m mod (u32_max + 1) =? 0.
Definition vec_empty (v : vec_ind) : bool := match v_genome v with [] => true | _ => false end.
Definition de_load := vec_load rdf.

(* --------------------------------------- containers over an individual --- *)
Section Containers.
Variable I : Type.
Variable isave : I -> stream.
Variable iload : stream -> I -> lres I.
Variable idflt : I.

(* T i; if (!i.load(in, ss)) return false; v.push_back(i); *)
Definition ind_parse : parser I := parser_of iload idflt.

Definition team_save (t : team I) : stream :=
  show_u (zlen (t_inds t)) ++ [10] ++ flat_map isave (t_inds t).

Definition team_load (s : stream) (t : team I) : lres (team I) :=
  match read_u32 s with
  | None => (false, t, s)
  | Some (n, s1) =>
      if n =? 0 then (false, t, s1) else
      match rep ind_parse (length s1) n s1 with
      | None => (false, t, s1)
      | Some (v, s2) => (true, {| t_inds := v; t_sig := hash_empty |}, s2)
      end
  end.

Definition layer_save (l : layer I) : stream :=
  show_u (fst l) ++ [32] ++ show_u (zlen (snd l)) ++ [10] ++ flat_map isave (snd l).
Definition pop_save (p : population I) : stream :=
  show_u (zlen p) ++ [10] ++ flat_map layer_save p.

(* repaired population::load: the layers are built in temporaries *)
Definition layer_parse : parser (layer I) :=
  fun s =>
  match read_u32 s with
  | None => None
  | Some (al, s1) =>
      match read_u32 s1 with
      | None => None
      | Some (n, s2) =>
          match rep ind_parse (length s2) n s2 with
          | None => None
          | Some (v, s3) => Some ((al, v), s3)
          end
      end
  end.

Definition pop_load (s : stream) (t : population I) : lres (population I) :=
  match read_u32 s with
  | None => (false, t, s)
  | Some (n, s1) =>
      if n =? 0 then (false, t, s1) else
      match rep layer_parse (length s1) n s1 with
      | None => (false, t, s1)
      | Some (ls, s2) => (true, ls, s2)
      end
  end.

(* The numeric tail of a summary is printed and parsed field by field in the
   ORDER READ OFF THE SOURCE (Gen/SerialOrder.v, regenerated on every run):
   summary_save_order for save, summary_load_order for load. *)
Definition tail_get (x : summary I) (f : ftag) : Z :=
  match f with
  | T_elapsed => su_elapsed x
  | T_mutations => su_mutations x
  | T_crossovers => su_crossovers x
  | T_gen => su_gen x
  | _ => su_last_imp x
  end.
Definition tail_show (x : summary I) (f : ftag) : stream :=
  match f with T_elapsed => show_i (tail_get x f) | _ => show_u (tail_get x f) end.
Fixpoint tail_save (order : list ftag) (x : summary I) : stream :=
  match order with
  | [] => [10]
  | [f] => tail_show x f ++ [10]
  | f :: r => tail_show x f ++ [32] ++ tail_save r x
  end.

Definition summary_save (isempty : I -> bool) (x : summary I) : stream :=
  (if isempty (su_sol x) then [48; 10]
   else [49; 10] ++ isave (su_sol x) ++ fit_save (su_fit x) ++ show17 (su_acc x) ++ [10])
  ++ tail_save summary_save_order x.

(* reader of a tail field: by its C++ type *)
Definition tail_reader (eread : parser Z) (f : ftag) : parser Z :=
  match f with
  | T_elapsed => eread
  | T_mutations | T_crossovers => read_u64
  | _ => read_u32
  end.
Definition ftag_eqb (a b : ftag) : bool :=
  match a, b with
  | T_elapsed, T_elapsed | T_mutations, T_mutations | T_crossovers, T_crossovers
  | T_gen, T_gen | T_last_imp, T_last_imp => true
  | _, _ => false
  end.
Definition upd (env : ftag -> Z) (f : ftag) (v : Z) : ftag -> Z :=
  fun g => if ftag_eqb g f then v else env g.
Fixpoint tail_load (eread : parser Z) (order : list ftag) (s : stream) (env : ftag -> Z)
  : option ((ftag -> Z) * stream) :=
  match order with
  | [] => Some (env, s)
  | f :: r =>
      match tail_reader eread f s with
      | None => None
      | Some (v, s') => tail_load eread r s' (upd env f v)
      end
  end.

Definition summary_load (eread : parser Z) (s : stream) (t : summary I) : lres (summary I) :=
  match read_u32 s with
  | None => (false, t, s)
  | Some (known, s1) =>
      (* summary tmp_summary;  if (known_best) { ... } *)
      match (if known =? 0 then Some ((idflt, [], minus_one), s1)
             else match ind_parse s1 with
                  | None => None
                  | Some (sol, s2) =>
                      match fit_load s2 [] with
                      | (false, _, _) => None
                      | (true, fit, s3) =>
                          match rdf s3 with
                          | None => None
                          | Some (acc, s4) => Some ((sol, fit, acc), s4)
                          end
                      end
                  end) with
      | None => (false, t, s1)
      | Some ((sol, fit, acc), s5) =>
          match tail_load eread summary_load_order s5 (fun _ => 0) with
          | None => (false, t, s5)
          | Some (env, s10) =>
              (* *this = tmp_summary *)
              (true, {| su_sol := sol; su_fit := fit; su_acc := acc;
                        su_elapsed := env T_elapsed; su_mutations := env T_mutations;
                        su_crossovers := env T_crossovers; su_gen := env T_gen;
                        su_last_imp := env T_last_imp |}, s10)
          end
      end
  end.

(* ---- the population::load of the pinned tree, in checked form -----------
   population p(prob): one layer holding [n0] (= env.individuals) fresh
   individuals; pop_.reserve / allowed_.reserve do not change the sizes, so
   allowed_[l] and p[{l,i}] are checked against them. *)
Inductive pres (T : Type) := POk (t : T) (s : stream) | PFail | POob.
Arguments POk {T}. Arguments PFail {T}. Arguments POob {T}.

Fixpoint set_nth {A} (l : list A) (i : nat) (a : A) : option (list A) :=
  match l, i with
  | [], _ => None
  | _ :: r, O => Some (a :: r)
  | x :: r, S j => match set_nth r j a with Some r' => Some (x :: r') | None => None end
  end.

Fixpoint pinned_inds (fuel : nat) (n : Z) (i : nat) (s : stream) (v : list I) : pres (list I) :=
  if n <=? 0 then POk v s else
  match fuel with
  | O => PFail
  | S f =>
      match nth_error v i with
      | None => POob                                   (* p[{l,i}] *)
      | Some cur =>
          let '(ok, ind, s') := iload s cur in
          if ok then
            match set_nth v i ind with
            | Some v' => pinned_inds f (n - 1) (S i) s' v'
            | None => POob
            end
          else PFail
      end
  end.

Fixpoint pinned_layers (fuel : nat) (n : Z) (l : nat) (s : stream) (p : population I) : pres (population I) :=
  if n <=? 0 then POk p s else
  match fuel with
  | O => PFail
  | S f =>
      match nth_error p l with
      | None => POob                                   (* p.allowed_[l] *)
      | Some (_, inds) =>
          match read_u32 s with
          | None => PFail
          | Some (al, s1) =>
              match read_u32 s1 with
              | None => PFail
              | Some (ne, s2) =>
                  match pinned_inds (length s2) ne 0 s2 inds with
                  | POk inds' s3 =>
                      match set_nth p l (al, inds') with
                      | Some p' => pinned_layers f (n - 1) (S l) s3 p'
                      | None => POob
                      end
                  | PFail => PFail
                  | POob => POob
                  end
              end
          end
      end
  end.

Definition pop_load_pinned (fresh : population I) (s : stream) (t : population I) : pres (population I) :=
  match read_u32 s with
  | None => PFail
  | Some (n, s1) =>
      if n =? 0 then PFail else pinned_layers (length s1) n 0 s1 fresh
  end.

(* ---- the repaired population::load in the same checked vocabulary: two
   parallel local vectors grown by push_back, then the capacity loop
   for (l = 0; l < pop.size(); ++l) pop[l].reserve(max(allowed[l], pop[l].size()))
   which indexes both *)
Fixpoint layers_chk (fuel : nat) (n : Z) (s : stream) (pop : list (list I)) (allowed : list Z)
  : pres (list (list I) * list Z) :=
  if n <=? 0 then POk (pop, allowed) s else
  match fuel with
  | O => PFail
  | S f =>
      match read_u32 s with
      | None => PFail
      | Some (al, s1) =>
          match read_u32 s1 with
          | None => PFail
          | Some (ne, s2) =>
              match rep ind_parse (length s2) ne s2 with
              | None => PFail
              | Some (v, s3) => layers_chk f (n - 1) s3 (pop ++ [v]) (allowed ++ [al])
              end
          end
      end
  end.

Fixpoint reserve_loop (k l : nat) (pop : list (list I)) (allowed : list Z) : bool :=
  match k with
  | O => true
  | S k' =>
      match nth_error pop l, nth_error allowed l with
      | Some _, Some _ => reserve_loop k' (S l) pop allowed
      | _, _ => false                                   (* pop[l] / allowed[l] out of bounds *)
      end
  end.

Definition pop_load_chk (s : stream) : pres (population I) :=
  match read_u32 s with
  | None => PFail
  | Some (n, s1) =>
      if n =? 0 then PFail else
      match layers_chk (length s1) n s1 [] [] with
      | POk (pop, allowed) s2 =>
          if reserve_loop (length pop) 0 pop allowed then POk (combine allowed pop) s2 else POob
      | PFail => PFail
      | POob => POob
      end
  end.

End Containers.
Arguments POk {T}. Arguments PFail {T}. Arguments POob {T}.

(* ------------------------------------------------ distribution<double> --- *)
Definition dist_save (d : distribution) : stream :=
  show_u (d_count d) ++ [10] ++ show17 (d_mean d) ++ [10] ++ show17 (d_min d) ++ [10]
  ++ show17 (d_max d) ++ [10] ++ show17 (d_m2 d) ++ [10]
  ++ show_u (zlen (d_seen d)) ++ [10]
  ++ flat_map (fun kv => show17 (fst kv) ++ [32] ++ show_u (snd kv) ++ [10]) (d_seen d).

(* distribution::save returns false (and writes nothing) when a moment or a
   key is not finite *)
Definition dist_save_ok (d : distribution) : bool :=
  finite_b (d_mean d) && finite_b (d_min d) && finite_b (d_max d) && finite_b (d_m2 d)
  && forallb (fun kv => finite_b (fst kv)) (d_seen d).

(* s[key] = val on the sorted association list that stands for std::map *)
Fixpoint map_set (m : list (Z * Z)) (k v : Z) : list (Z * Z) :=
  match m with
  | [] => [(k, v)]
  | (k', v') :: r =>
      if dkey k <? dkey k' then (k, v) :: m
      else if dkey k' <? dkey k then (k', v') :: map_set r k v
      else (k', v) :: r
  end.

Definition kv_parse : parser (Z * Z) :=
  fun s =>
  match rdf s with
  | None => None
  | Some (k, s1) =>
      match read_u64 s1 with
      | None => None
      | Some (v, s2) => Some ((k, v), s2)
      end
  end.

Definition dist_load (s : stream) (t : distribution) : lres distribution :=
  match read_u64 s with
  | None => (false, t, s)
  | Some (c, s1) =>
  match rdf s1 with
  | None => (false, t, s1)
  | Some (m, s2) =>
  match rdf s2 with
  | None => (false, t, s2)
  | Some (mn, s3) =>
  match rdf s3 with
  | None => (false, t, s3)
  | Some (mx, s4) =>
  match rdf s4 with
  | None => (false, t, s4)
  | Some (m2, s5) =>
  match read_u64 s5 with
  | None => (false, t, s5)
  | Some (n, s6) =>
  match rep kv_parse (length s6) n s6 with
  | None => (false, t, s6)
  | Some (kvs, s7) =>
      (true, {| d_count := c; d_mean := m; d_min := mn; d_max := mx; d_m2 := m2;
                d_seen := fold_left (fun acc kv => map_set acc (fst kv) (snd kv)) kvs [] |}, s7)
  end end end end end end end.

(* --------------------------------------------------------- matrix<int> --- *)
Definition matrix_save (m : matrix) : stream :=
  show_u (mx_cols m) ++ [32] ++ show_u (mx_rows m) ++ [10]
  ++ flat_map (fun e => show_i e ++ [10]) (mx_data m).

Definition matrix_load (s : stream) (t : matrix) : lres matrix :=
  match read_u64 s with
  | None => (false, t, s)
  | Some (cs, s1) =>
      match read_u64 s1 with
      | None => (false, t, s1)
      | Some (rs, s2) =>
          match rep read_i32 (length s2) ((cs * rs) mod (u64_max + 1)) s2 with
          | None => (false, t, s2)
          | Some (v, s3) => (true, {| mx_cols := cs; mx_data := v |}, s3)
          end
      end
  end.

End Oracles.
Arguments POk {T}. Arguments PFail {T}. Arguments POob {T}.
