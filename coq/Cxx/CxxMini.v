(* A deep embedding of the small C++ subset the primitive `eval` bodies of
   vita are written in, and its semantics as a [strategy].

   The abstract syntax is what translate/cxx_mini.py emits from /repo/src on
   every run (coq/Gen/*.v); everything that gives it meaning -- integer
   promotions, undefined behaviour of signed arithmetic and shifts,
   short-circuit evaluation, the conversion of the returned expression to
   value_t -- is here, in one reviewable place.  Definitions only. *)
From Coq Require Import ZArith List Bool.
From VV Require Import Base.F64 Base.Values Interp.Strategy.
Import ListNotations.
Local Open Scope Z_scope.

Inductive ty := TI32 | TI64 | TU64 | TBool | TF64 | TVal | TStr | TAuto.

Inductive cval :=
| CI32 (z : Z) | CI64 (z : Z) | CU64 (z : Z)
| CB (b : bool) | CD (f : f64) | CV (v : value) | CS (s : list Z).

Inductive unop := UNeg | UNot.
Inductive binop :=
| BAdd | BSub | BMul | BDiv | BRem | BShl | BShr
| BLt | BGt | BLe | BGe | BEq | BNe | BAnd | BOr.

(* library functions; the transcendental ones are oracles (record [libm]) *)
Inductive fn1 :=
| F_has_value | F_get_double | F_get_int | F_get_string | F_str_length
| F_fabs | F_floor | F_sqrt | F_isfinite | F_issmall
| F_log | F_exp | F_sin | F_cos.
Inductive fn2 := F_fmod | F_fmin | F_fmax | F_isless | F_isgreater.

Inductive expr :=
| EArg (i : nat)                     (* args[i]            *)
| EParam                             (* p.fetch_param()    *)
| ELocal (x : nat)                   (* x-th declared local *)
| EI32 (z : Z) | EU64 (z : Z) | EDbl (bits : Z) | EBool (b : bool)
| EEmpty                             (* {}  (value_t)      *)
| EUn (o : unop) (a : expr)
| EBin (o : binop) (a b : expr)
| ECond (c a b : expr)
| ECast (t : ty) (a : expr)          (* static_cast<T>(a) / T x(a) *)
| ECall1 (f : fn1) (a : expr)
| ECall2 (f : fn2) (a b : expr).

Inductive stmt :=
| SDecl (t : ty) (e : expr)          (* const T x(e);  x = next local index *)
| SIfRet (c : expr) (th : expr) (el : option expr)   (* if (c) return th; [else return el;] *)
| SReturn (e : expr).

Record libm := { l_log : f64 -> f64; l_exp : f64 -> f64; l_sin : f64 -> f64; l_cos : f64 -> f64 }.

Definition i32_min := -2147483648.
Definition i32_max :=  2147483647.
Definition i64_min := -9223372036854775808.
Definition i64_max :=  9223372036854775807.
Definition u64_mod :=  18446744073709551616.

Definition in_i32 (z : Z) : bool := (i32_min <=? z) && (z <=? i32_max).
Definition in_i64 (z : Z) : bool := (i64_min <=? z) && (z <=? i64_max).

(* 2 * DBL_EPSILON = 2^-51 *)
Definition two_eps : f64 := F64.of_bits 0x3CC0000000000000.
Definition issmall (x : f64) : bool := F64.ltb (F64.abs x) two_eps.

Section Sem.
Variable lm : libm.

(* result of a pure step *)
Inductive res := Ok (c : cval) | Err (o : outcome).

Definition ck32 (z : Z) : res := if in_i32 z then Ok (CI32 z) else Err Stuck.
Definition ck64 (z : Z) : res := if in_i64 z then Ok (CI64 z) else Err Stuck.

(* integer conversion rank: bool < int < intmax_t < size_t(unsigned 64) *)
Definition to_bool (c : cval) : res :=
  match c with
  | CB b => Ok (CB b)
  | CI32 z | CI64 z | CU64 z => Ok (CB (negb (z =? 0)))
  | CD f => Ok (CB (negb (F64.is_zero f)))
  | _ => Err Stuck
  end.

Definition convert (t : ty) (c : cval) : res :=
  match t, c with
  | TAuto, _ => Ok c
  | TI32, CI32 z => Ok (CI32 z)
  | TI32, CB b => Ok (CI32 (if b then 1 else 0))
  (* out-of-range integer conversions are implementation-defined (modular);
     the shipped code never relies on them: treated as stuck *)
  | TI32, (CI64 z | CU64 z) => ck32 z
  | TI32, CD f => match F64.to_Z_trunc f with Some z => ck32 z | None => Err Stuck end
  | TI64, (CI32 z | CI64 z) => Ok (CI64 z)
  | TI64, CB b => Ok (CI64 (if b then 1 else 0))
  | TI64, CU64 z => ck64 z
  | TU64, CU64 z => Ok (CU64 z)
  | TU64, (CI32 z | CI64 z) => Ok (CU64 (z mod u64_mod))
  | TBool, _ => to_bool c
  | TF64, CD f => Ok (CD f)
  | TF64, (CI32 z | CI64 z | CU64 z) => Ok (CD (F64.of_Z z))
  | TF64, CB b => Ok (CD (F64.of_Z (if b then 1 else 0)))
  | TVal, CV v => Ok (CV v)
  | TVal, CI32 z => Ok (CV (VInt z))
  | TVal, CB b => Ok (CV (VInt (if b then 1 else 0)))
  | TVal, CD f => Ok (CV (VDouble f))
  | TVal, CS s => Ok (CV (VString s))
  | TStr, CS s => Ok (CS s)
  | _, _ => Err Stuck
  end.

Definition cmp_Z (o : binop) (x y : Z) : bool :=
  match o with
  | BLt => x <? y | BGt => y <? x | BLe => x <=? y | BGe => y <=? x
  | BEq => x =? y | _ => negb (x =? y)
  end.
Definition cmp_F (o : binop) (x y : f64) : bool :=
  match o with
  | BLt => F64.ltb x y | BGt => F64.gtb x y | BLe => F64.leb x y | BGe => F64.geb x y
  | BEq => F64.eqb x y | _ => F64.neb x y
  end.
Definition is_cmp (o : binop) : bool :=
  match o with BLt | BGt | BLe | BGe | BEq | BNe => true | _ => false end.

(* signed arithmetic at width given by [ck] (ck32 / ck64): undefined
   behaviour = Stuck *)
Definition arith_signed (ck : Z -> res) (lo : Z) (bits : Z) (o : binop) (x y : Z) : res :=
  match o with
  | BAdd => ck (x + y)
  | BSub => ck (x - y)
  | BMul => ck (x * y)
  | BDiv => if (y =? 0) || ((x =? lo) && (y =? -1)) then Err Stuck else ck (Z.quot x y)
  | BRem => if (y =? 0) || ((x =? lo) && (y =? -1)) then Err Stuck else ck (Z.rem x y)
  | BShl => if (x <? 0) || (y <? 0) || (bits <=? y) then Err Stuck else ck (x * 2 ^ y)
  | BShr => if (y <? 0) || (bits <=? y) then Err Stuck
            else if x <? 0 then Err Stuck (* implementation-defined *) else ck (x / 2 ^ y)
  | _ => Err Stuck
  end.

Definition arith_u64 (o : binop) (x y : Z) : res :=
  match o with
  | BAdd => Ok (CU64 ((x + y) mod u64_mod))
  | BSub => Ok (CU64 ((x - y) mod u64_mod))
  | BMul => Ok (CU64 ((x * y) mod u64_mod))
  | BDiv => if y =? 0 then Err Stuck else Ok (CU64 (x / y))
  | BRem => if y =? 0 then Err Stuck else Ok (CU64 (x mod y))
  | _ => Err Stuck
  end.

Definition arith_F (o : binop) (x y : f64) : res :=
  match o with
  | BAdd => Ok (CD (F64.add x y))
  | BSub => Ok (CD (F64.sub x y))
  | BMul => Ok (CD (F64.mul x y))
  | BDiv => Ok (CD (F64.div x y))
  | _ => Err Stuck
  end.

(* usual arithmetic conversions, then the operation *)
Definition promote (c : cval) : cval :=
  match c with CB b => CI32 (if b then 1 else 0) | _ => c end.

Definition binop_strict (o : binop) (a b : cval) : res :=
  match promote a, promote b with
  | CV x, CV y =>
      match o with
      | BEq => Ok (CB (value_eqb x y))
      | BNe => Ok (CB (negb (value_eqb x y)))
      | _ => Err Stuck
      end
  | CD x, CD y => if is_cmp o then Ok (CB (cmp_F o x y)) else arith_F o x y
  | CD x, (CI32 y | CI64 y | CU64 y) =>
      if is_cmp o then Ok (CB (cmp_F o x (F64.of_Z y))) else arith_F o x (F64.of_Z y)
  | (CI32 x | CI64 x | CU64 x), CD y =>
      if is_cmp o then Ok (CB (cmp_F o (F64.of_Z x) y)) else arith_F o (F64.of_Z x) y
  | CI32 x, CI32 y =>
      if is_cmp o then Ok (CB (cmp_Z o x y)) else arith_signed ck32 i32_min 32 o x y
  | CI64 x, (CI32 y | CI64 y) | CI32 x, CI64 y =>
      if is_cmp o then Ok (CB (cmp_Z o x y))
      else match o with
           | BShl | BShr => Err Stuck   (* not used by the shipped code *)
           | _ => arith_signed ck64 i64_min 64 o x y
           end
  | CU64 x, CU64 y => if is_cmp o then Ok (CB (cmp_Z o x y)) else arith_u64 o x y
  | CU64 x, (CI32 y | CI64 y) =>
      let y' := y mod u64_mod in
      if is_cmp o then Ok (CB (cmp_Z o x y')) else arith_u64 o x y'
  | (CI32 x | CI64 x), CU64 y =>
      let x' := x mod u64_mod in
      if is_cmp o then Ok (CB (cmp_Z o x' y)) else arith_u64 o x' y
  | _, _ => Err Stuck
  end.

Definition unop_sem (o : unop) (a : cval) : res :=
  match o, a with
  | UNot, _ => match to_bool a with Ok (CB b) => Ok (CB (negb b)) | r => r end
  | UNeg, CD f => Ok (CD (F64.neg f))
  | UNeg, CI32 z => ck32 (- z)
  | UNeg, CB b => Ok (CI32 (if b then -1 else 0))
  | UNeg, CI64 z => ck64 (- z)
  | UNeg, CU64 z => Ok (CU64 ((- z) mod u64_mod))
  | _, _ => Err Stuck
  end.

Definition as_f (c : cval) : option f64 :=
  match c with
  | CD f => Some f
  | CI32 z | CI64 z | CU64 z => Some (F64.of_Z z)
  | _ => None
  end.

Definition call1 (f : fn1) (a : cval) : res :=
  match f, a with
  | F_has_value, CV v => Ok (CB (has_value v))
  | F_get_double, CV (VDouble d) => Ok (CD d)
  | F_get_double, CV _ => Err Throw
  | F_get_int, CV (VInt z) => Ok (CI32 z)
  | F_get_int, CV _ => Err Throw
  | F_get_string, CV (VString s) => Ok (CS s)
  | F_get_string, CV _ => Err Throw
  | F_str_length, CS s => Ok (CU64 (Z.of_nat (length s)))
  | F_issmall, CD x => Ok (CB (issmall x))
  | (F_fabs | F_floor | F_sqrt | F_isfinite | F_log | F_exp | F_sin | F_cos), _ =>
      match as_f a with
      | None => Err Stuck
      | Some x =>
          match f with
          | F_fabs => Ok (CD (F64.abs x))
          | F_floor => Ok (CD (F64.floor x))
          | F_sqrt => Ok (CD (F64.sqrt x))
          | F_isfinite => Ok (CB (F64.is_finite x))
          | F_log => Ok (CD (l_log lm x))
          | F_exp => Ok (CD (l_exp lm x))
          | F_sin => Ok (CD (l_sin lm x))
          | _ => Ok (CD (l_cos lm x))
          end
      end
  | _, _ => Err Stuck
  end.

Definition call2 (f : fn2) (a b : cval) : res :=
  match as_f a, as_f b with
  | Some x, Some y =>
      match f with
      | F_fmod => Ok (CD (F64.fmod x y))
      | F_fmin => Ok (CD (F64.fmin x y))
      | F_fmax => Ok (CD (F64.fmax x y))
      | F_isless => Ok (CB (F64.ltb x y))
      | F_isgreater => Ok (CB (F64.gtb x y))
      end
  | _, _ => Err Stuck
  end.

Definition lift (r : res) (k : cval -> strategy) : strategy :=
  match r with Ok c => k c | Err o => Ret o end.

(* CPS evaluation of an expression; [env] = the declared locals, most recent
   first is NOT used: locals are numbered in declaration order and looked up
   with nth_error on the list kept in declaration order. *)
Fixpoint eval (e : expr) (env : list cval) (k : cval -> strategy) {struct e} : strategy :=
  match e with
  | EArg i => Fetch i (fun v => k (CV v))
  | EParam => Param (fun f => k (CD f))
  | ELocal x => match nth_error env x with Some c => k c | None => Ret Stuck end
  | EI32 z => k (CI32 z)
  | EU64 z => k (CU64 z)
  | EDbl b => k (CD (F64.of_bits b))
  | EBool b => k (CB b)
  | EEmpty => k (CV VVoid)
  | EUn o a => eval a env (fun ca => lift (unop_sem o ca) k)
  | EBin BAnd a b =>
      eval a env (fun ca => lift (to_bool ca) (fun ba =>
        match ba with
        | CB true => eval b env (fun cb => lift (to_bool cb) k)
        | _ => k (CB false)
        end))
  | EBin BOr a b =>
      eval a env (fun ca => lift (to_bool ca) (fun ba =>
        match ba with
        | CB false => eval b env (fun cb => lift (to_bool cb) k)
        | _ => k (CB true)
        end))
  | EBin o a b =>
      eval a env (fun ca => eval b env (fun cb => lift (binop_strict o ca cb) k))
  | ECond c a b =>
      eval c env (fun cc => lift (to_bool cc) (fun bc =>
        match bc with CB true => eval a env k | _ => eval b env k end))
  | ECast t a => eval a env (fun ca => lift (convert t ca) k)
  | ECall1 f a => eval a env (fun ca => lift (call1 f ca) k)
  | ECall2 f a b =>
      eval a env (fun ca => eval b env (fun cb => lift (call2 f ca cb) k))
  end.

(* statements; falling off the end of a value-returning function is
   undefined behaviour *)
Definition ret (e : expr) (env : list cval) : strategy :=
  eval e env (fun c => lift (convert TVal c) (fun c' =>
    match c' with CV v => Ret (Val v) | _ => Ret Stuck end)).

Fixpoint exec (ss : list stmt) (env : list cval) {struct ss} : strategy :=
  match ss with
  | [] => Ret Stuck
  | SDecl t e :: rest =>
      eval e env (fun c => lift (convert t c) (fun c' => exec rest (env ++ [c'])))
  | SReturn e :: _ => ret e env
  | SIfRet c th el :: rest =>
      eval c env (fun cc => lift (to_bool cc) (fun bc =>
        match bc with
        | CB true => ret th env
        | _ => match el with Some e => ret e env | None => exec rest env end
        end))
  end.

Definition strategy_of (body : list stmt) : strategy := exec body [].

End Sem.
