(* C02 -- i_mep::cse() over a std::map whose comparator is NOT known to be a
   strict weak ordering.  For such a comparator the container gives no
   guarantee beyond what its code does on every path: the node find() returns,
   if any, is equivalent to the key (neither compares less); it may return
   end() although an equivalent node exists; try_emplace inserts exactly when
   its own lookup returned end().  Every lookup is therefore resolved by an
   explicit choice: [None] = end(), [Some j] = the j-th node equivalent to the
   key (most recently inserted first).  Definitions only; used by the refuted
   statement about the pinned comparator. *)
From Coq Require Import ZArith List Bool Arith.
Local Ltac c02_scan0 := idtac. (* separates the Require lines for the dependency scanner of lib/vv.py *)
From VV Require Import Base.F64 Mep.Genome Mep.Draws Mep.OpsDefs.
Local Ltac c02_scan1 := idtac.
Import ListNotations.

Section CseAny.
Variable cmp : gene -> gene -> bool.
Definition candidates (k : gene) (m : kmap) : list (gene * locus) :=
  filter (fun e => gene_equiv cmp k (fst e)) m.
(* outer None: the choice does not designate a node *)
Definition kfind_any (k : gene) (m : kmap) (ch : option nat) : option (option locus) :=
  match ch with
  | None => Some None
  | Some j => match nth_error (candidates k m) j with Some e => Some (Some (snd e)) | None => None end
  end.
Definition MC (A : Type) := list (option nat) -> option (A * list (option nat)).
Definition cse_arg_any (g : genome) (m : kmap) (al : locus) : MC nat := fun chs =>
  match chs with
  | [] => None
  | ch :: chs' =>
      match gene_at g al with
      | None => None
      | Some ga => match kfind_any ga m ch with
                   | Some (Some w) => Some (l_index w, chs')
                   | Some None => Some (l_index al, chs')
                   | None => None
                   end
      end
  end.
Fixpoint mapC {A B} (f : A -> MC B) (l : list A) : MC (list B) := fun chs =>
  match l with
  | [] => Some ([], chs)
  | a :: r => match f a chs with
              | Some (b, chs') => match mapC f r chs' with Some (bs, chs'') => Some (b :: bs, chs'') | None => None end
              | None => None
              end
  end.
Definition cse_cell_any (st : genome * kmap) (rc : nat * nat) : MC (genome * kmap) := fun chs =>
  match cell (fst st) (fst rc) (snd rc) with
  | None => None
  | Some ge =>
      match mapC (cse_arg_any (fst st) (snd st)) (arguments ge) chs with
      | None => None
      | Some (args', chs') =>
          let ge' := {| g_sym := g_sym ge; g_par := g_par ge; g_args := args' |} in
          match chs' with
          | [] => None
          | ch :: chs'' =>
              match kfind_any ge' (snd st) ch with
              | None => None
              | Some found =>
                  Some ((set_cell (fst st) (fst rc) (snd rc) ge',
                         match found with
                         | Some _ => snd st
                         | None => (ge', {| l_index := fst rc; l_cat := snd rc |}) :: snd st
                         end), chs'')
              end
          end
      end
  end.
Fixpoint foldC {S A} (f : S -> A -> MC S) (l : list A) (s : S) : MC S := fun chs =>
  match l with
  | [] => Some (s, chs)
  | a :: r => match f s a chs with Some (s', chs') => foldC f r s' chs' | None => None end
  end.
(* every choice must be used *)
Definition cse_genome_any (g : genome) (chs : list (option nat)) : option genome :=
  match foldC cse_cell_any (cse_loci (rows g) (cats g)) (g, []) chs with
  | Some (st, []) => Some (fst st)
  | _ => None
  end.
End CseAny.

(* a two-category witness: F, G functions, p an ephemeral constant, t a terminal *)
Definition wF : sym := {| s_opcode := 0; s_cat := 0; s_argcats := [0; 0]; s_parametric := false; s_strat := Interp.Strategy.Ret Values.Stuck |}.
Definition wp : sym := {| s_opcode := 1; s_cat := 0; s_argcats := []; s_parametric := true; s_strat := Interp.Strategy.Ret Values.Stuck |}.
Definition wG : sym := {| s_opcode := 2; s_cat := 1; s_argcats := [0]; s_parametric := false; s_strat := Interp.Strategy.Ret Values.Stuck |}.
Definition wt : sym := {| s_opcode := 3; s_cat := 1; s_argcats := []; s_parametric := false; s_strat := Interp.Strategy.Ret Values.Stuck |}.
Definition w_ss : sset :=
  {| ss_cats := 2; ss_funs := [[(wF, 100%Z)]; [(wG, 100%Z)]]; ss_terms := [[(wp, 100%Z)]; [(wt, 100%Z)]] |}.
Definition gF (a b : nat) : gene := {| g_sym := wF; g_par := F64.zero; g_args := [a; b] |}.
Definition gp (v : Z) : gene := {| g_sym := wp; g_par := F64.of_Z v; g_args := [] |}.
Definition gG (a : nat) : gene := {| g_sym := wG; g_par := F64.zero; g_args := [a] |}.
Definition gt : gene := {| g_sym := wt; g_par := F64.zero; g_args := [] |}.
(*   row  category 0   category 1
      0   p(0)         t
      1   p(1)         t
      2   F 5 8        G 3        <- after cse: G 2, its own row
      3   F 5 8        t
      4   F 6 7        t          F 5 8 and F 6 7 are each "less" than the other
      5.. p(5..8)      t                                                         *)
Definition w_rows : list (gene * gene) :=
  [(gp 0, gt); (gp 1, gt); (gF 5 8, gG 3); (gF 5 8, gt); (gF 6 7, gt);
   (gp 5, gt); (gp 6, gt); (gp 7, gt); (gp 8, gt)].
Definition w_genome : genome :=
  {| rows := 9; cats := 2;
     cell := fun r c => match nth_error w_rows r with
                        | Some (a, b) => match c with 0 => Some a | 1 => Some b | _ => None end
                        | None => None
                        end;
     best := {| l_index := 2; l_cat := 1 |} |}.
(* the lookups in execution order (rows 8 down to 0, category 0 then 1; for each
   cell one choice per argument, then the choice of its own try_emplace) *)
Definition F0 : option nat := Some 0.
Definition E_ : option nat := None.
Definition w_choices : list (option nat) :=
  [E_; E_;  E_; F0;  E_; F0;  E_; F0;          (* rows 8..5: constants inserted, t found from row 7 on *)
   F0; F0; E_;  F0;                             (* row 4: F 6 7 -> arguments found, F 6 7 inserted; t found *)
   F0; F0; E_;  F0;                             (* row 3: F 5 8 inserted (F 6 7 is not equivalent) *)
   F0; F0; E_;                                  (* row 2: the lookup of F 5 8 misses the equal key of row 3: duplicate inserted *)
   F0; E_;                                      (* [2,1] G 3: find(F 5 8) returns the duplicate of row 2 -> argument 2 *)
   E_; F0;  E_; F0].                            (* rows 1, 0 *)
