(* C02 -- proofs about the operator model Mep/OpsDefs.v *)
From Coq Require Import ZArith List Bool Arith Lia ZifyBool.
Local Ltac c02_scan0 := idtac. (* separates the Require lines for the dependency scanner of lib/vv.py *)
From VV Require Import Base.F64 Mep.Genome Mep.Draws Mep.OpsDefs.
Local Ltac c02_scan1 := idtac.
Import ListNotations.
Local Open Scope Z_scope.

(* ------------------------------------------------------------ monad steps *)
Lemma bind_inv {A B} (m : M A) (k : A -> M B) ds r :
  bind m k ds = Some r -> exists a ds', m ds = Some (a, ds') /\ k a ds' = Some r.
Proof.
  unfold bind. destruct (m ds) as [[a ds']|]; [|discriminate]. intros H. eauto.
Qed.
Lemma ret_inv {A} (a : A) ds r : ret a ds = Some r -> r = (a, ds).
Proof. unfold ret. congruence. Qed.

(* split  [bind m k ds = Some r]  in hypothesis H *)
Ltac mbind H :=
  let a := fresh "a" in let ds := fresh "ds" in let E := fresh "E" in
  apply bind_inv in H; destruct H as (a & ds & E & H).
Ltac mret H := apply ret_inv in H.

Lemma boolean_inv p ds b ds' : boolean p ds = Some (b, ds') ->
  (p = zero_bits -> b = false) /\ (p = one_bits -> b = true).
Proof.
  unfold boolean. destruct ds as [|[lo hi v|p' v|bits] r]; try discriminate.
  destruct (p =? p') eqn:Ep; [|discriminate]. apply Z.eqb_eq in Ep. subst p'.
  destruct (valid_draw_b (DBool p v)) eqn:Ev; [|discriminate]. cbn [andb].
  intros H. inversion H. subst. unfold valid_draw_b in Ev.
  apply andb_true_iff in Ev. destruct Ev as [E0 E1]. split; intros ->.
  - rewrite Z.eqb_refl in E0. destruct b; [discriminate|reflexivity].
  - rewrite Z.eqb_refl in E1. exact E1.
Qed.

Lemma between_inv lo hi ds v ds' : between lo hi ds = Some (v, ds') -> lo <= v < hi.
Proof.
  unfold between. destruct ds as [|[lo' hi' v'|p' v'|bits] r]; try discriminate.
  destruct ((lo =? lo') && (hi =? hi') && (lo <? hi) && valid_draw_b (DInt lo' hi' v')) eqn:E; [|discriminate].
  intros H. inversion H. subst. unfold valid_draw_b in E. lia.
Qed.

(* ------------------------------------------------- mutation, probability 0 *)
Lemma mut_loop_zero fuel ss patch g : forall loci n ds r ds',
  mut_loop fuel ss patch zero_bits g loci n ds = Some (r, ds') -> r = (g, n).
Proof.
  induction fuel as [|f IH]; intros loci n ds r ds' H; [discriminate|].
  cbn [mut_loop] in H. destruct loci as [|l rest].
  - mret H. congruence.
  - mbind H. destruct (boolean_inv _ _ _ _ E) as [Hz _]. rewrite (Hz eq_refl) in H.
    mbind H. mret E0. inversion E0. subst. cbn [fst snd] in H.
    destruct (gene_at g l); [|discriminate]. eapply IH. exact H.
Qed.

Lemma mutation_zero_is_identity ss patch i ds i' n ds' :
  mutation ss patch zero_bits i ds = Some (i', n, ds') -> i' = i /\ n = 0%nat.
Proof.
  unfold mutation. intros H. mbind H. destruct a as [g k].
  apply mut_loop_zero in E. inversion E. subst. mret H. inversion H. subst.
  cbn [fst snd]. split; [|reflexivity]. destruct i. reflexivity.
Qed.

(* ====================================================== well-formedness *)
Local Open Scope nat_scope.

Lemma forallb_seq (f : nat -> bool) n :
  forallb f (seq 0 n) = true <-> forall i, i < n -> f i = true.
Proof.
  rewrite forallb_forall. split; intros H i Hi.
  - apply H. apply in_seq. lia.
  - apply in_seq in Hi. apply H. lia.
Qed.

Definition cells_ok (ss : sset) (patch : nat) (g : genome) : Prop :=
  forall r c, r < rows g -> c < cats g ->
    exists ge, cell g r c = Some ge /\ gene_ok_b ss (rows g) (cats g) patch r c ge = true.

Lemma ind_ok_iff ss patch g :
  ind_ok_b ss patch g = true <->
  (1 <= patch < rows g /\ cats g = ss_cats ss /\ cells_ok ss patch g /\ inside_b g (best g) = true).
Proof.
  unfold ind_ok_b. rewrite !andb_true_iff, forallb_seq.
  rewrite Nat.leb_le, Nat.ltb_lt, Nat.eqb_eq. unfold cells_ok. split.
  - intros [[[[H1 H2] H3] H4] H5]. split; [split; assumption|]. split; [assumption|]. split; [|assumption].
    intros r c Hr Hc. specialize (H4 r Hr). rewrite forallb_seq in H4. specialize (H4 c Hc).
    destruct (cell g r c) as [ge|]; [eauto|discriminate].
  - intros [[H1 H2] [H3 [H4 H5]]]. split; [|assumption]. split; [split; [split; assumption|assumption]|].
    intros r Hr. rewrite forallb_seq. intros c Hc. destruct (H4 r c Hr Hc) as (ge & -> & Hg). exact Hg.
Qed.

Lemma set_cell_ok ss patch g r c ge :
  ind_ok_b ss patch g = true -> r < rows g -> c < cats g ->
  gene_ok_b ss (rows g) (cats g) patch r c ge = true ->
  ind_ok_b ss patch (set_cell g r c ge) = true.
Proof.
  rewrite !ind_ok_iff. intros (H1 & H2 & H3 & H4) Hr Hc Hg. cbn [set_cell put_cell rows cats best].
  repeat split; auto; try lia.
  unfold cells_ok in *. cbn [set_cell put_cell cell rows cats] in *. intros r' c' Hr' Hc'.
  destruct (Nat.eqb r' r && Nat.eqb c' c) eqn:E.
  - apply andb_true_iff in E. destruct E as [E1 E2]. apply Nat.eqb_eq in E1, E2. subst r' c'. exists ge. split; [reflexivity|exact Hg].
  - apply H3; assumption.
Qed.

Lemma set_best_ok ss patch g l :
  ind_ok_b ss patch g = true -> inside_b g l = true -> ind_ok_b ss patch (set_best g l) = true.
Proof.
  rewrite !ind_ok_iff. intros (H1 & H2 & H3 & H4) Hl. cbn [set_best rows cats best]. repeat split; auto; lia.
Qed.

Lemma gene_ok_inv ss R C patch r c ge : gene_ok_b ss R C patch r c ge = true ->
  sym_in_b ss (g_sym ge) = true /\ s_cat (g_sym ge) = c /\ length (g_args ge) = arity (g_sym ge) /\
  forallb (fun a => Nat.ltb r a && Nat.ltb a R) (g_args ge) = true /\
  forallb (fun ac => Nat.ltb ac C) (s_argcats (g_sym ge)) = true /\
  (if Nat.leb (R - patch) r then is_terminal (g_sym ge) else true) = true /\
  (s_parametric (g_sym ge) = true -> F64.is_nan (g_par ge) = false).
Proof.
  unfold gene_ok_b. rewrite !andb_true_iff. intros [[[[[[H1 H2] H3] H4] H5] H6] H7].
  apply Nat.eqb_eq in H2, H3. repeat split; auto.
  intros Hp. rewrite Hp in H7. apply negb_true_iff in H7. exact H7.
Qed.

(* ------------------------------------------------------------ symbol set *)
Definition sym_good (ss : sset) (c : nat) (s : sym) : Prop :=
  sym_in_b ss s = true /\ s_cat s = c /\ forallb (fun ac => Nat.ltb ac (ss_cats ss)) (s_argcats s) = true.

Lemma list_eqb_refl {A} (eqb : A -> A -> bool) (l : list A) :
  (forall x, eqb x x = true) -> list_eqb eqb l l = true.
Proof. intros H. induction l; cbn; [reflexivity|]. rewrite H, IHl. reflexivity. Qed.

Lemma sym_same_refl s : sym_same_b s s = true.
Proof.
  unfold sym_same_b. rewrite Nat.eqb_refl, (list_eqb_refl Nat.eqb), Bool.eqb_reflx by apply Nat.eqb_refl.
  reflexivity.
Qed.

Lemma sym_in_self ss s : In s (all_syms ss) -> sym_in_b ss s = true.
Proof.
  intros H. unfold sym_in_b. apply existsb_exists. exists s. split; [exact H|].
  rewrite Z.eqb_refl, sym_same_refl. reflexivity.
Qed.

Lemma nth_in_concat {A} (l : list (list A)) c e : In e (nth c l []) -> In e (concat l).
Proof.
  intros H. destruct (Nat.lt_ge_cases c (length l)) as [Hc|Hc].
  - apply in_concat. exists (nth c l []). split; [apply nth_In; exact Hc|exact H].
  - rewrite nth_overflow in H by exact Hc. destruct H.
Qed.

Lemma wheel_pick_in w : forall slot s, wheel_pick w slot = Some s -> exists wt, In (s, wt) w.
Proof.
  induction w as [|[s0 wt0] w IH]; intros slot s H; cbn in H; [discriminate|].
  destruct (slot <? wt0)%Z.
  - inversion H. subst. exists wt0. left. reflexivity.
  - destruct (IH _ _ H) as [wt Hw]. exists wt. right. exact Hw.
Qed.

(* the wheel returns the symbol whose wedge contains the slot *)
Lemma wheel_pick_some w : forall slot, Forall (fun e => (0 <= snd e)%Z) w ->
  (0 <= slot < wheel_sum w)%Z -> exists s, wheel_pick w slot = Some s.
Proof.
  unfold wheel_sum. induction w as [|[s0 wt0] w IH]; intros slot Hw Hs; cbn in *; [lia|].
  inversion Hw as [|? ? H0 Hw']. subst. cbn in H0.
  destruct (slot <? wt0)%Z eqn:E; [eauto|]. apply IH; [exact Hw'|lia].
Qed.

Lemma wheel_roulette_in w ds s ds' : wheel_roulette w ds = Some (s, ds') -> exists wt, In (s, wt) w.
Proof.
  unfold wheel_roulette. intros H. mbind H.
  destruct (wheel_pick w a) eqn:Ep; [|discriminate]. mret H. inversion H. subst. eapply wheel_pick_in. exact Ep.
Qed.

Section WithSset.
Variable ss : sset.
Hypothesis Hss : wf_sset_b ss = true.

Lemma wf_sset_cats : 1 <= ss_cats ss.
Proof.
  unfold wf_sset_b in Hss. rewrite !andb_true_iff in Hss. destruct Hss as [[[[H _] _] _] _].
  apply Nat.leb_le in H. exact H.
Qed.

Lemma wf_sset_fun c e : c < ss_cats ss -> In e (funs_of ss c) ->
  sym_good ss c (fst e) /\ is_terminal (fst e) = false.
Proof.
  intros Hc He. unfold wf_sset_b in Hss. rewrite !andb_true_iff in Hss.
  destruct Hss as [[[[_ _] _] H] _]. rewrite forallb_seq in H. specialize (H c Hc).
  apply andb_true_iff in H. destruct H as [H _]. rewrite forallb_forall in H. specialize (H e He).
  rewrite !andb_true_iff in H. destruct H as [[[H1 H2] H3] _]. apply Nat.eqb_eq in H1.
  split; [|destruct (is_terminal (fst e)); [discriminate|reflexivity]].
  split; [|split; assumption].
  apply sym_in_self. unfold all_syms. apply in_map. apply in_or_app. left.
  eapply nth_in_concat. exact He.
Qed.

Lemma wf_sset_term c e : c < ss_cats ss -> In e (terms_of ss c) ->
  sym_good ss c (fst e) /\ is_terminal (fst e) = true.
Proof.
  intros Hc He. unfold wf_sset_b in Hss. rewrite !andb_true_iff in Hss.
  destruct Hss as [[[[_ _] _] H] _]. rewrite forallb_seq in H. specialize (H c Hc).
  apply andb_true_iff in H. destruct H as [_ H]. rewrite forallb_forall in H. specialize (H e He).
  rewrite !andb_true_iff in H. destruct H as [[H1 H2] _]. apply Nat.eqb_eq in H1.
  split; [|exact H2].
  split; [|split; [assumption|]].
  - apply sym_in_self. unfold all_syms. apply in_map. apply in_or_app. right.
    eapply nth_in_concat. exact He.
  - unfold is_terminal in H2. destruct (s_argcats (fst e)); [reflexivity|discriminate].
Qed.

(* symbol_set::roulette(c) returns a symbol of category c;
   roulette_terminal(c) a terminal of category c *)
Lemma roulette_terminal_ok c ds s ds' : c < ss_cats ss ->
  roulette_terminal ss c ds = Some (s, ds') -> sym_good ss c s /\ is_terminal s = true.
Proof.
  intros Hc H. apply wheel_roulette_in in H. destruct H as [wt H].
  apply (wf_sset_term c (s, wt) Hc H).
Qed.

Lemma roulette_ok c ds s ds' : c < ss_cats ss -> roulette ss c ds = Some (s, ds') -> sym_good ss c s.
Proof.
  intros Hc H. unfold roulette in H. mbind H.
  destruct (a && negb match funs_of ss c with [] => true | _ :: _ => false end).
  - apply wheel_roulette_in in H. destruct H as [wt H]. apply (wf_sset_fun c (s, wt) Hc H).
  - apply wheel_roulette_in in H. destruct H as [wt H]. apply (wf_sset_term c (s, wt) Hc H).
Qed.

(* ------------------------------------------------------- gene producers *)
Lemma init_par_nonan ds p ds' : init_par ds = Some (p, ds') -> F64.is_nan p = false.
Proof.
  unfold init_par. destruct ds as [|[lo hi v|p' v|bits] r]; try discriminate.
  - destruct (valid_draw_b (DInt lo hi v)); [|discriminate]. intros H. inversion H. subst.
    apply Flocq.IEEE754.BinarySingleNaN.is_nan_binary_normalize.
  - destruct (F64.is_nan (F64.of_bits bits)) eqn:E; [discriminate|]. intros H. inversion H. subst. exact E.
Qed.

Lemma gene_of_terminal_inv t ds ge ds' : gene_of_terminal t ds = Some (ge, ds') ->
  g_sym ge = t /\ g_args ge = [] /\ (s_parametric t = true -> F64.is_nan (g_par ge) = false).
Proof.
  unfold gene_of_terminal. destruct (s_parametric t); intros H.
  - mbind H. mret H. inversion H. subst. split; [reflexivity|split; [reflexivity|]]. intros _. cbn [g_par]. eapply init_par_nonan. exact E.
  - mret H. inversion H. subst. split; [reflexivity|split; [reflexivity|discriminate]].
Qed.

Lemma draw_args_inv n from sup : (0 <= from)%Z -> forall ds l ds', draw_args n from sup ds = Some (l, ds') ->
  length l = n /\ Forall (fun a => (from <= Z.of_nat a < sup)%Z) l.
Proof.
  intros H0. induction n as [|n IH]; intros ds l ds' H; cbn [draw_args] in H.
  - mret H. inversion H. subst. split; [reflexivity|constructor].
  - mbind H. mbind H. mret H. inversion H. subst. destruct (IH _ _ _ E0) as [Hl Hf].
    apply between_inv in E. split; [cbn [length]; rewrite Hl; reflexivity|]. constructor; [|exact Hf].
    rewrite Z2Nat.id; lia.
Qed.

Lemma terminal_arity s : is_terminal s = true -> s_argcats s = [].
Proof. unfold is_terminal. destruct (s_argcats s); [reflexivity|discriminate]. Qed.

Lemma gene_random_inv s from sup ds ge ds' : (0 <= from)%nat ->
  gene_random s from sup ds = Some (ge, ds') ->
  g_sym ge = s /\ length (g_args ge) = arity s /\ Forall (fun a => from <= a < sup) (g_args ge) /\
  (s_parametric s = true -> is_terminal s = true -> F64.is_nan (g_par ge) = false) /\
  (is_terminal s = false -> g_par ge = F64.zero).
Proof.
  intros _. unfold gene_random. destruct (is_terminal s) eqn:Et; intros H.
  - apply gene_of_terminal_inv in H. destruct H as (H1 & H2 & H3). rewrite H2. unfold arity.
    rewrite (terminal_arity _ Et). split; [exact H1|split; [reflexivity|split; [constructor|split; [intros Hp _; apply H3; exact Hp|discriminate]]]].
  - mbind H. mret H. inversion H. subst. cbn [g_sym g_args g_par]. apply draw_args_inv in E; [|lia].
    destruct E as [E1 E2]. split; [reflexivity|split; [exact E1|split; [|split; [discriminate|reflexivity]]]].
    eapply Forall_impl; [|exact E2]. cbn. intros x Hx. lia.
Qed.

Lemma gene_ok_intro R C patch r c ge :
  sym_good ss c (g_sym ge) -> C = ss_cats ss ->
  length (g_args ge) = arity (g_sym ge) ->
  Forall (fun a => r < a < R) (g_args ge) ->
  (R - patch <= r -> is_terminal (g_sym ge) = true) ->
  (s_parametric (g_sym ge) = true -> F64.is_nan (g_par ge) = false) ->
  gene_ok_b ss R C patch r c ge = true.
Proof.
  intros (H1 & H2 & H3) -> H4 H5 H6 H7. unfold gene_ok_b. rewrite H1, H2, H4, H3, !Nat.eqb_refl. cbn [andb].
  apply andb_true_iff. split; [apply andb_true_iff; split|].
  - rewrite andb_true_r. apply forallb_forall. intros a Ha. rewrite Forall_forall in H5. specialize (H5 a Ha).
    apply andb_true_iff. split; apply Nat.ltb_lt; lia.
  - destruct (Nat.leb (R - patch) r) eqn:E; [|reflexivity]. apply H6. apply Nat.leb_le. exact E.
  - destruct (s_parametric (g_sym ge)); [|reflexivity]. rewrite H7; reflexivity.
Qed.

Lemma new_gene_ok R patch r c ds ge ds' :
  c < ss_cats ss -> new_gene ss R patch r c ds = Some (ge, ds') ->
  gene_ok_b ss R (ss_cats ss) patch r c ge = true.
Proof.
  intros Hc H. unfold new_gene in H. destruct (Nat.ltb r (R - patch)) eqn:E.
  - apply Nat.ltb_lt in E. mbind H. apply (roulette_ok c _ _ _ Hc) in E0.
    apply gene_random_inv in H; [|lia]. destruct H as (H1 & H2 & H3 & H4 & H5).
    apply gene_ok_intro.
    + rewrite H1. exact E0.
    + reflexivity.
    + rewrite H1. exact H2.
    + eapply Forall_impl; [|exact H3]. cbn. intros. lia.
    + intros. lia.
    + rewrite H1. intros Hp. destruct (is_terminal a) eqn:Et; [apply H4; auto|].
      rewrite (H5 eq_refl). reflexivity.
  - apply Nat.ltb_ge in E. mbind H. apply (roulette_terminal_ok c _ _ _ Hc) in E0. destruct E0 as [E1 E2].
    apply gene_of_terminal_inv in H. destruct H as (H1 & H2 & H3).
    apply gene_ok_intro.
    + rewrite H1. exact E1.
    + reflexivity.
    + rewrite H2, H1. unfold arity. rewrite (terminal_arity _ E2). reflexivity.
    + rewrite H2. constructor.
    + intros _. rewrite H1. exact E2.
    + rewrite H1. exact H3.
Qed.
End WithSset.

(* ----------------------------------------------------------- foldM lemmas *)
Lemma foldM_inv {S A} (f : S -> A -> M S) (P : S -> Prop) (l : list A) :
  (forall s a ds s' ds', In a l -> P s -> f s a ds = Some (s', ds') -> P s') ->
  forall s ds s' ds', P s -> foldM f l s ds = Some (s', ds') -> P s'.
Proof.
  induction l as [|a l IH]; intros Hf s ds s' ds' Hs H; cbn [foldM] in H.
  - mret H. inversion H. subst. exact Hs.
  - mbind H. eapply IH; [|eapply (Hf s a); [left; reflexivity|exact Hs|exact E]|exact H].
    intros. eapply Hf; eauto. right. assumption.
Qed.

Lemma pair_in_dec (x : nat * nat) l : {In x l} + {~ In x l}.
Proof. apply in_dec. decide equality; apply Nat.eq_dec. Qed.

(* a loop whose step sets cell [rc] to a gene satisfying [Q rc] fills exactly
   the cells it visits *)
Lemma foldM_fill (f : genome -> nat * nat -> M genome) (Q : nat * nat -> gene -> Prop) :
  (forall g rc ds g' ds', f g rc ds = Some (g', ds') ->
     exists ge, Q rc ge /\ g' = set_cell g (fst rc) (snd rc) ge) ->
  forall l g ds g' ds', foldM f l g ds = Some (g', ds') ->
    rows g' = rows g /\ cats g' = cats g /\ best g' = best g /\
    forall r c, (In (r, c) l -> exists ge, cell g' r c = Some ge /\ Q (r, c) ge) /\
                (~ In (r, c) l -> cell g' r c = cell g r c).
Proof.
  intros Hf. induction l as [|a l IH]; intros g ds g' ds' H; cbn [foldM] in H.
  - mret H. inversion H. subst. repeat split; auto. intros [].
  - mbind H. destruct (Hf _ _ _ _ _ E) as (ge & Hq & ->).
    destruct (IH _ _ _ _ H) as (H1 & H2 & H3 & H4). cbn [set_cell put_cell rows cats best] in *.
    repeat split; auto.
    + intros Hin. destruct (pair_in_dec (r, c) l) as [Hl|Hl]; [apply H4; exact Hl|].
      destruct Hin as [->|Hin]; [|contradiction].
      exists ge. split; [|exact Hq]. rewrite (proj2 (H4 r c) Hl). cbn [set_cell put_cell cell fst snd].
      rewrite !Nat.eqb_refl. reflexivity.
    + intros Hn. rewrite (proj2 (H4 r c)) by (intros Hl; apply Hn; right; exact Hl).
      cbn [set_cell put_cell cell]. destruct (Nat.eqb r (fst a) && Nat.eqb c (snd a)) eqn:Ee; [|reflexivity].
      apply andb_true_iff in Ee. destruct Ee as [E1 E2]. apply Nat.eqb_eq in E1, E2.
      exfalso. apply Hn. left. destruct a. cbn in *. subst. reflexivity.
Qed.

Lemma in_all_loci R C r c : In (r, c) (all_loci R C) <-> r < R /\ c < C.
Proof.
  unfold all_loci. rewrite in_flat_map. split.
  - intros (x & Hx & Hin). apply in_map_iff in Hin. destruct Hin as (y & Hy & Hin). inversion Hy. subst.
    apply in_seq in Hx, Hin. lia.
  - intros [Hr Hc]. exists r. split; [apply in_seq; lia|]. apply in_map. apply in_seq. lia.
Qed.

(* ------------------------------------------------- random construction *)
Section Ops.
Variable ss : sset.
Hypothesis Hss : wf_sset_b ss = true.

Lemma random_ind_wf R patch ds i ds' :
  random_ind ss R patch ds = Some (i, ds') ->
  ind_ok_b ss patch (i_gen i) = true /\ rows (i_gen i) = R /\ i_age i = 0%N.
Proof.
  unfold random_ind. destruct (Nat.leb 1 patch && Nat.ltb patch R && Nat.leb 1 (ss_cats ss)) eqn:Epre; [|discriminate].
  rewrite !andb_true_iff in Epre. destruct Epre as [[P1 P2] P3].
  apply Nat.leb_le in P1, P3. apply Nat.ltb_lt in P2.
  intros H. mbind H. mbind H. mret H. inversion H. subst. cbn [i_gen i_age]. clear H.
  pose (Q := fun (rc : nat * nat) ge =>
     fst rc < R -> snd rc < ss_cats ss -> gene_ok_b ss R (ss_cats ss) patch (fst rc) (snd rc) ge = true).
  assert (HQ : forall g rc dx g' dx', fill_cell ss R patch g rc dx = Some (g', dx') ->
            exists ge, Q rc ge /\ g' = set_cell g (fst rc) (snd rc) ge).
  { intros g rc dx g' dx' Hf. unfold fill_cell in Hf. mbind Hf. mret Hf. inversion Hf. subst.
    eexists. split; [|reflexivity]. intros Hr Hc. eapply new_gene_ok; eauto. }
  destruct (foldM_fill _ Q HQ _ _ _ _ _ E0) as (H1 & H2 & H3 & H4).
  cbn [empty_genome rows cats best] in *. split; [|split; [exact H1|reflexivity]].
  apply ind_ok_iff. rewrite H1, H2, H3. repeat split; try lia.
  - intros r c Hr Hc. rewrite H1 in Hr. rewrite H2 in Hc.
    destruct (proj1 (H4 r c)) as (ge & Hg & Hq); [apply in_all_loci; lia|].
    exists ge. split; [exact Hg|]. rewrite H1, H2. apply Hq; assumption.
  - unfold inside_b. rewrite ?H1, ?H2, ?H3. cbn [l_index l_cat]. apply andb_true_iff. split; apply Nat.ltb_lt; lia.
Qed.

(* ------------------------------------------------------------ mutation *)
Lemma set_insert_in l s x : In x (set_insert l s) -> x = l \/ In x s.
Proof.
  induction s as [|y s IH]; cbn [set_insert].
  - intros [->|[]]. left. reflexivity.
  - destruct (locus_ltb l y).
    + intros [->|H]; [left; reflexivity|right; exact H].
    + destruct (locus_eqb l y).
      * intros H. right. exact H.
      * intros [->|H]; [right; left; reflexivity|]. destruct (IH H) as [->|H']; [left; reflexivity|right; right; exact H'].
Qed.

Lemma set_union_in ls : forall s x, In x (set_union ls s) -> In x ls \/ In x s.
Proof.
  unfold set_union. induction ls as [|l ls IH]; intros s x H; cbn [fold_left] in H.
  - right. exact H.
  - destruct (IH _ _ H) as [H1|H1]; [left; right; exact H1|].
    destruct (set_insert_in _ _ _ H1) as [->|H2]; [left; left; reflexivity|right; exact H2].
Qed.

Lemma arguments_in ge al : In al (arguments ge) ->
  In (l_index al) (g_args ge) /\ In (l_cat al) (s_argcats (g_sym ge)).
Proof.
  unfold arguments. intros H. apply in_map_iff in H. destruct H as ([a c] & <- & H). cbn.
  split; [eapply in_combine_l|eapply in_combine_r]; exact H.
Qed.

Lemma gene_ok_args R C patch r c ge al :
  gene_ok_b ss R C patch r c ge = true -> In al (arguments ge) ->
  r < l_index al < R /\ l_cat al < C.
Proof.
  intros Hok Hin. apply gene_ok_inv in Hok. destruct Hok as (_ & _ & _ & Ha & Hc & _).
  apply arguments_in in Hin. destruct Hin as [H1 H2].
  rewrite forallb_forall in Ha, Hc. specialize (Ha _ H1). specialize (Hc _ H2).
  apply andb_true_iff in Ha. destruct Ha as [Ha1 Ha2]. apply Nat.ltb_lt in Ha1, Ha2, Hc. lia.
Qed.

Lemma gene_at_inside g l ge : gene_at g l = Some ge ->
  l_index l < rows g /\ l_cat l < cats g /\ cell g (l_index l) (l_cat l) = Some ge.
Proof.
  unfold gene_at. destruct (Nat.ltb (l_index l) (rows g) && Nat.ltb (l_cat l) (cats g)) eqn:E; [|discriminate].
  apply andb_true_iff in E. destruct E as [E1 E2]. apply Nat.ltb_lt in E1, E2. auto.
Qed.

Definition inside (g : genome) (l : locus) : Prop := l_index l < rows g /\ l_cat l < cats g.

Lemma mut_loop_wf patch pgm fuel : forall g loci n ds g' n' ds',
  ind_ok_b ss patch g = true -> Forall (inside g) loci ->
  mut_loop fuel ss patch pgm g loci n ds = Some ((g', n'), ds') ->
  ind_ok_b ss patch g' = true /\ rows g' = rows g /\ cats g' = cats g /\ best g' = best g.
Proof.
  induction fuel as [|f IH]; intros g loci n ds g' n' ds' Hg Hl H; [discriminate|].
  cbn [mut_loop] in H. destruct loci as [|l rest].
  - mret H. inversion H. subst. auto.
  - inversion Hl as [|? ? [Hl1 Hl2] Hrest]. subst. mbind H. mbind H.
    assert (Hstep : ind_ok_b ss patch (fst a0) = true /\ rows (fst a0) = rows g /\ cats (fst a0) = cats g
                    /\ best (fst a0) = best g).
    { destruct a.
      - mbind E0. destruct (gene_at g l) as [old|]; [|discriminate].
        destruct (gene_eqb old a); mret E0; inversion E0; subst; cbn [fst]; auto.
        split; [|auto]. apply set_cell_ok; auto.
        pose proof (proj1 (ind_ok_iff _ _ _) Hg) as (_ & Hc & _). rewrite Hc.
        eapply new_gene_ok; eauto. rewrite <- Hc. exact Hl2.
      - mret E0. inversion E0. subst. auto. }
    destruct Hstep as (S1 & S2 & S3 & S4).
    destruct (gene_at (fst a0) l) as [cur|] eqn:Ecur; [|discriminate].
    apply IH in H; auto.
    + destruct H as (K1 & K2 & K3 & K4). rewrite K2, K3, K4. auto.
    + apply Forall_forall. intros x Hx. apply set_union_in in Hx. destruct Hx as [Hx|Hx].
      * apply gene_at_inside in Ecur. destruct Ecur as (C1 & C2 & C3).
        pose proof (proj1 (ind_ok_iff _ _ _) S1) as (_ & _ & Hcells & _).
        destruct (Hcells _ _ C1 C2) as (ge & Hge & Hok). rewrite C3 in Hge. inversion Hge. subst ge.
        destruct (gene_ok_args _ _ _ _ _ _ _ Hok Hx). unfold inside. lia.
      * rewrite Forall_forall in Hrest. specialize (Hrest _ Hx). unfold inside in *. rewrite S2, S3. exact Hrest.
Qed.

Lemma best_inside patch g : ind_ok_b ss patch g = true -> inside g (best g).
Proof.
  intros H. apply ind_ok_iff in H. destruct H as (_ & _ & _ & H). unfold inside_b in H.
  apply andb_true_iff in H. destruct H as [H1 H2]. apply Nat.ltb_lt in H1, H2. split; assumption.
Qed.

Lemma mutation_wf patch pgm i ds i' n ds' :
  ind_ok_b ss patch (i_gen i) = true -> mutation ss patch pgm i ds = Some (i', n, ds') ->
  ind_ok_b ss patch (i_gen i') = true /\ rows (i_gen i') = rows (i_gen i) /\ cats (i_gen i') = cats (i_gen i) /\
  best (i_gen i') = best (i_gen i) /\ i_age i' = i_age i /\ i_xt i' = i_xt i.
Proof.
  intros Hg H. unfold mutation in H. mbind H. mret H. inversion H. subst. destruct a as [g' k].
  apply mut_loop_wf in E; auto.
  - cbn [with_gen i_gen i_age i_xt fst]. destruct E as (E1 & E2 & E3 & E4). auto 10.
  - constructor; [|constructor]. eapply best_inside. exact Hg.
Qed.

(* ----------------------------------------------------------- crossover *)
Definition prov (t from to0 : genome) : Prop :=
  rows t = rows to0 /\ cats t = cats to0 /\ best t = best to0 /\
  forall r c, cell t r c = cell from r c \/ cell t r c = cell to0 r c.

Lemma prov_refl from to0 : prov to0 from to0.
Proof. unfold prov. auto. Qed.

Lemma copy_cell_prov from to0 t r c : prov t from to0 -> prov (copy_cell from t r c) from to0.
Proof.
  intros (H1 & H2 & H3 & H4). unfold prov, copy_cell, put_cell. cbn [rows cats best cell].
  repeat split; auto. intros r' c'. destruct (Nat.eqb r' r && Nat.eqb c' c) eqn:E; [|apply H4].
  apply andb_true_iff in E. destruct E as [E1 E2]. apply Nat.eqb_eq in E1, E2. subst. left. reflexivity.
Qed.

Lemma copy_cats_prov from to0 r : forall cs t, prov t from to0 ->
  prov (fold_left (fun t' c => copy_cell from t' r c) cs t) from to0.
Proof. induction cs as [|c cs IH]; intros t H; cbn [fold_left]; [exact H|]. apply IH. apply copy_cell_prov. exact H. Qed.

Lemma copy_rows_prov from to0 : forall rs t, prov t from to0 -> prov (copy_rows from t rs) from to0.
Proof.
  unfold copy_rows. induction rs as [|r rs IH]; intros t H; cbn [fold_left]; [exact H|].
  apply IH. apply copy_cats_prov. exact H.
Qed.

Lemma fold_opt_inv {A S} (F : S -> A -> option S) (P : S -> Prop) :
  (forall s a s', P s -> F s a = Some s' -> P s') ->
  forall args acc s', (forall s, acc = Some s -> P s) ->
  fold_left (fun acc a => match acc with Some s => F s a | None => None end) args acc = Some s' -> P s'.
Proof.
  intros HF. induction args as [|a args IH]; intros acc s' Hacc H; cbn [fold_left] in H.
  - apply Hacc. exact H.
  - eapply IH; [|exact H]. intros s Hs. destruct acc as [s0|]; [|discriminate].
    eapply HF; [apply Hacc; reflexivity|exact Hs].
Qed.

Lemma copy_tree_prov from to0 fuel : forall t l t',
  prov t from to0 -> copy_tree fuel from t l = Some t' -> prov t' from to0.
Proof.
  induction fuel as [|f IH]; intros t l t' Ht H; [discriminate|]. cbn [copy_tree] in H.
  destruct (gene_at from l) as [ge|] eqn:Eg; [|discriminate].
  eapply (fold_opt_inv (fun s al => copy_tree f from s al) (fun s => prov s from to0)); [| |exact H].
  - intros s a s' Hs Hc. eapply IH; eauto.
  - intros s Hs. inversion Hs. subst s. apply gene_at_inside in Eg. destruct Eg as (_ & _ & Ec).
    destruct Ht as (H1 & H2 & H3 & H4). unfold prov, set_cell, put_cell. cbn [rows cats best cell].
    repeat split; auto. intros r' c'. destruct (Nat.eqb r' (l_index l) && Nat.eqb c' (l_cat l)) eqn:E; [|apply H4].
    apply andb_true_iff in E. destruct E as [E1 E2]. apply Nat.eqb_eq in E1, E2. subst. left. symmetry. exact Ec.
Qed.

Lemma crossover_genome_prov x from to ds g ds' :
  crossover_genome x from to ds = Some (g, ds') -> prov g from to.
Proof.
  intros H. destruct x; cbn [crossover_genome] in H.
  - mbind H. mret H. inversion H. subst. apply copy_rows_prov. apply prov_refl.
  - mbind H. mbind H. mret H. inversion H. subst. apply copy_rows_prov. apply prov_refl.
  - mbind H. destruct (copy_tree (S (rows from)) from to a) as [t|] eqn:Et; [|discriminate].
    mret H. inversion H. subst. eapply copy_tree_prov; [apply prov_refl|exact Et].
  - eapply (foldM_inv (uniform_cell from) (fun t => prov t from to)); [|apply prov_refl|exact H].
    intros s a ds1 s' ds1' _ Hs Hu. unfold uniform_cell in Hu. mbind Hu. mret Hu. inversion Hu. subst.
    destruct a0; [apply copy_cell_prov|]; exact Hs.
Qed.

(* each gene of the offspring is the gene one of the parents has at that
   position; same size; the age of the older parent *)
Lemma crossover_spec lhs rhs ds c ds' : crossover lhs rhs ds = Some (c, ds') ->
  rows (i_gen c) = rows (i_gen lhs) /\ cats (i_gen c) = cats (i_gen lhs) /\
  rows (i_gen lhs) = rows (i_gen rhs) /\ cats (i_gen lhs) = cats (i_gen rhs) /\
  (forall r k, cell (i_gen c) r k = cell (i_gen lhs) r k \/ cell (i_gen c) r k = cell (i_gen rhs) r k) /\
  (best (i_gen c) = best (i_gen lhs) \/ best (i_gen c) = best (i_gen rhs)) /\
  i_age c = N.max (i_age lhs) (i_age rhs) /\
  (i_xt c = i_xt lhs \/ i_xt c = i_xt rhs).
Proof.
  clear Hss. unfold crossover. intros H.
  destruct (Nat.eqb (rows (i_gen lhs)) (rows (i_gen rhs)) && Nat.eqb (cats (i_gen lhs)) (cats (i_gen rhs))) eqn:Ed;
    [|discriminate].
  apply andb_true_iff in Ed. destruct Ed as [Er Ec]. apply Nat.eqb_eq in Er, Ec.
  mbind H. mbind H. mret H. inversion H. subst. clear H. cbn [i_gen i_age i_xt].
  apply crossover_genome_prov in E0. destruct E0 as (H1 & H2 & H3 & H4).
  destruct a; cbn [i_gen i_age i_xt] in *.
  - repeat split; auto; try lia; try (intros r k; destruct (H4 r k); auto).
  - repeat split; auto; try lia; try (intros r k; destruct (H4 r k); auto).
Qed.

Lemma crossover_wf patch lhs rhs ds c ds' :
  ind_ok_b ss patch (i_gen lhs) = true -> ind_ok_b ss patch (i_gen rhs) = true ->
  crossover lhs rhs ds = Some (c, ds') -> ind_ok_b ss patch (i_gen c) = true.
Proof.
  clear Hss. intros Hl Hr H. apply crossover_spec in H. destruct H as (H1 & H2 & H3 & H4 & H5 & H6 & _).
  apply ind_ok_iff in Hl, Hr. destruct Hl as (L1 & L2 & L3 & L4). destruct Hr as (R1 & R2 & R3 & R4).
  apply ind_ok_iff. repeat split; try lia.
  - intros r k Hr Hk. rewrite H1 in *. rewrite H2 in *. destruct (H5 r k) as [->| ->].
    + apply L3; assumption.
    + rewrite H3, H4. apply R3; lia.
  - unfold inside_b in *. rewrite H1, H2. destruct H6 as [-> | ->]; [exact L4|]. rewrite H3, H4. exact R4.
Qed.

(* ------------------------------------------- get_block, replace, destroy *)
Lemma get_block_wf patch i l :
  ind_ok_b ss patch (i_gen i) = true -> inside_b (i_gen i) l = true ->
  ind_ok_b ss patch (i_gen (get_block i l)) = true.
Proof. intros. unfold get_block. cbn [with_gen i_gen]. apply set_best_ok; assumption. Qed.

(* "a gene compatible with the locus" *)
Lemma replace_wf patch i l ge :
  ind_ok_b ss patch (i_gen i) = true -> inside_b (i_gen i) l = true ->
  gene_ok_b ss (rows (i_gen i)) (cats (i_gen i)) patch (l_index l) (l_cat l) ge = true ->
  ind_ok_b ss patch (i_gen (replace i l ge)) = true.
Proof.
  intros H Hl Hg. unfold replace. cbn [with_gen i_gen]. unfold inside_b in Hl.
  apply andb_true_iff in Hl. destruct Hl as [L1 L2]. apply Nat.ltb_lt in L1, L2.
  apply set_cell_ok; assumption.
Qed.

Lemma destroy_block_wf patch i index ds i' ds' :
  ind_ok_b ss patch (i_gen i) = true -> destroy_block ss i index ds = Some (i', ds') ->
  ind_ok_b ss patch (i_gen i') = true /\ rows (i_gen i') = rows (i_gen i) /\ cats (i_gen i') = cats (i_gen i).
Proof.
  intros Hg H. unfold destroy_block in H. destruct (Nat.ltb index (rows (i_gen i))) eqn:Ei; [|discriminate].
  apply Nat.ltb_lt in Ei. mbind H. mret H. inversion H. subst. cbn [with_gen i_gen].
  eapply (foldM_inv (destroy_cell ss index)
            (fun g => ind_ok_b ss patch g = true /\ rows g = rows (i_gen i) /\ cats g = cats (i_gen i)));
    [|split; [exact Hg|split; reflexivity]|exact E].
  intros s c ds1 s' ds1' Hin (S1 & S2 & S3) Hd. apply in_seq in Hin.
  unfold destroy_cell in Hd. mbind Hd. mbind Hd. mret Hd. inversion Hd. subst. cbn [set_cell put_cell rows cats].
  split; [|auto]. pose proof (proj1 (ind_ok_iff _ _ _) S1) as (P1 & P2 & _).
  assert (Hc : c < ss_cats ss) by lia.
  apply (roulette_terminal_ok ss Hss c _ _ _ Hc) in E0. destruct E0 as [G1 G2].
  apply gene_of_terminal_inv in E1. destruct E1 as (T1 & T2 & T3).
  apply set_cell_ok; [exact S1|lia|lia|]. rewrite P2. apply gene_ok_intro.
  - exact Hss.
  - rewrite T1. exact G1.
  - reflexivity.
  - rewrite T2, T1. unfold arity. rewrite (terminal_arity _ G2). reflexivity.
  - rewrite T2. constructor.
  - intros _. rewrite T1. exact G2.
  - rewrite T1. exact T3.
Qed.
End Ops.
