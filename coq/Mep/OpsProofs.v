(* C02 -- proofs about the operator model Mep/OpsDefs.v *)
From Coq Require Import ZArith List Bool Arith Lia ZifyBool.
From VV Require Import Base.F64 Mep.Genome Mep.Draws Mep.OpsDefs.
Import ListNotations.
Local Open Scope Z_scope.

(* ------------------------------------------------------------ monad steps *)
Lemma bind_inv {A B} (m : M A) (k : A -> M B) ds r :
  bind m k ds = Some r -> exists a ds', m ds = Some (a, ds') /\ k a ds' = Some r.
Proof.
  unfold bind. destruct (m ds) as [[a ds']|]; [|discriminate]. intros H. eauto.
Qed.
Lemma ret_inv {A} (a : A) ds r : ret a ds = Some r -> r = (a, ds).
Proof. unfold ret. congruence. Qed.

(* split  [bind m k ds = Some r]  in hypothesis H *)
Ltac mbind H :=
  let a := fresh "a" in let ds := fresh "ds" in let E := fresh "E" in
  apply bind_inv in H; destruct H as (a & ds & E & H).
Ltac mret H := apply ret_inv in H.

Lemma boolean_inv p ds b ds' : boolean p ds = Some (b, ds') ->
  (p = zero_bits -> b = false) /\ (p = one_bits -> b = true).
Proof.
  unfold boolean. destruct ds as [|[lo hi v|p' v|bits] r]; try discriminate.
  destruct (p =? p') eqn:Ep; [|discriminate]. apply Z.eqb_eq in Ep. subst p'.
  destruct (valid_draw_b (DBool p v)) eqn:Ev; [|discriminate]. cbn [andb].
  intros H. inversion H. subst. unfold valid_draw_b in Ev.
  apply andb_true_iff in Ev. destruct Ev as [E0 E1]. split; intros ->.
  - rewrite Z.eqb_refl in E0. destruct b; [discriminate|reflexivity].
  - rewrite Z.eqb_refl in E1. exact E1.
Qed.

Lemma between_inv lo hi ds v ds' : between lo hi ds = Some (v, ds') -> lo <= v < hi.
Proof.
  unfold between. destruct ds as [|[lo' hi' v'|p' v'|bits] r]; try discriminate.
  destruct ((lo =? lo') && (hi =? hi') && (lo <? hi) && valid_draw_b (DInt lo' hi' v')) eqn:E; [|discriminate].
  intros H. inversion H. subst. unfold valid_draw_b in E. lia.
Qed.

(* ------------------------------------------------- mutation, probability 0 *)
Lemma mut_loop_zero fuel ss patch g : forall loci n ds r ds',
  mut_loop fuel ss patch zero_bits g loci n ds = Some (r, ds') -> r = (g, n).
Proof.
  induction fuel as [|f IH]; intros loci n ds r ds' H; [discriminate|].
  cbn [mut_loop] in H. destruct loci as [|l rest].
  - mret H. congruence.
  - mbind H. destruct (boolean_inv _ _ _ _ E) as [Hz _]. rewrite (Hz eq_refl) in H.
    mbind H. mret E0. inversion E0. subst. cbn [fst snd] in H.
    destruct (gene_at g l); [|discriminate]. eapply IH. exact H.
Qed.

Lemma mutation_zero_is_identity ss patch i ds i' n ds' :
  mutation ss patch zero_bits i ds = Some (i', n, ds') -> i' = i /\ n = 0%nat.
Proof.
  unfold mutation. intros H. mbind H. destruct a as [g k].
  apply mut_loop_zero in E. inversion E. subst. mret H. inversion H. subst.
  cbn [fst snd]. split; [|reflexivity]. destruct i. reflexivity.
Qed.
